"""C18 — row/column ownership and node maps are exact bijections (family `leaf`).

pre_prove: regenerate coq/Dist/GenLeaf.v from the headers of the tree under test (clang JSON AST ->
Gallina, translator/leaf2coq.py); the theorems of Properties_C18.v are then re-checked against it.
run: exhaustive run of the real Partition / Topology classes under mpirun -n P (P = 1..16), compared entry
for entry with the extracted model (K) and judged by the property itself (O)."""
import os, sys
import framework as fw, buildlib

sys.path.insert(0, os.path.join(buildlib.VERIF, "translator"))
import leaf2coq

ID = "C18"
FAMILY = "leaf"
OCAML_SRCS = ("drv_leaf.ml",)
GENLEAF = os.path.join(buildlib.VERIF, "coq", "Dist", "GenLeaf.v")
ASSUMPTIONS = [
    "C++ int is modelled as Z (no overflow); sizes in executed cases are far below 2^31",
    "translator/leaf2coq.py and clang 14's JSON AST dump are trusted for the translated leaf arithmetic "
    "(Topology::get_node/get_local_proc/get_global_proc, num_nodes in the Topology constructor, the block Partition "
    "constructor); they are additionally cross-checked by the entry-for-entry comparison with the running classes",
    "create_assumed_partition, form_col_to_proc, the explicitly sized constructor and transpose are hand-modelled "
    "(coq/Dist/Leaf.v) and tied by correspondence only; MPI_Allgather/MPI_Comm_split are modelled as pure functions of all ranks' inputs",
]


def pre_prove(ctx):
    try:
        changed, _ = leaf2coq.regenerate(buildlib.REPO, GENLEAF)
        ctx.notes.append("GenLeaf.v regenerated from %s (%s)" % (buildlib.REPO, "changed" if changed else "unchanged"))
    except leaf2coq.TranslateError as e:
        ctx.signal("T", "translator", "leaf2coq cannot translate the current headers (the proofs were NOT re-checked "
                   "against the current code; GenLeaf.v left as it was): %s" % e)
    except Exception as e:          # clang missing, timeout, ...
        ctx.signal("T", "translator:infra", "leaf2coq failed: %r" % (e,))


# ---------------------------------------------------------------- generation
def compositions(rng, total, parts, style):
    """block sizes (>= 0) of `parts` consecutive blocks summing to `total`"""
    if parts == 1: return [total]
    if style == "first": return [total] + [0] * (parts - 1)
    if style == "last": return [0] * (parts - 1) + [total]
    if style == "alt":           # every other rank empty
        live = [i for i in range(parts) if i % 2 == 1] or [0]
        out = [0] * parts
        for k in range(total): out[live[k % len(live)]] += 1
        return out
    if style == "sparse":        # few non-empty ranks
        live = sorted(rng.sample(range(parts), max(1, parts // 3)))
        out = [0] * parts
        for _ in range(total): out[rng.choice(live)] += 1
        return out
    cuts = sorted(rng.randint(0, total) for _ in range(parts - 1))
    cuts = [0] + cuts + [total]
    return [cuts[i + 1] - cuts[i] for i in range(parts)]


def gen_launch(ctx, P, maxn):
    rng = ctx.rng
    cases = []
    def add(line): cases.append("p%dc%d %s" % (P, len(cases), line))
    full = not ctx.quick()
    for N in range(maxn, -1, -1):          # zero rows last: a crashing constructor there does not hide the rest
        if full and maxn <= 40:
            Ms = range(0, maxn + 1)
        else:
            base = {0, 1, P - 1, P, P + 1, N, maxn, 2 * P + 1, max(0, N - 1)}
            base |= {rng.randint(0, maxn) for _ in range(ctx.scale(3, 12))}
            Ms = sorted(m for m in base if 0 <= m <= maxn)
        for M in Ms: add("block %d %d" % (N, M))
    # block-aligned partitions Partition(N, M, brows, bcols): whole blocks per rank, square and non-square blocks (oracle only)
    for k in range(ctx.scale(40, 500)):
        br, bc = rng.choice([(1, 1), (2, 2), (1, 2), (2, 1), (2, 3), (3, 2), (1, 3), (3, 1), (4, 2)])
        nb = rng.choice([1, P - 1, P, P + 1, 2 * P + 1, rng.randint(1, 14)]); nb = max(1, nb)
        mb = rng.choice([0, 1, P - 1, P, P + 1, 2 * P + 1, nb, rng.randint(0, 14)]); mb = max(0, mb)
        add("bblock %d %d %d %d" % (nb * br, mb * bc, br, bc))
    styles = ["rand", "rand", "rand", "first", "last", "alt", "sparse"]
    for k in range(ctx.scale(40, 600)):
        N = rng.choice([0, 1, P - 1, P, P + 1, rng.randint(0, maxn), rng.randint(0, maxn)]); N = max(0, N)
        M = rng.choice([0, 1, P, N, N, rng.randint(0, maxn), rng.randint(0, maxn)]); M = max(0, M)
        rs = compositions(rng, N, P, rng.choice(styles)); cs = compositions(rng, M, P, rng.choice(styles))
        fr = [sum(rs[:i]) for i in range(P)]; fc = [sum(cs[:i]) for i in range(P)]
        add("explicit %d %d %d %s" % (N, M, P, " ".join("%d %d %d %d" % (rs[i], cs[i], fr[i], fc[i]) for i in range(P))))
    # product partitions Partition(A, B): rows of A and columns of B, for factors that share neither row nor column blocks
    for k in range(ctx.scale(12, 150)):
        N, K, M = (max(0, rng.choice([0, 1, P, rng.randint(0, maxn)])) for _ in range(3))
        ar, ak = compositions(rng, N, P, rng.choice(styles)), compositions(rng, K, P, rng.choice(styles))
        bk, bm = compositions(rng, K, P, rng.choice(styles)), compositions(rng, M, P, rng.choice(styles))
        def quad(rs, cs): return " ".join("%d %d %d %d" % (rs[i], cs[i], sum(rs[:i]), sum(cs[:i])) for i in range(P))
        add("product %d %d %d %d %s %s" % (N, K, M, P, quad(ar, ak), quad(bk, bm)))
    for ppn in range(1, 17):
        for o in (0, 1, 2): add("topo %d %d %d" % (P, ppn, o))
    if P == 1:
        top = ctx.scale(64, 160)
        for n in range(1, top + 1):
            for ppn in range(1, 17 if n <= 64 else 25):
                for o in (0, 1, 2): add("topo %d %d %d" % (n, ppn, o))
        for o in (3, -1, 7): add("topo 6 2 %d" % o)
    return cases


# ---------------------------------------------------------------- the property on the implementation's output
def ints(toks): return [int(x) for x in toks]

def parse_ranks(toks):
    """'@0 a b .. @1 ...' -> list of int lists (None for 'U')"""
    out = []; cur = None
    for t in toks:
        if t.startswith("@"): cur = []; out.append(cur)
        elif cur is not None: cur.append(t)
    return [None if r == ["U"] else ints(r) for r in out]

def judge_partition(kind, N, M, P, R, FC, OWN, zero_rows_T=False):
    """property C18 on one dumped partition; returns list of (sig, detail)"""
    bad = []
    def b(sig, d): bad.append(("%s:%s" % (kind, sig), d))
    if len(R) != P or any(r is None or len(r) != 8 for r in R): b("shape", "per-rank record missing: %s" % (R,)); return bad
    if FC[-1] != "same=1": b("first_cols_differ", "first_cols/assumed_num_cols differ between ranks")
    if OWN[-1] != "same=1": b("owners_differ", "form_col_to_proc differs between ranks or between calls")
    fcs = ints(FC[1:-1]); assumed = int(FC[0]); own = OWN[:-1]
    gnr = [r[0] for r in R]; gnc = [r[1] for r in R]; fr = [r[2] for r in R]; lnr = [r[3] for r in R]
    fc = [r[4] for r in R]; lnc = [r[5] for r in R]; lr = [r[6] for r in R]; lc = [r[7] for r in R]
    if any(g != N for g in gnr) or any(g != M for g in gnc): b("global", "global sizes %s %s, expected %d %d" % (gnr, gnc, N, M))
    if any(x < 0 for x in lnr + lnc): b("negative", "negative local size: %s %s" % (lnr, lnc))
    zero_rows = (N == 0 and M > 0)
    # rows: contiguous ordered blocks summing to N
    if sum(lnr) != N:
        # transpose of a block partition without rows: its rows are the unowned columns (same root cause)
        b("zero_rows_cols_unowned" if (zero_rows_T and sum(lnr) == 0) else "rows_sum", "local_num_rows %s sum to %d, global %d" % (lnr, sum(lnr), N))
    else:
        exp = 0
        for r in range(P):
            if lnr[r] > 0 and fr[r] != exp: b("rows_first", "rank %d first_local_row %d, expected %d (%s %s)" % (r, fr[r], exp, fr, lnr)); break
            exp += lnr[r]
    if any(lr[r] != fr[r] + lnr[r] - 1 for r in range(P)): b("rows_last", "last_local_row != first+size-1: %s %s %s" % (fr, lnr, lr))
    if any(lc[r] != fc[r] + lnc[r] - 1 for r in range(P)): b("cols_last", "last_local_col != first+size-1: %s %s %s" % (fc, lnc, lc))
    if kind.startswith("block") and not kind.endswith("T"):
        k = min(P, N)
        if [r for r in range(P) if lnr[r] > 0] != list(range(k)): b("rows_ranks", "ranks with rows %s, expected 0..%d" % ([r for r in range(P) if lnr[r] > 0], k - 1))
        if any(fr[r + 1] != fr[r] + lnr[r] for r in range(P - 1)) or fr[0] != 0: b("rows_chain", "first(r+1) != first(r)+size(r): %s %s" % (fr, lnr))
        if any(lnc[r] > 0 and lnr[r] == 0 for r in range(P)): b("cols_on_rowless", "rank without rows owns columns: %s %s" % (lnr, lnc))
    # columns
    if sum(lnc) != M:
        b("zero_rows_cols_unowned" if (zero_rows and sum(lnc) == 0) else "cols_sum", "local_num_cols %s sum to %d, global %d" % (lnc, sum(lnc), M))
    else:
        exp = 0
        for r in range(P):
            if lnc[r] > 0 and fc[r] != exp: b("cols_first", "rank %d first_local_col %d, expected %d (%s %s)" % (r, fc[r], exp, fc, lnc)); break
            exp += lnc[r]
    # first_cols: gathered first_local_col, closed by M, monotone
    if len(fcs) != P + 1 or fcs[:P] != fc or fcs[P] != M: b("first_cols", "first_cols %s, first_local_col %s, M %d" % (fcs, fc, M))
    elif any(fcs[i] > fcs[i + 1] for i in range(P)): b("first_cols_monotone", "first_cols not monotone: %s" % fcs)
    if M > 0 and assumed * P < M: b("assumed", "assumed_num_cols %d too small for %d cols on %d ranks" % (assumed, M, P))
    # owner lookup: exactly the process whose block contains the column
    if len(own) != M: b("owner_count", "%d owners for %d columns" % (len(own), M))
    else:
        for c in range(M):
            holders = [r for r in range(P) if fc[r] <= c < fc[r] + lnc[r]]
            if own[c] == "U":
                if zero_rows or (sum(lnc) == 0 and M > 0): sig = "zero_rows_cols_unowned"
                else: sig = "owner_undefined"
                b(sig, "column %d: lookup undefined (first_cols %s)" % (c, fcs)); break
            if holders != [int(own[c])]:
                b("owner", "column %d: form_col_to_proc says %s, block owners %s (first_cols %s, sizes %s)" % (c, own[c], holders, fcs, lnc)); break
    return bad

def judge_topo(nprocs, PPN, o, toks):
    bad = []
    def b(sig, d): bad.append(("topo:%s" % sig, d))
    if toks and toks[0] == "U": b("undefined", "division by zero"); return bad
    how, nn = toks[0], int(toks[1])
    rest = toks[2:]
    parts = []; cur = []
    for t in rest:
        if t == "|": parts.append(cur); cur = []
        else: cur.append(int(t))
    parts.append(cur)
    if nn != (nprocs + PPN - 1) // PPN: b("num_nodes", "num_nodes %d for %d procs, PPN %d" % (nn, nprocs, PPN))
    fwd = parts[0]
    if len(fwd) != 3 * nprocs: b("shape", "forward part has %d entries" % len(fwd)); return bad
    seen = {}
    for p in range(nprocs):
        nd, lp, g = fwd[3 * p:3 * p + 3]
        if g != p: b("roundtrip", "ordering %d: get_global_proc(get_node(%d)=%d, get_local_proc=%d) = %d" % (o, p, nd, lp, g)); break
        if not (0 <= nd < nn): b("node_range", "ordering %d: get_node(%d) = %d, num_nodes %d" % (o, p, nd, nn)); break
        if not (0 <= lp < PPN): b("local_range", "ordering %d: get_local_proc(%d) = %d, PPN %d" % (o, p, lp, PPN)); break
        if (nd, lp) in seen: b("injective", "ranks %d and %d share (node, local) = %s" % (seen[(nd, lp)], p, (nd, lp))); break
        seen[(nd, lp)] = p
    if len(parts) > 1:
        back = parts[1]
        if len(back) != 3 * nn * PPN: b("shape", "inverse part has %d entries, expected %d" % (len(back), 3 * nn * PPN))
        else:
            k = 0
            for nd in range(nn):
                for lp in range(PPN):
                    g, nd2, lp2 = back[k:k + 3]; k += 3
                    if (nd2, lp2) != (nd, lp):
                        b("inverse", "ordering %d: (node %d, local %d) -> proc %d -> (%d, %d)" % (o, nd, lp, g, nd2, lp2)); break
                else: continue
                break
    if how == "ctor" and len(parts) > 2:
        sp = parts[2]
        for p in range(nprocs):
            nd, lp = fwd[3 * p], fwd[3 * p + 1]
            size = sum(1 for q in range(nprocs) if fwd[3 * q] == nd)
            if sp[2 * p] != lp: b("split_rank", "rank %d: rank in local_comm %d but get_local_proc %d" % (p, sp[2 * p], lp)); break
            if sp[2 * p + 1] != size: b("split_size", "rank %d: local_comm size %d, ranks on node %d" % (p, sp[2 * p + 1], size)); break
    return bad


# ---------------------------------------------------------------- run
def run_launch(ctx, P, cases, seen_sigs):
    impl, crashed = fw.run_impl_lines(ctx, "drv_leaf", cases, nprocs=P, name="c18p%d" % P, timeout=600, max_restarts=2)
    cf = fw.write_cases(ctx, "c18p%d.model" % P, ["#np %d" % P] + cases)
    rcm, model, _, errm = fw.run_model(ctx, cf)
    if rcm != 0: ctx.signal("K", "modeldriver", "model driver exited with %s: %s" % (rcm, errm[-400:]))
    def sig(kind, s, detail, line):
        key = (kind, s)
        seen_sigs[key] = seen_sigs.get(key, 0) + 1
        if seen_sigs[key] == 1:
            ctx.signal(kind, s, detail, case="%d %s" % (P, line))
    for line in cases:
        t = line.split(); cid, op = t[0], t[1]
        ri = dict((k, v) for k, v in impl.get(cid, [])); rm = dict((k, v) for k, v in model.get(cid, []))
        ctx.evaluations += 1; ctx.count("P=%d" % P); ctx.count("op_" + op)
        if op == "explicit" and int(t[4]) != P: continue
        if "CRASH" in ri or any(k.startswith("ERR") for k in ri):
            sig("O", "%s:crash" % op, "implementation crashed: %s" % (ri,), line)
            continue
        if op == "topo":
            nprocs, PPN, o = int(t[2]), int(t[3]), int(t[4])
            ctx.count("ordering_%d" % o)
            if nprocs % PPN: ctx.count("topo_partial_last_node")
            if nprocs > PPN: ctx.nontrivial.add(line.split(" ", 1)[1])
            if "TOPO" not in ri: sig("K", "topo:missing", "no implementation output", line); continue
            if o in (0, 1, 2):
                for s, d in judge_topo(nprocs, PPN, o, ri["TOPO"]): sig("O", s, d, line)
            ctx.compared += 1
            if ri["TOPO"] != rm.get("TOPO"):
                sig("K", "topo:ordering%d" % o, "model and implementation differ: impl %s | model %s" % (" ".join(ri["TOPO"])[:300], " ".join(rm.get("TOPO", ["-"]))[:300]), line)
            continue
        if op == "product":
            N, K, M = int(t[2]), int(t[3]), int(t[4]); vals = [int(x) for x in t[6:]]; a = vals[:4 * P]; b_ = vals[4 * P:8 * P]
            if N > 0 and M > 0 and P > 1: ctx.nontrivial.add("%d %s" % (P, line.split(" ", 1)[1]))
            if any(k not in ri for k in ("R", "FC", "OWN")): sig("K", "product:missing", "implementation output missing: %s" % (list(ri),), line); continue
            R = parse_ranks(ri["R"])
            for s_, d in judge_partition("product", N, M, P, R, ri["FC"], ri["OWN"]): sig("O", s_, d, line)
            if all(r is not None and len(r) == 8 for r in R):
                for r in range(P):
                    if (R[r][3], R[r][5]) != (a[4 * r], b_[4 * r + 1]) or (a[4 * r] > 0 and R[r][2] != a[4 * r + 2]) or (b_[4 * r + 1] > 0 and R[r][4] != b_[4 * r + 3]):
                        sig("O", "product:blocks", "rank %d of the product partition has rows (first %d, size %d) cols (first %d, size %d); the left factor's rows are (%d, %d), the right factor's columns (%d, %d)"
                            % (r, R[r][2], R[r][3], R[r][4], R[r][5], a[4 * r + 2], a[4 * r], b_[4 * r + 3], b_[4 * r + 1]), line); break
            continue
        if op == "bblock":
            N, M, br, bc = int(t[2]), int(t[3]), int(t[4]), int(t[5])
            ctx.count("block_aligned"); 
            if br != bc: ctx.count("block_aligned_nonsquare")
            if N > 0 and M > 0 and P > 1: ctx.nontrivial.add("%d %s" % (P, line.split(" ", 1)[1]))
            if any(k not in ri for k in ("R", "FC", "OWN")): sig("K", "bblock:missing", "implementation output missing: %s" % (list(ri),), line); continue
            R = parse_ranks(ri["R"])
            for s_, d in judge_partition("bblock", N, M, P, R, ri["FC"], ri["OWN"]): sig("O", s_, d, line)
            if all(r is not None and len(r) == 8 for r in R):
                for r in range(P):
                    if R[r][2] % br or R[r][3] % br or (R[r][5] > 0 and R[r][4] % bc) or R[r][5] % bc:
                        sig("O", "bblock:alignment", "rank %d: rows (first %d, size %d) / columns (first %d, size %d) are not whole %dx%d blocks"
                            % (r, R[r][2], R[r][3], R[r][4], R[r][5], br, bc), line); break
            continue
        N, M = int(t[2]), int(t[3])
        if N < P: ctx.count("rows<P")
        if M < P: ctx.count("cols<P")
        if N == 0: ctx.count("rows=0")
        if M == 0: ctx.count("cols=0")
        if op == "explicit":
            sizes = [int(x) for x in t[5:]]
            if any(sizes[4 * i] == 0 for i in range(P)): ctx.count("explicit_empty_row_rank")
            if any(sizes[4 * i + 1] == 0 for i in range(P)): ctx.count("explicit_empty_col_rank")
        if N > 0 and M > 0 and P > 1: ctx.nontrivial.add("%d %s" % (P, line.split(" ", 1)[1]))
        if len(ctx.samples) < 4 and N > P and M > 2: ctx.sample("%d ranks: %s" % (P, line))
        for pre, kind, n_, m_ in (("", op, N, M), ("T", op + "T", M, N)):
            keys = [pre + "R", pre + "FC", pre + "OWN"]
            if any(k not in ri for k in keys): sig("K", "%s:missing" % kind, "implementation output missing %s: %s" % (keys, list(ri)), line); continue
            for s, d in judge_partition(kind, n_, m_, P, parse_ranks(ri[pre + "R"]), ri[pre + "FC"], ri[pre + "OWN"],
                                        zero_rows_T=(pre == "T" and op == "block" and N == 0 and M > 0)):
                sig("O", s, d, line)
            for k in keys:
                ctx.compared += 1
                if ri[k] != rm.get(k):
                    sig("K", "%s:%s" % (kind, k), "model and implementation differ on %s: impl %s | model %s" % (k, " ".join(ri[k])[:300], " ".join(rm.get(k, ["-"]))[:300]), line)


def run(ctx):
    ctx.rule = ("for P = 1..16 ranks: Partition(N, M) for all N in 0..40 x (quick: boundary + random M; thorough: all M in 0..40, "
                "plus sizes up to 120), explicit contiguous partitions with empty ranks, each also transposed; every rank's fields, "
                "first_cols, assumed_num_cols and form_col_to_proc of every column. Topology: real constructor for nprocs = P x PPN 1..16 "
                "x ordering 0..2 (with the Comm_split result), fields set directly for all nprocs <= 64 (thorough 160) x PPN x ordering. "
                "non-trivial = N, M > 0 on more than one rank / more than one node; distinct = distinct case text per rank count")
    seen = {}
    if ctx.replay:
        for l in ctx.replay:
            P, line = l.split(" ", 1)
            run_launch(ctx, int(P), [line], seen)
        return
    for P in range(1, 17):
        cases = gen_launch(ctx, P, 40)
        if not ctx.quick():
            big = gen_launch(ctx, P, 120)
            cases += [c.replace("p%dc" % P, "p%db" % P, 1) for c in big if " topo " not in c]
        run_launch(ctx, P, cases, seen)
    for (kind, s), n in sorted(seen.items()):
        ctx.notes.append("signal %s %s raised by %d cases" % (kind, s, n))
