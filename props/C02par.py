"""Distributed part of C02: A x, b + A x, b - A x, A^T x on every partition / format / tap mode."""
from fractions import Fraction
import framework as fw, gen, nums, commgen

KINDS = ["mult", "mult_append", "mult_T", "residual"]


def default_partition(n_rows, n_cols, P):
    """raptor's block Partition(global_rows, global_cols) (after the fixes: empty ranks report first_col = n_cols)"""
    fr = [0]
    avg, extra = divmod(n_rows, P)
    for r in range(P): fr.append(fr[-1] + avg + (1 if extra > r else 0))
    Pc = min(P, n_rows) if n_rows < P else P
    fcs = []
    if Pc > 0:
        avg, extra = divmod(n_cols, Pc)
    for r in range(P):
        has_rows = fr[r + 1] > fr[r]
        if has_rows:
            f = avg * r + (r if extra > r else extra)
            fcs.append((f, avg + (1 if extra > r else 0)))
        else:
            fcs.append((n_cols, 0))
    fc = [f for f, _ in fcs] + [n_cols]
    return fr, fc


def gen_parcase(rng, cid, P):
    nr, nc = gen.rand_dims(rng, maxn=9)
    if rng.random() < 0.5: nc = nr            # square more often (AMG operators)
    style = rng.random()
    explicit = style < 0.75 or nr == 0 or nc == 0
    if explicit:
        fr = commgen.rand_partition(rng, P, nr)
        fc = commgen.rand_partition(rng, P, nc) if rng.random() < 0.6 or nr != nc else list(fr)
    else:
        fr, fc = default_partition(nr, nc, P)
    trip = gen.rand_triples(rng, nr, nc, rng.choice([0, 1, nr + nc, 2 * (nr + nc), nr * nc]) if nr * nc else 0)
    return dict(cid=cid, nr=nr, nc=nc, P=P, fr=fr, fc=fc, explicit=explicit, trip=trip)


def parlit_tokens(c, explicit):
    t = [c["nr"], c["nc"]]
    if explicit: t += [c["P"]] + c["fr"] + c["fc"]
    else: t += [0]
    t += [len(c["trip"])]
    for (i, j, v) in c["trip"]: t += [i, j, nums.tok_num(v)]
    return t


def reference(c, kind, X, B):
    d = {}
    for (i, j, v) in c["trip"]: d[(i, j)] = d.get((i, j), Fraction(0)) + v
    T = kind == "mult_T"
    nout = c["nc"] if T else c["nr"]
    out = [Fraction(0)] * nout
    for (i, j), v in d.items():
        if T: out[j] += v * X[i]
        else: out[i] += v * X[j]
    if kind == "mult_append": out = [b + o for b, o in zip(B, out)]
    if kind == "residual": out = [b - o for b, o in zip(B, out)]
    return out


def gen_blockcase(rng, cid, P):
    """square scalar matrix whose row/column partition is the default block partition of the block grid times the block size
    (what ParCSRMatrix::to_ParBSR(b, b) requires)"""
    if rng.random() < 0.35:
        # non-square blocks: n = m*br*bc with P | m, so that the default partitions of the n/br block rows and of the
        # n/bc block columns both are the even split of the scalars
        br, bc = rng.choice([(1, 2), (2, 1), (2, 3), (3, 2), (1, 3)]); m = P * rng.randint(1, 2); n = m * br * bc
        frs = [(n // P) * p for p in range(P + 1)]; fcs = list(frs)
    else:
        nb = rng.randint(1, 7); br = bc = rng.choice([1, 2, 2, 3])
        nbc = nb if (rng.random() < 0.6 or nb < P) else rng.randint(P, 9)     # rectangular block grids (rows >= processes)
        fr, fc = default_partition(nb, nbc, P)
        n = nb * br; ncols = nbc * bc
        frs = [v * br for v in fr]; fcs = [v * bc for v in fc]
        trip = gen.rand_triples(rng, n, ncols, rng.choice([0, 1, 2 * n, 4 * n, n * ncols]) if n * ncols else 0)
        trip = list({(i, j): (i, j, v) for (i, j, v) in trip}.values())
        return dict(cid=cid, nr=n, nc=ncols, P=P, fr=frs, fc=fcs, explicit=True, trip=trip, br=br, bc=bc)
    trip = gen.rand_triples(rng, n, n, rng.choice([0, 1, 2 * n, 4 * n, n * n]) if n else 0)
    trip = list({(i, j): (i, j, v) for (i, j, v) in trip}.values())       # to_ParBSR overwrites: one value per position
    return dict(cid=cid, nr=n, nc=n, P=P, fr=frs, fc=fcs, explicit=True, trip=trip, br=br, bc=bc)


def run(ctx):
    rng = ctx.rng
    try:
        drv = fw.model_driver(ctx, "dist", ("conv.ml", "drv_dist.ml"))
    except Exception as e:
        ctx.signal("T", "extraction:dist", "distributed model does not build/extract: " + str(e)[-800:]); return
    procs = ctx.scale([1, 2, 3, 4, 6, 8], [1, 2, 3, 4, 5, 6, 7, 8, 12, 16])
    per = ctx.scale(60, 500)
    for P in procs:
        cases = []
        for k in range(per if not (ctx.quick() and P >= 6) else 24):
            blk = rng.random() < 0.25
            c = gen_blockcase(rng, "p%d_%d" % (P, k), P) if blk else gen_parcase(rng, "p%d_%d" % (P, k), P)
            kind = rng.choice(KINDS); fmt = rng.choice(["coo", "csr", "csc"]) if not blk else "bsr%dx%d" % (c["br"], c["bc"])
            if blk and c["br"] != c["bc"]: kind = rng.choice(["residual", "residual", "mult_append", "mult", "mult_T"])     # non-square blocks: every product uses its own block size
            tap = 1 if ((rng.random() < 0.35 or (ctx.quick() and P >= 6) or (blk and rng.random() < (0.8 if c["br"] != c["bc"] else 0.5))) and P >= 2) else 0
            ppn = rng.choice([d for d in (1, 2, 3, 4, 8) if P % d == 0 or d >= P]) if tap else 4
            if tap and P >= 6 and P % 2 == 0 and rng.random() < 0.7: ppn = 2          # more nodes than processes per node
            if tap and rng.random() < 0.5: tap = rng.choice([10, 12])      # rank orderings 0 / 2 of the node-aware package
            T = kind == "mult_T"
            nx = c["nr"] if T else c["nc"]; nb = c["nr"]
            X = gen.rand_vec(rng, nx); B = gen.rand_vec(rng, nb)
            vt = [nx] + [nums.tok_num(v) for v in X] + [nb] + [nums.tok_num(v) for v in B]
            if P >= 6 and k < 10 and not blk:
                # directed: transpose products through the node-aware package with more destination nodes than ranks per node
                n_ = rng.randint(12, 20); fr_ = commgen.rand_partition(rng, P, n_)
                c.update(nr=n_, nc=n_, fr=fr_, fc=list(fr_), explicit=True, trip=gen.rand_triples(rng, n_, n_, n_ * n_ // 2))
                kind = "mult_T" if k % 2 == 0 else rng.choice(KINDS); tap = rng.choice([1, 1, 10, 12])
                ppn = 2 if P % 2 == 0 else (3 if P % 3 == 0 else 1)        # the node-aware package needs PPN | P (known limitation)
                T = kind == "mult_T"; nx = c["nr"] if T else c["nc"]; nb = c["nr"]
                X = gen.rand_vec(rng, nx); B = gen.rand_vec(rng, nb)
                vt = [nx] + [nums.tok_num(v) for v in X] + [nb] + [nums.tok_num(v) for v in B]
            c.update(kind=kind, fmt=fmt, tap=tap, ppn=ppn, X=X, B=B,
                     line=" ".join(str(x) for x in [c["cid"], "pspmv", kind, fmt, tap, ppn] + parlit_tokens(c, c["explicit"]) + vt),
                     mline=" ".join(str(x) for x in [c["cid"], "pspmv", kind] + parlit_tokens(c, True) + vt))
            cases.append(c)
        impl, crashed = fw.run_impl_lines(ctx, "drv_parmat", [c["line"] for c in cases], nprocs=P, name="pspmv_%d" % P)
        cf = fw.write_cases(ctx, "pspmv_model_%d.cases" % P, [c["mline"] for c in cases])
        rc, model, _, err = fw.run_model(ctx, cf, driver=drv)
        if rc != 0: ctx.signal("K", "modeldriver", "model driver failed: " + err[-300:])
        for c in cases:
            ctx.evaluations += 1
            ctx.count("par_P=%d" % P); ctx.count("par_" + c["kind"]); ctx.count("par_fmt_" + c["fmt"][:3])
            if c["tap"]: ctx.count("par_tap")
            if not c["explicit"]: ctx.count("par_default_partition")
            if any(c["fr"][p] == c["fr"][p + 1] for p in range(P)): ctx.count("par_empty_rank")
            offproc = any(not (c["fc"][commgen.owner_of(c["fr"], i)] <= j < c["fc"][commgen.owner_of(c["fr"], i) + 1])
                          for (i, j, v) in c["trip"]) if c["trip"] else False
            if offproc and P >= 2: ctx.nontrivial.add(c["line"].split(" ", 1)[1])
            ctx.sample(c["line"])
            sig = "par:%s%s" % (c["kind"], ":tap" if c["tap"] else "")
            r = impl.get(c["cid"])
            res = {k: v for k, v in r} if r else {}
            if "DONE" not in res:
                ctx.signal("O", sig + ":crash_or_hang", "implementation did not complete: %s" % (r[:1] if r else None,), case=c["line"]); continue
            got = [x for rk in commgen.split_ranks(res["V"]) for x in rk]
            ref = reference(c, c["kind"], c["X"], c["B"])
            if len(got) != len(ref) or any(not nums.close(nums.parse_num(g), r_) for g, r_ in zip(got, ref)):
                ctx.signal("O", sig, "gathered product differs from the global reference: got %s, required %s" % (
                    got, [str(x) for x in ref]), case=c["line"])
            mr = {k: v for k, v in model.get(c["cid"], [])}
            if "V" not in mr:
                ctx.signal("K", sig + ":model", "model produced no result: %s" % (model.get(c["cid"]),), case=c["line"]); continue
            ctx.compared += 1
            mgot = [x for rk in commgen.split_ranks(mr["V"]) for x in rk]
            if not fw.toks_equal(got, mgot):
                ctx.signal("K", sig, "model %s vs implementation %s" % (mgot, got), case=c["line"])
