"""C13 — coarse/fine splittings are total, agreed between processes and usable.

Sides compared on every case (graph S as CSR pattern, caller weights k/1024, contiguous partition):
  K  extracted Coq model  vs  raptor           sequential RS (both passes / first pass), CLJP, PMIS;
                                                distributed RS, PMIS, HMIS (labels and every rank's views)
  O  the property on raptor's output            verified checker split_ok (extracted, run on the gathered labels):
                                                total + isolated only when no strong dependency,
                                                RS: F-with-connection has a C neighbour, >=1 C and >=1 F under the edge condition;
                                                every rank's off_proc_states == the owners' labels;
                                                distributed CLJP / PMIS labels of non-isolated points == sequential model labels.
"""
import itertools, os, subprocess
import framework as fw

ID = "C13"
FAMILY = "split"
OCAML_SRCS = ("conv.ml", "drv_split.ml")
ASSUMPTIONS = [
    "every stored row of S is non-empty (the routines peek at S->idx2[S->idx1[i]] of an empty row); in the "
    "distributed entry points every row stores its diagonal (set_initial_states counts the on-process row length)",
    "weights are distinct dyadic keys k/1024, 0 <= k < 1024, so that count + key is exact in double",
]
SEQ_ALGOS = ("rs", "rs1", "cljp", "pmis")
PAR_ALGOS = ("rs", "pmis", "cljp", "hmis", "falgout")
MODELLED_PAR = ("rs", "pmis", "hmis")

# ------------------------------------------------------------------ graphs
def offd_rows(n, rows):
    """off-diagonal rows as the library's loops see them (move_diag, skip first entry if it is the diagonal)"""
    out = []
    for i, r in enumerate(rows):
        r = list(r)
        if i in r:
            r.remove(i)
        out.append(r)
    return out

def rows_from_edges(n, edges, diag="all", order="sorted", rng=None):
    """edges: set of (u, t), u != t.  Every stored row is non-empty."""
    rows = [[] for _ in range(n)]
    for (u, t) in sorted(edges):
        rows[u].append(t)
    for i in range(n):
        keep = True
        if diag == "some" and rows[i] and rng.random() < 0.5: keep = False
        if keep: rows[i].append(i)
        if order == "sorted": rows[i].sort()
        else: rng.shuffle(rows[i])
    return rows

def all_digraphs(n):
    pairs = [(u, t) for u in range(n) for t in range(n) if u != t]
    for mask in range(1 << len(pairs)):
        yield frozenset(p for k, p in enumerate(pairs) if (mask >> k) & 1)

def rand_digraph(rng, n, p=None, sym=None):
    p = p if p is not None else rng.choice([0.1, 0.25, 0.4, 0.6, 0.9])
    sym = rng.random() < 0.4 if sym is None else sym
    e = set()
    for u in range(n):
        for t in range(n):
            if u != t and rng.random() < p:
                e.add((u, t))
                if sym: e.add((t, u))
    return frozenset(e)

def sparse_digraph(rng, n, deg):
    e = set()
    sym = rng.random() < 0.5
    for u in range(n):
        for _ in range(rng.randint(0, deg)):
            t = rng.randrange(n)
            if rng.random() < 0.7: t = min(n - 1, max(0, u + rng.randint(-6, 6)))
            if t != u:
                e.add((u, t))
                if sym: e.add((t, u))
    return frozenset(e)

def stencil_graph(nx, ny):
    e = set()
    idx = lambda x, y: y * nx + x
    for y in range(ny):
        for x in range(nx):
            for dx, dy in ((1, 0), (-1, 0), (0, 1), (0, -1)):
                a, b = x + dx, y + dy
                if 0 <= a < nx and 0 <= b < ny: e.add((idx(x, y), idx(a, b)))
    return nx * ny, frozenset(e)

def compositions(n, P):
    if P == 1:
        yield (n,); return
    for k in range(n + 1):
        for rest in compositions(n - k, P - 1):
            yield (k,) + rest

def rand_partition(rng, n, P):
    cuts = sorted(rng.randint(0, n) for _ in range(P - 1))
    if rng.random() < 0.5 and P > 1:      # balanced-ish, still allowing empty ranks
        cuts = sorted(min(n, max(0, (n * k) // P + rng.randint(-2, 2))) for k in range(1, P))
    b = [0] + cuts + [n]
    return tuple(b[k + 1] - b[k] for k in range(P))

def rand_keys(rng, n):
    if n <= 1024: return rng.sample(range(1024), n)
    raise ValueError("n > 1024 needs a finer key grid")

DEN = 1024
def keys_for(rng, n):
    """distinct dyadic keys; for n > 1024 use k/2^20 (still exact: count < 2^20, 53-bit mantissa)"""
    global DEN
    if n <= 1024: return [(k, 1024) for k in rng.sample(range(1024), n)]
    return [(k, 1 << 20) for k in rng.sample(range(1 << 20), n)]

# ------------------------------------------------------------------ case lines
def wtoks(keys):
    return ["%d/%d" % kd if kd[0] else "0" for kd in keys]

def graph_toks(rows):
    out = []
    for r in rows:
        out.append(str(len(r))); out += [str(c) for c in r]
    return out

def seq_line(cid, algo, rows, keys):
    n = len(rows)
    return " ".join([cid, "seq", algo, str(n)] + graph_toks(rows) + wtoks(keys))

def par_line(cid, algo, tap, rows, part, keys, weak=()):
    """weak: couplings (i, c) of A that are not in the strength graph; the driver then builds S on A's column maps and
    communicator (kind parw), as A->strength() does"""
    n = len(rows); P = len(part)
    fr = [0]
    for k in part: fr.append(fr[-1] + k)
    trip = []
    for i, r in enumerate(rows):
        for c in r: trip += [str(i), str(c), "1"]
    for (i, c) in weak: trip += [str(i), str(c), "1/4"]
    nnz = sum(len(r) for r in rows) + len(weak)
    return " ".join([cid, "parw" if weak else "par", algo, str(tap), str(n), str(n), str(P)] + [str(x) for x in fr] + [str(x) for x in fr]
                    + [str(nnz)] + trip + wtoks(keys))

def check_line(cid, rs, rows, labels):
    return " ".join([cid, "check", "1" if rs else "0", str(len(rows))] + graph_toks(rows) + [str(x) for x in labels])

# ------------------------------------------------------------------ generation
class Case:
    __slots__ = ("cid", "kind", "algo", "tap", "rows", "part", "keys", "tag", "line", "weak")
    def __init__(self, cid, kind, algo, rows, keys, part=None, tap=0, tag="", weak=()):
        self.cid, self.kind, self.algo, self.rows, self.keys, self.part, self.tap, self.tag = cid, kind, algo, rows, keys, part, tap, tag
        self.weak = tuple(weak)
        self.line = seq_line(cid, algo, rows, keys) if kind == "seq" else par_line(cid, algo, tap, rows, part, keys, self.weak)

def gen_cases(ctx):
    rng = ctx.rng
    cases = []
    ctr = [0]
    def cid():
        ctr[0] += 1; return "c%d" % ctr[0]
    def add_seq(rows, keys, tag, algos=SEQ_ALGOS):
        for a in algos: cases.append(Case(cid(), "seq", a, rows, keys, tag=tag))
    def add_par(rows, keys, part, tag, algos=PAR_ALGOS, taps=(0, 1)):
        n = len(rows)
        for a in algos:
            for tp in taps:
                weak = ()
                if len(part) >= 2 and n >= 3 and rng.random() < 0.3:
                    # weak couplings of A outside the strength graph: the communicator of S then reaches columns without a strong entry
                    cand = [(i, c) for i in range(n) for c in range(n) if c != i and c not in rows[i]]
                    weak = tuple(rng.sample(cand, min(len(cand), rng.randint(1, max(1, n // 2)))))
                cases.append(Case(cid(), "par", a, rows, keys, part=part, tap=tp, tag=tag + ("+wide" if weak else ""), weak=weak))
    thorough = not ctx.quick()

    # 1. exhaustive small digraphs x all weight orders (sequential)
    nmax_seq = 4 if thorough else 3
    for n in range(0, nmax_seq + 1):
        perms = list(itertools.permutations(range(n)))
        for e in all_digraphs(n):
            rows = rows_from_edges(n, e)
            for a in ("rs", "rs1"):
                cases.append(Case(cid(), "seq", a, rows, [(0, 1)] * n, tag="exh_seq%d" % n))
            use = perms if n <= 3 else rng.sample(perms, 6)
            for pm in use:
                keys = [(100 + 37 * pm[i], 1024) for i in range(n)]
                add_seq(rows, keys, "exh_seq%d" % n, algos=("cljp", "pmis"))
    # 2. exhaustive small digraphs x partitions over <= 3 ranks (distributed); weight orders all (n<=3) / sampled
    nmax_par = 4 if thorough else 3
    for n in range(0, nmax_par + 1):
        perms = list(itertools.permutations(range(n)))
        graphs = list(all_digraphs(n))
        for e in graphs:
            rows = rows_from_edges(n, e)
            for P in (1, 2, 3):
                parts = list(compositions(n, P))
                if not thorough and n == 3 and P == 3: parts = rng.sample(parts, 4)
                for part in parts:
                    tp = rng.randint(0, 1)
                    add_par(rows, [(0, 1)] * n, part, "exh_par%d" % n, algos=("rs",), taps=(tp,))
                    npm = len(perms) if (n <= 2 or (thorough and n <= 3)) else 2
                    for pm in (perms if npm == len(perms) else rng.sample(perms, npm)):
                        keys = [(100 + 37 * pm[i], 1024) for i in range(n)]
                        for a in ("pmis", "cljp", "hmis", "falgout"):
                            add_par(rows, keys, part, "exh_par%d" % n, algos=(a,), taps=(rng.randint(0, 1),))
    # 3. five vertices, sampled
    for _ in range(ctx.scale(40, 1500)):
        n = 5
        e = rand_digraph(rng, n)
        rows = rows_from_edges(n, e)
        keys = keys_for(rng, n)
        add_seq(rows, keys, "five")
        P = rng.choice([1, 2, 3])
        add_par(rows, keys, rand_partition(rng, n, P), "five", taps=(rng.randint(0, 1),))
    # 3b. distributed CLJP on many small digraphs over 2..3 ranks (bookkeeping between the on-process and off-process update
    #     loops only goes wrong when local and off-process column indices coincide: about 1 in 3000 such inputs)
    for _ in range(ctx.scale(9000, 60000)):
        n = rng.randint(5, 8)
        rows = rows_from_edges(n, rand_digraph(rng, n, p=rng.choice([0.25, 0.35, 0.5])))
        P = rng.choice([2, 2, 3])
        add_par(rows, keys_for(rng, n), rand_partition(rng, n, P), "cljp_small", algos=("cljp",), taps=(0,))
    # 4. sequential storage variants: unsorted rows, missing diagonals (stored rows stay non-empty)
    for _ in range(ctx.scale(150, 3000)):
        n = rng.randint(1, 9)
        e = rand_digraph(rng, n)
        rows = rows_from_edges(n, e, diag=rng.choice(["all", "some"]), order=rng.choice(["sorted", "shuffled"]), rng=rng)
        add_seq(rows, keys_for(rng, n), "storage")
    # 5. random graphs, more ranks, empty ranks, ranks without boundary
    for _ in range(ctx.scale(60, 1200)):
        n = rng.randint(2, 24)
        e = rand_digraph(rng, n, p=rng.choice([0.05, 0.1, 0.2, 0.4]))
        rows = rows_from_edges(n, e)
        keys = keys_for(rng, n)
        add_seq(rows, keys, "rand")
        P = rng.choice([1, 2, 3, 4, 5, 7])
        part = rand_partition(rng, n, P)
        add_par(rows, keys, part, "rand", taps=(rng.randint(0, 1),))
    # 6. the two known-finding classes stay exercised
    for _ in range(ctx.scale(6, 60)):
        n = rng.randint(3, 8)
        e = set(rand_digraph(rng, n, p=0.3))
        iso = rng.randrange(n)
        e = {(u, t) for (u, t) in e if u != iso}
        e.add(((iso + 1) % n, iso)); e.add(((iso + 2) % n, (iso + 1) % n))
        rows = rows_from_edges(n, frozenset(e)); keys = keys_for(rng, n)
        add_par(rows, keys, rand_partition(rng, n, rng.choice([1, 2, 3])), "dep_on_isolated", algos=("pmis", "cljp"), taps=(0,))
    # 7. larger sparse graphs and stencils
    big = []
    for _ in range(ctx.scale(3, 30)):
        n = rng.randint(60, ctx.scale(300, 900))
        big.append((n, sparse_digraph(rng, n, rng.choice([2, 4, 6])), "sparse"))
    for _ in range(ctx.scale(2, 10)):
        nx, ny = rng.randint(3, ctx.scale(12, 30)), rng.randint(3, ctx.scale(12, 30))
        n, e = stencil_graph(nx, ny)
        big.append((n, e, "stencil"))
    if thorough:
        big.append((2500, sparse_digraph(rng, 2500, 4), "sparse"))
        n, e = stencil_graph(50, 50); big.append((n, e, "stencil"))
    for (n, e, tag) in big:
        rows = rows_from_edges(n, e); keys = keys_for(rng, n)
        add_seq(rows, keys, tag)
        if n <= 1000:
            P = rng.choice([2, 3, 4, 6, 8])
            add_par(rows, keys, rand_partition(rng, n, P), tag, taps=(rng.randint(0, 1),))
    return cases

# ------------------------------------------------------------------ judging
def parse_pst(toks):
    """'@0 L k s.. O m (g v)* @1 ...' -> list per rank of (labels, [(gcol, view)])"""
    out = []; i = 0
    while i < len(toks):
        assert toks[i].startswith("@"); i += 1
        assert toks[i] == "L"; k = int(toks[i + 1]); i += 2
        j = i
        while toks[j] != "O": j += 1
        labs = [int(x) for x in toks[i:j]]
        m = int(toks[j + 1]); j += 2
        views = [(int(toks[j + 2 * q]), int(toks[j + 2 * q + 1])) for q in range(m)]
        i = j + 2 * m
        out.append((k, labs, views))
    return out

def parse_model_pst(toks):
    """'L n s.. R P (k v..)*' -> (labels, [views per rank])"""
    assert toks[0] == "L"; n = int(toks[1]); labs = [int(x) for x in toks[2:2 + n]]
    i = 2 + n; assert toks[i] == "R"; P = int(toks[i + 1]); i += 2
    views = []
    for _ in range(P):
        k = int(toks[i]); views.append([int(x) for x in toks[i + 1:i + 1 + k]]); i += 1 + k
    return labs, views

def expected_colmaps(rows, part, weak=()):
    out = []; lo = 0
    for k in part:
        cols = set()
        for i in range(lo, lo + k):
            for c in list(rows[i]) + [c2 for (i2, c2) in weak if i2 == i]:
                if not (lo <= c < lo + k): cols.add(c)
        out.append(sorted(cols)); lo += k
    return out

def edge_into_isolated(off):
    iso = [len(r) == 0 for r in off]
    return any(iso[t] for r in off for t in r)

def dep_edges_all_cross(off, part):
    owner = []
    for r, k in enumerate(part): owner += [r] * k
    found = False
    for u, r in enumerate(off):
        for t in r:
            if len(off[t]) > 0:
                found = True
                if owner[u] == owner[t]: return False
    return found

def run(ctx):
    ctx.rule = ("strength graphs as CSR patterns with caller weights k/1024: ALL digraphs on <= 3 (quick) / <= 4 (thorough) vertices "
                "x weight orders x all contiguous partitions over <= 3 ranks (empty ranks included), 5-vertex samples, random "
                "graphs on up to 8 ranks, unsorted / diagonal-free storage, sparse graphs and 5-point stencils up to a few thousand "
                "vertices; all of RS/CLJP/PMIS sequential and RS/CLJP/Falgout/PMIS/HMIS distributed, tap off/on; "
                "non-trivial = graph has an edge; distinct = distinct case text without id")
    if ctx.replay:
        cases = []
        for l in ctx.replay:
            t = l.split()
            cases.append(case_from_line(l))
    else:
        cases = gen_cases(ctx)
    by = {c.cid: c for c in cases}
    # ---- implementation
    impl = {}
    groups = {}
    for c in cases:
        np_ = 1 if c.kind == "seq" else len(c.part)
        groups.setdefault(np_, []).append(c.line)
    hang_seen = False
    for np_, lines in sorted(groups.items()):
        # node-aware communicators need np to be a multiple of PPN (raptor's Topology); vary the node shape
        ppn = ctx.rng.choice([d for d in (1, 2, 3, 4) if np_ % d == 0])
        ctx.count("np%d_ppn%d" % (np_, ppn))
        # a launch normally takes seconds (quick) / a few minutes (thorough); a hang (ranks disagreeing on a conditional
        # exchange never finish) is cut off, reported for the first case without output, and the rest is re-run once
        res, crashed = fw.run_impl_lines(ctx, "drv_split", lines, nprocs=np_, env={"PPN": str(ppn)}, name="c13_np%d" % np_,
                                         timeout=ctx.scale(40, 900), max_restarts=0 if hang_seen else 1)
        if crashed:
            hang_seen = True
            subprocess.run(["pkill", "-9", "-f", ctx.tmp], capture_output=True)   # orphaned ranks of a killed mpirun
        impl.update(res)
    if hang_seen: subprocess.run(["pkill", "-9", "-f", ctx.tmp], capture_output=True)
    # ---- model: same cases + sequential companions of the distributed CLJP/PMIS cases
    mlines = [c.line for c in cases]
    for c in cases:
        if c.kind == "par" and c.algo in ("pmis", "cljp"):
            mlines.append(seq_line(c.cid + "s", c.algo, c.rows, c.keys))
    cf = fw.write_cases(ctx, "c13.model", mlines)
    rcm, model, _, errm = fw.run_model(ctx, cf, timeout=1500)
    if rcm != 0: ctx.signal("K", "modeldriver", "model driver exited with %s: %s" % (rcm, errm[-400:]))
    # ---- gather implementation labels, then the verified checker on them
    glabels = {}; chk_lines = []
    for c in cases:
        r = impl.get(c.cid)
        if not r: continue
        d = dict((k, v) for k, v in r)
        if c.kind == "seq" and "ST" in d:
            try: labs = [int(x) for x in d["ST"]]
            except ValueError: continue
            glabels[c.cid] = labs
        elif c.kind == "par" and "PST" in d:
            try: ranks = parse_pst(d["PST"])
            except Exception: continue
            labs = []
            for (k, l, v) in ranks: labs += l[:k] + [-99] * (k - len(l))
            glabels[c.cid] = labs
        if c.cid in glabels and len(glabels[c.cid]) == len(c.rows):
            chk_lines.append(check_line(c.cid, c.algo == "rs", c.rows, glabels[c.cid]))
    cf2 = fw.write_cases(ctx, "c13.check", chk_lines)
    rc2, chk, _, err2 = fw.run_model(ctx, cf2, timeout=1500)
    if rc2 != 0: ctx.signal("K", "checkerdriver", "checker driver exited with %s: %s" % (rc2, err2[-400:]))
    for c in cases:
        judge(ctx, c, impl, model, chk, glabels)

def judge(ctx, c, impl, model, chk, glabels):
    ctx.evaluations += 1
    n = len(c.rows)
    off = offd_rows(n, c.rows)
    has_edge = any(off)
    ctx.count("%s_%s" % (c.kind, c.algo)); ctx.count("tag_" + c.tag)
    if c.kind == "par":
        ctx.count("np_%d" % len(c.part)); ctx.count("tap_%d" % c.tap)
        if 0 in c.part: ctx.count("empty_rank")
    if has_edge: ctx.nontrivial.add(c.line.split(" ", 1)[1])
    if n and has_edge: ctx.sample(c.line)
    sig0 = ("%s" if c.kind == "seq" else "%s_dist") % c.algo
    ri = impl.get(c.cid); rm = model.get(c.cid)
    labs = glabels.get(c.cid)
    if not ri or labs is None or len(labs) != n:
        if not ri:
            # no output at all: the launch was cut off (hang) or gave up after repeated failures before reaching this case
            ctx.count("no_output")
            if ctx.dist.get("no_output", 0) <= 3:
                ctx.signal("O", sig0 + ":no_output", "implementation produced no output for this case (hang / aborted launch)", case=c.line)
            return
        ctx.signal("O", sig0 + ":crash", "implementation gave no labels (crash or hang): %s" % (str(ri)[:300],), case=c.line); return
    # ---------------- O: verified checker on the implementation's labels
    rc = chk.get(c.cid)
    if not rc or rc[0][0] != "OK":
        ctx.signal("K", sig0 + ":checker", "checker produced no verdict: %s" % (rc,), case=c.line)
    else:
        allok, total, fhc, caf = [x == "1" for x in rc[0][1][:4]]
        if not total:
            ctx.signal("O", sig0 + ":total", "a point is not coarse/fine/(truly) isolated: labels %s" % labs, case=c.line)
        if c.algo == "rs":
            if not fhc:
                ctx.signal("O", sig0 + ":f_without_c", "a fine point with a strong connection has no strong coarse neighbour: %s" % labs, case=c.line)
            if not caf:
                noC = 1 not in labs
                if c.kind == "par" and not noC and dep_edges_all_cross(off, c.part):
                    ctx.signal("O", "rs_dist:no_fine:cross_rank_only", "no fine point although an edge with dependent target exists "
                               "(all such edges cross ranks): %s part %s" % (labs, c.part), case=c.line)
                else:
                    ctx.signal("O", sig0 + (":no_coarse" if noC else ":no_fine"), "edge with dependent target exists but labels %s" % labs, case=c.line)
    # ---------------- O: views equal owners' labels; local structure as expected
    if c.kind == "par":
        d = dict((k, v) for k, v in ri)
        ranks = parse_pst(d["PST"])
        cm = expected_colmaps(c.rows, c.part, c.weak)
        for r, (k, l, v) in enumerate(ranks):
            if [g for g, _ in v] != cm[r]:
                ctx.signal("K", sig0 + ":colmap", "rank %d off_proc_column_map %s expected %s" % (r, [g for g, _ in v], cm[r]), case=c.line)
                continue
            bad = [(g, s, labs[g]) for g, s in v if s != labs[g]]
            if bad:
                ctx.signal("O", sig0 + ":views", "rank %d view of neighbour labels differs from owners' labels (col, view, owner): %s"
                           % (r, bad[:6]), case=c.line)
    # ---------------- O: distributed CLJP / PMIS == sequential model on non-isolated points
    if c.kind == "par" and c.algo in ("pmis", "cljp"):
        rs_ = model.get(c.cid + "s")
        if not rs_ or rs_[0][0] != "ST":
            ctx.signal("K", sig0 + ":seqmodel", "sequential model gave no labels: %s" % (rs_,), case=c.line)
        else:
            seql = [int(x) for x in rs_[0][1]]
            diff = [(v, labs[v], seql[v]) for v in range(n) if off[v] and labs[v] != seql[v]]
            ctx.compared += 1
            if diff:
                sig = "%s:seq_vs_dist" % c.algo + (":dep_on_isolated" if edge_into_isolated(off) else "")
                ctx.signal("O", sig, "distributed labels of non-isolated points differ from sequential (vertex, dist, seq): %s"
                           % diff[:6], case=c.line)
    # ---------------- K: model vs implementation
    if c.kind == "seq":
        ctx.compared += 1
        if not rm or rm[0][0] != "ST":
            ctx.signal("K", sig0 + ":model", "model produced no labels: %s" % (rm,), case=c.line)
        elif [int(x) for x in rm[0][1]] != labs:
            ctx.signal("K", sig0, "model %s implementation %s" % (" ".join(rm[0][1]), labs), case=c.line)
    elif c.algo in MODELLED_PAR and c.weak and c.algo in ("rs", "hmis", "falgout"):
        # the first pass of these routines treats every row named in the communicator's send lists as a boundary row; with the
        # wider communicator of A that set is larger than the strength graph's own boundary, which is all the model knows:
        # judged by the oracles only (totality, views, fine points have a coarse neighbour)
        ctx.count("wide_comm_oracle_only")
    elif c.algo in MODELLED_PAR:
        ctx.compared += 1
        if not rm or rm[0][0] != "PST":
            ctx.signal("K", sig0 + ":model", "model produced no labels: %s" % (rm,), case=c.line)
        else:
            ml, mv = parse_model_pst(rm[0][1])
            if ml != labs:
                ctx.signal("K", sig0, "model %s implementation %s" % (ml, labs), case=c.line)
            else:
                strong = expected_colmaps(c.rows, c.part)       # the model's views are those of the strength graph's own columns
                iv = [[s for g, s in v if g in strong[r_]] for r_, (_, _, v) in enumerate(parse_pst(dict((k, v) for k, v in ri)["PST"]))]
                if iv != mv:
                    ctx.signal("K", sig0 + ":views", "model views %s implementation views %s" % (mv, iv), case=c.line)

def case_from_line(line):
    t = line.split(); cid, kind, algo = t[0], t[1], t[2]
    def frac(s):
        if "/" in s:
            a, b = s.split("/"); return (int(a), int(b))
        return (int(s), 1)
    if kind == "seq":
        n = int(t[3]); p = 4; rows = []
        for _ in range(n):
            k = int(t[p]); rows.append([int(x) for x in t[p + 1:p + 1 + k]]); p += 1 + k
        keys = [frac(x) for x in t[p:p + n]]
        return Case(cid, "seq", algo, rows, keys, tag="replay")
    tap = int(t[3]); n = int(t[4]); P = int(t[6]); p = 7
    fr = [int(x) for x in t[p:p + P + 1]]; p += 2 * (P + 1)
    nnz = int(t[p]); p += 1
    rows = [[] for _ in range(n)]; weak = []
    for _ in range(nnz):
        if t[p + 2] == "1": rows[int(t[p])].append(int(t[p + 1]))
        else: weak.append((int(t[p]), int(t[p + 1])))
        p += 3
    keys = [frac(x) for x in t[p:p + n]]
    return Case(cid, "par", algo, rows, keys, part=tuple(fr[k + 1] - fr[k] for k in range(P)), tap=tap, tag="replay", weak=weak)
