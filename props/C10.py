"""C10 — on SPD problems each V-cycle does not increase the energy norm of the error.

O oracle: ||x* - x_k||_A^2 evaluated exactly (integers scaled by powers of two) from the hex-float iterates of the
real library must be non-increasing in k up to rounding slack.  K: the extracted Gallina V-cycle, run in exact rational
arithmetic on the hierarchy (A_l, P_l) dumped by the implementation, must reproduce the implementation's iterates;
the computable hypotheses of the theorem (rows start with a positive diagonal, Galerkin coarse operators) are
evaluated on the same dump."""
from fractions import Fraction
import framework as fw, nums

ID = "C10"
FAMILY = "energy"
OCAML_SRCS = ("conv.ml", "drv_energy.ml")
ASSUMPTIONS = [
    "hypotheses of C10_vcycle_nonexpansive that are other properties: A_{l+1} = P_l^T A_l P_l (C08; evaluated here on the dumped "
    "hierarchy of the small cases within 1e-9), restriction = P^T (C02; mult_T is modelled and compared through the whole cycle), "
    "sweep formula (C11; both row updates are modelled and compared through the whole cycle), exact coarsest solve (C09)",
    "every coarse operator nonsingular: Ruge-Stuben by construction of P; smoothed aggregation verified per case from the LU pivots "
    "of the coarsest operator (min/max > 1e-12), otherwise the case is skipped and counted",
    "rows of every relaxed level start with a positive diagonal entry (sweep_wf/posdiag): reported by the driver per level and "
    "re-checked by the extracted sweep_wfb on the dumped hierarchy",
    "floating-point rounding is not modelled: monotonicity is required within 1e-10 relative slack plus a floor of "
    "1e-22*(||x*||_A^2 + E_0); model/implementation iterates are compared within 1e-8 relative / 1e-11 absolute per entry or 1e-8 of the iterate's max-norm",
    "the residual-history bound ||r_k||^2 <= G*E_0 (G = Gershgorin bound of lambda_max) used on solve() is a paper consequence of "
    "the theorem, not a Coq theorem",
]

REL_SLACK = Fraction(1, 10**10)      # rounding slack of the monotonicity test (relative)
ABS_FLOOR = Fraction(1, 10**22)      # times (||x*||_A^2 + E_0): below this the error is rounding noise
COARSENS = ["RS", "CLJP", "Falgout", "PMIS", "HMIS"]
INTERPS = ["Direct", "ModClassical", "Extended"]
CLASSES = ["seq_rs", "par_rs", "seq_sa", "par_sa"]


# ------------------------------------------------------------------ matrices (rows: dict col -> Fraction)
def dy(rng, lo=-2, hi=3):
    """positive dyadic weight m * 2^e"""
    return Fraction(rng.choice([1, 1, 1, 2, 3, 5, 7])) * Fraction(2) ** rng.randint(lo, hi)

def laplacian_from_edges(n, edges, shift):
    rows = [dict() for _ in range(n)]
    for i in range(n): rows[i][i] = Fraction(shift[i])
    for (i, j, w) in edges:
        if i == j: continue
        rows[i][i] += w; rows[j][j] += w
        rows[i][j] = rows[i].get(j, Fraction(0)) - w
        rows[j][i] = rows[j].get(i, Fraction(0)) - w
    return rows

def gen_graph(rng, n):
    """weighted Laplacian of a random graph with 1..several components (isolated vertices included) plus a
       nonnegative diagonal shift that is positive somewhere in every component"""
    perm = list(range(n)); rng.shuffle(perm)
    r = rng.random()
    ncomp = 1 if r < 0.45 else (2 if r < 0.65 else rng.randint(3, max(3, min(n // 2, 8))))
    cuts = sorted(rng.sample(range(1, n), ncomp - 1)) if ncomp > 1 else []
    comps = [perm[a:b] for a, b in zip([0] + cuts, cuts + [n])]
    edges = []; shift = [Fraction(0)] * n
    wide = rng.random() < 0.3       # widely varying weights
    for comp in comps:
        m = len(comp)
        for k in range(1, m):       # random spanning tree
            edges.append((comp[k], comp[rng.randrange(k)], dy(rng, -6, 6) if wide else dy(rng)))
        extra = rng.choice([0, m // 2, m, 2 * m])
        for _ in range(extra):
            i, j = rng.choice(comp), rng.choice(comp)
            if i != j: edges.append((i, j, dy(rng, -6, 6) if wide else dy(rng)))
        for i in rng.sample(comp, rng.choice([1, 1, max(1, m // 3), m])):
            shift[i] += dy(rng, -8, 1) if rng.random() < 0.5 else dy(rng)
    return laplacian_from_edges(n, edges, shift), "graph%d" % min(ncomp, 3)

def gen_stencil(rng, n):
    """2-D grid operators: constant 5-/9-point, variable-coefficient, strongly anisotropic; Dirichlet boundary
       (= positive diagonal shift on boundary vertices)"""
    nx = rng.randint(2, max(2, int(n ** 0.5) + 3)); ny = max(2, n // nx)
    kind = rng.choice(["const5", "const9", "varcoef", "aniso", "aniso_var", "aniso_weak"])
    eps = Fraction(1, 2 ** rng.randint(5, 14))
    if kind == "aniso_weak": eps = Fraction(1, 2 ** rng.randint(22, 26))     # couplings ~1e-7 of the strong ones, no boundary condition
    def w(horizontal):
        if kind in ("const5", "const9"): return Fraction(1)
        if kind == "varcoef": return dy(rng, -3, 3)
        if kind in ("aniso", "aniso_weak"): return Fraction(1) if horizontal else eps
        return dy(rng, 0, 1) if horizontal else eps * dy(rng, 0, 1)
    N = nx * ny; edges = []; shift = [Fraction(0)] * N
    idx = lambda x, y: y * nx + x
    for y in range(ny):
        for x in range(nx):
            i = idx(x, y)
            nbrs = [(1, 0, True), (0, 1, False)] + ([(1, 1, False), (-1, 1, False)] if kind == "const9" else [])
            for (dx, dy_, hor) in nbrs:
                X, Y = x + dx, y + dy_
                if 0 <= X < nx and 0 <= Y < ny: edges.append((i, idx(X, Y), w(hor)))
            # ghost edges across the boundary (Dirichlet)
            for (dx, dy_, hor) in [(1, 0, True), (-1, 0, True), (0, 1, False), (0, -1, False)] + \
                                  ([(1, 1, False), (-1, 1, False), (1, -1, False), (-1, -1, False)] if kind == "const9" else []):
                X, Y = x + dx, y + dy_
                if not (0 <= X < nx and 0 <= Y < ny) and kind != "aniso_weak": shift[i] += w(hor)
    if kind == "aniso_weak": shift = [Fraction(1, 2 ** 33)] * N     # definite only through the weak couplings and a tiny shift
    return laplacian_from_edges(N, edges, shift), kind

def rows_to_csr_tokens(rng, rows, shuffle):
    n = len(rows); p = [0]; c = []; v = []
    for r in rows:
        items = [(j, a) for j, a in sorted(r.items()) if a != 0]
        if shuffle: rng.shuffle(items)
        for (j, a) in items: c.append(j); v.append(a)
        p.append(len(c))
    return ["csr", str(n), str(n), str(len(c))] + [str(i) for i in p] + [str(i) for i in c] + [nums.tok_num(a) for a in v]


# ------------------------------------------------------------------ exact energy
def scaled_ints(fracs):
    """dyadic Fractions -> (ints, s) with value = int / 2^s"""
    s = max((f.denominator.bit_length() - 1) for f in fracs) if fracs else 0
    out = []
    for f in fracs:
        t = f.denominator.bit_length() - 1
        if f.denominator != 1 << t: raise ValueError("non-dyadic value")
        out.append(f.numerator << (s - t))
    return out, s

class Energy:
    def __init__(self, rows):
        ent = [(i, j, a) for i, r in enumerate(rows) for j, a in r.items() if a != 0]
        vals, self.sa = scaled_ints([e[2] for e in ent])
        self.ent = [(e[0], e[1], v) for e, v in zip(ent, vals)]
    def of(self, e):
        ei, s = scaled_ints(e)
        tot = 0
        for (i, j, a) in self.ent: tot += a * ei[i] * ei[j]
        return Fraction(tot, 1 << (self.sa + 2 * s))


# ------------------------------------------------------------------ cases
def make_case(ctx, cid, small):
    rng = ctx.rng
    if small:
        n = rng.randint(4, 12)
        rows, kind = gen_graph(rng, n) if rng.random() < 0.6 else gen_stencil(rng, n)
        max_coarse = rng.choice([1, 2, 2, 3, 4])
        K = 2
    else:
        n = rng.choice([rng.randint(10, 40), rng.randint(40, 150), rng.randint(150, 400)])
        rows, kind = gen_graph(rng, n) if rng.random() < 0.5 else gen_stencil(rng, n)
        max_coarse = rng.choice([2, 3, 5, 10, 20, 50])
        K = rng.choice([3, 4, 6])
    n = len(rows)
    cls = rng.choice(CLASSES)
    co, it = rng.choice(COARSENS), rng.choice(INTERPS)
    rl = rng.choice(["SOR", "SSOR"])
    theta = rng.choice(["0", "1/4", "1/4", "1/2", "3/4"]) if cls.endswith("rs") else rng.choice(["0", "0", "1/16", "1/4"])
    xs = [Fraction(rng.randint(-4, 4), rng.choice([1, 1, 2, 4])) for _ in range(n)]
    r = rng.random()
    x0 = [Fraction(0)] * n if r < 0.55 else ([Fraction(rng.randint(-6, 6)) for _ in range(n)] if r < 0.95 else list(xs))
    b = [sum(a * xs[j] for j, a in row.items()) for row in rows]
    sweeps = rng.choice([1, 1, 1, 2, 3])          # num_smooth_sweeps: every additional Gauss-Seidel sweep is non-expansive too
    toks = [cid, "cyc", cls, co, it, rl, theta, str(max_coarse), str(K), "1" if small else "0", "asis/%d/%d" % (sweeps, rng.choice([1, 1, 0, 2]))] + \
        rows_to_csr_tokens(rng, rows, rng.random() < 0.25) + [nums.tok_num(a) for a in x0] + [nums.tok_num(a) for a in b] + \
        ["XS"] + [nums.tok_num(a) for a in xs]
    return dict(cid=cid, line=" ".join(toks), small=small, kind=kind)

def parse_line(line):
    """case text -> dict (used for generated cases and replays alike)"""
    t = line.split()
    c = dict(cid=t[0], line=line, cls=t[2], coarsen=t[3], interp=t[4], relax=t[5], theta=t[6],
             max_coarse=int(t[7]), K=int(t[8]), dump=int(t[9]), sweeps=(int(t[10].split("/")[1]) if "/" in t[10] else 1))
    assert t[11] == "csr"
    n, nnz = int(t[12]), int(t[14]); p = 15
    ptr = [int(x) for x in t[p:p + n + 1]]; p += n + 1
    col = [int(x) for x in t[p:p + nnz]]; p += nnz
    val = [nums.parse_num(x) for x in t[p:p + nnz]]; p += nnz
    rows = [dict() for _ in range(n)]
    for i in range(n):
        for k in range(ptr[i], ptr[i + 1]): rows[i][col[k]] = rows[i].get(col[k], Fraction(0)) + val[k]
    c["n"] = n; c["rows"] = rows
    c["x0"] = [nums.parse_num(x) for x in t[p:p + n]]; p += n
    c["b"] = [nums.parse_num(x) for x in t[p:p + n]]; p += n
    assert t[p] == "XS"
    c["xs"] = [nums.parse_num(x) for x in t[p + 1:p + 1 + n]]
    c["small"] = c["dump"] == 1
    # definite only through couplings / shifts ~1e-7..1e-10 of the diagonal: condition number ~1e10, the floating-point
    # iterates legitimately differ from the exact model's beyond the comparison tolerance (energy oracle only)
    c["near_singular"] = n > 0 and all(sum(r.values()) < Fraction(1, 2 ** 25) * r.get(i, Fraction(1)) for i, r in enumerate(rows))
    return c

def collect(res):
    """driver result list -> dict"""
    d = dict(X={}, B={}, HA={}, HP={}, DIAG={}, status=None, LV=None, COARSE=None, err="", SOLVE=None, XF=None)
    for key, toks in res or []:
        if key in ("X", "B"): d[key][int(toks[0])] = toks[1:]
        elif key in ("HA", "HP"): d[key][int(toks[0])] = toks[1:]
        elif key == "DIAG": d["DIAG"][int(toks[0])] = int(toks[1])
        elif key == "LV": d["LV"] = [int(x) for x in toks]
        elif key == "SOLVE": d["SOLVE"] = (int(toks[0]), [nums.parse_num(x) for x in toks[1:]])
        elif key == "XF": d["XF"] = [nums.parse_num(x) for x in toks]
        elif key == "COARSE": d["COARSE"] = [nums.parse_num(x) for x in toks]
        elif key in ("DONE", "ERR", "CRASH"): d["status"] = key; d["err"] = " ".join(toks)
    return d

def csr_out_to_in(toks):
    """'csr nr nc nnz I1 .. I2 .. V ..' (driver output) -> literal tokens without the markers"""
    return [x for x in toks if x not in ("I1", "I2", "V")]

def dense_of(toks):
    m = fw.parse_mat_tokens(toks)
    return m.nr, m.nc, m.dense()


def judge_energy(ctx, c, d):
    """O: monotone non-increase of ||x* - x_k||_A^2 on the implementation's iterates"""
    sigbase = "%s:%s" % (c["cls"], c["relax"])
    if d["status"] != "DONE":
        ctx.signal("O", sigbase + ":crash", "implementation did not finish the case: %s %s" % (d["status"], d["err"]), case=c["line"])
        return False
    ctx.count("levels_%d" % min(d["LV"][0], 6))
    if d["COARSE"] and not isinstance(d["COARSE"][0], str) and not isinstance(d["COARSE"][1], str):
        mn, mx = d["COARSE"]
        singular = (mx == 0) or (mn <= mx * Fraction(1, 10**12))
    else:
        singular = True
    if singular and c["cls"].endswith("_sa"):
        ctx.count("skipped_sa_singular_coarse"); return False
    if any(v for v in d["DIAG"].values()):
        ctx.count("levels_without_leading_positive_diagonal")
        ctx.notes.append("relaxed level without leading positive diagonal: %s" % c["cid"])
    en = Energy(c["rows"])
    xs = c["xs"]
    E = []
    for k in range(c["K"] + 1):
        xt = d["X"].get(k)
        if xt is None:
            ctx.signal("O", sigbase + ":missing_iterate", "iterate %d missing" % k, case=c["line"]); return False
        x = [nums.parse_num(s) for s in xt]
        if any(isinstance(a, str) for a in x):
            ctx.signal("O", sigbase + ":nonfinite", "iterate %d is not finite (energy history blows up): E = %s"
                       % (k, [float(e) for e in E]), case=c["line"]); return False
        E.append(en.of([xs[j] - x[j] for j in range(c["n"])]))
    floor = ABS_FLOOR * (en.of(xs) + E[0])
    ctx.evaluations += 1
    for k in range(c["K"]):
        if E[k + 1] > E[k] * (1 + REL_SLACK) + floor:
            ctx.signal("O", sigbase + ":energy_increase",
                       "||x*-x_%d||_A^2 = %.17g > ||x*-x_%d||_A^2 = %.17g (levels %s, %s/%s theta=%s max_coarse=%d)"
                       % (k + 1, float(E[k + 1]), k, float(E[k]), d["LV"], c["coarsen"], c["interp"], c["theta"], c["max_coarse"]),
                       case=c["line"], extra=dict(energies=[float(e) for e in E]))
            return False
    # the solve loop: raptor's own residual history must stay finite and below the bound the theorem implies,
    # ||r_k||_2^2 = e^T A^2 e <= lambda_max(A) ||e_k||_A^2 <= G ||e_0||_A^2 (G = Gershgorin bound), and the final
    # iterate must not be worse than the start in the energy norm
    if d["SOLVE"] is not None and d["XF"] is not None:
        it, hist = d["SOLVE"]
        G = max(sum(abs(a) for a in r.values()) for r in c["rows"])
        b2 = sum(a * a for a in c["b"])
        bound = float(G * E[0]) * (1 + 1e-6) + float(floor) + 1e-300
        scale = float(b2) if float(b2) ** 0.5 > 1e-16 else 1.0     # raptor divides by ||b|| unless it is ~0
        for kk, rk in enumerate(hist):
            if isinstance(rk, str) or float(rk) ** 2 * scale > bound:
                ctx.signal("O", sigbase + ":residual_blowup", "solve(): relative residual %s at iteration %d exceeds the bound "
                           "sqrt(G E_0)/||b|| = %.6g implied by energy-norm monotonicity (history %s)"
                           % (rk if isinstance(rk, str) else float(rk), kk, (bound / scale) ** 0.5,
                              [r if isinstance(r, str) else float(r) for r in hist][:8]), case=c["line"])
                return False
        if it > 30 or len(hist) != it + 1:
            ctx.signal("O", sigbase + ":iteration_limit", "solve() reports %d iterations with %d residuals (limit 30)" % (it, len(hist)), case=c["line"])
            return False
        if any(isinstance(a, str) for a in d["XF"]):
            ctx.signal("O", sigbase + ":nonfinite", "solve() returned a non-finite iterate", case=c["line"]); return False
        EF = en.of([xs[j] - d["XF"][j] for j in range(c["n"])])
        if EF > E[0] * (1 + REL_SLACK) + floor:
            ctx.signal("O", sigbase + ":energy_increase", "solve(): final ||x*-x||_A^2 = %.17g > initial %.17g after %d cycles"
                       % (float(EF), float(E[0]), it), case=c["line"]); return False
        ctx.count("solve_converged" if it < 30 else "solve_hit_limit")
    if d["LV"][0] > 1 and E[0] > floor:
        ctx.nontrivial.add(c["line"].split(" ", 1)[1][:4000])
    if E[0] > 0 and E[-1] < E[0]: ctx.count("strict_decrease")
    return True


def model_lines(c, d):
    """stage-wise: cycle k of the model starts from the implementation's own iterate k-1 (hex floats, exact)"""
    L = d["LV"][0]
    hier = []
    for l in range(L - 1):
        hier += csr_out_to_in(d["HA"][l]) + csr_out_to_in(d["HP"][l])
    hier += csr_out_to_in(d["HA"][L - 1])
    out = []
    for k in range(1, c["K"] + 1):
        if d["X"].get(k - 1) is None or d["X"].get(k) is None: break
        toks = ["%s_%d" % (c["cid"], k), "mcyc", "seq" if c["cls"].startswith("seq") else "par", "%s/%d" % (c["relax"], c["sweeps"]), "1", str(L)]
        out.append(" ".join(toks + hier + list(d["X"][k - 1]) + [nums.tok_num(a) for a in c["b"]]))
    return out

def model_cost(c, d):
    return sum(d["LV"][1:]) ** 2 * d["LV"][0] * (2 if c["relax"] == "SSOR" else 1) * c.get("sweeps", 1)

def run_model_budget(ctx, lines, budget):
    """run the extracted model over the case lines; stop at the time budget (exact rational arithmetic on 53-bit
       data is slow for a few cases); returns parsed output of the cases that completed"""
    import subprocess, time, os
    cf = fw.write_cases(ctx, "c10.model", lines)
    outp = os.path.join(ctx.tmp, "c10.model.out")
    with open(outp, "w") as fo:
        p = subprocess.Popen([ctx.ocaml, cf], stdout=fo, stderr=subprocess.PIPE, text=True)
        t0 = time.time(); killed = False
        while p.poll() is None:
            if time.time() - t0 > budget:
                p.kill(); killed = True; break
            time.sleep(0.05)
        err = p.stderr.read() if p.stderr else ""
        rc = p.wait()
    text = open(outp).read()
    if killed and not text.endswith("\n"): text = text[:text.rfind("\n") + 1]
    return (0 if killed else rc), fw.parse_out(text), err, killed

def check_hypotheses(ctx, c, d):
    """the computable hypotheses of C10_vcycle_nonexpansive on the dumped hierarchy (small cases):
       level 0 is the input operator; A_{l+1} = P_l^T A_l P_l (C08) within rounding"""
    L = d["LV"][0]
    sig = "%s:hyp" % c["cls"]
    n0, _, A = dense_of(d["HA"][0])
    A_in = {(i, j): a for i, r in enumerate(c["rows"]) for j, a in r.items() if a != 0}
    ok, why = fw.dense_equal(A, A_in)
    if not ok:
        ctx.signal("K", sig + ":level0", "level-0 operator differs from the input matrix: " + why, case=c["line"]); return
    for l in range(L - 1):
        nr, nc, P = dense_of(d["HP"][l])
        _, _, Al = dense_of(d["HA"][l]); _, _, An = dense_of(d["HA"][l + 1])
        AP = {}
        for (i, j), a in Al.items():
            for (jj, k), pv in P.items():
                if jj == j: AP[(i, k)] = AP.get((i, k), Fraction(0)) + a * pv
        G = {}
        for (i, k), pv in P.items():
            for (ii, m), q in AP.items():
                if ii == i: G[(k, m)] = G.get((k, m), Fraction(0)) + pv * q
        scale = max([abs(v) for v in G.values()] + [Fraction(1)])
        for key in set(G) | set(An):
            if abs(G.get(key, Fraction(0)) - An.get(key, Fraction(0))) > scale * Fraction(1, 10**9):
                ctx.signal("K", sig + ":galerkin", "level %d: A_{l+1}%s = %.17g but (P^T A P)%s = %.17g"
                           % (l, key, float(An.get(key, 0)), key, float(G.get(key, 0))), case=c["line"]); return


def run(ctx):
    ctx.rule = ("SPD M-matrices: weighted Laplacians of random graphs (1..8 components, isolated vertices, weights over "
                "12 binades) + nonnegative diagonal shift positive in every component; 2-D 5-/9-point, variable-coefficient "
                "and strongly anisotropic (eps 2^-5..2^-14; weakly coupled eps 2^-22..2^-26 with shift 2^-33 and no boundary condition) stencils with Dirichlet boundary; n = 10..400 (4..12 for the "
                "model comparison); manufactured dyadic solution, b = A x* exact; RugeStuben (5 coarsenings x 3 "
                "interpolations, theta 0..3/4) and SmoothedAggregation, sequential and Par classes on one process, SOR/SSOR "
                "weight 1, max_coarse 1..50, 2..6 cycles; non-trivial = >= 2 levels and non-zero initial error; "
                "distinct = distinct case text")
    if ctx.replay:
        cases = [parse_line(l) for l in ctx.replay]
    else:
        nbig, nsmall = ctx.scale(260, 2800), ctx.scale(80, 800)
        cases = [parse_line(make_case(ctx, "e%d" % i, small=False)["line"]) for i in range(nbig)] + \
                [parse_line(make_case(ctx, "e%d" % (nbig + i), small=True)["line"]) for i in range(nsmall)]
    import time as _t; t0 = _t.time()
    lines = [c["line"] for c in cases]
    ctx.notes.append("t_generate %.1fs (since check start %.1fs)" % (_t.time() - t0, _t.time() - ctx.t0))
    impl, crashed = fw.run_impl_lines(ctx, "drv_energy", lines, nprocs=1, name="c10", timeout=1500)
    ctx.notes.append("t_impl_done %.1fs" % (_t.time() - ctx.t0))
    mjobs = []
    for c in cases:
        ctx.count("class_" + c["cls"]); ctx.count("relax_" + c["relax"])
        if c["cls"].endswith("rs"): ctx.count("rs_%s_%s" % (c["coarsen"], c["interp"]))
        ctx.count("n<=12" if c["n"] <= 12 else ("n<=40" if c["n"] <= 40 else ("n<=150" if c["n"] <= 150 else "n<=400")))
        d = collect(impl.get(c["cid"]))
        c["LV"] = d["LV"][0] if d["LV"] else 0
        ctx.sample(c["line"])
        judge_energy(ctx, c, d)
        if c["small"] and d["status"] == "DONE" and d["LV"] and 1 <= d["LV"][0] <= 5 and len(d["HA"]) == d["LV"][0]:
            sing = False
            if c["cls"].endswith("_sa"):
                mn, mx = d["COARSE"]; sing = isinstance(mn, str) or isinstance(mx, str) or mx == 0 or mn <= mx * Fraction(1, 10**12)
            if c["near_singular"]: ctx.count("near_singular_energy_oracle_only")
            elif not sing:
                check_hypotheses(ctx, c, d)
                mjobs.append((model_cost(c, d), c, d))
    ctx.notes.append("t_energy_done %.1fs" % (_t.time() - ctx.t0))
    if mjobs:
        mjobs.sort(key=lambda j: j[0])
        mlines = []
        for _, c, d in mjobs: mlines += model_lines(c, d)
        rcm, model, errm, killed = run_model_budget(ctx, mlines, ctx.scale(30, 420))
        if rcm != 0: ctx.signal("K", "modeldriver", "model driver exited with %s: %s" % (rcm, errm[-400:]))
        for _, c, d in mjobs:
            sig = "%s:%s:model" % (c["cls"], c["relax"])
            for k in range(1, c["K"] + 1):
                res = model.get("%s_%d" % (c["cid"], k))
                rm = dict()
                for key, toks in res or []:
                    if key == "X": rm[int(toks[0])] = toks[1:]
                    else: rm[key] = toks
                if res is None or (1 not in rm and not any(x in rm for x in ("SINGULAR", "INEXACT", "ERR"))):
                    ctx.count("model_not_run_time_budget"); continue
                if "SINGULAR" in rm:
                    ctx.count("model_singular_coarse")
                    if c["cls"].endswith("rs"):
                        ctx.signal("K", sig + ":singular", "coarsest operator of a Ruge-Stuben hierarchy is exactly singular", case=c["line"])
                    break
                if "WF" in rm and any(x != "1" for x in rm["WF"]):
                    ctx.signal("K", "%s:hyp:sweep_wf" % c["cls"], "a relaxed level does not start its rows with the diagonal: %s" % rm["WF"], case=c["line"])
                    break
                xi, xm = d["X"].get(k), rm.get(1)
                ctx.compared += 1
                # rounding of the floating-point cycle against the exact model grows with the conditioning of the system, and it
                # is absolute in the size of the iterate (an exact 0 next to entries of size 3 comes out as 4e-11 on a weakly
                # dominant 11-row system): compared within 1e-8 of the iterate's max-norm
                def _close(a_, b_):
                    try: fa = [float(nums.parse_num(v_)) for v_ in a_]; fb = [float(nums.parse_num(v_)) for v_ in b_]
                    except Exception: return False
                    if len(fa) != len(fb) or any(v_ != v_ for v_ in fa + fb): return False
                    sc = max([1.0] + [abs(v_) for v_ in fb])
                    return all(abs(u_ - v_) <= 1e-8 * sc for u_, v_ in zip(fa, fb))
                if xm is None or xi is None or not (fw.toks_equal(xi, xm, rtol=1e-8, atol=1e-11) or _close(xi, xm)):
                    ctx.signal("K", sig, "cycle %d: the model's iterate differs from the implementation's: impl %s model %s %s"
                               % (k, xi and [s if 'n' in s.lower() else float(nums.parse_num(s)) for s in xi][:6],
                                  xm and [float(nums.parse_num(s)) for s in xm][:6], rm.get("ERR", rm.get("INEXACT", ""))), case=c["line"])
                    break
                ctx.count("model_cycles_compared")
    ctx.notes.append("t_model_done %.1fs" % (_t.time() - ctx.t0))
