"""C04 — topology-aware communication is equivalent to standard communication."""
import framework as fw, commgen

ID = "C04"
FAMILY = "dist"
OCAML_SRCS = ("conv.ml", "drv_dist.ml")

def layouts(P, thorough):
    out = []
    for ppn in range(1, P + 1):
        if P % ppn == 0 or ppn >= P:
            for ordering in (0, 1, 2):
                out.append((ppn, ordering))
    out.append((P + 3, 1))          # a single node with PPN larger than the process count
    return out

def run(ctx):
    ctx.rule = ("process layouts (PPN | nprocs incl. a single node, orderings 0/1/2) x 3-step / 2-step package x partitions "
                "(empty ranks) x off-process index sets x on-process maps x derived packages; every buffer compared with the "
                "owners' values (= what the standard package delivers, C03); non-trivial = data crosses ranks")
    rng = ctx.rng
    procs = ctx.scale([2, 4, 6, 8], [2, 3, 4, 6, 8, 9, 12, 16])
    per = ctx.scale(30, 200)
    for P in procs:
        lay = layouts(P, ctx.tier == "thorough")
        cases = []
        for k in range(per):
            ppn, ordering = rng.choice(lay) if rng.random() < 0.5 else rng.choice([l for l in lay if 1 < l[0] < P] or lay)
            mode = rng.choice([1, 2])
            cases.append(commgen.gen_case(rng, "t%d_%d" % (P, k), P, mode=mode, ppn=ppn, ordering=ordering))
            ctx.count("layout_ppn%d_ord%d" % (ppn, ordering))
        if P >= 6:
            # directed: 3-step package on >= 3 nodes where every process of a node asks for the same columns of several remote
            # nodes (duplicates in every per-node segment of the inter-node receive list)
            for k in range(ctx.scale(8, 24)):
                ppn = rng.choice([d for d in (2, 3) if P % d == 0 and P // d >= 3] or [2])
                cases.append(commgen.gen_case(rng, "t%d_s%d" % (P, k), P, mode=1, ppn=ppn, ordering=rng.choice([0, 1, 2]), force_shared=True))
                ctx.count("directed_shared_columns_multinode")
        commgen.run_and_judge(ctx, cases, P, tag="tap")
    # PPN not dividing the process count: known finding (construction deadlocks / sends to a non-existent rank)
    fc = [0, 3, 5, 9]; cols = [[3, 8], [0, 1, 5], [2, 4]]
    toks = ["u3_0", "comm", 1, 2, 1, 0, 0, 3] + fc
    for cs in cols: toks += [len(cs)] + cs
    c = dict(cid="u3_0", P=3, N=9, fc=fc, cols=cols, lids=[list(range(fc[p], fc[p + 1])) for p in range(3)], with_on=0,
             derive=0, mode=1, ppn=2, ordering=1, line=" ".join(str(x) for x in toks))
    commgen.run_and_judge(ctx, [c], 3, tag="tap:uneven_nodes", timeout=20)
