"""C09 - a multigrid cycle is a consistent, linear, history-free map.

Tie of Amg/Cycle.v to raptor: harness/drv_cycle.cpp builds hierarchies with the four solver classes and runs HISTORIES
(interleavings of cycle / solve / PCG on one hierarchy, all level vectors poisoned with 1e30 / NaN / -7.25 in between).
O (the property on the implementation's output): same (x, b) => bitwise the same result whatever happened before;
linearity and fixed-point identities on the outputs; single-level hierarchies solve exactly (non-symmetric A);
b, the user's matrix and every array of the hierarchy bitwise unchanged.
K: for small hierarchies the extracted exact-rational model is run on the dumped levels and compared."""
from fractions import Fraction
import framework as fw, nums
import cycle_common as cc

ID = "C09"
FAMILY = "cycle"
OCAML_SRCS = ("conv.ml", "drv_cycle.ml")
USE_BICGSTAB = True

def rand_ivec(rng, n, lo=-4, hi=4):
    return [Fraction(rng.randint(lo, hi)) for _ in range(n)]

def gen_system(rng, kind, n):
    sh = Fraction(rng.choice([1, 1, 2, 4]), rng.choice([1, 2, 4]))
    if kind == "lap1d": t = cc.lap1d(n, sh)
    elif kind == "graph": t = cc.graph_lap(rng, n, sh)
    elif kind == "convdiff": t = cc.convdiff(n, sh, Fraction(rng.choice([-3, -1, 1, 2, 3]), 4))
    elif kind == "grid":
        a = rng.choice([2, 3, 4]); b = max(2, n // a); n, t = cc.grid2d(a, b, sh)
    elif kind == "nonsym": t = cc.nonsym_dd(rng, n)
    else: raise ValueError(kind)
    if kind != "nonsym" and n > 5 and rng.random() < 0.15:
        t = cc.decouple_row(t, n, rng.randrange(n))
    return n, t

def gen_case(ctx, k, P):
    rng = ctx.rng
    single = rng.random() < 0.22
    par = P > 1 or rng.random() < 0.5
    cls = rng.choice(["parrs", "parrs", "parsa"]) if par else rng.choice(["seqrs", "seqrs", "seqsa"])
    if single:
        kind = rng.choice(["nonsym", "nonsym", "convdiff", "graph"])
        n = rng.choice([1, 2, 3, 4, 5, 6, 8])
    else:
        kind = rng.choice(["lap1d", "graph", "graph", "convdiff", "grid"])
        n = rng.choice([6, 8, 9, 10, 12, 14, 14, 18, 24, 33])
    n, t = gen_system(rng, kind, n)
    sa = cls.endswith("sa")
    opts = dict(coarsen=rng.choice([0, 0, 1, 2, 3, 4]), interp=rng.choice([0, 0, 1, 2]),
                strength=(1 if sa else rng.choice([0, 0, 0, 1])), theta=rng.choice([Fraction(0), Fraction(1, 4), Fraction(1, 2)]),
                relax=rng.choice([0, 1, 2]), omega=rng.choice([Fraction(1, 2), Fraction(1), Fraction(5, 4)]),
                sweeps=rng.choice([1, 1, 2]), max_coarse=rng.choice([2, 3, 4, 5]), max_levels=rng.choice([25, 25, 2, 3, 4]),
                tap=(rng.choice([-1, -1, -1, 0, 1]) if par else -1), tol=Fraction(1, 10 ** 7))
    if single:
        if rng.random() < 0.5: opts["max_levels"] = 1
        else: opts["max_coarse"] = n + rng.randint(0, 3)
    first_rows = None
    if par and rng.random() < 0.6:
        first_rows = cc.rand_partition(rng, n, P, allow_empty=(rng.random() < 0.15))
    # vector pool: 0 zero | 1,2 x | 3,4 b | 5 = a x1 + c x2 | 6 = a b1 + c b2 | 7 exact solution | 8 = A xs
    a = Fraction(rng.choice([-3, -1, 1, 2, 3, 5]), rng.choice([1, 2, 4])); c = Fraction(rng.choice([-2, -1, 1, 3, 7]), rng.choice([1, 2, 8]))
    x1, x2, b1, b2 = (rand_ivec(rng, n) for _ in range(4))
    if rng.random() < 0.3: x1 = [Fraction(0)] * n
    xs = rand_ivec(rng, n, -3, 3)
    vecs = [[Fraction(0)] * n, x1, x2, b1, b2, [a * u + c * v for u, v in zip(x1, x2)], [a * u + c * v for u, v in zip(b1, b2)],
            xs, cc.matvec(t, xs, n)]
    # 9, 10 = 2^-70 (x1, b1): the same cycle on data of tiny magnitude (a power of two: every operation scales exactly)
    tiny = Fraction(1, 2 ** 70)
    vecs += [[tiny * u for u in x1], [tiny * u for u in b1]]
    ks = rng.choice([1, 2, 3, 4])
    base = [("C", 1, 3), ("C", 2, 4), ("C", 5, 6), ("C", 7, 8), ("C", 9, 10), ("S", 0, 3, ks), ("CC", 0, 3, ks), ("S", 1, 3, 30)]
    extra = [("C", 1, 3), ("C", 5, 6), ("C", 0, 4), ("S", 0, 3, ks), ("C", 7, 8), ("S", 2, 6, 2), ("S", 1, 3, 30), ("S", 1, 3, 30)]
    if cls.startswith("par") and cc.is_symmetric(t) and all(t[(i, i)] > 0 for i in range(n)):
        extra += [("K", 0, 3), ("K", 0, 3)]
    if cls.startswith("par") and USE_BICGSTAB: extra += [("B", 0, 3), ("B", 0, 3)]
    ops = list(base) + [rng.choice(extra) for _ in range(rng.randint(3, 6))]
    if n <= 20: ops += [("CD", 1, 3), ("CD", 5, 6)]          # cycles whose level vectors are dumped for the stage-wise model run
    rng.shuffle(ops)
    hist = []
    for o in ops:
        if rng.random() < 0.55: hist.append(("P", rng.choice([0, 0, 1, 1, 2])))
        if rng.random() < 0.25: hist.append(("X", rng.choice([0, 1, 2]), rng.choice([3, 4])))      # a cycle of a sibling hierarchy in between
        hist.append(o)
    cid = "c%d_p%d" % (k, P)
    line = cc.case_line(cid, cls, opts, t, n, first_rows, vecs, hist)
    return dict(cid=cid, cls=cls, opts=opts, t=t, n=n, P=P, first_rows=first_rows, vecs=vecs, hist=hist, a=a, c=c,
                kind=kind, single=single, line=line)

def judge(ctx, c, res, model_lines):
    """O checks on one case; appends a model case line when the hierarchy is small"""
    cid = c["cid"]; n = c["n"]; sig0 = "%s:%s" % (c["cls"], cc.RELAX_TAG[c["opts"]["relax"]])
    ctx.evaluations += 1
    ctx.count("cls_" + c["cls"]); ctx.count("P_%d" % c["P"]); ctx.count("relax_" + cc.RELAX_TAG[c["opts"]["relax"]])
    ctx.count("sys_" + c["kind"]); ctx.count("omega_%s" % c["opts"]["omega"])
    if c["opts"]["tap"] >= 0: ctx.count("tap_on")
    if c["first_rows"] is not None:
        ctx.count("explicit_partition")
        if any(c["first_rows"][i] == c["first_rows"][i + 1] for i in range(c["P"])): ctx.count("empty_rank_level0")
    ctx.sample(c["line"])
    if not res or any(k == "CRASH" for k, _ in res) or any(k.startswith("ERR") for k, _ in res):
        ctx.signal("O", sig0 + ":crash", "implementation crashed / failed on the case: %s" % (res[-1:] if res else None,), case=c["line"])
        return
    levels = cc.parse_levels(res)
    outs, bok, iters, ress, hok = cc.outs_of(res)
    if levels is None or hok is None:
        ctx.signal("O", sig0 + ":incomplete", "no complete output for the case", case=c["line"]); return
    L = len(levels); ctx.count("levels_%d" % L)
    if any(p == 0 for lev in levels for p in lev.parts): ctx.count("some_rank_without_rows_on_a_level")
    # --- the hypotheses of the theorems, checked on the hierarchy the library built
    if cc.guard_violations(levels): ctx.count("rank_with_columns_of_P_but_no_rows")   # the layout the old mult_T mishandled (never seen)
    dom, why = cc.hierarchy_domain(levels)
    if not dom: ctx.count("out_of_domain_" + why)
    # --- O: right-hand side, user's matrix, hierarchy bitwise unchanged
    if hok is False:
        ctx.signal("O", sig0 + ":hierarchy_modified", "an array of the hierarchy / the user's matrix changed during the history", case=c["line"])
    for k, ok in sorted(bok.items()):
        if not ok:
            ctx.signal("O", sig0 + ":rhs_modified", "operation %d (%s) altered the right-hand side" % (k, c["hist"][k],), case=c["line"]); break
    # --- O: history-freedom: same operation, same input => bitwise same output
    groups = {}
    for k, o in enumerate(c["hist"]):
        if o[0] in ("P", "X"): continue
        if o[0] == "CD": o = ("C",) + tuple(o[1:])
        if k not in outs:
            ctx.signal("O", sig0 + ":incomplete", "no output for operation %d %s" % (k, o), case=c["line"]); return
        groups.setdefault(o, []).append(k)
    nrep = 0
    for o, ks in groups.items():
        for k in ks[1:]:
            nrep += 1
            if outs[k][0] != outs[ks[0]][0]:
                ctx.signal("O", sig0 + ":history:" + o[0], "operation %s returned different results at positions %d and %d of the history "
                           "(level vectors poisoned / other systems solved in between)" % (o, ks[0], k), case=c["line"],
                           extra=dict(first=outs[ks[0]][0][:400], second=outs[k][0][:400]))
                break
            if o[0] == "S" and (iters.get(k) != iters.get(ks[0]) or ress.get(k) != ress.get(ks[0])):
                ctx.signal("O", sig0 + ":history:Sres", "solve %s reported different iteration counts / residuals at positions %d and %d" % (o, ks[0], k), case=c["line"])
    if nrep: ctx.count("repeated_calls", nrep)
    # solve(maxit = k) == k manual cycles (when it did not stop early), bitwise
    for o, ks in groups.items():
        if o[0] == "S":
            oc = ("CC", o[1], o[2], o[3])
            if oc in groups and iters.get(ks[0]) == o[3]:
                ctx.count("solve_vs_cycles")
                if outs[ks[0]][0] != outs[groups[oc][0]][0]:
                    ctx.signal("O", sig0 + ":solve_vs_cycles", "solve with %d iterations differs from %d cycle() calls" % (o[3], o[3]), case=c["line"])
    val = lambda o: outs[groups[o][0]][1]
    nontrivial = False
    if dom:
        tol = 1e-9
        # --- O: linearity
        y1, y2, y3 = val(("C", 1, 3)), val(("C", 2, 4)), val(("C", 5, 6))
        if cc.finite(y1) and cc.finite(y2) and cc.finite(y3):
            a, cq = c["a"], c["c"]
            comb = [a * u + cq * v for u, v in zip(y1, y2)]
            scale = max(1.0, abs(float(a)) * cc.vmax(y1) + abs(float(cq)) * cc.vmax(y2), cc.vmax(y3))
            ok, why2 = cc.vec_close(y3, comb, tol, scale)
            if not ok:
                ctx.signal("O", sig0 + ":linearity", "cycle(a x1 + c x2, a b1 + c b2) != a cycle(x1,b1) + c cycle(x2,b2): " + why2, case=c["line"])
            nontrivial = cc.vmax(y3) > 0
            # homogeneity at a tiny scale: cycle(s x1, s b1) = s cycle(x1, b1) for s = 2^-70 (no branch may depend on magnitudes)
            if ("C", 9, 10) in groups and len(c["vecs"]) > 10:
                yt = val(("C", 9, 10))
                if cc.finite(yt):
                    up = [float(v) * 2.0 ** 70 for v in yt]
                    ok, why2 = cc.vec_close(up, y1, 1e-9, max(cc.vmax(y1), 1e-300))
                    if not ok:
                        ctx.signal("O", sig0 + ":linearity:tiny_scale", "cycle(s x1, s b1) != s cycle(x1, b1) for s = 2^-70: " + why2, case=c["line"])
                else:
                    ctx.signal("O", sig0 + ":nonfinite", "cycle returned a non-finite value on data of magnitude 2^-70", case=c["line"])
        else:
            ctx.signal("O", sig0 + ":nonfinite", "cycle returned a non-finite value on a hierarchy of the domain", case=c["line"])
        # --- O: consistency (the exact solution is a fixed point)
        yf = val(("C", 7, 8))
        ok, why2 = cc.vec_close(yf, c["vecs"][7], tol, max(1.0, cc.vmax(c["vecs"][7]), cc.vmax(c["vecs"][8])))
        if not ok:
            ctx.signal("O", sig0 + ":fixed_point", "A x = b but cycle(x, b) != x: " + why2, case=c["line"])
        # --- O: a single level is an exact solve
        if L == 1:
            ctx.count("single_level")
            if not cc.is_symmetric(c["t"]): ctx.count("single_level_nonsymmetric")
            for o in [("C", 1, 3), ("C", 2, 4), ("C", 0, 4)]:
                if o not in groups: continue
                y = val(o); b = c["vecs"][o[2]]
                r = [float(bi) - float(ri) for bi, ri in zip(b, cc.matvec(c["t"], y, n))] if cc.finite(y) else None
                rowsum = max(sum(abs(float(v)) for (i, j), v in c["t"].items() if i == ii) for ii in range(n)) if n else 1.0
                if r is None or max([abs(x) for x in r] + [0.0]) > 1e-9 * max(1.0, rowsum * cc.vmax(y) + cc.vmax(b)):
                    ctx.signal("O", sig0 + ":single_level_exact", "hierarchy of one level: cycle(x, b) does not solve A x = b "
                               "(max residual %s)" % (None if r is None else max(abs(x) for x in r)), case=c["line"]); break
    if nontrivial or L == 1: ctx.nontrivial.add(c["line"].split(" ", 1)[1])
    # --- K: the exact model on the dumped hierarchy: whole cycle for tiny hierarchies, stage-wise (every level recomputed
    #        from the library's own level inputs and coarse correction) for small ones
    scr = dict(cc.last_scr)
    # exact rationals: a chain of d dependent divisions by 53-bit numbers costs ~d^2; keep the model run cheap
    passes = {0: 0, 1: 1, 2: 2}[c["opts"]["relax"]]
    depth = max([c["opts"]["sweeps"] * max(1, passes * lev.n) for lev in levels[1:-1]] + [0])
    if dom and n <= 7 and L <= 2 and ctx.k_budget["cyc"] > 0:
        ctx.k_budget["cyc"] -= 1
        calls = [(k, o) for k, o in enumerate(c["hist"]) if o[0] in ("C", "CD")][:3]
        toks = [cid + "w", "cyc"] + cc.hier_tokens(levels, c["opts"]["relax"], c["opts"]["omega"], c["opts"]["sweeps"]) + [str(len(calls))]
        for k, o in calls: toks += cc.vec_toks(c["vecs"][o[1]]) + cc.vec_toks(c["vecs"][o[2]])
        model_lines.append(dict(kind="cyc", cid=cid + "w", mline=" ".join(toks), calls=calls, outs=outs, sig0=sig0, line=c["line"]))
    if dom and n <= 20 and L <= 4 and depth <= 14:
        for k, o in enumerate(c["hist"]):
            if ctx.k_budget["stg"] <= 0: break
            if o[0] != "CD" or not all(("SX", k, l) in scr and ("SB", k, l) in scr for l in range(1, L)): continue
            if not all(cc.finite(scr[(key, k, l)]) for key in ("SX", "SB") for l in range(1, L)): continue
            mcid = "%ss%d" % (cid, k); ctx.k_budget["stg"] -= 1
            toks = [mcid, "stg"] + cc.hier_tokens(levels, c["opts"]["relax"], c["opts"]["omega"], c["opts"]["sweeps"])
            toks += cc.vec_toks(c["vecs"][o[1]]) + cc.vec_toks(c["vecs"][o[2]])
            for l in range(1, L):
                toks += [cc.frac_tok(v) for v in scr[("SB", k, l)]] + [cc.frac_tok(v) for v in scr[("SX", k, l)]]
            model_lines.append(dict(kind="stg", cid=mcid, mline=" ".join(toks), k=k, L=L, out=outs[k][1], scr=scr, sig0=sig0, line=c["line"]))

def compare_model(ctx, e, mres):
    sig0, line = e["sig0"], e["line"]
    if not mres:
        ctx.signal("K", sig0 + ":model", "model produced no output", case=line); return
    d = {}
    for key, toks in mres:
        if key in ("OUT", "PSN", "STGX", "STGB"): d[(key, int(toks[0]))] = [nums.parse_num(x) for x in toks[1:]]
        elif key == "SINGULAR": ctx.count("model_coarse_singular"); return
        elif key == "ERR":
            ctx.signal("K", sig0 + ":model", "model driver error: " + " ".join(toks), case=line); return
    if e["kind"] == "cyc":
        for q, (k, o) in enumerate(e["calls"]):
            ym = d.get(("OUT", q)); yp = d.get(("PSN", q)); yi = e["outs"][k][1]
            if ym is None:
                ctx.signal("K", sig0 + ":model", "model output missing for call %d" % q, case=line); return
            ctx.compared += 1
            ok, why = cc.vec_close(yi, ym, 1e-8)
            if not ok:
                ctx.signal("K", sig0 + ":cycle", "model and implementation differ on cycle %s (history position %d): %s" % (o, k, why),
                           case=line, extra=dict(model_case=e["mline"][:3000])); return
            if yp != ym:
                ctx.signal("K", sig0 + ":model_history", "extracted model: poisoned scratch changed the result (contradicts C09_history_free)", case=line); return
    else:
        k, L, scr = e["k"], e["L"], e["scr"]
        for l in range(L):
            xm = d.get(("STGX", l)); xi = e["out"] if l == 0 else scr[("SX", k, l)]
            if xm is None:
                ctx.signal("K", sig0 + ":model", "stage output missing for level %d" % l, case=line); return
            ctx.compared += 1
            ok, why = cc.vec_close(xi, xm, 1e-8)
            if not ok:
                ctx.signal("K", sig0 + ":stage_x", "level %d of %d: model and implementation differ on the vector the level returns: %s" % (l, L, why),
                           case=line, extra=dict(model_case=e["mline"][:3000])); return
            if l + 1 < L:
                bm = d.get(("STGB", l + 1)); bi = scr[("SB", k, l + 1)]
                ok, why = cc.vec_close(bi, bm, 1e-8) if bm is not None else (False, "missing")
                if not ok:
                    ctx.signal("K", sig0 + ":stage_b", "level %d of %d: model and implementation differ on the restricted residual: %s" % (l, L, why),
                               case=line, extra=dict(model_case=e["mline"][:3000])); return

def run(ctx):
    ctx.rule = ("hierarchies built by RugeStubenSolver / SmoothedAggregationSolver / ParRugeStubenSolver / ParSmoothedAggregationSolver "
                "(coarsening x interpolation x strength x relaxation J/SOR/SSOR x omega in {1/2,1,5/4} x sweeps x max_coarse x max_levels x tap) on "
                "shifted 1-D / 2-D / graph Laplacians, convection-diffusion, decoupled rows, non-symmetric diagonally dominant single-level systems; "
                "P in {1,2,3} with default / explicit / empty-rank partitions; histories of 10-20 operations with poisoning; "
                "non-trivial = hierarchy in the domain of the theorems and non-zero cycle output")
    per_P = {1: ctx.scale(220, 2600), 2: ctx.scale(140, 1700), 3: ctx.scale(140, 1700)}
    k_total = {"cyc": ctx.scale(15, 160), "stg": ctx.scale(54, 640)}
    if ctx.replay:
        cases = [replay_case(l) for l in ctx.replay]
    else:
        cases = []; k = 0
        for P in (1, 2, 3):
            for _ in range(per_P[P]):
                cases.append(gen_case(ctx, k, P)); k += 1
    import time
    model_lines = []
    for P in (1, 2, 3):
        sub = [c for c in cases if c["P"] == P]
        if not sub: continue
        t0 = time.time()
        ctx.k_budget = {key: v // 3 for key, v in k_total.items()}      # the model comparisons are spread over the process counts
        # node layout of the topology-aware option: half of the cases on one node (raptor's default PPN), half on several
        # nodes (one rank per node on 2-3 ranks, two per node on 4)
        impl = {}; crashed = []
        for ppn, part in ((None, sub[0::2]), ("2" if P == 4 else "1", sub[1::2] if P > 1 else [])):
            if not part: continue
            r_, cr_ = fw.run_impl_lines(ctx, "drv_cycle", [c["line"] for c in part], nprocs=P, name="c09_p%d_%s" % (P, ppn or "d"), timeout=1500,
                                        env=({"PPN": ppn} if ppn else None))
            impl.update(r_); crashed += list(cr_ or [])
            if ppn: ctx.count("cases_on_several_nodes", len(part))
        if P == 1: r_, cr_ = fw.run_impl_lines(ctx, "drv_cycle", [c["line"] for c in sub[1::2]], nprocs=P, name="c09_p1_b", timeout=1500); impl.update(r_)
        t1 = time.time()
        for c in sub: judge(ctx, c, impl.get(c["cid"]), model_lines)
        ctx.notes.append("P=%d: %d cases, implementation %.1fs, oracle %.1fs" % (P, len(sub), t1 - t0, time.time() - t1))
    if model_lines:
        cf = fw.write_cases(ctx, "c09.model", [m["mline"] for m in model_lines])
        t0 = time.time()
        rcm, model, _, errm = fw.run_model(ctx, cf, timeout=1500)
        ctx.notes.append("model: %d case lines, %.1fs" % (len(model_lines), time.time() - t0))
        if rcm != 0: ctx.signal("K", "modeldriver", "model driver exited with %s: %s" % (rcm, errm[-400:]))
        for m in model_lines: compare_model(ctx, m, model.get(m["cid"]))

def replay_case(line):
    """rebuild what judge() needs from the case text"""
    t = line.split(); cid, cls = t[0], t[1]
    o = dict(coarsen=int(t[2]), interp=int(t[3]), strength=int(t[4]), theta=nums.parse_num(t[5]), relax=int(t[6]),
             omega=nums.parse_num(t[7]), sweeps=int(t[8]), max_coarse=int(t[9]), max_levels=int(t[10]), tap=int(t[11]), tol=nums.parse_num(t[13]))
    p = t.index("MAT") + 1; n = int(t[p]); P = int(t[p + 2]); p += 3
    first_rows = None
    if P > 0: first_rows = [int(x) for x in t[p:p + P + 1]]; p += 2 * (P + 1)
    nnz = int(t[p]); p += 1; mat = {}
    for e in range(nnz): mat[(int(t[p]), int(t[p + 1]))] = nums.parse_num(t[p + 2]); p += 3
    assert t[p] == "VECS"; nv = int(t[p + 1]); p += 2; vecs = []
    for v in range(nv): vecs.append([nums.parse_num(x) for x in t[p:p + n]]); p += n
    assert t[p] == "OPS"; nops = int(t[p + 1]); p += 2; hist = []
    for e in range(nops):
        op = t[p]
        if op == "P": hist.append(("P", int(t[p + 1]))); p += 2
        elif op == "X": hist.append(("X", int(t[p + 1]), int(t[p + 2]))); p += 3
        elif op in ("S", "CC", "SI", "SN"): hist.append((op, int(t[p + 1]), int(t[p + 2]), int(t[p + 3]))); p += 4
        else: hist.append((op, int(t[p + 1]), int(t[p + 2]))); p += 3
    # scalars of the linear combination from the pool (entry where x1 or x2 is non-zero)
    a = c = Fraction(0)
    import itertools
    rows = []
    if len(vecs) >= 7:
        x1, x2, b1, b2, x3, b3 = vecs[1], vecs[2], vecs[3], vecs[4], vecs[5], vecs[6]
        rows = list(zip(x1 + b1, x2 + b2, x3 + b3))
    for (p1, q1, r1), (p2, q2, r2) in itertools.combinations(rows, 2):
        det = p1 * q2 - p2 * q1
        if det != 0:
            a = (r1 * q2 - r2 * q1) / det; c = (p1 * r2 - p2 * r1) / det; break
    if '_p' in cid: P = int(cid.rsplit('_p', 1)[1])
    return dict(cid=cid, cls=cls, opts=o, t=mat, n=n, P=max(P, 1), first_rows=first_rows, vecs=vecs, hist=hist, a=a, c=c,
                kind="replay", single=False, line=line)
