"""C16 — tentative prolongator reproduces the candidates; prolongation smoothing is (I - omega D^-1 A)^k T.

K: extracted model (coq/Amg/{Candidates,Prolong}.v at Qc) vs raptor (fit_candidates, jacobi_prolongation,
   sequential and distributed, tap off/on).
O: the property evaluated on raptor's own output: support of T's columns, T R = B, orthonormal columns
   (zero column and R = 0 when the restriction of B vanishes, sequential only), R = column norms,
   P = (I - omega D^-1 A)^k T with D = absolute row sums, gathered distributed result = sequential result.
"""
from fractions import Fraction
import math
import framework as fw, gen, nums

ID = "C16"
FAMILY = "sa"
OCAML_SRCS = ("conv.ml", "mat.ml", "drv_sa.ml")
ASSUMPTIONS = [
    "num_candidates = 1 (the only value the solvers use; k > 1 writes R out of bounds, finding D16a)",
    "sequential aggregate ids in [0, n_aggs) (negative ids are undefined behaviour in CSR_to_CSC)",
    "distributed: every root owned by a rank belongs to its own aggregate (postcondition of aggregate()), "
    "candidates have non-zero restriction to every aggregate (no threshold branch in par_candidates.cpp)",
    "tap runs use PPN dividing the process count (TAPComm construction deadlocks otherwise on some partitions; C04's domain)",
]
RT, AT = 1e-9, 1e-11
OMEGAS = [Fraction(1, 2), Fraction(1), Fraction(5, 4), Fraction(3, 2)]
TOL_TOK = "1/10000000000"

# vectors with perfect-square squared norm (so sqrt is exact on both sides)
SQ = {1: [(1,), (2,), (3,), (5,)],
      2: [(3, 4), (6, 8), (5, 12), (0, 2), (8, 15)],
      3: [(1, 2, 2), (2, 3, 6), (2, 6, 9), (0, 3, 4), (4, 4, 7), (1, 4, 8)],
      4: [(1, 1, 1, 1), (2, 2, 2, 2), (1, 2, 2, 4), (1, 3, 3, 9), (0, 1, 2, 2), (2, 4, 5, 6)],
      5: [(1, 1, 1, 2, 3), (0, 1, 1, 1, 1), (2, 2, 2, 2, 3), (1, 1, 3, 3, 4)],
      6: [(1, 1, 1, 1, 1, 2), (0, 0, 1, 2, 2, 4), (1, 1, 1, 2, 3, 0)]}
for _k, _vs in SQ.items():
    for _v in _vs:
        _s = sum(x * x for x in _v); assert math.isqrt(_s) ** 2 == _s, _v


def square_vec(rng, m):
    """m entries whose squared norm is a perfect square (rational), not all zero"""
    if m == 0: return []
    k = min(m, rng.randint(1, 6))
    v = list(rng.choice(SQ[k])) + [0] * (m - k)
    rng.shuffle(v)
    sc = rng.choice([Fraction(1), Fraction(1), Fraction(1, 2), Fraction(2), Fraction(1, 4)])
    return [Fraction(x) * sc * rng.choice([1, -1]) for x in v]


def rand_B(rng, members, n, mode):
    """candidate vector; mode: 'square' (exact norms), 'random', 'zeroagg' (one aggregate restricted to zero)"""
    B = [Fraction(0)] * n
    for a, rows in members.items():
        if mode == "square" or (mode == "zeroagg" and rng.random() < 0.5):
            vals = square_vec(rng, len(rows))
        else:
            vals = [Fraction(rng.randint(-6, 6), rng.choice([1, 1, 2, 4])) for _ in rows]
            if all(v == 0 for v in vals) and rows: vals[rng.randrange(len(rows))] = Fraction(rng.choice([1, -2, 3]))
        for r, v in zip(rows, vals): B[r] = v
    if mode == "zeroagg" and members:
        a = rng.choice(sorted(members))
        for r in members[a]: B[r] = Fraction(0)
    return B


def rand_A_triples(rng, n, allow_dups):
    """square matrix as (i,j,v) triples; diagonal mostly present, non-symmetric, some empty rows / zero row sums"""
    trip = []
    if n == 0: return trip
    dens = rng.choice([0.2, 0.35, 0.5, 0.8])
    for i in range(n):
        if rng.random() < 0.08: continue                      # empty row: row_sum == 0 branch
        for j in range(n):
            p = 0.85 if i == j else dens
            if rng.random() < p:
                v = Fraction(rng.choice([-4, -3, -2, -1, -1, 1, 2, 3, 4, 6]), rng.choice([1, 1, 1, 2, 4]))
                trip.append((i, j, v))
    if allow_dups and trip:
        for _ in range(rng.randint(0, 3)):
            i, j, v = rng.choice(trip)
            trip.append((i, j, rng.choice([v, -v, Fraction(1), Fraction(0)])))
    if rng.random() < 0.3: rng.shuffle(trip)
    return trip


def has_dups(trip):
    pos = [(i, j) for i, j, _ in trip]
    return len(pos) != len(set(pos))


# ---------------------------------------------------------------- sequential cases
def gen_seq(ctx, k):
    rng = ctx.rng
    r = rng.random()
    n = 0 if r < 0.03 else (1 if r < 0.08 else rng.randint(2, 9))
    if n == 0: na = rng.choice([0, 0, 2])
    else: na = rng.choice([1, n, rng.randint(1, n), rng.randint(1, n), rng.randint(1, n + 1)])
    style = rng.random()
    if n and style < 0.15: agg = list(range(n)); na = max(na, n)               # all singletons
    elif n and style < 0.25: agg = [0] * n                                     # one aggregate
    else: agg = [rng.randrange(na) for _ in range(n)]
    members = {}
    for i, a in enumerate(agg): members.setdefault(a, []).append(i)
    mode = rng.choice(["square", "square", "square", "random", "random", "zeroagg"])
    B = rand_B(rng, members, n, mode)
    tol = TOL_TOK if rng.random() < 0.8 else rng.choice(["0", "1/2", "1", "2"])
    dups = rng.random() < 0.25
    trip = rand_A_triples(rng, n, dups)
    A = fw.mat_from_triples("csr", n, n, trip)
    omega = rng.choice(OMEGAS); ks = rng.choice([1, 1, 1, 2, 2, 0, 3])
    cid = "s%d" % k
    toks = [cid, "sa", str(n), str(na)] + [str(a) for a in agg] + [nums.tok_num(b) for b in B] + [tol] + \
        A.tokens() + [nums.tok_num(omega), str(ks)]
    return dict(cid=cid, kind="sa", n=n, na=na, agg=agg, B=B, tol=Fraction(tol), A=A, dups=has_dups(trip),
                omega=omega, k=ks, mode=mode, line=" ".join(toks))


def smooth_exact(n, trip, Tdense, ncols_keys, omega, k):
    """(I - omega D^-1 A)^k T over Fractions; D_i = sum_j |a_ij| (no duplicate positions), rows with D_i = 0 unscaled"""
    rows = {}
    for (i, j, v) in trip: rows.setdefault(i, []).append((j, v))
    P = dict(Tdense)
    for _ in range(k):
        Q = dict(P)
        bycol = {}
        for (l, c), v in P.items(): bycol.setdefault(l, []).append((c, v))
        for i, ents in rows.items():
            D = sum(abs(v) for _, v in ents)
            if D == 0: continue
            s = omega / D
            for (l, a) in ents:
                for (c, v) in bycol.get(l, []):
                    Q[(i, c)] = Q.get((i, c), Fraction(0)) - s * a * v
        P = Q
    return {k2: v for k2, v in P.items() if v != 0}


def close(a, b): return nums.close(a, b, RT, AT)


def check_tentative(ctx, sig, line, n, aggcol, Tdense, Rmap, B, zero_ok):
    """O oracle for the tentative prolongator. aggcol[i] = column of vertex i (or None), Rmap: column -> R."""
    for (i, c), v in Tdense.items():
        if isinstance(v, str):
            ctx.signal("O", sig + ":nonfinite", "T(%d,%d) = %s" % (i, c, v), case=line); return False
        if aggcol[i] != c and v != 0:
            ctx.signal("O", sig + ":support", "T(%d,%d) = %s but vertex %d belongs to aggregate %s" % (i, c, float(v), i, aggcol[i]), case=line); return False
    for c, rv in Rmap.items():
        if isinstance(rv, str):
            ctx.signal("O", sig + ":nonfinite", "R(%d) = %s" % (c, rv), case=line); return False
    # T R = B on aggregated vertices
    for i in range(n):
        if aggcol[i] is None: continue
        s = sum((v * Rmap.get(c, Fraction(0)) for (ii, c), v in Tdense.items() if ii == i), Fraction(0))
        if not close(s, B[i]):
            ctx.signal("O", sig + ":TR=B", "(T R)(%d) = %s, B(%d) = %s" % (i, float(s), i, float(B[i])), case=line); return False
    # orthonormal columns, R = norms
    cols = {}
    for (i, c), v in Tdense.items(): cols.setdefault(c, {})[i] = v
    allcols = set(Rmap) | set(cols)
    for c in allcols:
        rows = [i for i in range(n) if aggcol[i] == c]
        ss = sum((B[i] * B[i] for i in rows), Fraction(0))
        nn = sum((v * v for v in cols.get(c, {}).values()), Fraction(0))
        rv = Rmap.get(c)
        if rv is None:
            ctx.signal("O", sig + ":R", "no R entry for column %d" % c, case=line); return False
        if ss == 0:
            if not zero_ok: continue
            if nn != 0 or rv != 0:
                ctx.signal("O", sig + ":zerocol", "aggregate %d has zero candidate restriction but <T_c,T_c> = %s, R = %s" % (c, float(nn), float(rv)), case=line); return False
        else:
            if not close(nn, Fraction(1)):
                ctx.signal("O", sig + ":orthonormal", "<T_%d,T_%d> = %s, expected 1" % (c, c, float(nn)), case=line); return False
            if rv < 0 or not close(rv * rv, ss):
                ctx.signal("O", sig + ":R", "R(%d) = %s but the restriction has squared norm %s" % (c, float(rv), float(ss)), case=line); return False
    cl = sorted(cols)
    for x in range(len(cl)):
        for y in range(x + 1, len(cl)):
            d = sum((v * cols[cl[y]].get(i, Fraction(0)) for i, v in cols[cl[x]].items()), Fraction(0))
            if not close(d, Fraction(0)):
                ctx.signal("O", sig + ":orthogonal", "<T_%d,T_%d> = %s" % (cl[x], cl[y], float(d)), case=line); return False
    return True


def dense_of_triples(tr):
    d = {}
    for (i, j, v) in tr:
        if isinstance(v, str): d[(i, j)] = v; continue
        if isinstance(d.get((i, j)), str): continue
        d[(i, j)] = d.get((i, j), Fraction(0)) + v
    return d


def dense_close(d1, d2):
    for k in set(d1) | set(d2):
        x, y = d1.get(k, Fraction(0)), d2.get(k, Fraction(0))
        if not close(x, y): return False, "entry %s: %s vs %s" % (k, x if isinstance(x, str) else float(x), y if isinstance(y, str) else float(y))
    return True, ""


def judge_seq(ctx, c, impl, model):
    cid, line = c["cid"], c["line"]
    ctx.evaluations += 1
    ctx.count("seq"); ctx.count("seq_k%d" % c["k"]); ctx.count("seq_B_" + c["mode"]); ctx.count("omega_%s" % c["omega"])
    if c["n"] == 0: ctx.count("seq_empty")
    if c["dups"]: ctx.count("seq_A_dups")
    if c["tol"] >= 1: ctx.count("seq_tol>=1")
    if len(set(c["agg"])) < c["na"]: ctx.count("seq_empty_aggregate")
    if any(c["agg"].count(a) == 1 for a in set(c["agg"])): ctx.count("seq_singleton")
    if c["n"] > 1 and c["A"].nnz: ctx.nontrivial.add(line.split(" ", 1)[1])
    ctx.sample(line)
    sig = "seq"
    ri = dict((k, v) for k, v in (impl.get(cid) or []))
    rm = dict((k, v) for k, v in (model.get(cid) or []))
    if "T" not in ri or "R" not in ri or "P" not in ri:
        ctx.signal("O", sig + ":crash", "implementation failed on case: %s" % (impl.get(cid),), case=line); return
    Ti = fw.parse_mat_tokens(ri["T"]); Ri = [nums.parse_num(x) for x in ri["R"]]; Pi = fw.parse_mat_tokens(ri["P"])
    n, na, agg, B = c["n"], c["na"], c["agg"], c["B"]
    # ---- O
    ok = True
    if (Ti.nr, Ti.nc) != (n, na) or len(Ri) != na or (Pi.nr, Pi.nc) != (n, na):
        ctx.signal("O", sig + ":dims", "T %dx%d, R %d, P %dx%d for n=%d n_aggs=%d" % (Ti.nr, Ti.nc, len(Ri), Pi.nr, Pi.nc, n, na), case=line); ok = False
    Td = dense_of_triples(Ti.triples())
    if ok and c["tol"] < 1:
        ok = check_tentative(ctx, sig, line, n, list(agg), Td, dict(enumerate(Ri)), B, zero_ok=True)
    if ok and not c["dups"] and not any(isinstance(v, str) for v in Td.values()):
        exp = smooth_exact(n, c["A"].triples(), {k: v for k, v in Td.items() if v != 0}, None, c["omega"], c["k"])
        eq, why = dense_close(dense_of_triples(Pi.triples()), exp)
        if not eq:
            ctx.signal("O", sig + ":smooth", "P != (I - omega D^-1 A)^%d T (omega=%s): %s" % (c["k"], c["omega"], why), case=line)
        pos = [(t[0], t[1]) for t in Pi.triples()]
        if len(pos) != len(set(pos)):
            ctx.signal("O", sig + ":smooth_dups", "P stores a position twice", case=line)
    # ---- K
    if "T" not in rm or "R" not in rm or "P" not in rm:
        ctx.signal("K", sig + ":model", "model produced no result: %s" % (model.get(cid),), case=line); return
    Tm = fw.parse_mat_tokens(rm["T"]); Rm = [nums.parse_num(x) for x in rm["R"]]; Pm = fw.parse_mat_tokens(rm["P"])
    ctx.compared += 1
    eq, why = fw.mats_equal_canonical(Ti, Tm, RT, AT)
    if not eq:
        ctx.signal("K", sig + ":T", "tentative prolongator differs: " + why, case=line, extra=dict(impl=" ".join(ri["T"]), model=" ".join(rm["T"]))); return
    if len(Ri) != len(Rm) or not all(close(x, y) for x, y in zip(Ri, Rm)):
        ctx.signal("K", sig + ":R", "R differs: %s vs %s" % (ri["R"], rm["R"]), case=line); return
    eq, why = dense_close(dense_of_triples(Pi.triples()), dense_of_triples(Pm.triples()))
    if eq and (Pi.nr, Pi.nc) != (Pm.nr, Pm.nc): eq, why = False, "dims"
    if not eq:
        ctx.signal("K", sig + ":P", "smoothed prolongator differs: " + why, case=line, extra=dict(impl=" ".join(ri["P"]), model=" ".join(rm["P"])))


# ---------------------------------------------------------------- distributed cases
def rand_partition(rng, n, P):
    r = rng.random()
    if r < 0.35:
        cuts = sorted(rng.randint(0, n) for _ in range(P - 1))
    elif r < 0.5 and P > 1:
        cuts = sorted([rng.choice([0, n])] + [rng.randint(0, n) for _ in range(P - 2)])    # empty first/last rank
    else:
        base = [n * (i + 1) // P for i in range(P - 1)]; cuts = sorted(base)
    return [0] + cuts + [n]


def gen_par(ctx, k, P):
    rng = ctx.rng
    n = rng.choice([1, 2, rng.randint(3, 10), rng.randint(3, 10), rng.randint(4, 12)])
    first = rand_partition(rng, n, P)
    # aggregation: roots keep their own id; others join any root (possibly on another rank) or stay isolated
    nroots = rng.choice([1, rng.randint(1, n), rng.randint(1, max(1, n // 2)), n if rng.random() < 0.3 else max(1, n // 3)])
    if rng.random() < 0.04: nroots = 0
    roots = sorted(rng.sample(range(n), min(nroots, n)))
    agg = []
    iso_p = rng.choice([0, 0, 0.15, 0.3])
    for i in range(n):
        if i in roots: agg.append(i)
        elif not roots or rng.random() < iso_p: agg.append(-1)
        else:
            if rng.random() < 0.5:   # prefer a near root (typical aggregation), else any root (spans processes)
                agg.append(min(roots, key=lambda r: (abs(r - i), r)))
            else: agg.append(rng.choice(roots))
    members = {}
    for i, a in enumerate(agg):
        if a >= 0: members.setdefault(a, []).append(i)
    mode = rng.choice(["square", "square", "random"])
    B = rand_B(rng, members, n, mode)
    for i in range(n):
        if agg[i] < 0: B[i] = Fraction(rng.randint(-3, 3))
    trip = rand_A_triples(rng, n, False)
    if P > 1 and rng.random() < 0.35:
        agg, B, trip = force_dropped_column(rng, n, P, first, roots, agg, B, trip)
    omega = rng.choice(OMEGAS); ks = rng.choice([1, 1, 1, 2, 2, 0])
    return dict(kind="psa", n=n, P=P, first=first, agg=agg, B=B, trip=trip, omega=omega, k=ks, mode=mode, roots=roots)


def force_dropped_column(rng, n, P, first, roots, agg, B, trip):
    """Regression class for the off_proc_column_map compaction in ParCSRMatrix::subtract: a rank whose only vertex of an
       off-process aggregate c has B = 0 (explicit zero in T) and no coupling to c, while a larger off-process column k
       stays in use -> column c disappears from the rank's P and k must keep its global id."""
    agg, B = list(agg), list(B)
    for r in rng.sample(range(P), P):
        lo, hi = first[r], first[r + 1]
        off = [c for c in roots if not lo <= c < hi]
        loc = [i for i in range(lo, hi) if i not in roots]
        if len(off) < 2 or len(loc) < 2: continue
        c, k = sorted(rng.sample(off, 2))
        i, j = rng.sample(loc, 2)
        for l in range(lo, hi):
            if agg[l] == c: agg[l] = k
        agg[i], agg[j] = c, k
        B[i] = Fraction(0)
        if B[j] == 0: B[j] = Fraction(rng.choice([1, -2, 3]))
        if B[c] == 0: B[c] = Fraction(rng.choice([1, 2, -3]))
        trip = [(a, b, v) for (a, b, v) in trip if not (lo <= a < hi and agg[b] == c)]
        break
    for rt in roots:          # keep the restriction to every aggregate non-zero
        if all(B[l] == 0 for l in range(n) if agg[l] == rt): B[rt] = Fraction(rng.choice([1, 2, -3]))
    return agg, B, trip


def par_line(c, cid, tap):
    n, P = c["n"], c["P"]
    toks = [cid, "psa", str(n), str(n), str(P)] + [str(x) for x in c["first"]] + [str(x) for x in c["first"]] + [str(len(c["trip"]))]
    for (i, j, v) in c["trip"]: toks += [str(i), str(j), nums.tok_num(v)]
    toks += [str(a) for a in c["agg"]] + [nums.tok_num(b) for b in c["B"]] + [nums.tok_num(c["omega"]), str(c["k"]), str(tap)]
    return " ".join(toks)


KEYS = ("NAGG", "TON", "TOFF", "R", "T", "P", "PDIM", "SEQT", "SEQR", "SEQP")

def parse_psa(tokens):
    """tokens after 'PSA' -> list per rank of dict key -> token list"""
    ranks = []; cur = None; key = None
    for t in tokens:
        if t.startswith("@"):
            cur = {}; ranks.append(cur); key = None
        elif t in KEYS and cur is not None:
            key = t; cur[key] = []
        elif cur is not None and key is not None:
            cur[key].append(t)
    return ranks


def triples_of(tokens):
    out = []
    for x in range(0, len(tokens) - 2, 3):
        out.append((int(tokens[x]), int(tokens[x + 1]), nums.parse_num(tokens[x + 2])))
    return out


def colmap_signature(first, P, got, exp):
    """True when, rank by rank, `got` equals `exp` after an order-preserving renumbering of the off-process
       columns that the rank uses (on-process columns and all values agree) and at least one rank is renumbered."""
    renumbered = False
    for r in range(P):
        lo, hi = first[r], first[r + 1]
        g = {k: v for k, v in got.items() if lo <= k[0] < hi and not (not isinstance(v, str) and v == 0)}
        e = {k: v for k, v in exp.items() if lo <= k[0] < hi}
        eq, _ = dense_close(g, e)
        if eq: continue
        gc = sorted(set(j for (_, j) in g if not lo <= j < hi)); ec = sorted(set(j for (_, j) in e if not lo <= j < hi))
        if len(gc) != len(ec): return False
        m = dict(zip(gc, ec))
        g2 = {(i, m.get(j, j)): v for (i, j), v in g.items()}
        if len(g2) != len(g): return False
        eq, _ = dense_close(g2, e)
        if not eq: return False
        renumbered = True
    return renumbered


def judge_par(ctx, c, impl, model):
    cid, line = c["cid"], c["line"]
    n, P, first, agg, B = c["n"], c["P"], c["first"], c["agg"], c["B"]
    ctx.evaluations += 1
    ctx.count("par_P%d" % P); ctx.count("par_tap%d" % c["tap"]); ctx.count("par_k%d" % c["k"]); ctx.count("omega_%s" % c["omega"])
    sizes = [first[r + 1] - first[r] for r in range(P)]
    own = lambda i: next(r for r in range(P) if first[r] <= i < first[r + 1])
    if any(s == 0 for s in sizes): ctx.count("par_empty_rank")
    if any(a < 0 for a in agg): ctx.count("par_isolated")
    if any(a >= 0 and own(a) != own(i) for i, a in enumerate(agg)): ctx.count("par_cross_rank_aggregate")
    if not c["roots"]: ctx.count("par_no_aggregates")
    for r in range(P):      # an off-process column of T that the rank's smoothed rows do not use, below one they do use
        lo, hi = first[r], first[r + 1]
        tcols = set(agg[i] for i in range(lo, hi) if agg[i] >= 0 and not lo <= agg[i] < hi)
        if c["k"] >= 1 and len(tcols) >= 2:
            Tex = {(i, a): B[i] for i, a in enumerate(agg) if a >= 0 and B[i] != 0}
            used = set(j for (i, j) in smooth_exact(n, c["trip"], Tex, None, c["omega"], 1) if lo <= i < hi)
            if any(d not in used and any(k2 in used and k2 > d for k2 in tcols) for d in tcols):
                ctx.count("par_dropped_offproc_column"); break
    if n > 1 and c["trip"]: ctx.nontrivial.add(line.split(" ", 1)[1].rsplit(" ", 1)[0])
    ctx.sample(line)
    sig = "par" + (":tap" if c["tap"] else "")
    ri = dict((k, v) for k, v in (impl.get(cid) or []))
    rm = dict((k, v) for k, v in (model.get(cid) or []))
    if "PSA" not in ri:
        ctx.signal("O", sig + ":crash", "implementation failed on case: %s" % (impl.get(cid),), case=line); return
    R_i = parse_psa(ri["PSA"])
    if len(R_i) != P:
        ctx.signal("O", sig + ":crash", "output of %d ranks, expected %d" % (len(R_i), P), case=line); return
    # ---- O on the gathered output
    Ttr, Ptr, Rmap = [], [], {}
    ok = True
    for r, d in enumerate(R_i):
        ton = [int(x) for x in d.get("TON", [])]; rv = [nums.parse_num(x) for x in d.get("R", [])]
        if len(ton) != len(rv):
            ctx.signal("O", sig + ":R", "rank %d: %d on-process columns but %d entries of R" % (r, len(ton), len(rv)), case=line); ok = False; break
        for cc, v in zip(ton, rv): Rmap[cc] = v
        tr = triples_of(d.get("T", [])); pr = triples_of(d.get("P", []))
        if any(not (first[r] <= i < first[r + 1]) for i, _, _ in tr + pr):
            ctx.signal("O", sig + ":rows", "rank %d holds a row it does not own" % r, case=line); ok = False; break
        Ttr += tr; Ptr += pr
        pd = [int(x) for x in d.get("PDIM", [])]
        if pd and (pd[0] != n or pd[2] != sizes[r]):
            ctx.signal("O", sig + ":dims", "rank %d: P is %s" % (r, pd), case=line); ok = False; break
    if ok:
        Td = dense_of_triples(Ttr)
        aggcol = [a if a >= 0 else None for a in agg]
        if sorted(Rmap) != sorted(set(c["roots"])):
            ctx.signal("O", sig + ":columns", "columns of T %s, aggregates %s" % (sorted(Rmap), c["roots"]), case=line); ok = False
    if ok:
        ok = check_tentative(ctx, sig, line, n, aggcol, Td, Rmap, B, zero_ok=False)
    if ok and not any(isinstance(v, str) for v in Td.values()):
        exp = smooth_exact(n, c["trip"], {k: v for k, v in Td.items() if v != 0}, None, c["omega"], c["k"])
        eq, why = dense_close(dense_of_triples(Ptr), exp)
        if not eq:
            if colmap_signature(first, P, dense_of_triples(Ptr), exp):
                c["colmap"] = True
                ctx.signal("O", sig + ":smooth:offproc_colmap", "gathered P != (I - omega D^-1 A)^%d T (omega=%s): %s; equal after renumbering "
                           "the off-process columns of one rank (ParCSRMatrix::subtract truncates off_proc_column_map instead of compacting it)"
                           % (c["k"], c["omega"], why), case=line)
            else:
                ctx.signal("O", sig + ":smooth", "gathered P != (I - omega D^-1 A)^%d T (omega=%s): %s" % (c["k"], c["omega"], why), case=line)
    # ---- O: gathered distributed result = sequential result (renumbered aggregates; only without isolated vertices)
    seq = c.get("seqres")
    if ok and seq is not None and not c.get("colmap"):
        ren = {r: x for x, r in enumerate(c["roots"])}
        Ts, Rs, Ps = seq
        eq, why = dense_close({(i, ren[j]): v for (i, j), v in Td.items()}, dense_of_triples(Ts.triples()))
        if eq: eq, why = dense_close({(i, ren[j]): v for (i, j), v in dense_of_triples(Ptr).items()}, dense_of_triples(Ps.triples()))
        if eq and not all(close(Rmap[r], Rs[x]) for r, x in ren.items()): eq, why = False, "R"
        if not eq:
            ctx.signal("O", sig + ":par_vs_seq", "gathered distributed result differs from the sequential one: " + why, case=line)
    # ---- K
    if "PSA" not in rm:
        ctx.signal("K", sig + ":model", "model produced no result: %s" % (model.get(cid),), case=line); return
    R_m = parse_psa(rm["PSA"])
    ctx.compared += 1
    for r in range(P):
        di, dm = R_i[r], R_m[r]
        for key in ("NAGG", "TON", "TOFF"):
            if di.get(key, []) != dm.get(key, []):
                ctx.signal("K", sig + ":" + key, "rank %d: %s %s vs model %s" % (r, key, di.get(key), dm.get(key)), case=line); return
        if not fw.toks_equal(di.get("R", []), dm.get("R", []), RT, AT):
            ctx.signal("K", sig + ":R", "rank %d: R %s vs model %s" % (r, di.get("R"), dm.get("R")), case=line); return
        ti, tm = sorted(triples_of(di.get("T", [])), key=lambda t: t[:2]), sorted(triples_of(dm.get("T", [])), key=lambda t: t[:2])
        if [t[:2] for t in ti] != [t[:2] for t in tm] or not all(close(x[2], y[2]) for x, y in zip(ti, tm)):
            ctx.signal("K", sig + ":T", "rank %d: T differs: %s vs model %s" % (r, di.get("T"), dm.get("T")), case=line); return
        if c.get("colmap"): ctx.count("par_K_P_folded_into_colmap_finding"); continue
        eq, why = dense_close(dense_of_triples(triples_of(di.get("P", []))), dense_of_triples(triples_of(dm.get("P", []))))
        if not eq:
            ctx.signal("K", sig + ":P", "rank %d: P differs: %s" % (r, why), case=line); return


def seq_companion(c, cid):
    """sequential case on the same global data (aggregates renumbered by sorted root), when nothing is isolated"""
    if any(a < 0 for a in c["agg"]) or not c["roots"]: return None
    ren = {r: x for x, r in enumerate(c["roots"])}
    A = fw.mat_from_triples("csr", c["n"], c["n"], c["trip"])
    toks = [cid, "sa", str(c["n"]), str(len(c["roots"]))] + [str(ren[a]) for a in c["agg"]] + \
        [nums.tok_num(b) for b in c["B"]] + [TOL_TOK] + A.tokens() + [nums.tok_num(c["omega"]), str(c["k"])]
    return " ".join(toks)


def run(ctx):
    ctx.rule = ("sequential: random aggregations (singletons, one aggregate, empty aggregates, n = 0/1), candidates with "
                "perfect-square / random / vanishing restrictions, tol in {1e-10, 0, 1/2, 1, 2}, random non-symmetric A "
                "(duplicates, empty rows), omega in {1/2,1,5/4,3/2}, k in 0..3; distributed: P in 1..4, explicit partitions "
                "incl. empty ranks, aggregates spanning ranks, isolated vertices, tap off/on; non-trivial = n > 1 and A has "
                "entries; distinct = distinct case text")
    rng = ctx.rng
    if ctx.replay:
        seq_cases, par_cases = [], []
        for l in ctx.replay:
            c = case_from_line(l)
            (seq_cases if c["kind"] == "sa" else par_cases).append(c)
    else:
        seq_cases = [gen_seq(ctx, k) for k in range(ctx.scale(400, 6000))]
        par_cases = []
        npar = ctx.scale(70, 1000)
        k = 0
        for P in (1, 2, 3, 4):
            for _ in range(npar):
                c = gen_par(ctx, k, P)
                for tap in ((0, 1) if rng.random() < 0.5 else (0,)):
                    d = dict(c); d["tap"] = tap; d["cid"] = "p%d_%d" % (k, tap); d["line"] = par_line(c, d["cid"], tap)
                    par_cases.append(d)
                k += 1
    # sequential
    if seq_cases:
        lines = [c["line"] for c in seq_cases]
        cf = fw.write_cases(ctx, "c16seq.cases", lines)
        impl, crashed = fw.run_impl_lines(ctx, "drv_sa", lines, nprocs=0, name="c16seq")
        rcm, model, _, errm = fw.run_model(ctx, cf)
        if rcm != 0: ctx.signal("K", "modeldriver", "model driver exited with %s: %s" % (rcm, errm[-400:]))
        for c in seq_cases: judge_seq(ctx, c, impl, model)
    # distributed, one launch per (P, tap); PPN divides P for the node-aware runs
    for P in (1, 2, 3, 4):
        for tap in (0, 1):
            # one node, or several nodes (one rank per node / two per node)
            PPN = {P: ctx.rng.choice({1: ["1"], 2: ["2", "1"], 3: ["3", "1"], 4: ["2", "2", "1", "4"]}[P])}
            ctx.count("par_P%d_ppn%s" % (P, PPN[P]))
            cs = [c for c in par_cases if c["P"] == P and c["tap"] == tap]
            if not cs: continue
            lines = [c["line"] for c in cs]
            comp = {}
            for c in cs:
                sl = seq_companion(c, c["cid"] + "s")
                if sl: comp[c["cid"]] = sl
            cf = fw.write_cases(ctx, "c16par%d_%d.cases" % (P, tap), lines)
            impl, crashed = fw.run_impl_lines(ctx, "drv_sa", lines, nprocs=P, env={"PPN": PPN[P]}, name="c16par%d_%d" % (P, tap), timeout=600)
            rcm, model, _, errm = fw.run_model(ctx, cf)
            if rcm != 0: ctx.signal("K", "modeldriver", "model driver exited with %s: %s" % (rcm, errm[-400:]))
            if comp:
                simpl, _ = fw.run_impl_lines(ctx, "drv_sa", list(comp.values()), nprocs=0, name="c16cmp%d_%d" % (P, tap))
                for c in cs:
                    if c["cid"] in comp:
                        rs = dict((k, v) for k, v in (simpl.get(c["cid"] + "s") or []))
                        if "T" in rs and "R" in rs and "P" in rs:
                            c["seqres"] = (fw.parse_mat_tokens(rs["T"]), [nums.parse_num(x) for x in rs["R"]], fw.parse_mat_tokens(rs["P"]))
                            ctx.count("par_vs_seq_compared")
            for c in cs: judge_par(ctx, c, impl, model)


def case_from_line(line):
    """rebuild a case from its text (replay)"""
    t = line.split(); cid, kind = t[0], t[1]
    if kind == "sa":
        n, na = int(t[2]), int(t[3]); p = 4
        agg = [int(x) for x in t[p:p + n]]; p += n
        B = [nums.parse_num(x) for x in t[p:p + n]]; p += n
        tol = t[p]; p += 1
        fmt, nr, nc, nnz = t[p], int(t[p + 1]), int(t[p + 2]), int(t[p + 3]); p += 4
        i1 = [int(x) for x in t[p:p + nr + 1]]; p += nr + 1
        i2 = [int(x) for x in t[p:p + nnz]]; p += nnz
        v = [nums.parse_num(x) for x in t[p:p + nnz]]; p += nnz
        A = fw.Mat(fmt, nr, nc, i1, i2, v)
        return dict(cid=cid, kind="sa", n=n, na=na, agg=agg, B=B, tol=Fraction(tol), A=A, dups=has_dups(A.triples()),
                    omega=nums.parse_num(t[p]), k=int(t[p + 1]), mode="replay", line=line)
    n, P = int(t[2]), int(t[4]); p = 5
    first = [int(x) for x in t[p:p + P + 1]]; p += 2 * (P + 1)
    nnz = int(t[p]); p += 1
    trip = [(int(t[p + 3 * x]), int(t[p + 3 * x + 1]), nums.parse_num(t[p + 3 * x + 2])) for x in range(nnz)]; p += 3 * nnz
    agg = [int(x) for x in t[p:p + n]]; p += n
    B = [nums.parse_num(x) for x in t[p:p + n]]; p += n
    return dict(cid=cid, kind="psa", n=n, P=P, first=first, agg=agg, B=B, trip=trip, omega=nums.parse_num(t[p]),
                k=int(t[p + 1]), tap=int(t[p + 2]), mode="replay", roots=sorted(set(a for a in agg if a >= 0)), line=line)
