"""C06 — sparse matrix products are exact: C = A B, C = A^T B and the Galerkin product P^T (A P),
sequentially (all format combinations of Matrix::mult / mult_T, optional renumbering argument) and distributed
(ParCSRMatrix::mult / mult_T with ParCSC and ParCSR argument, standard and topology-aware communication)."""
from fractions import Fraction
import framework as fw, gen, nums

ID = "C06"
FAMILY = "spgemm"
OCAML_SRCS = ("conv.ml", "mat.ml", "drv_spgemm.ml")
ASSUMPTIONS = [
    "C03 (row exchange delivers exactly the owners' rows; the reverse row exchange delivers, up to order, the rows sent "
    "back) is a hypothesis of the distributed theorems (Section variables fetch / fetchT); the distributed tie runs the real exchange",
    "distributed model writes every local block with global row/column ids; the local renumbering tables are tied by the "
    "drivers (blocks are printed through on_proc_column_map / off_proc_column_map / local_row_map), not proved",
    "zero_tol drops: exact equality with the true product is proved under the explicit hypothesis that no partial sum is "
    "small but non-zero (always true for integer data); otherwise each dropped partial sum is within zero_tol",
]
ZERO_TOL = Fraction(1, 10 ** 16)

# ----------------------------------------------------------------------------------------------------------------
# generators
# ----------------------------------------------------------------------------------------------------------------
def rval(rng, mode):
    if mode == "pm1": return Fraction(rng.choice([1, -1]))
    if mode == "int": return Fraction(rng.choice([-3, -2, -1, 1, 2, 3, 4]))
    return Fraction(rng.randint(-12, 12) or 1, rng.choice([1, 2, 4]))

def seq_triples(rng, nr, nc, mode):
    """unsorted triples with duplicates, explicit zeros, cancelling duplicates; density from empty to full"""
    if nr == 0 or nc == 0: return []
    cap = nr * nc
    k = rng.choice([0, 1, rng.randint(0, cap), rng.randint(cap // 2, cap), rng.randint(0, max(1, cap // 3))])
    pos = rng.sample([(i, j) for i in range(nr) for j in range(nc)], min(k, cap))
    trip = [(i, j, rval(rng, mode)) for (i, j) in pos]
    for _ in range(rng.choice([0, 0, 1, 2])):                      # duplicates (some cancelling)
        if trip:
            i, j, v = rng.choice(trip); trip.append((i, j, -v if rng.random() < 0.4 else rval(rng, mode)))
    for _ in range(rng.choice([0, 0, 0, 1, 2])):                   # explicit zeros
        trip.append((rng.randrange(nr), rng.randrange(nc), Fraction(0)))
    rng.shuffle(trip)
    return trip

def dim(rng, lo=0, hi=6):
    r = rng.random()
    if r < 0.05: return lo
    if r < 0.15: return 1
    return rng.randint(max(lo, 1), hi)

def seq_mat(rng, nr, nc, mode, fmt=None):
    return fw.mat_from_triples(fmt or rng.choice(["coo", "csr", "csc"]), nr, nc, seq_triples(rng, nr, nc, mode))

def gen_seq(ctx, n):
    rng = ctx.rng; cases = []
    for k in range(n):
        cid = "s%d" % k
        mode = rng.choice(["pm1", "pm1", "int", "dyadic"])
        kind = rng.choice(["spgemm", "spgemm", "spgemm_T", "spgemm_T", "galerkin"])
        if kind == "galerkin":
            nf = dim(rng, 1, 6); ncs = dim(rng, 0, nf)
            A = seq_mat(rng, nf, nf, mode); P = seq_mat(rng, nf, ncs, mode)
            cases.append(dict(cid=cid, kind=kind, A=A, B=P, map=None, mode=mode,
                              line=" ".join([cid, kind] + A.tokens() + P.tokens())))
            continue
        n1, n2, n3 = dim(rng), dim(rng), dim(rng)
        if kind == "spgemm": A = seq_mat(rng, n1, n2, mode); B = seq_mat(rng, n2, n3, mode)
        else: A = seq_mat(rng, n2, n1, mode); B = seq_mat(rng, n2, n3, mode)          # C = A^T B
        mp = None
        if rng.random() < 0.3:
            r = rng.random()
            if r < 0.4: mp = list(range(n3)); rng.shuffle(mp)                       # permutation
            elif r < 0.7: mp = [rng.randrange(max(1, n3)) for _ in range(n3)]       # arbitrary (may merge columns)
            else: mp = [(c + 1) % max(1, n3) for c in range(n3)]
        mtok = ["-1"] if mp is None else [str(len(mp))] + [str(c) for c in mp]
        cases.append(dict(cid=cid, kind=kind, A=A, B=B, map=mp, mode=mode,
                          line=" ".join([cid, kind] + A.tokens() + B.tokens() + mtok)))
    return cases

def rand_partition(rng, n, P):
    """contiguous blocks, empty blocks on purpose"""
    r = rng.random()
    if r < 0.25:                                   # raptor's default shape
        a, e = divmod(n, P); sizes = [a + (1 if i < e else 0) for i in range(P)]
    else:
        cuts = sorted(rng.randint(0, n) for _ in range(P - 1))
        if r < 0.45 and P > 1:                     # force an empty rank somewhere
            j = rng.randrange(P - 1); cuts[j] = cuts[j - 1] if j > 0 else 0; cuts.sort()
        b = [0] + cuts + [n]; sizes = [b[i + 1] - b[i] for i in range(P)]
    firsts = [0]
    for s in sizes: firsts.append(firsts[-1] + s)
    return firsts

def par_triples(rng, nr, nc, mode):
    """distinct positions, sorted by (row, col); explicit zeros allowed"""
    if nr == 0 or nc == 0: return []
    cap = nr * nc
    k = rng.choice([0, 1, rng.randint(0, cap), rng.randint(cap // 3, cap), rng.randint(0, max(1, cap // 3))])
    pos = sorted(rng.sample([(i, j) for i in range(nr) for j in range(nc)], min(k, cap)))
    return [(i, j, Fraction(0) if rng.random() < 0.04 else rval(rng, mode)) for (i, j) in pos]

class PLit:
    def __init__(self, nr, nc, P, frow, fcol, trip):
        self.nr, self.nc, self.P, self.frow, self.fcol, self.trip = nr, nc, P, frow, fcol, trip
    def tokens(self):
        t = [str(self.nr), str(self.nc), str(self.P)] + [str(x) for x in self.frow] + [str(x) for x in self.fcol]
        t.append(str(len(self.trip)))
        for (i, j, v) in self.trip: t += [str(i), str(j), nums.tok_num(v)]
        return t
    def dense(self):
        return {(i, j): v for (i, j, v) in self.trip if v != 0}

def sub_partition(rng, parent):
    """blocks no larger than the parent's blocks (a coarse grid inside each rank's fine rows); total >= 1 if possible"""
    P = len(parent) - 1
    sizes = [rng.randint(0, parent[r + 1] - parent[r]) for r in range(P)]
    if sum(sizes) == 0:
        cand = [r for r in range(P) if parent[r + 1] > parent[r]]
        if cand: sizes[rng.choice(cand)] = 1
    firsts = [0]
    for z in sizes: firsts.append(firsts[-1] + z)
    return firsts

def triggers(c):
    """classes tied to the two defects found while building this check:
       wide  = some rank owns more rows of C = A^T B than rows of the factors (mult_T / Galerkin): before the fix of
               CSRMatrix::add_append the row pointer array of C overflowed; kept in the normal batch as regression
       split = init_matrix() takes the collective Partition(A,B) branch on some ranks only (mult): deadlock (open finding)"""
    A, B, P = c["A"], c["B"], c["P"]; out = set()
    blk = lambda f, r: (f[r + 1] - f[r], f[r], f[r + 1] - 1)
    if c["kind"] in ("pmult_T", "pgalerkin"):
        pm = A.fcol if c["kind"] == "pmult_T" else B.fcol          # rows of C
        pk = A.frow                                                # rows of the factors
        if any(pm[r + 1] - pm[r] > pk[r + 1] - pk[r] for r in range(P)): out.add("wide")
    if c["kind"] in ("pmult", "pgalerkin"):
        br = []
        for r in range(P):
            rowsame = A.nr == B.nr and blk(A.frow, r) == blk(B.frow, r)
            colsame = A.nc == B.nc and blk(A.fcol, r) == blk(B.fcol, r)
            br.append("B" if rowsame else "A" if colsame else "AB")
        if "AB" in br and len(set(br)) > 1: out.add("split")
    return out

def gen_par_one(rng, cid, P):
    mode = rng.choice(["pm1", "pm1", "int", "dyadic"])
    kind = rng.choice(["pmult", "pmult", "pmult_T", "pmult_T", "pgalerkin"])
    # topology-aware runs only on process grids raptor's TAPComm supports: full nodes (P % PPN == 0) or a single node
    ppns = [q for q in (2, 3, 4, 8) if P % q == 0 or q >= P]
    tap = rng.choice([0, 0] + ppns[:2] + [rng.choice(ppns)])
    form = rng.choice(["csc", "csr"])
    hi = rng.choice([3, 6, 9])
    if P in (4, 6, 8) and rng.random() < 0.35:
        # several nodes of two ranks and larger dense factors: ranks of one node contribute partial rows with common columns to
        # the same remote row (the node-aware matrix exchange has to merge them)
        tap = 2; hi = rng.choice([10, 14, 18]); kind = rng.choice(["pmult_T", "pmult_T", "pgalerkin", "pmult"])
    if kind == "pgalerkin":
        nf = rng.randint(1, hi)
        pa = rand_partition(rng, nf, P)
        if rng.random() < 0.6: pc = sub_partition(rng, pa); ncs = pc[-1]
        else: ncs = rng.randint(1, nf); pc = rand_partition(rng, ncs, P)
        A = PLit(nf, nf, P, pa, pa, par_triples(rng, nf, nf, mode))
        B = PLit(nf, ncs, P, pa, pc, par_triples(rng, nf, ncs, mode))
    elif kind == "pmult":        # A n1 x n2 (rows p1, cols p2), B n2 x n3 (rows p2, cols p3)
        n1, n2, n3 = rng.randint(1, hi), rng.randint(1, hi), rng.randint(1, hi)
        p1, p2, p3 = rand_partition(rng, n1, P), rand_partition(rng, n2, P), rand_partition(rng, n3, P)
        A = PLit(n1, n2, P, p1, p2, par_triples(rng, n1, n2, mode))
        B = PLit(n2, n3, P, p2, p3, par_triples(rng, n2, n3, mode))
    else:                        # C = A^T B: A n2 x n1 (rows p2, cols p1), B n2 x n3 (rows p2, cols p3)
        n2, n3 = rng.randint(1, hi), rng.randint(1, hi)
        p2, p3 = rand_partition(rng, n2, P), rand_partition(rng, n3, P)
        if rng.random() < 0.4: p1 = sub_partition(rng, p2); n1 = p1[-1]
        else: n1 = rng.randint(1, hi); p1 = rand_partition(rng, n1, P)
        A = PLit(n2, n1, P, p2, p1, par_triples(rng, n2, n1, mode))
        B = PLit(n2, n3, P, p2, p3, par_triples(rng, n2, n3, mode))
    c = dict(cid=cid, kind=kind, A=A, B=B, tap=tap, form=form, P=P, mode=mode,
             line=" ".join([cid, kind, str(tap), form] + A.tokens() + B.tokens()))
    c["trig"] = triggers(c)
    return c

def gen_par(ctx, n, P, n_trig):
    """n cases for the normal batch (the 'wide' class included: regression for the fixed add_append overflow) + up to
       n_trig cases of the 'split' class (open finding: init_matrix deadlock), which run in separate short launches"""
    rng = ctx.rng; bulk = []; pool = []; k = 0
    while len(bulk) < n and k < 50 * n + 100:
        c = gen_par_one(rng, "p%d_%d" % (P, k), P); k += 1
        if "split" not in c["trig"]: bulk.append(c)
        elif len(pool) < n_trig: pool.append(c)
    return bulk, pool

# ----------------------------------------------------------------------------------------------------------------
# reference (the property's own observable): exact dense products
# ----------------------------------------------------------------------------------------------------------------
def dmul(da, db):
    by_row = {}
    for (k, j), v in db.items(): by_row.setdefault(k, []).append((j, v))
    out = {}
    for (i, k), a in da.items():
        for (j, b) in by_row.get(k, ()):
            out[(i, j)] = out.get((i, j), Fraction(0)) + a * b
    return out
def dtrans(d): return {(j, i): v for (i, j), v in d.items()}
def dclean(d): return {k: v for k, v in d.items() if v != 0}

def small_partial_possible(*ds):
    """a non-zero value of magnitude <= zero_tol somewhere: never for the generated integer / dyadic data"""
    return any(v != 0 and abs(v) <= ZERO_TOL for d in ds for v in d.values())

# ----------------------------------------------------------------------------------------------------------------
# sequential judge
# ----------------------------------------------------------------------------------------------------------------
def arrays_equal(a, b):
    if (a.fmt, a.nr, a.nc) != (b.fmt, b.nr, b.nc): return False, "format/dims %s vs %s" % ((a.fmt, a.nr, a.nc), (b.fmt, b.nr, b.nc))
    if a.idx1 != b.idx1: return False, "row pointers %s vs %s" % (a.idx1, b.idx1)
    if a.idx2 != b.idx2: return False, "column indices (storage order) %s vs %s" % (a.idx2, b.idx2)
    for k, (x, y) in enumerate(zip(a.vals, b.vals)):
        if not nums.close(x, y): return False, "value %d: %s vs %s" % (k, x, y)
    return True, ""

def check_product_matrix(M, ref, nr, nc, injective):
    ok, why = fw.dense_equal(M.dense(), dclean(ref))
    if not ok: return False, "operator differs from the exact product: " + why
    if (M.nr, M.nc) != (nr, nc): return False, "dimensions %s, expected %s" % ((M.nr, M.nc), (nr, nc))
    if len(M.idx1) != nr + 1 or M.idx1[0] != 0 or M.idx1[-1] != M.nnz or any(M.idx1[i] > M.idx1[i + 1] for i in range(nr)):
        return False, "row pointer array malformed %s (nnz %d)" % (M.idx1, M.nnz)
    for i, l in enumerate(M.lines()):
        cols = [e[0] for e in l]
        if any(c < 0 or c >= max(nc, 1) for c in cols) and nc > 0: return False, "column out of range in row %d: %s" % (i, cols)
        if injective and len(cols) != len(set(cols)): return False, "duplicate column stored in row %d: %s" % (i, cols)
        if any((not isinstance(e[1], str)) and abs(e[1]) <= ZERO_TOL for e in l): return False, "small/zero value stored in row %d" % i
    return True, ""

def judge_seq(ctx, c, impl, model):
    cid = c["cid"]; ri = impl.get(cid) or []; rm = model.get(cid) or []
    A, B, mp = c["A"], c["B"], c["map"]
    ctx.evaluations += 1
    ctx.count("seq_" + c["kind"]); ctx.count("seq_fmt_%s_%s" % (A.fmt, B.fmt)); ctx.count("mode_" + c["mode"])
    if mp is not None: ctx.count("seq_with_map")
    if 0 in (A.nr, A.nc, B.nr, B.nc): ctx.count("seq_zero_dimension")
    if A.nr != A.nc or B.nr != B.nc: ctx.count("seq_rectangular")
    da, db = A.dense(), B.dense()
    if c["kind"] == "spgemm": ref = dmul(da, db); nr, nc = A.nr, B.nc
    elif c["kind"] == "spgemm_T": ref = dmul(dtrans(da), db); nr, nc = A.nc, B.nc
    else: ap = dmul(da, db); ref = dmul(dtrans(db), ap); nr, nc = B.nc, B.nc
    structural = set()
    if c["kind"] != "galerkin":
        ta = [(i, k) for (i, k, v) in A.triples()] if c["kind"] == "spgemm" else [(k, i) for (i, k, v) in A.triples()]
        rows_b = {}
        for (k, j, v) in B.triples(): rows_b.setdefault(k, set()).add(j)
        for (i, k) in ta:
            for j in rows_b.get(k, ()): structural.add((i, j))
        if any(ref.get(p, 0) == 0 for p in structural): ctx.count("seq_structural_entry_cancelled_to_zero")
    if mp is not None:
        r2 = {}
        for (i, j), v in ref.items(): r2[(i, mp[j])] = r2.get((i, mp[j]), Fraction(0)) + v
        ref = r2
    if A.nnz and B.nnz and dclean(ref): ctx.nontrivial.add(c["line"].split(" ", 1)[1])
    ctx.sample(c["line"])
    sig = "seq:%s:%s*%s%s" % (c["kind"], A.fmt, B.fmt, ":map" if mp is not None else "")
    res_i = dict((k, v) for k, v in ri)
    if "R" not in res_i:
        ctx.signal("O", sig + ":crash", "implementation failed on case: %s" % (ri,), case=c["line"]); return
    Mi = fw.parse_mat_tokens(res_i["R"])
    injective = mp is None or len(set(mp)) == len(mp)
    ok, why = check_product_matrix(Mi, ref, nr, nc, injective)
    if ok and c["kind"] == "galerkin":
        APi = fw.parse_mat_tokens(res_i["AP"])
        ok, why = check_product_matrix(APi, dmul(da, db), A.nr, B.nc, True)
        if not ok: why = "intermediate AP: " + why
    if not ok:
        ctx.signal("O", sig, why, case=c["line"], extra=dict(impl=" ".join(res_i["R"])))
    res_m = dict((k, v) for k, v in rm)
    if "R" not in res_m:
        ctx.signal("K", sig + ":model", "model produced no result: %s" % (rm,), case=c["line"]); return
    for key in (["AP", "R"] if c["kind"] == "galerkin" else ["R"]):
        eq, why = arrays_equal(fw.parse_mat_tokens(res_i[key]), fw.parse_mat_tokens(res_m[key]))
        ctx.compared += 1
        if not eq:
            ctx.signal("K", sig, "model and implementation differ (%s, exact arrays incl. emission order): %s" % (key, why),
                       case=c["line"], extra=dict(impl=" ".join(res_i[key]), model=" ".join(res_m[key])))

# ----------------------------------------------------------------------------------------------------------------
# distributed judge
# ----------------------------------------------------------------------------------------------------------------
def split_ranks(toks):
    """'@0 ... @1 ...' -> list of token lists"""
    out = []
    for t in toks:
        if t.startswith("@") and t[1:].isdigit(): out.append([])
        elif out: out[-1].append(t)
    return out

def parse_rank(toks):
    """keyword-driven parse of one rank's dump (implementation has more fields than the model)"""
    d = {}; i = 0
    def ints(k, n):
        return [int(x) for x in toks[k:k + n]]
    while i < len(toks):
        t = toks[i]
        if t == "G": d["G"] = tuple(ints(i + 1, 2)); i += 3
        elif t == "L": d["L"] = int(toks[i + 1]); i += 2
        elif t == "NNZ": d["NNZ"] = tuple(ints(i + 1, 3)); i += 4
        elif t == "NC": d["NC"] = tuple(ints(i + 1, 4)); i += 5
        elif t == "PART": d["PART"] = tuple(ints(i + 1, 6)); i += 7
        elif t == "I1": d["I1"] = tuple(ints(i + 1, 2)); i += 3
        elif t in ("ONMAP", "OFFMAP"):
            n = int(toks[i + 1]); d[t] = ints(i + 2, n); i += 2 + n
        elif t == "ROWS":
            n = int(toks[i + 1]); i += 2; rows = []
            for _ in range(n):
                g = int(toks[i]); i += 1; parts = []
                for _p in range(2):
                    m = int(toks[i]); i += 1; ents = []
                    for _e in range(m):
                        ents.append((int(toks[i]), nums.parse_num(toks[i + 1]))); i += 2
                    parts.append(ents)
                rows.append((g, parts[0], parts[1]))
            d["ROWS"] = rows
        elif t == "END": i += 1
        else: raise ValueError("unexpected token %r at %d" % (t, i))
    return d

def idx1_overflow(ranks):
    for r, d in enumerate(ranks):
        if d.get("I1") and min(d["I1"]) < d.get("L", 0) + 1:
            return "rank %d: on_proc/off_proc row pointer arrays have %s entries but the block has %d rows (add_append wrote past the end)" % (r, d["I1"], d["L"])
    return None

def partition_cols_wrong(ranks, nc, pcol):
    """C->partition must describe the column distribution C really has (its owners are computed from it when a
       communicator is built for C): global_num_cols, first_local_col, local_num_cols"""
    for r, d in enumerate(ranks):
        if d.get("PART") and (d["PART"][1], d["PART"][4], d["PART"][5]) != (nc, pcol[r], pcol[r + 1] - pcol[r]) and pcol[r + 1] > pcol[r]:
            return "rank %d: partition says %d global columns, local block first %d size %d; the matrix has %d columns, local block first %d size %d" % (
                r, d["PART"][1], d["PART"][4], d["PART"][5], nc, pcol[r], pcol[r + 1] - pcol[r])
    return None

def check_dist_matrix(ranks, ref, nr, nc, prow, pcol, condensed_offmap):
    """the property on the implementation's gathered output: global operator, ownership, block structure"""
    P = len(prow) - 1
    if len(ranks) != P: return False, "output of %d ranks, expected %d" % (len(ranks), P)
    dense = {}; seen_rows = set()
    for r, d in enumerate(ranks):
        if d.get("G") != (nr, nc): return False, "rank %d: global dimensions %s, expected %s" % (r, d.get("G"), (nr, nc))
        exp_rows = list(range(prow[r], prow[r + 1]))
        if d.get("L") != len(exp_rows): return False, "rank %d: local_num_rows %s, expected %d" % (r, d.get("L"), len(exp_rows))
        if [g for (g, _, _) in d["ROWS"]] != exp_rows: return False, "rank %d: local_row_map %s, expected %s" % (r, [g for (g, _, _) in d["ROWS"]], exp_rows)
        if d["ONMAP"] != list(range(pcol[r], pcol[r + 1])): return False, "rank %d: on_proc_column_map %s, expected block %s" % (r, d["ONMAP"], (pcol[r], pcol[r + 1]))
        om = d["OFFMAP"]
        if om != sorted(set(om)) or any(pcol[r] <= c < pcol[r + 1] or c < 0 or c >= nc for c in om):
            return False, "rank %d: off_proc_column_map not sorted/distinct/off-range: %s" % (r, om)
        used = set()
        non = noff = 0
        for (g, on, off) in d["ROWS"]:
            cols = [c for c, _ in on] + [c for c, _ in off]
            if len(cols) != len(set(cols)): return False, "rank %d row %d: duplicate column stored %s" % (r, g, cols)
            for c, v in on:
                if not (pcol[r] <= c < pcol[r + 1]): return False, "rank %d row %d: on_proc entry with column %d outside the rank's block" % (r, g, c)
            for c, v in off:
                if c not in om: return False, "rank %d row %d: off_proc entry with column %d not in off_proc_column_map" % (r, g, c)
                used.add(c)
            for c, v in on + off:
                if isinstance(v, str) or abs(v) < ZERO_TOL: return False, "rank %d row %d: zero / non-finite value stored at column %d" % (r, g, c)
                dense[(g, c)] = dense.get((g, c), Fraction(0)) + v
            non += len(on); noff += len(off)
        if d.get("NNZ") and d["NNZ"] != (non + noff, non, noff): return False, "rank %d: nnz counters %s, stored %s" % (r, d["NNZ"], (non + noff, non, noff))
        if d.get("NC") and (d["NC"][0] != len(d["ONMAP"]) or d["NC"][1] != len(om) or d["NC"][3] != len(om)):
            return False, "rank %d: column counters %s vs maps %d/%d" % (r, d["NC"], len(d["ONMAP"]), len(om))
        if condensed_offmap and set(om) != used: return False, "rank %d: condensed off_proc_column_map %s has unused columns (used %s)" % (r, om, sorted(used))
    ok, why = fw.dense_equal(dclean(dense), dclean(ref))
    if not ok: return False, "gathered operator differs from the exact product of the gathered factors: " + why
    return True, ""

def compare_dist(ri, rm):
    """model vs implementation, rank by rank: off_proc_column_map and every stored row in storage order"""
    if len(ri) != len(rm): return False, "rank count %d vs %d" % (len(ri), len(rm))
    for r, (a, b) in enumerate(zip(ri, rm)):
        if a["OFFMAP"] != b["OFFMAP"]: return False, "rank %d off_proc_column_map %s vs model %s" % (r, a["OFFMAP"], b["OFFMAP"])
        if len(a["ROWS"]) != len(b["ROWS"]): return False, "rank %d number of rows %d vs %d" % (r, len(a["ROWS"]), len(b["ROWS"]))
        for (ga, ona, offa), (gb, onb, offb) in zip(a["ROWS"], b["ROWS"]):
            if ga != gb: return False, "rank %d row ids %d vs %d" % (r, ga, gb)
            for nm, x, y in (("on_proc", ona, onb), ("off_proc", offa, offb)):
                if [c for c, _ in x] != [c for c, _ in y]: return False, "rank %d row %d %s columns %s vs model %s" % (r, ga, nm, [c for c, _ in x], [c for c, _ in y])
                for (c, v), (_, w) in zip(x, y):
                    if not nums.close(v, w): return False, "rank %d row %d %s column %d value %s vs model %s" % (r, ga, nm, c, v, w)
    return True, ""

def judge_par(ctx, c, impl, model):
    cid = c["cid"]; ri = dict(impl.get(cid) or []); rm = dict(model.get(cid) or [])
    A, B = c["A"], c["B"]
    ctx.evaluations += 1
    ctx.count("par_" + c["kind"]); ctx.count("P_%d" % c["P"]); ctx.count("tap_%d" % c["tap"]); ctx.count("mode_" + c["mode"])
    if c["kind"] != "pmult": ctx.count("form_" + c["form"])
    for L in (A, B):
        if any(L.frow[i] == L.frow[i + 1] for i in range(L.P)): ctx.count("par_rank_without_rows")
        if any(L.fcol[i] == L.fcol[i + 1] for i in range(L.P)): ctx.count("par_rank_without_cols")
    da, db = A.dense(), B.dense()
    checks = []     # (key, ref, nr, nc, prow, pcol, condensed)
    if c["kind"] == "pmult":
        checks.append(("C", dmul(da, db), A.nr, B.nc, A.frow, B.fcol, False))
    elif c["kind"] == "pmult_T":
        checks.append(("C", dmul(dtrans(da), db), A.nc, B.nc, A.fcol, B.fcol, True))
    else:
        ap = dmul(da, db)
        checks.append(("AP", ap, A.nr, B.nc, A.frow, B.fcol, False))
        checks.append(("C", dmul(dtrans(db), ap), B.nc, B.nc, B.fcol, B.fcol, True))
    if A.trip and B.trip and dclean(checks[-1][1]): ctx.nontrivial.add(c["line"].split(" ", 1)[1])
    ctx.sample(c["line"])
    sig = "par:%s:%s" % (c["kind"], "tap" if c["tap"] else "std") + (":" + c["form"] if c["kind"] != "pmult" else "")
    trig = c.get("trig") or triggers(c)
    for t in sorted(trig): ctx.count("par_trigger_" + t)
    if "CRASH" in ri or any(k not in ri for k, *_ in checks):
        hung = "CRASH" in ri and "rc=124" in ri["CRASH"]
        if "split" in trig and hung:
            ctx.signal("O", "par:pmult:init_matrix_deadlock", "A->mult(B) does not return (P=%d): init_matrix() takes the collective "
                       "Partition(A,B) branch on some ranks only" % c["P"], case=c["line"])
        elif "wide" in trig:
            ctx.signal("O", "par:pmult_T:idx1_overflow", "mult_T crashed (P=%d) on a case where a rank owns more rows of A^T B than "
                       "rows of the factors (heap overflow in add_append): %s" % (c["P"], str(ri.get("CRASH"))[:200]), case=c["line"])
        else:
            ctx.signal("O", sig + (":hang" if hung else ":crash"), "implementation failed on case (P=%d): %s" % (c["P"], str(ri)[:300]), case=c["line"])
        return
    parsed_i = {}
    for (key, ref, nr, nc, prow, pcol, cond) in checks:
        try:
            parsed_i[key] = [parse_rank(t) for t in split_ranks(ri[key])]
        except Exception as e:
            ctx.signal("O", sig + ":malformed", "cannot read implementation output %s: %s" % (key, e), case=c["line"]); return
        ov = idx1_overflow(parsed_i[key])
        if ov:
            ctx.signal("O", "par:pmult_T:idx1_overflow", "%s (P=%d): %s" % (key, c["P"], ov), case=c["line"]); break
        pw = partition_cols_wrong(parsed_i[key], nc, pcol)
        if pw:
            ctx.signal("O", "par:%s:result_partition_cols" % ("pmult_T" if cond else "pmult"), "%s (P=%d): %s" % (key, c["P"], pw), case=c["line"])
        ok, why = check_dist_matrix(parsed_i[key], ref, nr, nc, prow, pcol, cond)
        if not ok:
            ctx.signal("O", sig, "%s (P=%d, tap=%d): %s" % (key, c["P"], c["tap"], why), case=c["line"]); break
    for (key, *_r) in checks:
        if key not in rm:
            ctx.signal("K", sig + ":model", "model produced no result %s: %s" % (key, str(rm)[:300]), case=c["line"]); return
        pm = [parse_rank(t) for t in split_ranks(rm[key])]
        eq, why = compare_dist(parsed_i[key], pm) if key in parsed_i else (False, "no implementation output")
        ctx.compared += 1
        if not eq:
            ctx.signal("K", sig, "model and implementation differ (%s, P=%d, tap=%d): %s" % (key, c["P"], c["tap"], why), case=c["line"])
            break

# ----------------------------------------------------------------------------------------------------------------
def run(ctx):
    ctx.rule = ("sequential: random conforming pairs in all 9 format combinations of Matrix::mult / mult_T (+ Galerkin), "
                "rectangular, zero-dimension, empty rows/cols, explicit zeros, duplicates, +-1 data whose products cancel exactly, "
                "optional renumbering argument (permutation or merging); compared as exact arrays (emission order included) with the "
                "model and with the exact dense product. distributed: ParLit factors with independent contiguous partitions of the "
                "rows of A, of the inner dimension and of the columns of B (empty ranks included), P processes, standard and "
                "topology-aware communication (PPN 2/4), mult, mult_T (ParCSC / ParCSR argument), AP=A*P then P^T*(AP); "
                "per-rank blocks printed through the column maps and compared entry by entry with the model; gathered operator "
                "compared with the exact dense product of the gathered factors. non-trivial = both factors have entries and the "
                "product is not zero; distinct = distinct case text")
    if ctx.replay:
        lines = list(ctx.replay)
        seq = [case_from_line(l) for l in lines if l.split()[1] in ("spgemm", "spgemm_T", "galerkin")]
        par = [case_from_line(l) for l in lines if l.split()[1] in ("pmult", "pmult_T", "pgalerkin")]
        par_by_P = {}; trig_cases = []
        for c in par:
            c["trig"] = triggers(c)
            if "split" in c["trig"]: trig_cases.append(c)
            else: par_by_P.setdefault(c["P"], []).append(c)
    else:
        seq = gen_seq(ctx, ctx.scale(1500, 20000))
        par_by_P = {}; trig_cases = []
        plan = [(1, 60, 600, 1), (2, 220, 2500, 1), (3, 220, 2500, 1), (4, 220, 2500, 1), (5, 60, 1200, 0), (6, 0, 1200, 1), (7, 40, 1200, 0), (8, 0, 800, 0)]
        for (P, q, t, nt) in plan:
            par_by_P[P], tc = gen_par(ctx, ctx.scale(q, t), P, ctx.scale(nt, 3))
            trig_cases += tc
    import time
    tm = {}; t0 = time.time()
    allc = seq + [c for P in sorted(par_by_P) for c in par_by_P[P]] + trig_cases
    cf = fw.write_cases(ctx, "c06.cases", [c["line"] for c in allc])
    rcm, model, _, errm = fw.run_model(ctx, cf)
    tm["model"] = round(time.time() - t0, 1)
    if rcm != 0: ctx.signal("K", "modeldriver", "model driver exited with %s: %s" % (rcm, errm[-400:]))
    if seq:
        t0 = time.time()
        impl, crashed = fw.run_impl_lines(ctx, "drv_spgemm", [c["line"] for c in seq], nprocs=0, name="c06seq")
        tm["seq_impl"] = round(time.time() - t0, 1); t0 = time.time()
        for c in seq: judge_seq(ctx, c, impl, model)
        tm["seq_judge"] = round(time.time() - t0, 1)
    for P in sorted(par_by_P):
        cs = par_by_P[P]
        if not cs: continue
        t0 = time.time()
        impl, crashed = fw.run_impl_lines(ctx, "drv_spgemm", [c["line"] for c in cs], nprocs=P, name="c06par%d" % P,
                                          timeout=ctx.scale(300, 900), max_restarts=6)
        tm["P%d_impl" % P] = round(time.time() - t0, 1); t0 = time.time()
        for c in cs: judge_par(ctx, c, impl, model)
        tm["P%d_judge" % P] = round(time.time() - t0, 1)
    # cases of the 'split' class (open finding init_matrix_deadlock): one launch each, short timeout (the symptom is a hang)
    t0 = time.time()
    for c in trig_cases:
        impl, crashed = fw.run_impl_lines(ctx, "drv_spgemm", [c["line"]], nprocs=c["P"], name="c06trig_" + c["cid"], timeout=12, max_restarts=0)
        judge_par(ctx, c, impl, model)
    tm["split_class_launches"] = round(time.time() - t0, 1)
    ctx.notes.append("phase seconds: %s" % tm)

# ----------------------------------------------------------------------------------------------------------------
def case_from_line(line):
    t = line.split(); cid, kind = t[0], t[1]
    def rd_mat(pos):
        fmt, nr, nc, nnz = t[pos], int(t[pos + 1]), int(t[pos + 2]), int(t[pos + 3]); p = pos + 4
        n1 = nnz if fmt == "coo" else (nr if fmt == "csr" else nc) + 1
        i1 = [int(x) for x in t[p:p + n1]]; p += n1
        i2 = [int(x) for x in t[p:p + nnz]]; p += nnz
        v = [nums.parse_num(x) for x in t[p:p + nnz]]; p += nnz
        return fw.Mat(fmt, nr, nc, i1, i2, v), p
    def rd_lit(pos):
        nr, nc, P = int(t[pos]), int(t[pos + 1]), int(t[pos + 2]); p = pos + 3
        fr = [int(x) for x in t[p:p + P + 1]]; p += P + 1
        fc = [int(x) for x in t[p:p + P + 1]]; p += P + 1
        nnz = int(t[p]); p += 1; trip = []
        for _ in range(nnz):
            trip.append((int(t[p]), int(t[p + 1]), nums.parse_num(t[p + 2]))); p += 3
        return PLit(nr, nc, P, fr, fc, trip), p
    if kind in ("spgemm", "spgemm_T", "galerkin"):
        A, p = rd_mat(2); B, p = rd_mat(p); mp = None
        if kind != "galerkin":
            n = int(t[p]); mp = None if n < 0 else [int(x) for x in t[p + 1:p + 1 + n]]
        return dict(cid=cid, kind=kind, A=A, B=B, map=mp, mode="replay", line=line)
    tap, form = int(t[2]), t[3]
    A, p = rd_lit(4); B, p = rd_lit(p)
    return dict(cid=cid, kind=kind, A=A, B=B, tap=tap, form=form, P=A.P, mode="replay", line=line)
