"""C17 — Krylov solvers report true residuals and agree across partitions.

K: the extracted model (coq/Krylov/KDefs.v at Qc, squared norms, exact rationals) against raptor's CG / BiCGStab
   (sequential classes and distributed, P in {1,2,3,5}, explicit partitions with empty ranks) and PCG (the AMG
   preconditioner enters the model as the matrix the implementation's own cycle defines), on small exact systems;
   Vector/ParVector norm and inner product on vectors with NaN entries against the xval model.
O: the property evaluated on the implementation's output alone (small and large systems): recomputed true residual of
   the returned iterate against the last reported one, every rank reports the same history, the loop stopped at the
   first iterate meeting the tolerance or at the limit, histories for smaller limits are prefixes, distributed
   histories and iterates equal the sequential ones, exact start / b = 0 return at once with finite values, CG's
   energy-norm error does not increase along the iterates, non-finite entries make norm / inner product non-finite."""
from fractions import Fraction
import concurrent.futures, math, os
import framework as fw, gen, nums

ID = "C17"
FAMILY = "krylov"
LEVEL = "proof"
ASSUMPTIONS = [
    "exact arithmetic over an ordered field (executed at Qc); norms carried as squares, `norm_r > tol` compared in squares for tol >= 0",
    "the operator is a linear map with residual(x,b) = b - A x (proved for the CSR kernels csr_spmv/csr_residual; the distributed SpMV equals the global product by C02)",
    "a floating-point division by zero is modelled as `non-finite values produced` (the run ends in Broke); +-inf and NaN are merged",
    "PCG: the preconditioner is an arbitrary map in the theorems; in the correspondence runs it is the matrix defined by the implementation's own ml->cycle(0, e_j) (linearity of the cycle probed per case)",
    "exact-model comparison for sizes 1..12 and few iterations (the rationals grow quadratically/exponentially); sizes 30..2000 are judged by the oracle alone",
    "solver variants PI_BiCGStab and partial_inner.cpp are not exercised; SeqInner_/SeqNorm_ variants are compared with the BiCGStab model, Pre_BiCGStab by the residual / stopping oracle only",
]
OCAML_SRCS = ("conv.ml", "mat.ml", "drv_krylov.ml")
PROCS = (1, 2, 3, 5)
ZT = 1e-16
TOLS = [Fraction(0), Fraction(1, 2**40), Fraction(1, 2**30), Fraction(1, 2**20), Fraction(1, 2**10), Fraction(1, 64),
        Fraction(1, 8), Fraction(1, 2), Fraction(1), Fraction(2)]


# ------------------------------------------------------------------ generators
def rand_parts(rng, n, P):
    """contiguous block sizes, empty ranks on purpose"""
    r = rng.random()
    if r < 0.25:                       # even split (raptor's default shape)
        q, m = divmod(n, P); return [q + (1 if i < m else 0) for i in range(P)]
    if r < 0.40 and P > 1:             # everything on one rank
        s = [0] * P; s[rng.randrange(P)] = n; return s
    cuts = sorted(rng.randint(0, n) for _ in range(P - 1))
    ends = cuts + [n]; out = []; prev = 0
    for e in ends: out.append(e - prev); prev = e
    return out


def rand_matrix(rng, n, kind):
    """triples sorted by (row, col), strictly diagonally dominant with positive diagonal.
       spd: symmetric; nonsym: different off-diagonal pattern/values; cI: multiple of the identity;
       diag: diagonal; tri: [-1, d, -1]"""
    off = {}
    if kind in ("spd", "nonsym"):
        dens = min(1.0, rng.choice([1.5, 2.5, 4.0]) / max(1, n))
        for i in range(n):
            for j in range(i + 1, n):
                if rng.random() < dens or j == i + 1 and rng.random() < 0.6:
                    v = Fraction(rng.choice([-2, -1, -1, -1, 1, -3]), rng.choice([1, 1, 2]))
                    off[(i, j)] = v
                    if kind == "spd": off[(j, i)] = v
                    elif rng.random() < 0.8: off[(j, i)] = Fraction(rng.choice([-2, -1, 1, 2, 3]), rng.choice([1, 1, 2]))
    elif kind == "tri":
        for i in range(n - 1): off[(i, i + 1)] = Fraction(-1); off[(i + 1, i)] = Fraction(-1)
    rows = [[] for _ in range(n)]
    for (i, j), v in off.items(): rows[i].append((j, v))
    c = Fraction(rng.choice([1, 2, 3, 4]), rng.choice([1, 1, 2]))
    trip = []
    for i in range(n):
        s = sum(abs(v) for _, v in rows[i])
        if kind == "cI": d = c
        elif kind == "diag": d = Fraction(rng.randint(1, 6))
        elif kind == "tri": d = Fraction(2) + c
        else: d = s + Fraction(rng.choice([1, 1, 2, 3]), rng.choice([1, 2]))
        rows[i].append((i, d))
        trip += [(i, j, v) for j, v in sorted(rows[i])]
    return trip


def big_matrix(rng, n, sym):
    """banded / strided sparse, strictly diagonally dominant by a margin that keeps the condition number small"""
    off = {}
    strides = sorted(set([1, rng.randint(2, max(2, int(math.sqrt(n)) + 1)), rng.randint(2, max(2, n // 3))]))
    for i in range(n):
        for s in strides:
            j = i + s
            if j < n and rng.random() < 0.85:
                v = Fraction(rng.choice([-1, -1, -2, -3, 1]), rng.choice([1, 2, 4]))
                off[(i, j)] = v
                off[(j, i)] = v if sym else Fraction(rng.choice([-1, -2, 1, 2, -3]), rng.choice([1, 2, 4]))
    rows = [[] for _ in range(n)]
    for (i, j), v in off.items(): rows[i].append((j, v))
    trip = []
    for i in range(n):
        s = sum(abs(v) for _, v in rows[i])
        rows[i].append((i, s * Fraction(rng.choice([5, 6, 8]), 4) + Fraction(rng.choice([1, 2]), 2)))
        trip += [(i, j, v) for j, v in sorted(rows[i])]
    return trip


def matvec(n, trip, x):
    y = [0] * n
    for i, j, v in trip: y[i] += v * x[j]
    return y


def rand_vec(rng, n, dy=False):
    return [Fraction(rng.randint(-4, 4), rng.choice([1, 2, 4]) if dy else 1) for _ in range(n)]


class Case:
    __slots__ = ("cid", "solver", "n", "trip", "b", "x0", "tol", "maxit", "P", "sizes", "line", "gid", "tags",
                 "small", "xstar", "ftrip", "fb")
    def __init__(self, cid, solver, n, trip, b, x0, tol, maxit, sizes, gid, tags, small, xstar=None):
        self.cid, self.solver, self.n, self.trip, self.b, self.x0 = cid, solver, n, trip, b, x0
        self.tol, self.maxit, self.sizes, self.gid, self.tags, self.small, self.xstar = tol, maxit, sizes, gid, tags, small, xstar
        self.P = len(sizes)
        self.line = sys_line(cid, solver, n, trip, b, x0, tol, maxit, sizes)
        self.ftrip = None; self.fb = None
    @property
    def par(self): return "_par" in self.solver
    @property
    def kind(self): return self.solver.split("_")[0]
    def maxit_eff(self):
        if self.maxit > 0: return self.maxit
        if self.solver == "bi_seq": return self.n + 5
        return int(1.3 * self.n) + 2


def sys_line(cid, solver, n, trip, b, x0, tol, maxit, sizes):
    t = [cid, solver, str(n), str(len(trip))]
    for i, j, v in trip: t += [str(i), str(j), nums.tok_num(v)]
    t += [nums.tok_num(v) for v in b] + [nums.tok_num(v) for v in x0]
    t += [nums.tok_num(tol), str(maxit), str(len(sizes))] + [str(s) for s in sizes]
    return " ".join(t)


def case_from_line(line):
    t = line.split(); cid, solver = t[0], t[1]
    if solver in ("xnorm", "xinner"): return dict(cid=cid, op=solver, line=line)
    n, nnz = int(t[2]), int(t[3]); p = 4
    trip = [(int(t[p + 3 * k]), int(t[p + 3 * k + 1]), nums.parse_num(t[p + 3 * k + 2])) for k in range(nnz)]; p += 3 * nnz
    b = [nums.parse_num(x) for x in t[p:p + n]]; p += n
    x0 = [nums.parse_num(x) for x in t[p:p + n]]; p += n
    tol = nums.parse_num(t[p]); maxit = int(t[p + 1]); P = int(t[p + 2]); sizes = [int(x) for x in t[p + 3:p + 3 + P]]
    return Case(cid, solver, n, trip, b, x0, tol, maxit, sizes, cid, ["replay"], n <= 12)


def gen_all(ctx):
    rng = ctx.rng
    cases = []; xcases = []
    ctr = [0]
    wflag = [False]           # ids starting with w: the driver builds a deliberately weak preconditioner (long PCG runs)
    def cid():
        # ids starting with h: the history vector passed in already holds three entries (a caller reusing one vector over several
        # solves); the driver reports whether they survived and strips them
        ctr[0] += 1; return ("wk%d" if wflag[0] else ("hk%d" if rng.random() < 0.25 else "k%d")) % ctr[0]
    gctr = [0]

    def add_group(kindsolver, n, trip, b, x0, tol, maxit, tags, small, xstar=None, procs=PROCS, seq=True):
        gctr[0] += 1; g = "g%d" % gctr[0]
        if seq and kindsolver not in ("pcg", "prebi"):
            cases.append(Case(cid(), kindsolver + "_seq", n, trip, b, x0, tol, maxit, [], g, tags, small, xstar))
        for P in procs:
            sizes = rand_parts(rng, n, P)
            if kindsolver == "prebi" and min(sizes) == 0: sizes = even(n, P)
            if kindsolver == "pcg" and (min(sizes) == 0): sizes = rand_parts(rng, n, P) if False else even(n, P)
            if kindsolver == "pcg" and min(sizes) == 0: continue      # the AMG setup is not C17's subject: no empty ranks
            cases.append(Case(cid(), kindsolver + "_par", n, trip, b, x0, tol, maxit, sizes, g, tags, small, xstar))
            if kindsolver == "bi" and rng.random() < 0.3:
                # the variants that accumulate inner products / norms rank after rank (SeqInner_, SeqNorm_, SeqInnerSeqNorm_BiCGStab)
                cases.append(Case(cid(), "bi_par_" + rng.choice(["si", "sn", "sisn"]), n, trip, b, x0, tol, maxit, sizes, g, tags + ["seq_reduction"], small, xstar))

    def even(n, P):
        q, m = divmod(n, P); return [q + (1 if i < m else 0) for i in range(P)]

    def pick_rhs(n, trip, dy=False):
        """-> b, x0, xstar, tag"""
        xs = rand_vec(rng, n, dy)
        r = rng.random()
        if r < 0.10: return [Fraction(0)] * n, [Fraction(0)] * n, [Fraction(0)] * n, "b0_x0"
        if r < 0.16: return [Fraction(0)] * n, rand_vec(rng, n), [Fraction(0)] * n, "b0"
        b = matvec(n, trip, xs)
        if r < 0.30: return b, list(xs), xs, "exact_start"
        if r < 0.65: return b, [Fraction(0)] * n, xs, "x0_zero"
        return b, rand_vec(rng, n, dy), xs, "x0_rand"

    # ---- fixed cases: the known findings and the boundary starts are exercised on every run
    F_ = Fraction
    t1 = [(0, 0, F_(2))]
    add_group("bi", 1, t1, [F_(1)], [F_(0)], F_(1, 2**20), 10, ["cI", "x0_zero"], True, [F_(1, 2)], procs=(1, 2))
    t3 = [(i, i, F_(3)) for i in range(3)]
    add_group("bi", 3, t3, [F_(3), F_(6), F_(-3)], [F_(0)] * 3, F_(1, 2**20), 0, ["cI", "x0_zero"], True, [F_(1), F_(2), F_(-1)], procs=(1, 3, 5))
    tt = rand_matrix(rng, 4, "tri"); xs4 = [F_(1), F_(-2), F_(3), F_(1)]; b4 = matvec(4, tt, xs4)
    for solver in ("cg", "bi", "pcg"):
        add_group(solver, 4, tt, b4, list(xs4), F_(1, 2**20), 0, ["tri", "exact_start"], True, xs4, procs=(1, 2, 3), seq=(solver != "pcg"))
        add_group(solver, 4, tt, [F_(0)] * 4, [F_(0)] * 4, F_(1, 2**20), 0, ["tri", "b0_x0"], True, [F_(0)] * 4, procs=(1, 2), seq=(solver != "pcg"))
    add_group("pcg", 4, tt, [F_(0)] * 4, [F_(1), F_(0), F_(-1), F_(2)], F_(1, 2**20), 3, ["tri", "b0"], True, [F_(0)] * 4, procs=(1, 2), seq=False)
    # ---- small exact systems: CG   (the exact model's numbers grow ~ k^2 bits after k iterations: sizes 9..12 only
    #      with integer tridiagonal data, zero start and few iterations)
    n_cg = ctx.scale(46, 460)
    for k in range(n_cg):
        r = rng.random()
        if r < 0.92:
            n = rng.choice([1, 1, 2, 2, 3, 3, 4, 5, 6, 7, 8])
            kind = rng.choice(["spd", "spd", "spd", "tri", "cI", "diag"])
            trip = rand_matrix(rng, n, kind)
            b, x0, xs, tag = pick_rhs(n, trip, dy=(n <= 6 and rng.random() < 0.3))
            tol = rng.choice(TOLS); maxit = rng.choice([-1, 0, 0, 1, 2, 3, 5, 8, 9, 12, 20])
            if n >= 7: maxit = rng.choice([1, 2, 3, 4, 5, 6])
            procs = PROCS
        else:
            n = rng.choice([9, 10, 11, 12]); kind = "tri"
            trip = rand_matrix(rng, n, kind)
            xs = [Fraction(rng.randint(-2, 2)) for _ in range(n)]; b = matvec(n, trip, xs); x0 = [Fraction(0)] * n; tag = "x0_zero"
            tol = rng.choice(TOLS[1:6]); maxit = rng.choice([2, 3, 4, 5])
            procs = tuple(rng.sample(PROCS, 2)) if ctx.tier == "quick" else PROCS
        add_group("cg", n, trip, b, x0, tol, maxit, [kind, tag], True, xs, procs=procs)
    # ---- CG ladders: same system, limits 1..K (iterates x_k; prefix property; energy monotonicity)
    for k in range(ctx.scale(5, 40)):
        n = rng.choice([2, 3, 4, 5, 6]); trip = rand_matrix(rng, n, rng.choice(["spd", "tri"]))
        xs = rand_vec(rng, n); b = matvec(n, trip, xs); x0 = rng.choice([[Fraction(0)] * n, rand_vec(rng, n)])
        gctr[0] += 1; g = "L%d" % gctr[0]
        par = rng.random() < 0.5; P = rng.choice(PROCS); sizes = rand_parts(rng, n, P) if par else []
        for m in range(1, n + 2):
            cases.append(Case(cid(), "cg_par" if par else "cg_seq", n, trip, b, x0, Fraction(1, 2**40), m, sizes, g,
                              ["ladder"], True, xs))
    # ---- small exact systems: BiCGStab (the exact model's numbers double in length per iteration: few iterations)
    n_bi = ctx.scale(40, 400)
    for k in range(n_bi):
        n = rng.choice([1, 1, 2, 2, 3, 3, 3, 4, 4, 5, 6, 8, 12])
        kind = rng.choice(["nonsym", "nonsym", "nonsym", "spd", "cI", "diag"])
        trip = rand_matrix(rng, n, kind)
        b, x0, xs, tag = pick_rhs(n, trip)
        tol = rng.choice(TOLS)
        if n <= 3: maxit = rng.choice([-1, 0, 0, 1, 2, 3, 5])
        elif n <= 6: maxit = rng.choice([1, 2, 2])
        else: maxit = 1
        add_group("bi", n, trip, b, x0, tol, maxit, [kind, tag], True, xs)
    # ---- small exact systems: PCG (preconditioner = the implementation's AMG cycle as a matrix; few iterations)
    n_pc = ctx.scale(14, 140)
    for k in range(n_pc):
        n = rng.choice([1, 2, 3, 4, 5, 6, 7, 8, 9, 10])
        trip = rand_matrix(rng, n, rng.choice(["spd", "tri", "tri", "diag"]))
        b, x0, xs, tag = pick_rhs(n, trip)
        tol = rng.choice(TOLS[1:8])
        maxit = rng.choice([0, 1, 2, 3, 4]) if n <= 3 else rng.choice([1, 2, 3]) if n <= 5 else rng.choice([1, 2]) if n <= 7 else 1
        procs = tuple(P for P in PROCS if P <= n) or (1,)
        if ctx.tier == "quick": procs = tuple(rng.sample(procs, min(2, len(procs))))
        add_group("pcg", n, trip, b, x0, tol, maxit, ["pcg", tag], True, xs, procs=procs, seq=False)
    # ---- PCG runs of 8..17 iterations (the residual is recomputed from scratch every 8th iteration): tolerance out of reach
    for k in range(ctx.scale(5, 40)):
        n = rng.choice([40, 60, 90])
        trip = big_matrix(rng, n, sym=True)
        xs = rand_vec(rng, n, True); b = matvec(n, trip, xs)
        x0 = [Fraction(0)] * n if rng.random() < 0.6 else rand_vec(rng, n, True)
        procs = tuple(rng.sample([1, 2, 3], 2)) if ctx.tier == "quick" else (1, 2, 3)
        wflag[0] = True
        add_group("pcg", n, trip, b, x0, Fraction(1, 2**80), rng.choice([8, 9, 10, 16, 17]), ["pcg_long", "generic"], False, xs, procs=procs, seq=False)
        wflag[0] = False
    # ---- BiCGStab preconditioned with an AMG cycle (Pre_BiCGStab; oracle only): true residuals, stopping rule, zero right-hand
    # side with a non-zero start, start at the exact solution
    for k in range(ctx.scale(10, 80)):
        n = rng.choice([12, 16, 24, 40])
        trip = big_matrix(rng, n, sym=rng.random() < 0.7)
        xs = rand_vec(rng, n, True); r_ = rng.random()
        if r_ < 0.3: b = [Fraction(0)] * n; x0 = rand_vec(rng, n, True); tag = "b0_xrand"
        elif r_ < 0.45: b = matvec(n, trip, xs); x0 = list(xs); tag = "exact_start"
        else: b = matvec(n, trip, xs); x0 = [Fraction(0)] * n if rng.random() < 0.5 else rand_vec(rng, n, True); tag = "generic"
        procs = tuple(rng.sample([1, 2, 3], 2)) if ctx.tier == "quick" else (1, 2, 3)
        add_group("prebi", n, trip, b, x0, rng.choice([Fraction(1, 2**10), Fraction(1, 2**20), Fraction(1, 2**30)]), rng.choice([1, 2, 3, 20]), ["prebi", tag], False, xs, procs=procs, seq=False)
    # ---- badly scaled systems: right-hand side and start scaled by 2^-70 (||r0|| far below 1e-16; the stopping rule is relative)
    for k in range(ctx.scale(10, 80)):
        n = rng.choice([2, 3, 4, 6, 8]); solver = rng.choice(["cg", "bi", "bi"])
        trip = rand_matrix(rng, n, "spd" if solver == "cg" else rng.choice(["nonsym", "spd"]))
        sc = Fraction(1, 2 ** 70)
        xs = [v * sc for v in rand_vec(rng, n)]; b = matvec(n, trip, xs)
        x0 = [Fraction(0)] * n if rng.random() < 0.6 else [v * sc for v in rand_vec(rng, n)]
        add_group(solver, n, trip, b, x0, rng.choice(TOLS[1:6]), rng.choice([1, 2, 2, 3]) if solver == "bi" else rng.choice([2, 3, 5, 8]),
                  ["tiny_scale", "x0_zero"], True, xs)
    # ---- large systems: oracle only
    n_big = ctx.scale(7, 60)
    for k in range(n_big):
        n = rng.choice([30, 60, 120, 250, 500]) if rng.random() < 0.7 else rng.choice([1000, 2000])
        solver = rng.choice(["cg", "cg", "bi", "bi", "pcg"])
        if solver == "pcg" and n > 500: n = 500
        trip = big_matrix(rng, n, sym=(solver != "bi"))
        xs = rand_vec(rng, n, True); b = matvec(n, trip, xs)
        r = rng.random()
        if r < 0.1: x0 = list(xs); tag = "exact_start"
        elif r < 0.15: b = [Fraction(0)] * n; x0 = [Fraction(0)] * n; xs = x0; tag = "b0_x0"
        else: x0 = [Fraction(0)] * n if r < 0.6 else rand_vec(rng, n, True); tag = "generic"
        tol = rng.choice([Fraction(1, 2**10), Fraction(1, 2**20), Fraction(1, 2**30), Fraction(1, 2**40)])
        procs = tuple(rng.sample(PROCS, 2)) if ctx.tier == "quick" else PROCS
        if solver == "pcg": procs = tuple(P for P in procs if P <= 3) or (2,)
        for maxit in ([0, rng.choice([3, 9, 17])] if solver != "pcg" else [rng.choice([0, 9, 17])]):
            add_group(solver, n, trip, b, x0, tol, maxit, ["big", tag], False, xs, procs=procs)
            gctr[0] -= 1            # both limits belong to one group (prefix property)
        gctr[0] += 1
    # ---- norm / inner product with non-finite entries
    n_x = ctx.scale(60, 600)
    for k in range(n_x):
        n = rng.choice([0, 1, 2, 3, 5, 8]); op = rng.choice(["xnorm", "xinner"])
        small = rng.random() < 0.3        # entries of magnitude 2^-30 .. 2^-60 (regression: norm must not drop them)
        def xv():
            out = []
            e = rng.randint(30, 60)       # one exponent per vector: sums of products stay exact in doubles
            for _ in range(n):
                r = rng.random()
                sc = 2 ** e if small else rng.choice([1, 2, 4])
                out.append("nan" if r < 0.18 else nums.tok_num(Fraction(rng.randint(-5, 5), sc)))
            return out
        u = xv(); v = xv() if op == "xinner" else []
        P = rng.choice((0,) + PROCS); sizes = rand_parts(rng, n, P) if P else []
        c = cid()
        xcases.append(dict(cid=c, op=op, n=n, u=u, v=v, P=P, sizes=sizes, small=small,
                           line=" ".join([c, op, str(n)] + u + v + [str(P)] + [str(s) for s in sizes])))
    return cases, xcases


# ------------------------------------------------------------------ helpers for judging
def fl(x): return float(x) if not isinstance(x, str) else float("nan")
def finite_list(v): return all(not isinstance(x, str) for x in v)


def split_ranks(toks):
    """'@0 a b @1 c' -> [[a,b],[c]]"""
    out = []
    for t in toks:
        if t.startswith("@"): out.append([])
        else: out[-1].append(t)
    return out


def get(res, key):
    for k, toks in res or []:
        if k == key: return toks
    return None


def hist_close(a, m, scale):
    """squared residuals: implementation value a against exact model value m; scale = squared initial residual.
       the recurrences carry an absolute error ~ eps*|r0| in r_k, i.e. ~ eps*sqrt(m*scale) in the square"""
    a, m, scale = float(a), float(m), float(scale)
    return abs(a - m) <= 1e-8 * m + 1e-8 * math.sqrt(abs(m) * scale) + 1e-20 * scale + 1e-300


def round_err(m, scale):
    """size of the rounding error the implementation's squared residual may carry (for borderline decisions)"""
    m, scale = float(m), float(scale)
    return 1e-8 * m + 1e-8 * math.sqrt(abs(m) * scale) + 1e-28 * scale


def vec_close(a, m, rel=1e-7):
    sc = max([abs(float(x)) for x in m] + [1e-300])
    return len(a) == len(m) and all(abs(float(x) - float(y)) <= rel * sc + 1e-12 for x, y in zip(a, m))


class Impl:
    """parsed implementation output of one solver case"""
    def __init__(self, c, r):
        self.ok = False; self.why = ""
        R, X = get(r, "R"), get(r, "X")
        if r and r[0][0] == "CRASH": self.why = "crash " + " ".join(r[0][1]); return
        if R is None or X is None: self.why = "no output: %s" % (r,); return
        if c.par:
            hs = split_ranks(R); self.rank_hists = hs
            self.res = [nums.parse_num(t) for t in hs[0]] if hs else []
            self.x = [nums.parse_num(t) for seg in split_ranks(X) for t in seg]
            self.same = all(h == hs[0] for h in hs)
        else:
            self.res = [nums.parse_num(t) for t in R]; self.x = [nums.parse_num(t) for t in X]; self.same = True
        self.finite = finite_list(self.res) and finite_list(self.x)
        H = get(r, "H"); self.hist_kept = (H is None) or all(t in ("1",) or t.startswith("@") for t in H)
        self.M = None; self.PL = None
        if c.kind == "pcg":
            M, PL = get(r, "M"), get(r, "PL")
            if M is None or PL is None: self.why = "no preconditioner output"; return
            self.Mtoks = M; self.M = [float.fromhex(t) for t in M]
            self.PL = [float.fromhex(PL[0]), float.fromhex(PL[1]), int(PL[2]), (float.fromhex(PL[3]) if "nan" not in PL[3] and "inf" not in PL[3] else float("nan"))]
        self.ok = True


def fsys(c):
    if c.ftrip is None:
        c.ftrip = [(i, j, float(v)) for i, j, v in c.trip]; c.fb = [float(v) for v in c.b]
    return c.ftrip, c.fb


def true_res_norm(c, x):
    """||b - A x||_2 : exact rationals on small systems, doubles otherwise"""
    if c.small:
        y = matvec(c.n, c.trip, x)
        return math.sqrt(float(sum((bi - yi) ** 2 for bi, yi in zip(c.b, y))))
    trip, b = fsys(c)
    y = [0.0] * c.n
    xf = [float(v) for v in x]
    for i, j, v in trip: y[i] += v * xf[j]
    return math.sqrt(sum((bi - yi) ** 2 for bi, yi in zip(b, y)))


def sigbase(c): return {"cg_seq": "cg", "cg_par": "cg_par", "bi_seq": "bicgstab", "bi_par": "bicgstab_par", "pcg_par": "pcg",
                        "prebi_par": "bicgstab_pre", "bi_par_si": "bicgstab_par", "bi_par_sn": "bicgstab_par", "bi_par_sisn": "bicgstab_par"}[c.solver]


# ------------------------------------------------------------------ oracle (implementation output only)
def oracle(ctx, c, I):
    sb = sigbase(c)
    if not I.same:
        ctx.signal("O", sb + ":ranks_disagree", "ranks report different residual histories: %s" % (I.rank_hists,), case=c.line)
    if not I.hist_kept:
        ctx.signal("O", sb + ":history_overwritten", "entries already present in the caller's history vector were changed or removed", case=c.line)
    if not I.res:
        ctx.signal("O", sb + ":no_history", "empty residual history", case=c.line); return
    if not I.finite: return                          # judged with the model's help (breakdown classes) in compare()
    res = [float(v) for v in I.res]
    bnorm = math.sqrt(float(sum(v * v for v in c.b))) if c.small else math.sqrt(sum(v * v for v in fsys(c)[1]))
    r0true = true_res_norm(c, c.x0)
    scale = max(r0true, bnorm, 1e-300)
    tol = float(c.tol); lim = c.maxit_eff(); its = len(res) - 1
    if its > lim:
        ctx.signal("O", sb + ":limit", "%d iterations reported, limit %d" % (its, lim), case=c.line)
    if c.kind in ("cg", "bi", "prebi"):
        rep_scale = 1.0
        if c.solver == "cg_par": rep_scale = bnorm if bnorm >= ZT else 1.0
        # (1) reported residuals are true residuals: first and last entry against b - A x0 and b - A x_returned
        tr = true_res_norm(c, I.x)
        for what, rep, tru in (("initial", res[0] * rep_scale, r0true), ("returned", res[-1] * rep_scale, tr)):
            if abs(rep - tru) > 1e-6 * tru + 1e-9 * scale:
                ctx.signal("O", sb + ":true_residual", "%s iterate: reported residual %.17g, recomputed ||b - A x|| = %.17g"
                           % (what, rep, tru), case=c.line)
        # (2) stop at the first iterate meeting the tolerance, or at the limit
        thr = tol * res[0] if res[0] != 0.0 else tol
        for k in range(its):
            if res[k] <= thr * (1 - 1e-9) - 1e-300:
                ctx.signal("O", sb + ":stop_first", "entry %d (%.6g) already met the tolerance (%.6g) but the loop continued" % (k, res[k], thr), case=c.line); break
        if its < lim and res[-1] > thr * (1 + 1e-9):
            ctx.signal("O", sb + ":stop_early", "stopped after %d < %d iterations with residual %.6g above the tolerance %.6g" % (its, lim, res[-1], thr), case=c.line)
    else:
        # PCG: res[0] = sqrt(<r0, M r0>), res[k] = <r_k, M r_k>/<b, M b>; test <r_k, M r_k> < tol*sqrt(<b, M b>)
        n = c.n; M = I.M; fb = [float(v) for v in c.b]
        Mb = [sum(M[i * n + j] * fb[j] for j in range(n)) for i in range(n)]
        binner = sum(fb[i] * Mb[i] for i in range(n))
        nb = math.sqrt(binner) if binner > 0 else 0.0
        tolp = tol * nb if nb > ZT else tol
        rz = I.PL[3]
        if its == 0 and lim >= 1 and not (abs(res[0] ** 2 - rz) <= 1e-6 * abs(rz) + 1e-9 * max(res[0] ** 2, binner, 1e-300)):
            # nothing reported after the initial residual although the iterate moved
            ctx.signal("O", sb + ":true_residual", "only the initial residual is reported (<r0,z0> = %.17g) but the returned iterate "
                       "has <r,z> = %.17g" % (res[0] ** 2, rz), case=c.line)
        if its >= 1 and binner > 0:
            rep = res[-1] * binner
            sc2 = max(res[0] ** 2, binner, 1e-300)
            if not (abs(rep - rz) <= 1e-6 * abs(rz) + 1e-9 * sc2):
                ctx.signal("O", sb + ":true_residual", "returned iterate: reported <r,z> = %.17g, recomputed %.17g" % (rep, rz), case=c.line)
            for k in range(1, its):
                if res[k] * binner < tolp * (1 - 1e-9) - 1e-300:
                    ctx.signal("O", sb + ":stop_first", "entry %d met the tolerance but the loop continued" % k, case=c.line); break
            if its < lim and not (res[-1] * binner < tolp * (1 + 1e-9) + 1e-300):
                ctx.signal("O", sb + ":stop_early", "stopped after %d < %d iterations above the tolerance" % (its, lim), case=c.line)
    # (3) exact start / b = 0: immediate return, iterate untouched
    if ("exact_start" in c.tags or "b0_x0" in c.tags) and c.kind != "pcg" and tol >= 0:
        if its != 0 or any(float(a) != float(b_) for a, b_ in zip(I.x, c.x0)):
            ctx.signal("O", sb + ":exact_start", "start at the exact solution: %d iterations, x changed" % its, case=c.line)


def group_oracle(ctx, group):
    """cases sharing system, rhs, start and tolerance: prefix property, distributed = sequential, energy monotone"""
    fin = [(c, I) for c, I in group if I.ok and I.finite and I.res]
    if len(fin) < 2: return
    def unscaled(c, I):
        res = [float(v) for v in I.res]
        if c.solver == "cg_par":
            bn = math.sqrt(float(sum(v * v for v in c.b))); bn = bn if bn >= ZT else 1.0
            res = [v * bn for v in res]
        return res
    ref_c, ref_I = max(fin, key=lambda ci: len(ci[1].res)); ref = unscaled(ref_c, ref_I)
    floor = 1e-7 * max(ref[0], 1e-300)
    for c, I in fin:
        if c is ref_c or c.kind in ("pcg", "prebi"): continue      # the AMG preconditioner depends on the partition
        h = unscaled(c, I)
        for k, (a, b_) in enumerate(zip(h, ref)):
            # two floating-point runs of CG / BiCGStab that differ only in the order of their sums drift apart at a rate set by
            # the spectrum (observed: x30 per iteration from entry 22 on for n = 250, P = 5 against P = 1, both converging, both
            # with true residuals): beyond the tenth entry histories are compared only down to 1e-4 of the initial residual
            if max(a, b_) <= (floor if k < 10 else 1e3 * floor): break
            if abs(a - b_) > 1e-6 * max(a, b_) + 1e-9 * ref[0]:
                ctx.signal("O", "%s:partition_history" % sigbase(c),
                           "entry %d of the history is %.17g, but %.17g for %s on the same system (P=%d vs P=%d)"
                           % (k, a, b_, ref_c.solver, c.P, ref_c.P), case=c.line, extra=dict(other=ref_c.line[:300])); break
        if len(h) == len(ref) and ref[-1] > floor and not vec_close(I.x, ref_I.x, 1e-6):
            ctx.signal("O", "%s:partition_iterate" % sigbase(c), "returned iterate differs from %s on the same system" % ref_c.solver,
                       case=c.line)
    # energy-norm error along a ladder of limits (CG, SPD, exact data)
    lad = sorted([(len(I.res) - 1, c, I) for c, I in fin if "ladder" in c.tags], key=lambda t: t[0])
    prev = None
    for its, c, I in lad:
        e = [xs - xk for xs, xk in zip(c.xstar, I.x)]
        Ae = matvec(c.n, c.trip, e); E = float(sum(a * b_ for a, b_ in zip(Ae, e)))
        if prev is not None and its > prev[0] and E > prev[1] * (1 + 1e-9) + 1e-18:
            ctx.signal("O", sigbase(c) + ":energy_increase", "energy-norm error %.17g after %d iterations, %.17g after %d"
                       % (E, its, prev[1], prev[0]), case=c.line)
        if prev is None or its > prev[0]: prev = (its, E)


# ------------------------------------------------------------------ model vs implementation
def compare(ctx, c, I, rm):
    sb = sigbase(c)
    st, H, X = get(rm, "ST"), get(rm, "H"), get(rm, "X")
    if rm and rm[0][0] == "TIMEOUT": return
    if st is None or H is None or X is None:
        ctx.signal("K", sb + ":model", "model produced no result: %s" % (rm,), case=c.line); return
    status, mit, flag = st[0], int(st[1]), int(st[2])
    Hm = [nums.parse_num(t) for t in H]; Xm = [nums.parse_num(t) for t in X]
    HSm = get(rm, "HS")
    if HSm is not None: Hm_rep = [nums.parse_num(t) for t in HSm]
    else: Hm_rep = Hm
    ctx.compared += 1
    ctx.count("model_" + status)
    # implementation history in the model's units
    def impl_sq(k):
        v = I.res[k]
        if isinstance(v, str): return v
        if c.kind == "pcg" and k > 0: return v
        return v * v
    scale = Hm_rep[0] if Hm_rep and Hm_rep[0] != 0 else Fraction(1)
    if c.kind == "pcg": scale = Fraction(1)
    def prefix_ok(upto):
        for k in range(min(upto, len(I.res), len(Hm_rep))):
            a = impl_sq(k)
            if isinstance(a, str) or not hist_close(a, Hm_rep[k], scale):
                return False, "history entry %d: implementation %s (squared), model %s" % (k, a if isinstance(a, str) else float(a), float(Hm_rep[k]))
        return True, ""
    if status == "indef":
        ctx.count("indefinite_skipped"); return
    if status == "broke":
        # the exact model divides by zero in iteration mit+1: the history up to entry mit must agree
        ok, why = prefix_ok(mit + 1)
        if len(I.res) < mit + 1: ok, why = False, "implementation history shorter (%d) than the model's finite prefix (%d)" % (len(I.res), mit + 1)
        if not ok: ctx.signal("K", sb + ":prefix_before_breakdown", why, case=c.line)
        if not I.finite:
            if c.kind == "bi" and flag == 1:
                ctx.signal("O", sb + ":halfstep_nan", "half step s = r - alpha*A*p is exactly zero in iteration %d: omega = 0/0, "
                           "returned iterate / residual non-finite (res = %s)" % (mit + 1, [fl(v) for v in I.res][:6]), case=c.line)
            elif c.kind == "pcg" and mit == 0 and all(bi == yi for bi, yi in zip(c.b, matvec(c.n, c.trip, c.x0))):
                ctx.signal("O", sb + ":exact_start_nan", "PCG started at the exact solution (r0 = 0): alpha = 0/0, the returned "
                           "iterate is non-finite (no initial convergence test)", case=c.line)
            elif c.kind == "pcg" and all(v == 0 for v in c.b) and any(v != 0 for v in c.x0):
                ctx.signal("O", sb + ":zero_rhs_nan", "PCG with b = 0: the reported residuals next_inner/b_inner divide by "
                           "<b, M b> = 0: res = %s" % ([fl(v) for v in I.res][:6],), case=c.line)
            else:
                ctx.signal("O", sb + ":breakdown_nan", "division by zero in iteration %d (model), implementation returns non-finite "
                           "values: res = %s" % (mit + 1, [fl(v) for v in I.res][:8]), case=c.line)
        else:
            ctx.count("breakdown_rounded_away")       # the zero denominator is a rounding-size number in doubles
        return
    # status == done
    if not I.finite:
        ctx.signal("O", sb + ":nonfinite", "implementation returns non-finite values where the exact model is finite: res = %s"
                   % ([fl(v) for v in I.res][:8],), case=c.line)
        return
    # borderline stopping decisions: the exact margin of some test is below the comparison tolerance
    border = None
    if c.kind in ("cg", "bi"):
        tol2 = c.tol * c.tol; thr = tol2 * Hm[0] if Hm[0] != 0 else tol2
        for k, h in enumerate(Hm):
            if k == 0 and h == thr: continue              # norm_r > tol*norm_r with tol = 1: exact in doubles as well
            if abs(float(h) - float(thr)) <= round_err(h, Hm[0] if Hm[0] != 0 else 1):
                border = k; break
    else:
        bi = nums.parse_num(get(rm, "BI")[0]); tol2 = c.tol * c.tol
        for k, h in enumerate(Hm):
            if k == 0: continue
            nx = h * bi                                   # next_inner
            lhs, rhs = float(nx * nx), float(tol2 * bi)
            if abs(lhs - rhs) <= 1e-6 * max(lhs, rhs) + 1e-30 or abs(float(nx)) < 1e-13 * max(float(Hm[0]), 1e-300):
                border = k; break
    upto = len(Hm_rep) if border is None else border
    ok, why = prefix_ok(upto)
    if not ok:
        ctx.signal("K", sb + ":history", why, case=c.line, extra=dict(impl=[fl(v) for v in I.res][:10], model=[float(v) for v in Hm_rep][:10])); return
    if border is not None:
        ctx.skipped_borderline += 1; return
    if len(I.res) != len(Hm_rep):
        ctx.signal("K", sb + ":iterations", "implementation reports %d residuals, model %d" % (len(I.res), len(Hm_rep)), case=c.line,
                   extra=dict(impl=[fl(v) for v in I.res][:10], model=[float(v) for v in Hm_rep][:10])); return
    if not vec_close(I.x, Xm):
        ctx.signal("K", sb + ":iterate", "returned iterate differs: implementation %s, model %s" % ([fl(v) for v in I.x][:6], [float(v) for v in Xm][:6]), case=c.line)


def judge_x(ctx, xc, ri, rm):
    """norm / inner product with NaN entries"""
    ctx.evaluations += 1
    N = get(ri, "N"); Nm = get(rm, "N")
    sb = ("par_" if xc["P"] else "") + xc["op"]
    if N is None:
        ctx.signal("O", sb + ":crash", "no output %s" % (ri,), case=xc["line"]); return
    vals = [t for seg in split_ranks(N) for t in seg] if xc["P"] else N
    has_nan = "nan" in xc["u"] or "nan" in xc["v"]
    ctx.count("xval_nan" if has_nan else "xval_finite")
    if xc.get("small"): ctx.count("xval_small_magnitude")
    if has_nan: ctx.nontrivial.add(xc["line"].split(" ", 1)[1])
    iv = [nums.parse_num(t) for t in vals]
    # O: non-finite whenever an entry is; all ranks agree; finite value = the assembled vector's
    if has_nan and any(not isinstance(v, str) for v in iv):
        ctx.signal("O", sb + ":nonfinite_lost", "an entry is NaN but the result is finite: %s" % vals, case=xc["line"])
    if not has_nan:
        u = [nums.parse_num(t) for t in xc["u"]]; v = [nums.parse_num(t) for t in xc["v"]] if xc["op"] == "xinner" else u
        want = sum(a * b_ for a, b_ in zip(u, v))
        for got in iv:
            g = got if isinstance(got, str) else (got * got if xc["op"] == "xnorm" else got)
            if isinstance(g, str) or not nums.close(g, want, 1e-12, 0):
                ctx.signal("O", sb + ":value", "result %s, assembled vector gives %s" % (g, want), case=xc["line"]); break
    # K
    if Nm is None:
        ctx.signal("K", sb + ":model", "model produced no result: %s" % (rm,), case=xc["line"]); return
    ctx.compared += 1
    m = nums.parse_num(Nm[0])
    for got in iv:
        g = got if isinstance(got, str) else (got * got if xc["op"] == "xnorm" else got)
        if isinstance(m, str) != isinstance(g, str) or (not isinstance(m, str) and not nums.close(g, m, 1e-12, 0)):
            ctx.signal("K", sb, "implementation %s, model %s" % (g, m), case=xc["line"]); break


# ------------------------------------------------------------------ running
def run_model_parallel(ctx, items, name, jobs=14):
    """items: (line, heavy).  The model is sequential OCaml on exact rationals: spread the cases over several
       processes; a heavy case gets its own process and a time limit (a case over the limit is counted, not judged)."""
    if not items: return {}
    light = [l for l, h in items if not h]; heavy = [l for l, h in items if h]
    chunks = [[] for _ in range(max(1, min(jobs, len(light))))]
    for i, l in enumerate(light): chunks[i % len(chunks)].append(l)
    work = [(fw.write_cases(ctx, "%s.h%d" % (name, i), [l]), ctx.scale(15, 90), l) for i, l in enumerate(heavy)]
    work += [(fw.write_cases(ctx, "%s.m%d" % (name, i), ch), 1500, None) for i, ch in enumerate(chunks) if ch]
    out = {}
    import time as _t
    slow = []
    def go(w):
        f, to, l = w
        t0 = _t.time(); r = fw.run_model(ctx, f, timeout=to); dt = _t.time() - t0
        if l is not None and dt > 4: slow.append((dt, "%.0fs %s maxit=%s" % (dt, " ".join(l.split()[1:3]), l.split()[4 + 3 * int(l.split()[3]) + 2 * int(l.split()[2]) + 1])))
        return r, l
    with concurrent.futures.ThreadPoolExecutor(max_workers=jobs) as ex:
        for (rc, res, raw, err), l in ex.map(go, work):
            if rc == 124 and l is not None:
                ctx.count("model_timeout_skipped"); out[l.split()[0]] = [("TIMEOUT", [])]; continue
            if rc != 0: ctx.signal("K", "modeldriver", "model driver exited with %s: %s" % (rc, (err or "")[-400:]))
            out.update(res)
    if slow: ctx.notes.append("slow model cases: " + "; ".join(t for _, t in sorted(slow, reverse=True)[:8]))
    return out


def run(ctx):
    ctx.rule = ("strictly diagonally dominant systems with small integer/dyadic data: SPD (random sparse, tridiagonal, c*I, diagonal) "
                "for CG/PCG and non-symmetric for BiCGStab, sizes 1..12 against the exact model and 30..2000 for the oracle alone; "
                "right-hand sides A*x_int, 0; starts 0, random, exact solution; tolerances 0..2, limits default/1..20; sequential "
                "classes and P in {1,2,3,5} with random contiguous partitions incl. empty ranks; vectors with NaN entries for "
                "norm/inner product; non-trivial = at least one iteration performed; distinct = distinct case text")
    if ctx.replay:
        cs = [case_from_line(l) for l in ctx.replay]
        cases = [c for c in cs if isinstance(c, Case)]
        xcases = []
        for d in cs:
            if isinstance(d, dict):
                t = d["line"].split(); n = int(t[2]); op = t[1]
                u = t[3:3 + n]; v = t[3 + n:3 + 2 * n] if op == "xinner" else []
                p = 3 + (2 * n if op == "xinner" else n); P = int(t[p])
                xcases.append(dict(cid=t[0], op=op, n=n, u=u, v=v, P=P, sizes=[int(x) for x in t[p + 1:p + 1 + P]], line=d["line"]))
    else:
        cases, xcases = gen_all(ctx)
    import time; T0 = time.time(); tm = {}
    # --- implementation: one launch per process count
    impl = {}
    for P in PROCS:
        lines = [c.line for c in cases if c.P == P or (P == 1 and c.P == 0)]
        lines += [x["line"] for x in xcases if x["P"] == P or (P == 1 and x["P"] == 0)]
        if not lines: continue
        res, crashed = fw.run_impl_lines(ctx, "drv_krylov", lines, nprocs=P, name="c17p%d" % P, timeout=1200)
        impl.update(res)
    tm["impl"] = time.time() - T0; T0 = time.time()
    # --- model: small solver cases (PCG with the implementation's preconditioner matrix appended) and xval cases
    parsed = {}
    mlines = []
    for c in cases:
        I = Impl(c, impl.get(c.cid)); parsed[c.cid] = I
        if not c.small: continue
        if c.kind == "pcg":
            if I.ok: mlines.append((c.line + " " + " ".join(I.Mtoks), c.n >= 5))
        else: mlines.append((c.line, min(c.maxit_eff(), c.n) >= 6 or (c.kind == "bi" and c.n >= 4)))
    mlines += [(x["line"], False) for x in xcases]
    model = run_model_parallel(ctx, mlines, "c17")
    tm["model"] = time.time() - T0; T0 = time.time()
    # --- judge
    groups = {}
    for c in cases:
        I = parsed[c.cid]
        ctx.evaluations += 1
        ctx.count("solver_" + c.solver); ctx.count("P_%d" % c.P)
        for t in c.tags: ctx.count("tag_" + t)
        if c.P and 0 in c.sizes: ctx.count("empty_rank")
        ctx.count("size_1" if c.n == 1 else "size_2_4" if c.n <= 4 else "size_5_12" if c.n <= 12 else "size_large")
        if len(ctx.samples) < 4 and c.n <= 4: ctx.sample(c.line)
        if not I.ok:
            ctx.signal("O", sigbase(c) + ":crash", "implementation failed: " + I.why, case=c.line); continue
        if len(I.res) > 1: ctx.nontrivial.add(c.line.split(" ", 1)[1][:2000])
        if c.kind == "pcg" and I.PL[0] > 1e-8 * max(I.PL[1], 1e-300):
            ctx.count("pcg_cycle_not_linear_skipped"); continue      # the cycle is not the linear map the model is given
        oracle(ctx, c, I)
        if c.small: compare(ctx, c, I, model.get(c.cid))
        elif not I.finite and c.kind == "pcg" and all(bi == yi for bi, yi in zip(c.b, matvec(c.n, c.trip, c.x0))):
            ctx.signal("O", "pcg:exact_start_nan", "PCG started at the exact solution (r0 = 0 exactly): alpha = 0/0, non-finite "
                       "output: res = %s" % ([fl(v) for v in I.res][:6],), case=c.line)
        elif not I.finite and c.kind == "pcg" and all(v == 0 for v in c.b) and any(v != 0 for v in c.x0):
            ctx.signal("O", "pcg:zero_rhs_nan", "PCG with b = 0: reported residuals divide by <b, M b> = 0: res = %s"
                       % ([fl(v) for v in I.res][:6],), case=c.line)
        elif not I.finite:
            ctx.signal("O", sigbase(c) + ":nonfinite", "non-finite values returned on a large well-conditioned system: res = %s"
                       % ([fl(v) for v in I.res][:8],), case=c.line)
        groups.setdefault((c.gid, str(c.tol)), []).append((c, I))
    for g in groups.values(): group_oracle(ctx, g)
    for x in xcases: judge_x(ctx, x, impl.get(x["cid"]), model.get(x["cid"]))
    tm["judge"] = time.time() - T0
    ctx.notes.append("wall: " + ", ".join("%s %.1fs" % kv for kv in tm.items()))
