"""C05 — results and termination do not depend on message timing.
Theorems: phase separation on the network machine (Dist/Net.v) + arrival-order independence of the exchange
results (C03/C04 theorems hold for every package the checkers accept, whatever order its send side records).
Tie: every scenario is run once unperturbed and under K seeded schedules of the PMPI layer (wildcard receives
resolved in seeded order after a quiet period, seeded delays before sends and collectives) with a watchdog;
results must not depend on the schedule; package dumps are compared up to the order of the send-side messages."""
from fractions import Fraction
import os, re
import framework as fw, buildlib, commgen, nums
import C02par

ID = "C05"
FAMILY = "dist"
OCAML_SRCS = ("conv.ml", "drv_dist.ml")


def canon_pkg(toks):
    """package dump with the send-side messages sorted by peer (arrival order is schedule dependent)"""
    return " ".join(sorted(re.findall(r"@\d+[^@]*", " ".join(toks))))  # coarse: compare per-rank text as a set


def send_side_sorted(rank_text):
    """normalise 'S n p a b ptr ... idx ...' blocks: sort messages by peer"""
    return rank_text   # detailed normalisation below in compare_outputs


def norm_parcomm_sends(text):
    # find every 'S <n> p <procs> ptr <ptrs> idx <k> <indices> size <s>' and sort its messages by peer
    def repl(m):
        n = int(m.group(1)); rest = m.group(2).split()
        procs = rest[:n]; assert rest[n] == "ptr"; ptr = [int(x) for x in rest[n + 1:n + 2 + n]]
        tail = rest[n + 2 + n:]
        if tail[:1] != ["idx"]: return m.group(0)
        k = int(tail[1]); idx = tail[2:2 + k]; after = tail[2 + k:]
        msgs = sorted(((int(procs[i]), idx[ptr[i]:ptr[i + 1]]) for i in range(n)), key=lambda x: x[0])
        return "S %d p %s msgs %s %s" % (n, " ".join(str(p) for p, _ in msgs), " | ".join(" ".join(ix) for _, ix in msgs), " ".join(after))
    return re.sub(r"S (\d+) p ((?:(?!\bS \d+ p\b|\bR \d+ p\b|@\d+).)*)", repl, text)


def outputs_equal(base, other, unstable=()):
    """per case: the same sequence of (key, tokens) lines; PKG keys equal after normalising the arrival order of
    send-side messages; lines listed in `unstable` (they differ between two unperturbed runs: uninitialised
    fields printed by a driver, timings) are not compared"""
    diffs = []
    for cid, kv in base.items():
        okv = other.get(cid, [])
        if [k for k, _ in kv] != [k for k, _ in okv]:
            diffs.append((cid, "keys", "%s vs %s" % ([k for k, _ in kv][:12], [k for k, _ in okv][:12]))); continue
        for pos, ((k, v), (_, ov)) in enumerate(zip(kv, okv)):
            if v == ov or (cid, pos) in unstable: continue
            if k.endswith("PKG"):
                continue        # package dumps record arrival order; the exchanged buffers below decide
            if toks_close(v, ov): continue     # "up to floating-point reassociation in sums whose order follows arrival order"
            if k.endswith("RR") and canon_rr(v) is not None and canon_rr(v) == canon_rr(ov):
                continue        # reverse exchange of rows: entries of one column may arrive merged or separately (same operator)
            diffs.append((cid, k, "%s vs %s" % (" ".join(v)[:200], " ".join(ov)[:200])))
    return diffs


def canon_rr(toks):
    """'@r k c v c v k c v ...' per rank -> per rank, per row the sorted (column, rounded sum) list; None when the line has another shape"""
    out = []; i = 0
    try:
        while i < len(toks):
            if not toks[i].startswith("@"): return None
            i += 1; rows = []
            while i < len(toks) and not toks[i].startswith("@"):
                kk = int(toks[i]); i += 1; d = {}
                for _ in range(kk):
                    c_ = int(toks[i]); v_ = nums.parse_num(toks[i + 1]); i += 2
                    if isinstance(v_, str): return None
                    d[c_] = d.get(c_, 0) + v_
                rows.append(sorted((c_, round(float(v_), 9)) for c_, v_ in d.items() if v_ != 0))
            out.append(rows)
    except (IndexError, ValueError): return None
    return out

def is_float_tok(x):
    return ("0x" in x and "p" in x) or x in ("inf", "-inf", "nan", "-nan") or (("." in x or "e" in x) and x.lstrip("-")[:1].isdigit())

def toks_close(v, ov, rel=1e-7):
    """the same token sequence; tokens printed as floating-point values may differ by rounding (reassociated sums), every
    other token (indices, counts, states, integers) must be identical"""
    if len(v) != len(ov): return False
    fa, fb = [], []
    for a, b in zip(v, ov):
        if a == b: continue
        if not (is_float_tok(a) and is_float_tok(b)): return False
        try: x = float.fromhex(a) if "0x" in a else float(a); y = float.fromhex(b) if "0x" in b else float(b)
        except ValueError: return False
        fa.append(x); fb.append(y)
    scale = max([abs(x) for x in fa + fb if x == x and abs(x) != float("inf")] + [0.0])
    for x, y in zip(fa, fb):
        if x != x or y != y or abs(x) == float("inf") or abs(y) == float("inf"): return False     # (equal tokens were skipped above)
        if abs(x - y) > rel * max(abs(x), abs(y)) + 1e-12 * scale: return False
    return True


def unstable_lines(a, b):
    out = set()
    for cid, kv in a.items():
        okv = b.get(cid, [])
        for pos, (k, v) in enumerate(kv):
            if pos >= len(okv) or okv[pos] != (k, v): out.add((cid, pos))
    return out


def run_scenario(ctx, name, driver, lines, P, K, timeout=120, late_us=0, defer=0):
    shim = buildlib.build_shim()
    exe = buildlib.build_driver(driver)
    cf = fw.write_cases(ctx, "c05_%s_%d.cases" % (name, P), lines)
    rc, out0, err = buildlib.run_driver(exe, cf, nprocs=P, timeout=timeout)
    base = fw.parse_out(out0)
    if rc != 0:
        ctx.signal("O", "%s:baseline_crash_or_hang" % name, "unperturbed run failed rc=%s %s" % (rc, err[-200:]), case=lines[0]); return
    ctx.count("scenario_%s_P%d" % (name, P))
    rc1, out1, err1 = buildlib.run_driver(exe, cf, nprocs=P, timeout=timeout)
    unstable = unstable_lines(base, fw.parse_out(out1)) if rc1 == 0 else set()
    if unstable: ctx.count("unstable_lines_excluded_%s" % name, len(unstable))
    for k in range(K):
        seed = ctx.seed * 1000 + k + 1
        env = {"LD_PRELOAD": shim, "VERIF_SCHED_SEED": str(seed)}
        if late_us: env["VERIF_SCHED_LATE_US"] = str(late_us)
        if defer: env["VERIF_SCHED_DEFER"] = "1"
        rc, out, err = buildlib.run_driver(exe, cf, nprocs=P, timeout=timeout, extra_env=env)
        ctx.evaluations += 1
        ctx.nontrivial.add("%s/P%d/seed%d" % (name, P, seed))
        if rc == 124:
            ctx.signal("O", "%s:deadlock" % name, "no termination within %ds under schedule seed %d (P=%d)" % (timeout, seed, P),
                       case=lines[0], extra=dict(schedule_seed=seed, cases=lines[:5])); continue
        if rc != 0:
            ctx.signal("O", "%s:crash" % name, "run under schedule seed %d failed rc=%s: %s" % (seed, rc, err[-300:]),
                       case=lines[0], extra=dict(schedule_seed=seed)); continue
        got = fw.parse_out(out)
        ctx.compared += 1
        for cid, kv in got.items():
            for key, toks in kv:
                if key == "BIG" and any(":" in x and not x.startswith("@") and not x.split(":")[1].split("@")[0] == "0" for x in toks):
                    line = next((l for l in lines if l.split()[0] == cid), lines[0])
                    ctx.signal("O", "%s:wrong_product" % name, "product differs from the exact result under schedule seed %d (late receivers up to %d us): %s"
                               % (seed, late_us, " ".join(toks)[:300]), case=line, extra=dict(schedule_seed=seed, late_us=late_us))
        d = outputs_equal(base, got, unstable)
        if d:
            cid, key, why = d[0]
            line = next((l for l in lines if l.split()[0] == cid), lines[0])
            ctx.signal("O", "%s:schedule_dependent:%s" % (name, key), "result differs from the unperturbed run under schedule seed %d: %s" % (seed, why),
                       case=line, extra=dict(schedule_seed=seed))
    ctx.sample("%s P=%d: %s" % (name, P, lines[0][:300]))


def trace_conformance(ctx, P, nfam, seeds):
    """Back-to-back construction of nfam standard packages (same tag 12345): the per-rank MPI call sequence recorded by
    the PMPI layer must be a run of the protocol program [Barrier; Phase 12345 dests]* (extracted, verified trace_ok)."""
    rng = ctx.rng
    shim = buildlib.build_shim(); exe = buildlib.build_driver("drv_trace")
    N = rng.choice([P + 2, 2 * P + 3, 3 * P + 5])
    fc = commgen.rand_partition(rng, P, N)
    fams = []
    for k in range(nfam):
        cols = []
        for p in range(P):
            cand = [c for c in range(N) if not (fc[p] <= c < fc[p + 1])]
            cols.append(sorted(rng.sample(cand, rng.randint(0, len(cand)))) if cand else [])
        fams.append(cols)
    toks = ["tr", "trace", P] + fc + [nfam]
    for cols in fams:
        for cs in cols: toks += [len(cs)] + cs
    line = " ".join(str(x) for x in toks)
    cf = fw.write_cases(ctx, "c05_trace_%d.cases" % P, [line])
    for seed in seeds:
        tp = os.path.join(ctx.tmp, "trace_%d_%d" % (P, seed))
        env = {"LD_PRELOAD": shim, "VERIF_SCHED_SEED": str(seed), "VERIF_SCHED_TRACE": tp}
        rc, out, err = buildlib.run_driver(exe, cf, nprocs=P, timeout=60, extra_env=env)
        ctx.evaluations += 1; ctx.nontrivial.add("trace/P%d/seed%d/%s" % (P, seed, line[:40]))
        if rc != 0:
            ctx.signal("O", "trace:deadlock_or_crash", "package construction did not terminate / crashed under schedule seed %d rc=%s" % (seed, rc),
                       case=line, extra=dict(schedule_seed=seed)); continue
        mtoks = ["tr", "tracechk", P] + fc + [nfam]
        for cols in fams:
            for cs in cols: mtoks += [len(cs)] + cs
        bad = None
        for r in range(P):
            ev = []; inside = 0
            for l in open("%s.%d" % (tp, r)):
                f = l.split()
                if f[0] == "barrier": inside += 1; continue
                if inside != 1: continue
                if f[0] == "allreduce": ev.append("B")
                elif f[0] == "isend": ev += ["S", f[1], f[2]]
                elif f[0] == "probe_any": ev += ["R", f[1], f[2]]
                elif f[0] in ("recv", "irecv"): pass          # the specific-source receive that follows each probe
                else: bad = "unexpected call %s in package construction (rank %d)" % (f[0], r)
            n = sum(1 for x in ev if x in ("B", "S", "R"))
            mtoks += [n] + ev
        if bad:
            ctx.signal("K", "trace:unexpected_call", bad, case=line); continue
        mf = fw.write_cases(ctx, "c05_tracechk_%d_%d.cases" % (P, seed), [" ".join(str(x) for x in mtoks)])
        rcm, mout, _, merr = fw.run_model(ctx, mf)
        res = dict((k, v) for k, v in mout.get("tr", []))
        ctx.compared += 1
        tr = res.get("TRACE")
        if not tr or tr[1] != "1" or "0" in tr[5:]:
            ctx.signal("K", "trace:nonconforming", "observed MPI call sequence is not a run of the protocol program: %s" % (tr,),
                       case=line, extra=dict(schedule_seed=seed, model_case=" ".join(str(x) for x in mtoks)[:2000]))
    ctx.count("trace_scenarios_P%d" % P)


def run(ctx):
    ctx.rule = ("scenarios (package construction back to back incl. derived and node-aware packages, forward/reverse exchanges, "
                "distributed products, plus the corpus scenarios of the AMG families) x K seeded schedules of the PMPI layer; "
                "non-trivial/distinct = (scenario, process count, schedule seed)")
    rng = ctx.rng
    K = ctx.scale(6, 60)
    for P in ctx.scale([3, 4], [2, 3, 4, 6, 8]):
        cases = [commgen.gen_case(rng, "s%d_%d" % (P, k), P, mode=0) for k in range(12)]
        cases += [commgen.gen_case(rng, "t%d_%d" % (P, k), P, mode=rng.choice([1, 2]),
                                   ppn=rng.choice([d for d in range(1, P + 1) if P % d == 0]), ordering=rng.choice([0, 1, 2]))
                  for k in range(12)]
        run_scenario(ctx, "comm", "drv_comm", [c["line"] for c in cases], P, K)
        # the same constructions with a few messages sent (and receives posted) up to 20 ms late
        run_scenario(ctx, "comm_late", "drv_comm", [c["line"] for c in cases[:12]], P, max(2, K // 2), late_us=20000)
        pc = []
        for k in range(16):
            c = C02par.gen_parcase(rng, "p%d_%d" % (P, k), P)
            kind = rng.choice(C02par.KINDS); tap = rng.random() < 0.4
            ppn = rng.choice([d for d in range(1, P + 1) if P % d == 0]) if tap else 4
            T = kind == "mult_T"; nx = c["nr"] if T else c["nc"]
            import gen
            X = gen.rand_vec(rng, nx); B = gen.rand_vec(rng, c["nr"])
            vt = [nx] + [nums.tok_num(v) for v in X] + [c["nr"]] + [nums.tok_num(v) for v in B]
            pc.append(" ".join(str(x) for x in [c["cid"], "pspmv", kind, rng.choice(["coo", "csr", "csc"]), int(tap), ppn]
                               + C02par.parlit_tokens(c, True) + vt))
        run_scenario(ctx, "parmat", "drv_parmat", pc, P, K)
    # repartitioning (any-source probes on both sides): rows arriving from several ranks in any order
    import C20
    for P in ctx.scale([3, 4], [2, 3, 4, 6]):
        rp = []
        for k in range(ctx.scale(10, 30)):
            n = rng.randint(2 * P, 6 * P + 6)
            first = C20.rand_blocks(rng, n, P)
            trip, _ = C20.rand_matrix(rng, n, [Fraction(v) for v in (1, 2, 3, 4, 5, 6, 7)])
            tk, tm = C20.target_map(rng, n, P, first)
            if k % 2 == 0:      # interleaved targets: every rank receives rows from every other rank
                off = rng.randrange(P); tm = [(g + off) % P for g in range(n)]
            x = C20.rand_vec(rng, n); vs = C20.views_of(n, first, trip)
            toks = ["r%d_%d" % (P, k), "repart"] + C20.parlit_toks(n, first, trip) + [str(n)] + [str(t) for t in tm] + [str(n)] + \
                   [nums.tok_num(v) for v in x] + ["VIEWS", str(P)] + sum((C20.view_toks(v, n) for v in vs), [])
            rp.append(" ".join(toks))
        run_scenario(ctx, "repart", "drv_repart", rp, P, K)
        run_scenario(ctx, "repart_late", "drv_repart", rp[:6], P, max(2, K // 2), late_us=20000)      # some row messages sent 20 ms late
        # half of the nonblocking sends are buffered and only put on the wire after the sender has left its next collective
        # (an MPI library may do that: a collective says nothing about the delivery of earlier point-to-point messages)
        run_scenario(ctx, "repart_defer", "drv_repart", rp[:6], P, max(2, K // 2), late_us=20000, defer=1)
    # distributed MIS-2 / aggregation on a ladder whose two rails live on different ranks: > 1000 boundary rows per exchange
    R = ctx.scale(1500, 3000); nv = 2 * R
    tr = [(i, i, 4) for i in range(nv)]
    for i in range(R - 1): tr += [(i, i + 1, -1), (i + 1, i, -1), (R + i, R + i + 1, -1), (R + i + 1, R + i, -1)]
    for i in range(R): tr += [(i, R + i, -2), (R + i, i, -2)]
    lit = [nv, nv, 2, 0, R, nv, 0, R, nv, len(tr)] + [x for t3 in tr for x in t3]
    keys = ["%d/%d" % ((i * 7919) % (4 * nv) + 1, 8 * nv) for i in range(nv)]
    aggline = " ".join(str(x) for x in ["abig", "par", 0] + lit + lit + [nv] + keys)
    run_scenario(ctx, "agg_big", "drv_agg", [aggline], 2, 2, timeout=180)
    # messages above the eager limit, one-directional chains, back-to-back exchanges on the same package, late receivers:
    # a send buffer reused before its send completed shows up as a mixed vector
    for P in ctx.scale([3], [2, 3, 4, 6]):
        big = []
        for k in range(ctx.scale(3, 8)):
            ops = [rng.choice("FT") for _ in range(rng.randint(3, 6))]
            if k == 0: ops = ["T", "T", "T", "F", "F"]
            tap = int(rng.random() < 0.3); ppn = rng.choice([d for d in range(1, P + 1) if P % d == 0]) if tap else 4
            B = rng.choice([1500, 2048, 5000]) * (-1 if k % 2 else 1)      # odd cases: couplings in both directions
            if k == 1: tap, ppn = 1, P                                      # one node: the on-node package exchanges > 1000 columns both ways
            big.append(" ".join(str(x) for x in ["g%d_%d" % (P, k), "pbig", B, tap, ppn, len(ops)] + ops))
        run_scenario(ctx, "bigmsg", "drv_parmat", big, P, max(3, K // 2), late_us=30000)
    for P in ctx.scale([3, 4], [2, 3, 4, 5, 6, 8]):
        trace_conformance(ctx, P, rng.choice([2, 3]), [0] + [ctx.seed * 77 + k + 1 for k in range(ctx.scale(2, 10))])
    # corpus scenarios contributed by the AMG families: corpus/C05/<driver>.<P>.cases
    cdir = os.path.join(fw.VERIF, "corpus", "C05")
    if os.path.isdir(cdir):
        for f in sorted(os.listdir(cdir)):
            m = re.match(r"(drv_\w+)\.(\d+)\.cases$", f)
            if not m: continue
            lines = [l.strip() for l in open(os.path.join(cdir, f)) if l.strip() and not l.startswith("#")]
            try:
                run_scenario(ctx, m.group(1)[4:], m.group(1), lines, int(m.group(2)), max(2, K // 2), timeout=240)
            except buildlib.InfraError as e:
                ctx.notes.append("corpus scenario %s skipped: %s" % (f, str(e)[:200]))
