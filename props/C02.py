"""C02 — mat-vec products equal the product with the represented (global) operator.
Sequential kernels of all formats (family sparse) + distributed products (family dist, see par part)."""
from fractions import Fraction
import framework as fw, gen, nums

ID = "C02"
FAMILY = "sparse"
KINDS = ["mult", "mult_T", "mult_append", "mult_append_T", "mult_append_neg", "mult_append_neg_T", "residual"]

def reference(kind, A, x, b):
    d = A.dense()
    T = kind.endswith("_T")
    nout = A.nc if T else A.nr
    out = []
    for i in range(nout):
        s = Fraction(0)
        for (r, c), v in d.items():
            if (c if T else r) == i: s += v * x[r if T else c]
        if kind in ("mult", "mult_T"): out.append(s)
        elif kind in ("mult_append", "mult_append_T"): out.append(b[i] + s)
        else: out.append(b[i] - s)
    return out

def seq_cases(ctx, n):
    rng = ctx.rng; cases = []
    for k in range(n):
        A = gen.rand_mat(rng)
        kind = rng.choice(KINDS)
        T = kind.endswith("_T")
        nin, nout = (A.nr, A.nc) if T else (A.nc, A.nr)
        x = gen.rand_vec(rng, nin); b = gen.rand_vec(rng, nout)
        line = " ".join(["q%d" % k, "spmv", kind] + A.tokens() + [str(nin)] + [nums.tok_num(v) for v in x] +
                        [str(nout)] + [nums.tok_num(v) for v in b])
        cases.append(dict(cid="q%d" % k, A=A, kind=kind, x=x, b=b, line=line))
    return cases

def run_sequential(ctx):
    cases = seq_cases(ctx, ctx.scale(500, 8000))
    lines = [c["line"] for c in cases]
    impl, crashed = fw.run_impl_lines(ctx, "drv_matrix", lines, nprocs=0, name="c02seq")
    cf = fw.write_cases(ctx, "c02seq.cases", lines)
    rc, model, _, err = fw.run_model(ctx, cf)
    if rc != 0: ctx.signal("K", "modeldriver", "model driver failed: " + err[-300:])
    for c in cases:
        ctx.evaluations += 1; A = c["A"]
        ctx.count("seq_" + A.fmt); ctx.count("kind_" + c["kind"])
        if A.nr != A.nc: ctx.count("rectangular")
        if A.nnz: ctx.nontrivial.add(c["line"].split(" ", 1)[1])
        ctx.sample(c["line"])
        sig = "seq:%s:%s" % (A.fmt, c["kind"])
        ri, rm = impl.get(c["cid"]), model.get(c["cid"])
        if not ri or ri[0][0] != "V":
            ctx.signal("O", sig + ":crash", "implementation failed: %s" % (ri,), case=c["line"]); continue
        ref = reference(c["kind"], A, c["x"], c["b"])
        got = [nums.parse_num(t) for t in ri[0][1]]
        if len(got) < len(ref) or any(not nums.close(g, r) for g, r in zip(got, ref)):
            ctx.signal("O", sig, "product differs from the dense reference: got %s, required %s" % (
                [str(g) for g in got], [str(r) for r in ref]), case=c["line"])
        if not rm or rm[0][0] != "V":
            ctx.signal("K", sig + ":model", "model produced no result: %s" % (rm,), case=c["line"]); continue
        ctx.compared += 1
        if not fw.toks_equal(ri[0][1][:len(ref)], rm[0][1][:len(ref)]):
            ctx.signal("K", sig, "model %s vs implementation %s" % (rm[0][1], ri[0][1]), case=c["line"])

def block_cases(ctx, n):
    """block formats BCOO/BSR/BSC: random block grids (rectangular blocks, empty block rows, duplicate blocks)"""
    rng = ctx.rng; cases = []
    for k in range(n):
        nbr, nbc = rng.randint(1, 4), rng.randint(1, 4); br, bc = rng.randint(1, 3), rng.randint(1, 3)
        nblk = rng.choice([0, 1, rng.randint(1, nbr * nbc + 2)])
        blocks = [(rng.randrange(nbr), rng.randrange(nbc), [gen.rand_val(rng) if rng.random() > 0.15 else Fraction(0) for _ in range(br * bc)])
                  for _ in range(nblk)]
        fmt = rng.choice(["bcoo", "bsr", "bsc"]); kind = rng.choice(KINDS)
        T = kind.endswith("_T"); NR, NC = nbr * br, nbc * bc
        nin, nout = (NR, NC) if T else (NC, NR)
        x = gen.rand_vec(rng, nin); b = gen.rand_vec(rng, nout)
        toks = ["b%d" % k, "bspmv", kind, fmt, nbr, nbc, br, bc, nblk]
        for (I, J, v) in blocks: toks += [I, J] + [nums.tok_num(z) for z in v]
        toks += [nin] + [nums.tok_num(v) for v in x] + [nout] + [nums.tok_num(v) for v in b]
        trip = [(I * br + r, J * bc + c, v[r * bc + c]) for (I, J, v) in blocks for r in range(br) for c in range(bc)]
        A = fw.mat_from_triples("coo", NR, NC, trip)
        cases.append(dict(cid="b%d" % k, A=A, kind=kind, x=x, b=b, fmt=fmt, line=" ".join(str(z) for z in toks)))
    return cases

def run_block(ctx):
    cases = block_cases(ctx, ctx.scale(300, 5000))
    lines = [c["line"] for c in cases]
    impl, crashed = fw.run_impl_lines(ctx, "drv_matrix", lines, nprocs=0, name="c02blk")
    cf = fw.write_cases(ctx, "c02blk.cases", lines)
    rc, model, _, err = fw.run_model(ctx, cf)
    for c in cases:
        ctx.evaluations += 1; ctx.count("block_" + c["fmt"]); ctx.count("kind_" + c["kind"])
        if c["A"].nnz: ctx.nontrivial.add(c["line"].split(" ", 1)[1])
        sig = "block:%s:%s" % (c["fmt"], c["kind"])
        ri, rm = impl.get(c["cid"]), model.get(c["cid"])
        if not ri or ri[0][0] != "V":
            ctx.signal("O", sig + ":crash", "implementation failed: %s" % (ri,), case=c["line"]); continue
        ref = reference(c["kind"], c["A"], c["x"], c["b"])
        got = [nums.parse_num(t) for t in ri[0][1]]
        if len(got) < len(ref) or any(not nums.close(g, r) for g, r in zip(got, ref)):
            ctx.signal("O", sig, "block product differs from the dense reference: got %s, required %s" % (
                [str(g) for g in got], [str(r) for r in ref]), case=c["line"])
        if not rm or rm[0][0] != "V":
            ctx.signal("K", sig + ":model", "model produced no result: %s" % (rm,), case=c["line"]); continue
        ctx.compared += 1
        if not fw.toks_equal(ri[0][1][:len(ref)], rm[0][1][:len(ref)]):
            ctx.signal("K", sig, "model %s vs implementation %s" % (rm[0][1], ri[0][1]), case=c["line"])

def run(ctx):
    ctx.rule = ("sequential: random COO/CSR/CSC matrices (rectangular, empty, duplicates) x 7 kernels x integer vectors; "
                "distributed: see par_spmv part; non-trivial = matrix has entries; distinct = distinct case text")
    run_sequential(ctx)
    run_block(ctx)
    try:
        import C02par
    except ImportError:
        C02par = None
    if C02par: C02par.run(ctx)
