"""C19 — generated and stored matrices mean what their description says (stencil generators, Matrix Market and
PETSc-binary readers/writers).  K: extracted Coq model vs library on the same case; O: the property itself
(stencil weights with zero boundary, round trips, distributed = sequential) evaluated on the library's output."""
import glob, itertools, os, shutil
from fractions import Fraction
import framework as fw, gen, nums

ID = "C19"
FAMILY = "gallery"
OCAML_SRCS = ("conv.ml", "mat.ml", "drv_gallery.ml")
ZERO_TOL = Fraction(1, 10 ** 16)
ASSUMPTIONS = [
    "libc printf/scanf/fread and byte order are not modelled (show/parse abstract; identity at the executed instance)",
    "ParMatrix::finalize / to_ParCSR (sort, sum duplicates, column renumbering) belong to C07/C18: distributed results are compared as global (i,j)->sum maps",
    "PETSc binary files are generated big-endian (the defined format); native-order files are outside the tie",
]

# ----------------------------------------------------------------------------------------------- helpers
def tok(v): return nums.tok_num(v)

def default_partition(M, N, P):
    """raptor's Partition(global_rows, global_cols): (first_row, n_rows, first_col, n_cols) per rank"""
    out = []
    avg, extra = (M // P, M % P)
    npc = min(P, M) if M < P else P
    for r in range(P):
        fr = avg * r + min(r, extra); nr = avg + (1 if extra > r else 0)
        if nr:
            a, e = N // npc, N % npc
            fc = a * r + min(r, e); nc = a + (1 if e > r else 0)
        else:
            fc, nc = N, 0
        out.append((fr, nr, fc, nc))
    return out

def parts_tokens(parts):
    t = [str(len(parts))]
    for p in parts: t += [str(x) for x in p]
    return t

def coords(grid, p):
    c = []
    for k in range(len(grid)):
        ln = 1
        for g in grid[k + 1:]: ln *= g
        c.append((p // ln) % grid[k])
    return c

def expected_stencil(grid, st):
    """the property: entry (i,j) = weight of (coord i - coord j) [= coord j - coord i for value-symmetric stencils]
       when that offset is in {-1,0,1}^d, zero boundary; weights with |w| <= zero_tol do not exist"""
    d = len(grid); N = 1
    for g in grid: N *= g
    cs = [coords(grid, p) for p in range(N)]
    offsets = []
    for t in range(3 ** d):
        if abs(st[3 ** d - 1 - t]) > ZERO_TOL:      # weight of the negated offset
            o = [(t // 3 ** (d - 1 - m)) % 3 - 1 for m in range(d)]
            offsets.append((o, st[3 ** d - 1 - t]))
    dense = {}
    for i in range(N):
        ci = cs[i]
        for o, w in offsets:
            cj = [ci[m] + o[m] for m in range(d)]
            if all(0 <= cj[m] < grid[m] for m in range(d)):
                j = 0
                for m in range(d): j = j * grid[m] + cj[m]
                # entry (i,j) with coord j - coord i = o carries the weight of -o = coord i - coord j
                dense[(i, j)] = dense.get((i, j), Fraction(0)) + w
    return N, dense

def triples_to_dense(toks):
    d = {}
    for k in range(0, len(toks) - 2, 3):
        i, j, v = int(toks[k]), int(toks[k + 1]), nums.parse_num(toks[k + 2])
        d[(i, j)] = d.get((i, j), Fraction(0)) + v
    return {k: v for k, v in d.items() if abs(v) > ZERO_TOL}

def split_ranks(toks):
    """'@0 a b c @1 ...' -> list of token lists"""
    out = []
    for t in toks:
        if t.startswith("@"): out.append([])
        elif out: out[-1].append(t)
    return out

def get(res, cid, key):
    for k, toks in res.get(cid, []):
        if k == key: return toks
    return None

def crashed(res, cid):
    r = res.get(cid)
    return (not r) or any(k in ("CRASH",) or k.startswith("ERR") for k, _ in r)

def dense_close(d1, d2, rtol=1e-9, atol=1e-12):
    return fw.dense_equal(d1, d2, rtol, atol)

# ----------------------------------------------------------------------------------------------- stencil cases
def rand_stencil(rng, d, kind):
    n = 3 ** d; c = n // 2
    st = [Fraction(0)] * n
    def val():
        return Fraction(rng.choice([-4, -3, -2, -1, 1, 2, 3, 5, 7]), rng.choice([1, 1, 2, 4]))
    if kind == "laplace":
        st = [Fraction(-1)] * n; st[c] = Fraction(n - 1)
    elif kind == "cross":
        st[c] = Fraction(2 * d)
        for m in range(d):
            st[c + 3 ** m] = Fraction(-1); st[c - 3 ** m] = Fraction(-1)
    else:
        dens = rng.choice([0.15, 0.4, 0.7, 1.0])
        for t in range(c + 1):
            if rng.random() < dens or (t == c and rng.random() < 0.8):
                v = val()
                if kind == "symval": w = v
                else: w = val()                       # symmetric pattern, different values
                r = rng.random()
                if r < 0.06: v, w = Fraction(1, 2 ** 60), Fraction(-1, 2 ** 61)     # both below zero_tol: dropped
                elif r < 0.10: v, w = Fraction(1, 2 ** 60), Fraction(0)
                st[t] = v; st[n - 1 - t] = w if t != c else v
        if kind == "nonsym" and c:                     # break the pattern symmetry (outside the property: model tie only)
            nzs = [t for t in range(n) if t != c and st[t] != 0]
            if nzs: st[rng.choice(nzs)] = Fraction(0)
            else: st[rng.randrange(c)] = val()
    return st

def pattern_symmetric(st):
    n = len(st)
    return all((abs(st[t]) > ZERO_TOL) == (abs(st[n - 1 - t]) > ZERO_TOL) for t in range(n))

def sten_case(cid, grid, st, P):
    N = 1
    for g in grid: N *= g
    parts = default_partition(N, N, P)
    blocks = [p[1] for p in parts]
    line = " ".join([cid, "sten", str(P), str(len(grid))] + [str(g) for g in grid] + [tok(v) for v in st] +
                    [str(P)] + [str(b) for b in blocks])
    return dict(cid=cid, kind="sten", P=P, grid=list(grid), st=st, parts=parts, line=line)

def gen_stencil_cases(ctx, out):
    rng = ctx.rng
    maxe = ctx.scale(6, 12)
    grids = []
    for d in (1, 2, 3):
        if d < 3 or ctx.quick():
            grids += list(itertools.product(range(1, (maxe if d < 3 else 6) + 1), repeat=d))
        else:
            grids += list(itertools.product(range(1, 7), repeat=3))
            for _ in range(260):
                grids.append(tuple(rng.randint(1, 12) for _ in range(3)))
    reps = ctx.scale(1, 4)
    k = 0
    for grid in grids:
        for _ in range(reps if len(grid) < 3 or max(grid) <= 6 else 1):
            kind = rng.choice(["symval", "symval", "sympat", "sympat", "sympat", "laplace", "cross", "nonsym"])
            st = rand_stencil(rng, len(grid), kind)
            P = rng.randint(1, 8)
            out.append(sten_case("s%d" % k, grid, st, P)); k += 1
    # the shapes of the library's own generators and the headline examples, on every process count
    for P in range(1, 9):
        out.append(sten_case("s%d" % k, (2, 3), [Fraction(x) for x in (0, -1, 0, -1, 4, -1, 0, -1, 0)], P)); k += 1
        out.append(sten_case("s%d" % k, (3, 2, 4), [Fraction(-1)] * 13 + [Fraction(26)] + [Fraction(-1)] * 13, P)); k += 1
        out.append(sten_case("s%d" % k, (P + 1,), [Fraction(1), Fraction(2), Fraction(3)], P)); k += 1
        out.append(sten_case("s%d" % k, (4, 1), [Fraction(1)] * 9, P)); k += 1
    out.append(dict(cid="lap27", kind="maker", P=1, line="lap27 laplace27 1"))
    # rotation angles in all four quadrants with rational cosine and sine (Pythagorean triples), so that the model is exact and the
    # library (which gets atan2(s, c)) agrees up to rounding; eps != 1 makes the mixed term visible
    F_ = Fraction
    angles = [(F_(1), F_(0)), (F_(0), F_(1)), (F_(-1), F_(0)), (F_(0), F_(-1)), (F_(3, 5), F_(4, 5)), (F_(3, 5), F_(-4, 5)), (F_(-4, 5), F_(3, 5)),
              (F_(-4, 5), F_(-3, 5)), (F_(5, 13), F_(-12, 13)), (F_(-12, 13), F_(-5, 13)), (F_(12, 13), F_(5, 13)), (F_(8, 17), F_(-15, 17))]
    for n, (c, s) in enumerate(angles):
        for m, eps in enumerate([Fraction(1), Fraction(1, 2), Fraction(1, 1000), Fraction(3)] if n < 4 else [rng.choice([Fraction(1, 1000), Fraction(1, 10), Fraction(1, 2), Fraction(3), Fraction(100)])]):
            out.append(dict(cid="dif%d_%d" % (n, m), kind="maker", P=1, line="dif%d_%d diffusion 1 %s %s %s" % (n, m, tok(eps), tok(c), tok(s))))

def judge_stencil(ctx, c, impl, model):
    cid = c["cid"]; ctx.evaluations += 1
    grid, st, P = c["grid"], c["st"], c["P"]
    ctx.count("sten_dim%d" % len(grid)); ctx.count("sten_P%d" % P)
    sym = pattern_symmetric(st)
    ctx.count("sten_sympattern" if sym else "sten_nonsympattern")
    if 1 in grid: ctx.count("sten_extent1")
    if len(set(grid)) > 1: ctx.count("sten_noncubic")
    N = 1
    for g in grid: N *= g
    if N < P: ctx.count("sten_rows_lt_procs")
    if N > 1 and any(abs(v) > ZERO_TOL for v in st): ctx.nontrivial.add(c["line"].split(" ", 1)[1])
    ctx.sample(c["line"])
    tag = "grid=%s P=%d" % ("x".join(map(str, grid)), P)
    S = get(impl, cid, "S"); Pm = get(impl, cid, "P"); PW = get(impl, cid, "PW")
    if crashed(impl, cid) or S is None or Pm is None or PW is None:
        ctx.signal("O", "stencil:crash", "library crashed or gave no output (%s): %s" % (tag, str(impl.get(cid))[:300]), case=c["line"]); return
    Si = fw.parse_mat_tokens(S)
    # ---- O: the property
    par_ranks = split_ranks(Pm)
    par_dense = {}
    for r in par_ranks:
        for kk, v in triples_to_dense(r).items(): par_dense[kk] = par_dense.get(kk, Fraction(0)) + v
    if sym:
        Nexp, exp = expected_stencil(grid, st)
        ok, why = dense_close(Si.dense(), exp)
        if ok and (Si.nr, Si.nc) != (Nexp, Nexp): ok, why = False, "dimensions %s" % ((Si.nr, Si.nc),)
        if not ok:
            ctx.signal("O", "stencil_grid:entry", "stencil_grid: entry is not the stencil weight of the offset (%s): %s" % (tag, why), case=c["line"])
        ok, why = dense_close(par_dense, exp)
        if not ok:
            sig = "par_stencil:extent1" if 1 in grid else "par_stencil:entry"
            ctx.signal("O", sig, "par_stencil_grid: gathered matrix is not the stencil matrix (%s): %s" % (tag, why), case=c["line"])
    else:
        ok, why = dense_close(par_dense, Si.dense())
        if not ok:
            sig = "par_stencil:extent1" if 1 in grid else "par_stencil:differs_from_sequential"
            ctx.signal("O", sig, "par_stencil_grid differs from stencil_grid (%s): %s" % (tag, why), case=c["line"])
    # ---- K: model vs library
    Sm = get(model, cid, "S"); Pmm = get(model, cid, "P")
    if Sm is None or Pmm is None:
        ctx.signal("K", "stencil:model", "model produced no result: %s" % (model.get(cid),), case=c["line"]); return
    ctx.compared += 1
    eq, why = fw.mats_equal_canonical(Si, fw.parse_mat_tokens(Sm))
    if not eq:
        ctx.signal("K", "stencil_grid", "model and library differ (%s): %s" % (tag, why), case=c["line"])
    wins = [tuple(int(x) for x in r) for r in split_ranks(PW)]
    if wins != c["parts"]:
        ctx.signal("K", "stencil:partition", "library partition %s, case assumed %s" % (wins, c["parts"]), case=c["line"])
    mr = split_ranks(Pmm)
    if len(mr) != len(par_ranks):
        ctx.signal("K", "par_stencil_grid", "rank count differs (%s)" % tag, case=c["line"]); return
    for r, (a, b) in enumerate(zip(par_ranks, mr)):
        ok, why = dense_close(triples_to_dense(a), triples_to_dense(b))
        if not ok:
            ctx.signal("K", "par_stencil_grid", "model and library differ on rank %d (%s): %s" % (r, tag, why), case=c["line"]); break

def judge_maker(ctx, c, impl, model):
    cid = c["cid"]; ctx.evaluations += 1
    a, b = get(impl, cid, "ST"), get(model, cid, "ST")
    if a is None:
        ctx.signal("O", "maker:crash", "no stencil returned", case=c["line"]); return
    vals = [nums.parse_num(x) for x in a]
    n = len(vals)
    # O: the stencils the library builds are centrally symmetric (what stencil_grid relies on)
    if not all(nums.close(vals[t], vals[n - 1 - t]) for t in range(n)):
        ctx.signal("O", "maker:not_symmetric", "stencil maker returned a non-symmetric stencil", case=c["line"])
    t = c["line"].split()
    if t[1] == "diffusion" and n == 9:
        # O: the stencil is the Q1 finite-element stencil of -div (Q A Q^T) grad, Q the rotation by theta, A = diag(1, eps):
        # D = Q A Q^T = [[d11, d12], [d12, d22]], stencil = d11 Kxx + d22 Kyy + d12 Kxy with the Q1 element stencils
        eps, cth, sth = (nums.parse_num(x) for x in t[3:6])
        d11 = cth * cth + eps * sth * sth; d22 = sth * sth + eps * cth * cth; d12 = (1 - eps) * cth * sth
        kxx = [-1, -4, -1, 2, 8, 2, -1, -4, -1]; kyy = [-1, 2, -1, -4, 8, -4, -1, 2, -1]; kxy = [-3, 0, 3, 0, 0, 0, 3, 0, -3]
        want = [(d11 * kxx[q] + d22 * kyy[q] + d12 * kxy[q]) / 6 for q in range(9)]
        scale = max(abs(float(w)) for w in want) or 1.0
        bad = [(q, float(vals[q]), float(want[q])) for q in range(9) if abs(float(vals[q]) - float(want[q])) > 1e-12 * scale]
        if bad:
            ctx.signal("O", "maker:diffusion", "diffusion_stencil_2d(eps=%s, theta=atan2(%s, %s)) is not the Q1 stencil of -div Q A Q^T grad: "
                       "(position, library, required) %s" % (t[3], t[5], t[4], bad[:3]), case=c["line"])
    ctx.compared += 1
    if b is None or not fw.toks_equal(a, b):
        ctx.signal("K", "maker", "model and library differ: %s vs %s" % (a, b), case=c["line"])

# ----------------------------------------------------------------------------------------------- I/O cases
VALS = [Fraction(1, 10 ** 12), Fraction(-1, 10 ** 12), Fraction(10 ** 12), Fraction(-10 ** 12), Fraction(1, 2 ** 40), Fraction(2 ** 40),
        Fraction(123456789, 1000), Fraction(-3, 8), Fraction(5), Fraction(-7), Fraction(1, 1024), Fraction(31415926535, 10 ** 10),
        Fraction(-271828, 10 ** 11), Fraction(1), Fraction(-2), Fraction(999999999999), Fraction(3, 10 ** 9)]

def rand_io_triples(rng, nr, nc, want):
    tr = []
    if nr == 0 or nc == 0: return tr
    empty_rows = set(r for r in range(nr) if rng.random() < 0.25)
    rows = [r for r in range(nr) if r not in empty_rows] or [rng.randrange(nr)]
    seen = set()
    for _ in range(want):
        i, j = rng.choice(rows), rng.randrange(nc)
        if (i, j) in seen: continue
        seen.add((i, j)); tr.append((i, j, rng.choice(VALS)))
    return tr

def rand_shape(rng):
    r = rng.random()
    if r < 0.3:
        n = rng.randint(1, 9); return n, n
    return rng.randint(1, 9), rng.randint(1, 9)

def rand_blocks(rng, total, P):
    cuts = sorted(rng.randint(0, total) for _ in range(P - 1))
    if rng.random() < 0.3 and P > 1: cuts[rng.randrange(P - 1)] = cuts[0]      # force an empty block
    cuts = sorted(cuts)
    b = [0] + cuts + [total]
    return [b[i + 1] - b[i] for i in range(P)]

def gen_io_cases(ctx, out):
    rng = ctx.rng
    n = ctx.scale(140, 3000)
    for k in range(n):
        P = rng.randint(1, 8)
        r = rng.random()
        if r < 0.25:       # sequential write -> file -> both readers
            nr, nc = rand_shape(rng)
            tr = rand_io_triples(rng, nr, nc, rng.randint(0, 2 * max(nr, nc)))
            if tr and rng.random() < 0.15: tr.append((tr[0][0], tr[0][1], rng.choice(VALS)))      # duplicate position
            if tr and rng.random() < 0.15: tr.append((tr[-1][0], (tr[-1][1] + 1) % nc, Fraction(0)))  # explicit zero
            A = fw.mat_from_triples("csr", nr, nc, tr)
            parts = default_partition(nr, nc, P)
            line = " ".join(["m%d" % k, "mmrt", str(P)] + A.tokens() + parts_tokens(parts))
            out.append(dict(cid="m%d" % k, kind="mmrt", P=P, A=A, parts=parts, line=line))
        elif r < 0.55:     # hand-written coordinate file, general or symmetric banner
            sym = rng.random() < 0.5
            nr, nc = rand_shape(rng)
            if sym: nc = nr
            tr = rand_io_triples(rng, nr, nc, rng.randint(0, 2 * max(nr, nc)))
            if sym:
                # one stored entry per unordered pair; stored in the lower triangle (the format's convention) or, for half of
                # the files, in either triangle (both readers mirror whatever off-diagonal entry they are given)
                tr = list({(max(i, j), min(i, j)): (max(i, j), min(i, j), v) for (i, j, v) in tr}.values())
                if rng.random() < 0.5:
                    tr = [((j, i, v) if rng.random() < 0.6 else (i, j, v)) for (i, j, v) in tr]
                    # upper entries whose global row equals the column's offset inside its owner's block (local numbering
                    # makes them look diagonal)
                    pp = default_partition(nr, nc, P)
                    for (fr_, nr_, fc_, nc_) in pp[1:]:
                        for r_ in range(min(nc_, 2)):
                            if fc_ + r_ < nc and r_ < fc_ + r_ and not any((a, b) in ((r_, fc_ + r_), (fc_ + r_, r_)) for (a, b, _) in tr):
                                tr.append((r_, fc_ + r_, rng.choice(VALS)))
            tr = list({(i, j): (i, j, v) for (i, j, v) in tr}.values())
            rng.shuffle(tr)
            extra = [(rng.randrange(nr), rng.randrange(nc), Fraction(9))] if (tr and rng.random() < 0.1) else []   # line beyond nz: ignored
            parts = default_partition(nr, nc, P)
            line = " ".join(["f%d" % k, "mmfile", str(P), "symmetric" if sym else "general", str(nr), str(nc), str(len(tr)),
                             str(len(tr) + len(extra))] + [x for (i, j, v) in tr + extra for x in (str(i + 1), str(j + 1), tok(v))] +
                            parts_tokens(parts))
            out.append(dict(cid="f%d" % k, kind="mmfile", P=P, sym=sym, nr=nr, nc=nc, tr=tr, parts=parts, line=line))
        elif r < 0.75:     # distributed write -> file -> both readers
            nr, nc = rand_shape(rng)
            tr = rand_io_triples(rng, nr, nc, rng.randint(0, 3 * max(nr, nc)))
            rb = rand_blocks(rng, nr, P); cb = rand_blocks(rng, nc, P)
            frow = [sum(rb[:i]) for i in range(P + 1)]; fcol = [sum(cb[:i]) for i in range(P + 1)]
            parts = default_partition(nr, nc, P)
            line = " ".join(["w%d" % k, "parmmrt", str(P), str(nr), str(nc), str(P)] + [str(x) for x in frow] + [str(x) for x in fcol] +
                            [str(len(tr))] + [x for (i, j, v) in tr for x in (str(i), str(j), tok(v))] + parts_tokens(parts))
            # regression class: a rank > 0 with more off-process columns than on-process entries (pack buffer size of write_par_mm)
            risky = False
            for rk in range(1, P):
                mine = [(i, j) for (i, j, v) in tr if frow[rk] <= i < frow[rk + 1]]
                on = [1 for (i, j) in mine if fcol[rk] <= j < fcol[rk + 1]]
                offc = set(j for (i, j) in mine if not (fcol[rk] <= j < fcol[rk + 1]))
                if len(offc) > len(on): risky = True
            out.append(dict(cid="w%d" % k, kind="parmmrt", P=P, nr=nr, nc=nc, tr=tr, parts=parts, risky=risky, line=line))
        else:              # PETSc binary, default or explicit partition
            nr, nc = rand_shape(rng)
            tr = sorted(rand_io_triples(rng, nr, nc, rng.randint(0, 3 * max(nr, nc))))
            if tr and rng.random() < 0.2: tr.append((tr[-1][0], tr[-1][1], Fraction(0)))
            tr.sort(key=lambda t: t[0])
            rowsz = [sum(1 for t in tr if t[0] == i) for i in range(nr)]
            mode = 1 if rng.random() < 0.5 else 0
            if mode:
                rb = rand_blocks(rng, nr, P); cb = rand_blocks(rng, nc, P)
                parts = [(sum(rb[:i]), rb[i], sum(cb[:i]), cb[i]) for i in range(P)]
            else:
                parts = default_partition(nr, nc, P)
            line = " ".join(["b%d" % k, "bin", str(P), str(nr), str(nc), str(len(tr))] + [str(x) for x in rowsz] +
                            [str(t[1]) for t in tr] + [tok(t[2]) for t in tr] + [str(mode)] + parts_tokens(parts))
            out.append(dict(cid="b%d" % k, kind="bin", P=P, nr=nr, nc=nc, tr=tr, mode=mode, parts=parts, line=line))
    # the minimal files of the two documented reader defects and of the writer defect, always present
    out.append(io_file_case("fsym0", 2, True, 3, 3, [(0, 0, Fraction(2)), (1, 0, Fraction(5)), (2, 2, Fraction(7))]))
    out.append(io_file_case("fsym1", 1, True, 2, 2, [(1, 0, Fraction(5))]))
    out.append(io_file_case("fsym2", 3, True, 2, 2, [(1, 1, Fraction(3))]))
    # a file without rows (both readers must return the empty matrix), and PETSc files in the machine's byte order
    out.append(io_file_case("fzero0", 2, False, 0, 3, []))
    out.append(io_file_case("fzero1", 1, False, 0, 0, []))
    for n, (P, mode) in enumerate([(2, 2), (3, 3)]):
        tr = [(0, 0, Fraction(3, 2)), (1, 1, Fraction(5, 2)), (1, 2, Fraction(-7))]
        rb = [2] + [0] * (P - 2) + [1]; cb = [1] * 3 + [0] * (P - 3) if P >= 3 else [2, 1]
        parts = [(sum(rb[:i]), rb[i], sum(cb[:i]), cb[i]) for i in range(P)] if mode & 1 else default_partition(3, 3, P)
        line = " ".join(["ble%d" % n, "bin", str(P), "3", "3", "3", "1", "2", "0", "0", "1", "2"] + [tok(t[2]) for t in tr] + [str(mode)] + parts_tokens(parts))
        out.append(dict(cid="ble%d" % n, kind="bin", P=P, nr=3, nc=3, tr=tr, mode=mode, parts=parts, line=line))

def io_file_case(cid, P, sym, nr, nc, tr):
    parts = default_partition(nr, nc, P)
    line = " ".join([cid, "mmfile", str(P), "symmetric" if sym else "general", str(nr), str(nc), str(len(tr)), str(len(tr))] +
                    [x for (i, j, v) in tr for x in (str(i + 1), str(j + 1), tok(v))] + parts_tokens(parts))
    return dict(cid=cid, kind="mmfile", P=P, sym=sym, nr=nr, nc=nc, tr=tr, parts=parts, line=line)

def dense_of_triples(tr):
    d = {}
    for (i, j, v) in tr: d[(i, j)] = d.get((i, j), Fraction(0)) + v
    return {k: v for k, v in d.items() if abs(v) > ZERO_TOL}

def gathered(ranks_toks):
    d = {}
    for r in split_ranks(ranks_toks):
        for kk, v in triples_to_dense(r).items(): d[kk] = d.get(kk, Fraction(0)) + v
    return {k: v for k, v in d.items() if abs(v) > ZERO_TOL}

PRINT_RTOL = 4e-15      # "%2.15e": 16 significant digits

def judge_io(ctx, c, impl, model):
    cid, kind, P = c["cid"], c["kind"], c["P"]
    ctx.evaluations += 1; ctx.count("io_" + kind); ctx.count("io_P%d" % P)
    ctx.sample(c["line"])
    if kind == "mmrt": want = c["A"].dense(); nr, nc = c["A"].nr, c["A"].nc
    else:
        nr, nc = c["nr"], c["nc"]; want = dense_of_triples(c["tr"])
    if nr != nc: ctx.count("io_rectangular")
    if nr < P: ctx.count("io_rows_lt_procs")
    if want: ctx.nontrivial.add(c["line"].split(" ", 1)[1])
    sym = c.get("sym", False)
    if sym:
        ctx.count("io_symmetric_banner")
        full = dict(want)
        for (i, j), v in want.items():
            if i != j: full[(j, i)] = full.get((j, i), Fraction(0)) + v
        want = full
    R = get(impl, cid, "R"); PR = get(impl, cid, "PR"); PW = get(impl, cid, "PW")
    if crashed(impl, cid) or R is None or PR is None or PW is None:
        sig = "write_par_mm:pack_truncate" if (kind == "parmmrt" and c.get("risky")) else ("read_par_mm:zero_rows" if (kind == "mmfile" and nr == 0) else kind + ":crash")
        ctx.signal("O", sig, "library crashed / aborted on P=%d: %s" % (P, str(impl.get(cid))[:300]), case=c["line"]); return
    # ---- O
    tolr = PRINT_RTOL      # also covers the decimal -> double conversion of the case values
    seq_d = None
    if R == ["NULL"]:
        ctx.signal("O", kind + ":read_null", "sequential reader returned NULL on a well-formed file", case=c["line"])
    else:
        Ri = fw.parse_mat_tokens(R); seq_d = Ri.dense()
        ok, why = dense_close(seq_d, want, tolr, 0)
        if ok and (Ri.nr, Ri.nc) != (nr, nc): ok, why = False, "dimensions %s, expected %s" % ((Ri.nr, Ri.nc), (nr, nc))
        if not ok:
            sig = "read_mm:symmetric_ignored" if sym else ("readMatrix:native_order_values" if (kind == "bin" and c.get("mode", 0) & 2) else "") or {"mmrt": "write_mm_read_mm", "mmfile": "read_mm", "parmmrt": "write_par_mm_read_mm", "bin": "readMatrix"}[kind] + ":content"
            ctx.signal("O", sig, "sequential reader does not return the described matrix (P=%d): %s" % (P, why), case=c["line"])
    par_d = gathered(PR)
    ok, why = dense_close(par_d, want, tolr, 0)
    if not ok:
        if sym:
            doubled = dict(want)
            for (i, j), v in want.items():
                if i == j: doubled[(i, j)] = 2 * v
            sig = "read_par_mm:symmetric_diag_doubled" if dense_close(par_d, doubled, tolr, 0)[0] else "read_par_mm:symmetric"
        else:
            sig = {"mmrt": "write_mm_read_par_mm", "mmfile": "read_par_mm", "parmmrt": "write_par_mm_read_par_mm", "bin": "readParMatrix"}[kind] + ":content"
        ctx.signal("O", sig, "distributed reader does not assemble the described matrix (P=%d): %s" % (P, why), case=c["line"])
    if seq_d is not None and not sym:
        ok, why = dense_close(par_d, seq_d, 1e-15, 0)
        if not ok:
            ctx.signal("O", kind + ":par_differs_from_seq", "distributed and sequential readers disagree (P=%d): %s" % (P, why), case=c["line"])
    # ---- K
    Rm = get(model, cid, "R"); PRm = get(model, cid, "PR")
    if Rm is None or PRm is None:
        ctx.signal("K", kind + ":model", "model produced no result: %s" % (model.get(cid),), case=c["line"]); return
    ctx.compared += 1
    if kind in ("mmrt", "parmmrt"):
        Fi, Fm = get(impl, cid, "FILE"), get(model, cid, "FILE")
        if Fi is None or Fm is None or Fi[:4] != Fm[:4]:
            ctx.signal("K", kind + ":file_header", "file header differs: %s vs %s" % (Fi and Fi[:4], Fm and Fm[:4]), case=c["line"])
        else:
            def ents(t): return [(int(t[k]), int(t[k + 1]), nums.parse_num(t[k + 2])) for k in range(4, len(t) - 2, 3)]
            ei, em = ents(Fi), ents(Fm)
            if kind == "parmmrt": ei, em = sorted(ei), sorted(em)      # block order inside a rank is not part of the contract
            same = len(ei) == len(em) and all(a[:2] == b[:2] and nums.close(a[2], b[2]) for a, b in zip(ei, em))
            if not same:
                ctx.signal("K", kind + ":file", "written file differs from the model's", case=c["line"], extra=dict(impl=" ".join(Fi)[:800], model=" ".join(Fm)[:800]))
    if (R == ["NULL"]) != (Rm == ["NULL"]):
        ctx.signal("K", kind + ":seq_reader", "NULL-ness differs", case=c["line"])
    elif R != ["NULL"]:
        eq, why = fw.mats_equal_canonical(fw.parse_mat_tokens(R), fw.parse_mat_tokens(Rm))
        if not eq: ctx.signal("K", kind + ":seq_reader", "model and library differ: " + why, case=c["line"])
    wins = [tuple(int(x) for x in r) for r in split_ranks(PW)]
    if wins != [tuple(p) for p in c["parts"]]:
        ctx.signal("K", kind + ":partition", "library partition %s, case assumed %s" % (wins, c["parts"]), case=c["line"])
    ri, rm = split_ranks(PR), split_ranks(PRm)
    if len(ri) != len(rm):
        ctx.signal("K", kind + ":par_reader", "rank count differs", case=c["line"])
    else:
        for r, (a, b) in enumerate(zip(ri, rm)):
            if "UNDEF" in b:
                ctx.signal("K", kind + ":par_reader", "model undefined on rank %d" % r, case=c["line"]); break
            ok, why = dense_close(triples_to_dense(a), triples_to_dense(b))
            if not ok:
                ctx.signal("K", kind + ":par_reader", "model and library differ on rank %d: %s" % (r, why), case=c["line"]); break

# ----------------------------------------------------------------------------------------------- run
def case_from_line(line):
    """replay: rebuild the case dictionary from its text"""
    t = line.split(); cid, op, P = t[0], t[1], int(t[2])
    if op == "sten":
        d = int(t[3]); grid = [int(x) for x in t[4:4 + d]]; st = [nums.parse_num(x) for x in t[4 + d:4 + d + 3 ** d]]
        return sten_case(cid, grid, st, P)
    if op in ("laplace27", "diffusion"): return dict(cid=cid, kind="maker", P=P, line=line)
    def parts_at(p):
        n = int(t[p]); return [tuple(int(x) for x in t[p + 1 + 4 * i:p + 5 + 4 * i]) for i in range(n)]
    if op == "mmrt":
        nr, nc, nnz = int(t[4]), int(t[5]), int(t[6]); p = 7
        i1 = [int(x) for x in t[p:p + nr + 1]]; p += nr + 1
        i2 = [int(x) for x in t[p:p + nnz]]; p += nnz
        v = [nums.parse_num(x) for x in t[p:p + nnz]]; p += nnz
        return dict(cid=cid, kind="mmrt", P=P, A=fw.Mat("csr", nr, nc, i1, i2, v), parts=parts_at(p), line=line)
    if op == "mmfile":
        sym = t[3] == "symmetric"; nr, nc, nz, nl = int(t[4]), int(t[5]), int(t[6]), int(t[7])
        tr = [(int(t[8 + 3 * k]) - 1, int(t[9 + 3 * k]) - 1, nums.parse_num(t[10 + 3 * k])) for k in range(nz)]
        return dict(cid=cid, kind="mmfile", P=P, sym=sym, nr=nr, nc=nc, tr=tr, parts=parts_at(8 + 3 * nl), line=line)
    if op == "parmmrt":
        nr, nc, pp = int(t[3]), int(t[4]), int(t[5]); p = 6 + 2 * (pp + 1)
        nnz = int(t[p]); p += 1
        tr = [(int(t[p + 3 * k]), int(t[p + 3 * k + 1]), nums.parse_num(t[p + 3 * k + 2])) for k in range(nnz)]
        return dict(cid=cid, kind="parmmrt", P=P, nr=nr, nc=nc, tr=tr, parts=parts_at(p + 3 * nnz), risky=True, line=line)
    if op == "bin":
        nr, nc, nnz = int(t[3]), int(t[4]), int(t[5]); p = 6
        rowsz = [int(x) for x in t[p:p + nr]]; p += nr
        cols = [int(x) for x in t[p:p + nnz]]; p += nnz
        vals = [nums.parse_num(x) for x in t[p:p + nnz]]; p += nnz
        rows = [i for i, s in enumerate(rowsz) for _ in range(s)]
        return dict(cid=cid, kind="bin", P=P, nr=nr, nc=nc, tr=list(zip(rows, cols, vals)), mode=int(t[p]), parts=parts_at(p + 1), line=line)
    raise ValueError(op)

def run(ctx):
    ctx.rule = ("stencils: every grid of 1..3 dimensions with extents 1..6 (quick) / 1..12 (thorough, 3-D sampled above 6), random "
                "stencils with symmetric zero pattern (equal or different mirrored values, weights below zero_tol), a share of "
                "non-symmetric patterns (model tie only), P in 1..8; I/O: rectangular matrices with empty rows, values 1e-12..1e12 "
                "of both signs, general/symmetric banners, default and explicit partitions with empty blocks, P in 1..8; "
                "non-trivial = more than one grid point and a non-zero stencil / a file with entries; distinct = distinct case text")
    ctx.extra_cov = dict(partial_clauses=[
        "stencil generators (C19_stencil_*, C19_par_stencil_*, C19_makers_symmetric): fully proved for every dimension count, every extent >= 1, every partition",
        "Matrix Market / PETSc binary (C19_*_partial): proved on the token-level model; libc formatting/scanning (show, parse), byte order and "
        "ParMatrix::finalize after the distributed readers are not modelled - checked on the explored inputs by the O oracle "
        "(round trip to 16 printed digits, distributed = sequential = file content) and the K comparison"])
    before = set(glob.glob("/tmp/c19-drv-*"))
    cases = []
    if ctx.replay:
        cases = [case_from_line(l) for l in ctx.replay]
    else:
        gen_stencil_cases(ctx, cases)
        gen_io_cases(ctx, cases)
    cf = fw.write_cases(ctx, "c19.cases", [c["line"] for c in cases])
    impl = {}
    ctx.count("io_parmmrt_offcols_gt_on_nnz", sum(1 for c in cases if c.get("risky")))
    for P in range(1, 9):
        lines = [c["line"] for c in cases if c["P"] == P]
        if lines:
            res, _ = fw.run_impl_lines(ctx, "drv_gallery", lines, nprocs=P, name="c19p%d" % P)
            impl.update(res)
    rcm, model, _, errm = fw.run_model(ctx, cf)
    if rcm != 0: ctx.signal("K", "modeldriver", "model driver exited with %s: %s" % (rcm, errm[-400:]))
    for c in cases:
        if c["kind"] == "sten": judge_stencil(ctx, c, impl, model)
        elif c["kind"] == "maker": judge_maker(ctx, c, impl, model)
        else: judge_io(ctx, c, impl, model)
    for d in set(glob.glob("/tmp/c19-drv-*")) - before:     # a crashed driver leaves its scratch directory behind
        shutil.rmtree(d, ignore_errors=True)
