"""C07 — conversions, copies, transposes and sums preserve the represented operator."""
from fractions import Fraction
import framework as fw, gen, nums

ID = "C07"
OPS_ANY = ["to_coo", "to_csr", "to_csc", "copy", "transpose", "sort", "remove_duplicates"]

def fmt_after(fmt, op):
    return {"to_coo": "coo", "to_csr": "csr", "to_csc": "csc"}.get(op, fmt)

def expected(ops, A):
    """the property's own observable: dense image and dimensions after the chain"""
    d, nr, nc = A.dense(), A.nr, A.nc
    for op in ops:
        if op == "transpose":
            d = {(j, i): v for (i, j), v in d.items()}; nr, nc = nc, nr
    return d, nr, nc

def post_ok(op, M):
    """format postconditions of the last operation"""
    if op == "sort":
        if M.fmt == "coo":
            keys = [(t[0], t[1]) for t in M.triples()]
            return keys == sorted(keys), "COO not sorted by (row, col)"
        return all([e[0] for e in l] == sorted(e[0] for e in l) for l in M.lines()), "line not sorted"
    if op == "move_diag" and M.fmt != "coo":
        for i, l in enumerate(M.lines()):
            if any(e[0] == i for e in l) and l[0][0] != i:
                return False, "diagonal of line %d not first" % i
        return True, ""
    if op == "remove_duplicates":
        pos = [(t[0], t[1]) for t in M.triples()]
        return len(pos) == len(set(pos)), "duplicate position left"
    return True, ""

def dup_mat(rng, fmt):
    """a matrix that certainly has duplicate positions, a cancelling pair, an explicit zero and a diagonal entry"""
    nr, nc = rng.choice([(3, 3), (4, 4), (3, 5), (5, 3), (2, 2)])
    trip = gen.rand_triples(rng, nr, nc, rng.randint(4, 10), dup_frac=0.45, cancel_frac=0.15, zero_frac=0.1)
    d = rng.randrange(min(nr, nc)); trip += [(d, d, gen.rand_val(rng)), (d, d, gen.rand_val(rng))]
    rng.shuffle(trip)
    return fw.mat_from_triples(fmt, nr, nc, trip)

def directed_cases(ctx):
    """every ordered pair of operations on every source format, on duplicate-laden matrices (the boundaries of the
    proofs' case splits: merged duplicates followed by a reinterpretation of the arrays, etc.)"""
    rng = ctx.rng; cases = []; k = 0
    for fmt in ("coo", "csr", "csc"):
        for op1 in OPS_ANY + ["move_diag"]:
            if op1 == "move_diag" and fmt == "coo": continue
            f1 = fmt_after(fmt, op1)
            for op2 in OPS_ANY + ["move_diag"]:
                if op2 == "move_diag" and f1 == "coo": continue
                A = dup_mat(rng, fmt); ops = [op1, op2]
                if rng.random() < 0.3:
                    f2 = fmt_after(f1, op2); op3 = rng.choice(OPS_ANY + (["move_diag"] if f2 != "coo" else [])); ops.append(op3)
                cid = "d%d" % k; k += 1
                cases.append(dict(cid=cid, kind="chain", A=A, ops=ops, line=" ".join([cid, "chain"] + A.tokens() + [str(len(ops))] + ops)))
    return cases

def gen_cases(ctx, n):
    rng = ctx.rng
    cases = directed_cases(ctx)
    for k in range(n):
        r = rng.random()
        if r < 0.75:
            A = gen.rand_mat(rng)
            fmt = A.fmt; ops = []
            for _ in range(rng.choice([1, 1, 2, 3, 3])):
                cand = list(OPS_ANY) + (["move_diag"] if fmt != "coo" else [])
                op = rng.choice(cand); ops.append(op); fmt = fmt_after(fmt, op)
            cases.append(dict(cid="c%d" % k, kind="chain", A=A, ops=ops,
                              line=" ".join(["c%d" % k, "chain"] + A.tokens() + [str(len(ops))] + ops)))
        else:
            dims = gen.rand_dims(rng)
            A = gen.rand_mat(rng, dims=dims); B = gen.rand_mat(rng, dims=dims)
            op = rng.choice(["add", "subtract", "add_nodup"])
            cases.append(dict(cid="c%d" % k, kind=op, A=A, B=B,
                              line=" ".join(["c%d" % k, op] + A.tokens() + B.tokens())))
    return cases

def judge(ctx, c, impl, model):
    cid = c["cid"]
    ri, rm = impl.get(cid), model.get(cid)
    ctx.evaluations += 1
    if c["kind"] == "chain":
        A = c["A"]; ctx.count("src_" + A.fmt); ctx.count("chainlen_%d" % len(c["ops"]))
        for op in c["ops"]: ctx.count("op_" + op)
        if A.nr != A.nc: ctx.count("rectangular")
        if A.nnz == 0: ctx.count("empty")
        if A.nnz > 0 and A.nr > 0: ctx.nontrivial.add(c["line"].split(" ", 1)[1])
        exp_d, exp_nr, exp_nc = expected(c["ops"], A)
        sig = "chain:%s:%s" % (A.fmt, ">".join(c["ops"]))
    else:
        A, B = c["A"], c["B"]; ctx.count("op_" + c["kind"])
        if A.nnz and B.nnz: ctx.nontrivial.add(c["line"].split(" ", 1)[1])
        db = B.dense(); exp_d = dict(A.dense())
        sgn = -1 if c["kind"] == "subtract" else 1
        for k, v in db.items(): exp_d[k] = exp_d.get(k, Fraction(0)) + sgn * v
        exp_d = {k: v for k, v in exp_d.items() if v != 0}
        exp_nr, exp_nc = A.nr, A.nc
        sig = "%s:%s" % (c["kind"], A.fmt)
    ctx.sample(c["line"])
    if not ri or ri[0][0] != "R":
        ctx.signal("O", sig + ":crash", "implementation failed on case: %s" % (ri,), case=c["line"]); return
    Mi = fw.parse_mat_tokens(ri[0][1])
    # O: the property evaluated on the implementation's own output
    ok, why = fw.dense_equal(Mi.dense(), exp_d)
    if ok and (Mi.nr, Mi.nc) != (exp_nr, exp_nc): ok, why = False, "dimensions %s, expected %s" % ((Mi.nr, Mi.nc), (exp_nr, exp_nc))
    if ok:
        last = c["ops"][-1] if c["kind"] == "chain" else ("sort" if c["kind"] == "add_nodup" else "remove_duplicates")
        ok, why = post_ok(last, Mi)
    if not ok:
        ctx.signal("O", sig, "operator/dimension/format postcondition violated: " + why, case=c["line"],
                   extra=dict(impl=" ".join(ri[0][1])))
    # K: model vs implementation
    if not rm or rm[0][0] != "R":
        ctx.signal("K", sig + ":model", "model produced no result: %s" % (rm,), case=c["line"]); return
    Mm = fw.parse_mat_tokens(rm[0][1])
    eq, why = fw.mats_equal_canonical(Mi, Mm)
    ctx.compared += 1
    if not eq:
        ctx.signal("K", sig, "model and implementation differ: " + why, case=c["line"],
                   extra=dict(impl=" ".join(ri[0][1]), model=" ".join(rm[0][1])))

def run(ctx):
    ctx.rule = ("random matrices (COO/CSR/CSC boundary arrays, unsorted, duplicates, explicit zeros, cancelling pairs, "
                "rectangular and empty shapes) x chains of 1..3 operations / add / subtract; non-trivial = matrix has "
                "entries; distinct = distinct case text")
    n = ctx.scale(600, 12000)
    cases = gen_cases(ctx, n)
    if ctx.replay:
        cases = [c for c in cases if False]
        cases = [dict_from_line(l) for l in ctx.replay]
    cf = fw.write_cases(ctx, "c07.cases", [c["line"] for c in cases])
    impl, crashed = fw.run_impl_lines(ctx, "drv_matrix", [c["line"] for c in cases], nprocs=0, name="c07")
    rcm, model, _, errm = fw.run_model(ctx, cf)
    if rcm != 0: ctx.signal("K", "modeldriver", "model driver exited with %s: %s" % (rcm, errm[-400:]))
    for c in cases: judge(ctx, c, impl, model)
    if not ctx.replay: run_block_conv(ctx); run_block_chain(ctx)
    if not ctx.replay:
        import C07par
        C07par.run(ctx)

def run_block_conv(ctx):
    """BSR -> CSR (block storage to scalar storage): operator, dimensions, no stored explicit zero; model = bsr_to_csr"""
    rng = ctx.rng; cases = []
    for k in range(ctx.scale(200, 4000)):
        nbr, nbc = rng.randint(1, 4), rng.randint(1, 4); br, bc = rng.randint(1, 3), rng.randint(1, 3)
        nblk = rng.choice([0, 1, rng.randint(1, nbr * nbc + 2)])
        blocks = [(rng.randrange(nbr), rng.randrange(nbc), [gen.rand_val(rng) if rng.random() > 0.2 else Fraction(0) for _ in range(br * bc)])
                  for _ in range(nblk)]
        toks = ["bc%d" % k, "bconv", "bsr", nbr, nbc, br, bc, nblk]
        for (I, J, v) in blocks: toks += [I, J] + [nums.tok_num(z) for z in v]
        exp = {}
        for (I, J, v) in blocks:
            for r in range(br):
                for c in range(bc):
                    key = (I * br + r, J * bc + c); exp[key] = exp.get(key, Fraction(0)) + v[r * bc + c]
        cases.append(dict(cid="bc%d" % k, line=" ".join(str(z) for z in toks), exp={k_: v for k_, v in exp.items() if v != 0},
                          nr=nbr * br, nc=nbc * bc, nblk=nblk))
    lines = [c["line"] for c in cases]
    impl, crashed = fw.run_impl_lines(ctx, "drv_matrix", lines, nprocs=0, name="c07blk")
    cf = fw.write_cases(ctx, "c07blk.cases", lines)
    rc, model, _, err = fw.run_model(ctx, cf)
    for c in cases:
        ctx.evaluations += 1; ctx.count("op_bsr_to_csr")
        if c["nblk"]: ctx.nontrivial.add(c["line"].split(" ", 1)[1])
        sig = "block:bsr_to_csr"
        ri, rm = impl.get(c["cid"]), model.get(c["cid"])
        if not ri or ri[0][0] != "R":
            ctx.signal("O", sig + ":crash", "implementation failed on case: %s" % (ri,), case=c["line"]); continue
        Mi = fw.parse_mat_tokens(ri[0][1])
        ok, why = fw.dense_equal(Mi.dense(), c["exp"])
        if ok and (Mi.nr, Mi.nc) != (c["nr"], c["nc"]): ok, why = False, "dimensions %s, expected %s" % ((Mi.nr, Mi.nc), (c["nr"], c["nc"]))
        if not ok:
            ctx.signal("O", sig, "operator/dimension postcondition violated: " + why, case=c["line"], extra=dict(impl=" ".join(ri[0][1])))
        if not rm or rm[0][0] != "R":
            ctx.signal("K", sig + ":model", "model produced no result: %s" % (rm,), case=c["line"]); continue
        Mm = fw.parse_mat_tokens(rm[0][1])
        eq, why = fw.mats_equal_canonical(Mi, Mm); ctx.compared += 1
        if not eq:
            ctx.signal("K", sig, "model and implementation differ: " + why, case=c["line"], extra=dict(impl=" ".join(ri[0][1]), model=" ".join(rm[0][1])))

BOPS = ["to_bcoo", "to_bsr", "to_bsc", "copy", "transpose", "sort", "move_diag", "remove_duplicates", "to_csr"]

def parse_bmat(toks):
    """-> (fmt, nr, nc, br, bc, dense {(i,j): v}) of a block or scalar result line"""
    if toks[0] in ("coo", "csr", "csc"):
        M = fw.parse_mat_tokens(toks); return M.fmt, M.nr, M.nc, 1, 1, M.dense(), M
    fmt, nbr, nbc, br, bc, nnz = toks[0], int(toks[1]), int(toks[2]), int(toks[3]), int(toks[4]), int(toks[5])
    i1 = toks.index("I1"); i2 = toks.index("I2"); iv = toks.index("V")
    idx1 = [int(x) for x in toks[i1 + 1:i2]]; idx2 = [int(x) for x in toks[i2 + 1:iv]]
    vals = [nums.parse_num(x) for x in toks[iv + 1:]]
    if len(vals) != nnz * br * bc or len(idx2) != nnz: raise ValueError("malformed block matrix: %d values for %d blocks" % (len(vals), nnz))
    if fmt == "bcoo": pos = list(zip(idx1, idx2))
    else:
        n1 = nbr if fmt == "bsr" else nbc
        if len(idx1) != n1 + 1 or idx1[0] != 0 or idx1[-1] != nnz or any(idx1[k] > idx1[k + 1] for k in range(n1)):
            raise ValueError("malformed pointer array %s" % idx1)
        pos = []
        for l in range(n1):
            for k in range(idx1[l], idx1[l + 1]): pos.append((l, idx2[k]) if fmt == "bsr" else (idx2[k], l))
    d = {}
    for k, (I, J) in enumerate(pos):
        if not (0 <= I < nbr and 0 <= J < nbc): raise ValueError("block position (%d,%d) outside %dx%d" % (I, J, nbr, nbc))
        for r in range(br):
            for c in range(bc):
                v = vals[k * br * bc + r * bc + c]
                if isinstance(v, str): raise ValueError("non-finite value")
                key = (I * br + r, J * bc + c); d[key] = d.get(key, Fraction(0)) + v
    return fmt, nbr * br, nbc * bc, br, bc, {k: v for k, v in d.items() if v != 0}, (fmt, nbr, nbc, br, bc, idx1, idx2, pos)

def bmat_lines(toks):
    """block result tokens -> (header, list of lines; a line = sorted list of (index..., block values as Fractions))"""
    fmt, nbr, nbc, br, bc, nnz = toks[0], int(toks[1]), int(toks[2]), int(toks[3]), int(toks[4]), int(toks[5])
    i1 = toks.index("I1"); i2 = toks.index("I2"); iv = toks.index("V")
    idx1 = [int(x) for x in toks[i1 + 1:i2]]; idx2 = [int(x) for x in toks[i2 + 1:iv]]
    vals = [nums.parse_num(x) for x in toks[iv + 1:]]; b = br * bc
    blocks = [tuple(vals[k * b:(k + 1) * b]) for k in range(nnz)]
    if fmt == "bcoo": lines = [sorted(zip(idx1, idx2, blocks), key=lambda e: (e[0], e[1], [float(x) for x in e[2]]))]
    else: lines = [sorted(zip(idx2[idx1[l]:idx1[l + 1]], blocks[idx1[l]:idx1[l + 1]]), key=lambda e: (e[0], [float(x) for x in e[1]])) for l in range(len(idx1) - 1)]
    return (fmt, nbr, nbc, br, bc, nnz), lines

def bmats_equal(ti, tm):
    hi, li = bmat_lines(ti); hm, lm = bmat_lines(tm)
    if hi != hm: return False, "header (format, block rows, block cols, b_rows, b_cols, blocks) %s vs model %s" % (hi, hm)
    for k, (x, y) in enumerate(zip(li, lm)):
        if len(x) != len(y): return False, "line %d: %d vs %d blocks" % (k, len(x), len(y))
        for e, f in zip(x, y):
            if e[:-1] != f[:-1] or any(not nums.close(a, b_, 1e-9, 1e-12) for a, b_ in zip(e[-1], f[-1])):
                return False, "line %d: %s vs model %s" % (k, e, f)
    return True, ""

def run_block_chain(ctx):
    """block forms: chains of <= 3 of {to_BCOO,to_BSR,to_BSC,copy,transpose,sort,move_diag,remove_duplicates,to_CSR} on BCOO/BSR/BSC
    matrices (rectangular block grids and rectangular blocks, duplicate block positions); oracle = dense image, dimensions, format"""
    rng = ctx.rng; cases = []
    for k in range(ctx.scale(500, 8000)):
        nbr, nbc = rng.randint(1, 4), rng.randint(1, 4); br, bc = rng.randint(1, 3), rng.randint(1, 3)
        if rng.random() < 0.3: nbc = nbr
        if rng.random() < 0.3: bc = br
        nblk = rng.choice([0, 1, rng.randint(1, nbr * nbc + 2)])
        blocks = [(rng.randrange(nbr), rng.randrange(nbc), [Fraction(rng.randint(1, 9)) * rng.choice([1, -1]) for _ in range(br * bc)]) for _ in range(nblk)]
        if br * bc >= 2:
            # blocks whose entries cancel (sum 0, all entries non-zero), and duplicate positions that merge into such a block
            for q, (I, J, v) in enumerate(blocks):
                if rng.random() < 0.25:
                    w = list(v); w[-1] = -sum(w[:-1])
                    if w[-1] != 0: blocks[q] = (I, J, w)
            if blocks and rng.random() < 0.3:
                (I, J, v) = rng.choice(blocks)
                w = [Fraction(rng.randint(1, 9)) for _ in v]; w[-1] = -(sum(v) + sum(w[:-1]))
                blocks.append((I, J, w))
        fmt = rng.choice(["bcoo", "bsr", "bsc"]); nops = rng.choice([1, 1, 2, 3])
        ops = []
        for q in range(nops):
            o = rng.choice(BOPS)
            if o == "to_csr" and q != nops - 1: o = "copy"
            ops.append(o)
        nblk = len(blocks)
        toks = ["bk%d" % k, "bchain", fmt, nbr, nbc, br, bc, nblk]
        for (I, J, v) in blocks: toks += [I, J] + [nums.tok_num(z) for z in v]
        toks += [len(ops)] + ops
        exp = {}
        for (I, J, v) in blocks:
            for r in range(br):
                for c in range(bc):
                    key = (I * br + r, J * bc + c); exp[key] = exp.get(key, Fraction(0)) + v[r * bc + c]
        nr, nc, ebr, ebc, efmt = nbr * br, nbc * bc, br, bc, fmt
        for o in ops:
            if o == "transpose": exp = {(j, i): v for (i, j), v in exp.items()}; nr, nc, ebr, ebc = nc, nr, ebc, ebr
            elif o in ("to_bcoo", "to_bsr", "to_bsc"): efmt = o[3:]
            elif o == "to_csr": efmt = "csr_or_bsr"      # BSR::to_CSR expands to scalars; BCOO/BSC::to_CSR return the block-row form
        cases.append(dict(cid="bk%d" % k, line=" ".join(str(z) for z in toks), exp={k_: v for k_, v in exp.items() if v != 0},
                          nr=nr, nc=nc, br=ebr, bc=ebc, fmt=efmt, ops=ops, src=fmt, nblk=nblk))
    lines = [c["line"] for c in cases]
    impl, crashed = fw.run_impl_lines(ctx, "drv_matrix", lines, nprocs=0, name="c07bchain")
    cf = fw.write_cases(ctx, "c07bchain.cases", lines)
    rcm, model, _, errm = fw.run_model(ctx, cf)
    if rcm != 0: ctx.signal("K", "modeldriver", "model driver exited with %s: %s" % (rcm, errm[-400:]))
    for c in cases:
        ctx.evaluations += 1; ctx.count("block_src_" + c["src"])
        for o in c["ops"]: ctx.count("bop_" + o)
        if c["nblk"]: ctx.nontrivial.add(c["line"].split(" ", 1)[1])
        sig = "bchain:%s:%s" % (c["src"], ">".join(c["ops"]))
        ri = impl.get(c["cid"])
        if not ri or ri[0][0] != "R":
            ctx.signal("O", sig + ":crash", "implementation failed on case: %s" % (ri,), case=c["line"]); continue
        try:
            fmt, nr, nc, br, bc, dense, _ = parse_bmat(ri[0][1])
        except (ValueError, IndexError) as e:
            ctx.signal("O", sig, "result is not a well-formed matrix: %s" % e, case=c["line"], extra=dict(impl=" ".join(ri[0][1])[:600])); continue
        ok, why = fw.dense_equal(dense, c["exp"])
        if ok and (nr, nc) != (c["nr"], c["nc"]): ok, why = False, "dimensions %s, expected %s" % ((nr, nc), (c["nr"], c["nc"]))
        if ok and c["fmt"] == "csr_or_bsr":
            if not (fmt == "csr" or (fmt, br, bc) == ("bsr", c["br"], c["bc"])): ok, why = False, "format/block size %s after to_CSR" % ((fmt, br, bc),)
        elif ok and (fmt, br, bc) != (c["fmt"], c["br"], c["bc"]): ok, why = False, "format/block size %s, expected %s" % ((fmt, br, bc), (c["fmt"], c["br"], c["bc"]))
        if not ok:
            ctx.signal("O", sig, "operator/dimension/format postcondition violated: " + why, case=c["line"], extra=dict(impl=" ".join(ri[0][1])[:600]))
        # K: the extracted polymorphic model at blocks (BCOO move_diag and the scalar conversions are not modelled)
        rm = model.get(c["cid"])
        if rm and rm[0][0] == "UNSUPPORTED" or (c["src"] == "bcoo" or "to_bcoo" in c["ops"]) and "move_diag" in c["ops"]:
            ctx.count("bchain_not_modelled"); continue
        if not rm or rm[0][0] != "R":
            ctx.signal("K", sig + ":model", "model produced no result: %s" % (rm,), case=c["line"]); continue
        ctx.compared += 1
        try: eq, why = bmats_equal(ri[0][1], rm[0][1])
        except (ValueError, IndexError) as e: eq, why = False, "unreadable: %s" % e
        if not eq:
            ctx.signal("K", sig, "model and implementation differ: " + why, case=c["line"],
                       extra=dict(impl=" ".join(ri[0][1])[:600], model=" ".join(rm[0][1])[:600]))

def dict_from_line(line):
    """rebuild a case from its text (replay)"""
    t = line.split(); cid, kind = t[0], t[1]
    def rd(pos):
        fmt, nr, nc, nnz = t[pos], int(t[pos+1]), int(t[pos+2]), int(t[pos+3]); p = pos + 4
        n1 = nnz if fmt == "coo" else (nr if fmt == "csr" else nc) + 1
        i1 = [int(x) for x in t[p:p+n1]]; p += n1
        i2 = [int(x) for x in t[p:p+nnz]]; p += nnz
        v = [nums.parse_num(x) for x in t[p:p+nnz]]; p += nnz
        return fw.Mat(fmt, nr, nc, i1, i2, v), p
    A, p = rd(2)
    if kind == "chain":
        k = int(t[p]); return dict(cid=cid, kind="chain", A=A, ops=t[p+1:p+1+k], line=line)
    B, p = rd(p)
    return dict(cid=cid, kind=kind, A=A, B=B, line=line)
