"""C11 — relaxation sweeps (weighted Jacobi, SOR, SSOR; sequential and distributed hybrid) compute their
textbook update, fix the solution of A x = b, and never modify the right-hand side.

K: extracted Coq model (coq/Amg/Relax.v at Qc) vs the library on the same case.
O: independent textbook evaluation with Fractions (dense a_ij, row-wise definition, off-process unknowns frozen at
   the start of the sweep), fixed-point test with manufactured b = A x (bitwise), b unchanged bitwise.
Floating point: the data are small dyadics, but a chain of n*sweeps dependent updates can need more than 53 bits, so
values are compared against a rigorous running error bound (computed beside the exact evaluation: propagated input
error + unit roundoff * operation count * magnitude bound); whenever every intermediate is representable the bound is
irrelevant because the difference is exactly 0.  Fixed-point cases and the off-domain cases are compared exactly."""
from fractions import Fraction
import framework as fw, nums

ID = "C11"
FAMILY = "relax"
OCAML_SRCS = ("conv.ml", "drv_relax.ml")
ASSUMPTIONS = [
    "domain of the theorems: every row i < n stores exactly one entry in column i, its value is nonzero (Jacobi: "
    "|a_ii| > zero_tol = 1e-16, the library's own guard), all columns < n, block sizes sum to n; the sequential SOR/SSOR "
    "additionally need that entry stored first (relax.cpp takes vals[row_start] as the diagonal)",
    "floating-point rounding is not modelled (exact field); comparison uses a running forward error bound",
    "MPI / the halo exchange itself is not modelled here (C03/C04): the model reads start-of-sweep values directly",
]

METHODS = ("jacobi", "sor", "ssor")
OMEGAS = [Fraction(1, 2), Fraction(3, 4), Fraction(1), Fraction(5, 4), Fraction(3, 2)]
U = Fraction(1, 2 ** 52)
# process layouts for the node-aware (tap) runs: PPN divides the process count or is at least as large (one node).
# (TAPComm hangs when the last node is only partly filled, e.g. 3 processes with PPN=2 -- that is C04's business.)
PPN_FOR = {1: [1, 4], 2: [1, 2, 4], 3: [1, 3, 4], 4: [1, 2, 2, 4, 16], 5: [1, 5, 16], 6: [1, 2, 3, 6, 16], 7: [1, 7, 16], 8: [1, 2, 4, 8, 16]}


# ----------------------------------------------------------------- textbook oracle (independent of the model)
def dense_rows(n, rows):
    d = [dict() for _ in range(n)]
    for i, r in enumerate(rows):
        for (j, v) in r:
            d[i][j] = d[i].get(j, Fraction(0)) + v
    return d


def owners(n, parts):
    own = []
    for k, s in enumerate(parts): own += [k] * s
    return own + [len(parts)] * (n - len(own))


def textbook(method, n, rows, parts, x, b, w, sweeps):
    """row-wise definition; returns (x', err) with err a bound on the floating-point error of a faithful evaluation"""
    a = dense_rows(n, rows); own = owners(n, parts)
    nent = [len(r) for r in rows]
    x = list(x); m = [abs(v) for v in x]; e = [Fraction(0)] * n
    aw, a1w = abs(w), abs(1 - w)
    for _ in range(sweeps):
        x0, m0, e0 = list(x), list(m), list(e)

        def upd(i, jac):
            d = a[i][i]
            S = Sa = Se = Fraction(0)
            for j, v in a[i].items():
                if j == i: continue
                cur = (not jac) and own[j] == own[i]
                S += v * (x[j] if cur else x0[j]); Sa += abs(v) * (m[j] if cur else m0[j]); Se += abs(v) * (e[j] if cur else e0[j])
            xi, mi, ei = (x0[i], m0[i], e0[i]) if jac else (x[i], m[i], e[i])
            val = (1 - w) * xi + w * ((b[i] - S) / d)
            mag = a1w * mi + aw * (abs(b[i]) + Sa) / abs(d)
            prop = a1w * ei + aw * Se / abs(d)
            return val, mag, prop + U * (nent[i] + 6) * (mag + prop)
        if method == "jacobi":
            res = [upd(i, True) for i in range(n)]
            x = [r[0] for r in res]; m = [r[1] for r in res]; e = [r[2] for r in res]
        else:
            for i in range(n): x[i], m[i], e[i] = upd(i, False)
            if method == "ssor":
                for i in reversed(range(n)): x[i], m[i], e[i] = upd(i, False)
    return x, e


# ----------------------------------------------------------------- generator
def dy(rng, small=False):
    if small: return Fraction(rng.choice([-4, -3, -2, -1, 0, 1, 2, 3, 4]))
    return Fraction(rng.randint(-12, 12), rng.choice([1, 1, 2, 4]))


def rand_parts(rng, n, p):
    """composition of n into p contiguous blocks; empty and unbalanced blocks on purpose"""
    r = rng.random()
    if r < 0.3:
        cuts = sorted(rng.randint(0, n) for _ in range(p - 1))
    elif r < 0.5:                                   # everything on few ranks
        cuts = sorted(rng.choice([0, n, rng.randint(0, n)]) for _ in range(p - 1))
    else:
        cuts = sorted(rng.sample(range(1, n), p - 1)) if n - 1 >= p - 1 else sorted(rng.randint(0, n) for _ in range(p - 1))
    cuts = [0] + cuts + [n]
    return [cuts[k + 1] - cuts[k] for k in range(p)]


def default_parts(n, p):
    return [n // p + (1 if r < n % p else 0) for r in range(p)]


def rand_matrix(rng, n, dup_ok=False):
    """rows with exactly one stored, nonzero, power-of-two diagonal; any sign pattern; non-symmetric; some rows diagonal-only"""
    rows = []
    dens = rng.choice([0.0, 0.2, 0.4, 0.7, 1.0])
    for i in range(n):
        d = Fraction(rng.choice([-1, 1])) * Fraction(2) ** rng.randint(-2, 3)
        r = [(i, d)]
        if rng.random() > 0.15:
            for j in range(n):
                if j != i and rng.random() < dens:
                    v = Fraction(0) if rng.random() < 0.04 else (dy(rng) or Fraction(1))
                    r.append((j, v))
                    if dup_ok and rng.random() < 0.15: r.append((j, dy(rng) or Fraction(-1)))
        rows.append(r)
    return rows


def csr_tokens(n, rows):
    ptr = [0]
    for r in rows: ptr.append(ptr[-1] + len(r))
    flat = [e for r in rows for e in r]
    return ["csr", str(n), str(n), str(len(flat))] + [str(p) for p in ptr] + [str(e[0]) for e in flat] + [nums.tok_num(e[1]) for e in flat]


def parlit_tokens(rng, n, rows, parts, explicit):
    trip = [(i, j, v) for i, r in enumerate(rows) for (j, v) in r]
    rng.shuffle(trip)
    t = [str(n), str(n)]
    if explicit:
        first = [0]
        for s in parts: first.append(first[-1] + s)
        t += [str(len(parts))] + [str(f) for f in first] + [str(f) for f in first]
    else:
        t += ["0"]
    t += [str(len(trip))]
    for (i, j, v) in trip: t += [str(i), str(j), nums.tok_num(v)]
    return t, trip


def make_line(c):
    head = [c["cid"], c["kind"], c["method"], str(c["sweeps"]), nums.tok_num(c["omega"])]
    vec = [nums.tok_num(v) for v in c["x"]] + [nums.tok_num(v) for v in c["b"]]
    if c["kind"] == "seq":
        return " ".join(head + csr_tokens(c["n"], c["rows"]) + vec)
    return " ".join(head + [str(c["tap"]), str(c["ppn"]), str(c["scr"]), str(c["np"]), str(c.get("tinyrow", -1))] + c["lit"] + vec +
                    ["parts", str(len(c["parts"]))] + [str(s) for s in c["parts"]])


def gen_vectors(rng, c, fixed):
    n = c["n"]
    if fixed:
        xs = [dy(rng) for _ in range(n)]
        a = dense_rows(n, c["rows"])
        c["x"] = xs; c["b"] = [sum((v * xs[j] for j, v in a[i].items()), Fraction(0)) for i in range(n)]
    else:
        c["x"] = [dy(rng) if rng.random() > 0.1 else Fraction(0) for _ in range(n)]
        c["b"] = [dy(rng) if rng.random() > 0.1 else Fraction(0) for _ in range(n)]
    c["fixed"] = fixed


def gen_seq(rng, cid):
    n = rng.choice([1, 1, 2, 2, 3, 3, 4, 5, 6, 8])
    method = rng.choice(METHODS)
    rows = rand_matrix(rng, n, dup_ok=rng.random() < 0.15)
    lay = rng.random()
    out = []
    for i, r in enumerate(rows):
        rest = r[1:]
        if lay < 0.7: rest = sorted(rest, key=lambda e: e[0])           # the library's canonical layout
        else: rng.shuffle(rest)                                         # diagonal first, tail in any order
        rr = [r[0]] + rest
        if method == "jacobi" and lay > 0.85: rng.shuffle(rr)           # jacobi finds its diagonal by column
        out.append(rr)
    c = dict(cid=cid, kind="seq", method=method, sweeps=rng.randint(1, 3), omega=rng.choice(OMEGAS), n=n, rows=out,
             parts=[n], dom=True, layout="canonical" if lay < 0.7 else "tail_unsorted")
    gen_vectors(rng, c, rng.random() < 0.25)
    return c


def gen_par(rng, cid, np_):
    n = rng.choice([1, 2, 3, 3, 4, 4, 5, 6, 7, 8])
    method = rng.choice(METHODS)
    rows = rand_matrix(rng, n)
    explicit = rng.random() < 0.6
    parts = rand_parts(rng, n, np_) if explicit else default_parts(n, np_)
    lit, _ = parlit_tokens(rng, n, rows, parts, explicit)
    c = dict(cid=cid, kind="par", method=method, sweeps=rng.randint(1, 3), omega=rng.choice(OMEGAS), n=n, rows=rows,
             parts=parts, explicit=explicit, np=np_, tap=rng.choice([0, 1]), ppn=rng.choice(PPN_FOR[np_]),
             scr=rng.choice([0, 0, 1, 2]), lit=lit, dom=True)
    gen_vectors(rng, c, rng.random() < 0.25)
    return c


# off-domain cases: only model-vs-library (the property says nothing there, the model claims to be faithful).
# Data: entries +-1/+-2, integer vectors, omega in {1, 1/2}, one sweep, n <= 4: every intermediate fits in 53 bits,
# so the comparison is exact.  No case reads outside an array (last row of every non-empty block keeps its diagonal).
def gen_off(rng, cid, np_):
    n = rng.choice([2, 3, 3, 4, 4])
    method = rng.choice(METHODS)
    pw = lambda: Fraction(rng.choice([-2, -1, 1, 2]))
    rows = []
    for i in range(n):
        r = [(i, pw())] + [(j, pw()) for j in range(n) if j != i and rng.random() < 0.6]
        rows.append(r)
    c = dict(cid=cid, method=method, sweeps=1, omega=rng.choice([Fraction(1), Fraction(1, 2)]), n=n, dom=False, fixed=False)
    if np_ == 0:
        flavour = rng.choice(["empty_row", "diag_not_first", "no_diag", "tiny_diag"])
        if flavour == "tiny_diag": c["method"] = method = "jacobi"
        i = rng.randrange(n)
        if flavour == "empty_row": rows[i] = []
        elif flavour == "diag_not_first":
            rows[i] = sorted(rows[i], key=lambda e: e[0])
            if rows[i][0][0] == i and len(rows[i]) > 1: rows[i] = rows[i][1:] + rows[i][:1]
        elif flavour == "no_diag": rows[i] = rows[i][1:]
        else: rows[i][0] = (i, Fraction(1, 2 ** 60))
        c.update(kind="seq", rows=rows, parts=[n], flavour=flavour)
    else:
        explicit = True
        parts = rand_parts(rng, n, np_)
        flavour = rng.choice(["no_diag", "no_on_entries", "tiny_diag"])
        if flavour == "tiny_diag": c["method"] = method = "jacobi"
        lo = 0; cand = []
        for s in parts:
            cand += list(range(lo, lo + s - 1)) if flavour != "tiny_diag" else list(range(lo, lo + s))
            lo += s
        if not cand:
            return gen_par(rng, cid, np_)
        i = rng.choice(cand)
        own = owners(n, parts)
        if flavour == "no_diag": rows[i] = rows[i][1:]
        elif flavour == "no_on_entries": rows[i] = [e for e in rows[i] if own[e[0]] != own[i]]
        lit, _ = parlit_tokens(rng, n, rows, parts, explicit)
        if flavour == "tiny_diag":             # the literal carries the placeholder; both drivers patch row i afterwards
            rows[i][0] = (i, Fraction(1, 2 ** 60)); c["tinyrow"] = i
        c.update(kind="par", rows=rows, parts=parts, explicit=True, np=np_, tap=rng.choice([0, 1]), ppn=rng.choice(PPN_FOR[np_]),
                 scr=rng.choice([0, 1, 2]), lit=lit, flavour=flavour)
    c["x"] = [Fraction(rng.randint(-4, 4)) for _ in range(n)]
    c["b"] = [Fraction(rng.randint(-4, 4)) for _ in range(n)]
    return c


def corner_cases():
    """hand-written boundary cases that run first"""
    F = Fraction
    out = []
    # 1x1; diagonal-only matrix; omega != 1
    out.append(dict(kind="seq", method="sor", sweeps=1, omega=F(3, 2), n=1, rows=[[(0, F(2))]], parts=[1], x=[F(3)], b=[F(1)], dom=True, fixed=False))
    out.append(dict(kind="seq", method="jacobi", sweeps=3, omega=F(1, 2), n=3, rows=[[(0, F(1))], [(1, F(-2))], [(2, F(1, 4))]],
                    parts=[3], x=[F(1), F(2), F(3)], b=[F(1), F(1), F(1)], dom=True, fixed=False))
    # the D11a scenario: exact solution (1,1), omega = 1/2, two ranks: must stay (1,1)
    rows = [[(0, F(2)), (1, F(1))], [(0, F(1)), (1, F(2))]]
    for meth in METHODS:
        out.append(dict(kind="par", method=meth, sweeps=2, omega=F(1, 2), n=2, rows=rows, parts=[1, 1], explicit=True, np=2,
                        tap=0, ppn=4, scr=0, x=[F(1), F(1)], b=[F(3), F(3)], dom=True, fixed=True))
        out.append(dict(kind="par", method=meth, sweeps=1, omega=F(1, 2), n=2, rows=rows, parts=[2], explicit=True, np=1,
                        tap=0, ppn=4, scr=0, x=[F(0), F(0)], b=[F(3), F(3)], dom=True, fixed=False))
    # SSOR across two blocks with strong coupling: backward half must see the halo of the START of the sweep
    rows = [[(0, F(1)), (1, F(1)), (2, F(2))], [(0, F(-1)), (1, F(2)), (3, F(1))], [(0, F(3)), (2, F(1)), (3, F(-1))], [(1, F(1)), (2, F(2)), (3, F(4))]]
    out.append(dict(kind="par", method="ssor", sweeps=1, omega=F(1), n=4, rows=rows, parts=[2, 2], explicit=True, np=2,
                    tap=0, ppn=4, scr=0, x=[F(1), F(-1), F(2), F(0)], b=[F(1), F(2), F(3), F(4)], dom=True, fixed=False))
    return out


def gen_cases(ctx):
    rng = ctx.rng
    cases = []
    k = 0
    for c in corner_cases():
        c["cid"] = "k%d" % k; k += 1
        if c["kind"] == "par":
            c["lit"], _ = parlit_tokens(rng, c["n"], c["rows"], c["parts"], c["explicit"])
        cases.append(c)
    nseq = ctx.scale(1800, 24000)
    for _ in range(nseq):
        c = gen_off(rng, "s%d" % k, 0) if rng.random() < 0.08 else gen_seq(rng, "s%d" % k)
        k += 1; cases.append(c)
    per_np = ctx.scale({1: 400, 2: 700, 3: 700, 4: 700, 5: 400, 7: 300}, {1: 5000, 2: 9000, 3: 9000, 4: 9000, 5: 5000, 7: 4000})
    for np_, cnt in per_np.items():
        for _ in range(cnt):
            c = gen_off(rng, "p%d" % k, np_) if rng.random() < 0.08 else gen_par(rng, "p%d" % k, np_)
            k += 1; cases.append(c)
    for c in cases: c["line"] = make_line(c)
    return cases


# ----------------------------------------------------------------- judging
def impl_vector(c, ri):
    """-> (list of Fractions | None, b_ok, partition list | None)"""
    d = {}
    for key, toks in ri: d[key] = toks
    if "X" not in d: return None, None, None
    if c["kind"] == "seq":
        return [nums.parse_num(t) for t in d["X"]], d.get("B", ["?"]) == ["1"], None
    def per_rank(toks):
        out = []; cur = None
        for t in toks:
            if t.startswith("@"): cur = []; out.append(cur)
            else: cur.append(t)
        return out
    xs = [nums.parse_num(t) for r in per_rank(d["X"]) for t in r]
    bok = all(r == ["1"] for r in per_rank(d.get("B", [])))  and len(per_rank(d.get("B", []))) == c["np"]
    part = [int(r[1]) for r in per_rank(d.get("PART", []))]
    return xs, bok, part


def within(a, b, tol):
    if isinstance(a, str) or isinstance(b, str): return False
    return abs(a - b) <= tol


def judge(ctx, c, impl, model):
    cid = c["cid"]; ri, rm = impl.get(cid), model.get(cid)
    ctx.evaluations += 1
    sig = "%s:%s" % (c["kind"], c["method"])
    ctx.count(sig); ctx.count("sweeps_%d" % c["sweeps"]); ctx.count("omega_%s" % c["omega"]); ctx.count("n_%d" % c["n"])
    if c["kind"] == "par":
        ctx.count("np_%d" % c["np"]); ctx.count("tap_%d" % c["tap"]); ctx.count("scramble_%d" % c["scr"])
        ctx.count("partition_explicit" if c["explicit"] else "partition_default")
        if any(s == 0 for s in c["parts"]): ctx.count("empty_rank")
    if not c["dom"]: ctx.count("offdomain_" + c.get("flavour", "?"))
    if c["fixed"]: ctx.count("fixed_point")
    if any(len(r) == 1 for r in c["rows"]): ctx.count("has_diag_only_row")
    if c["n"] > 1 and any(len(r) > 1 for r in c["rows"]): ctx.nontrivial.add(c["line"].split(" ", 1)[1])
    ctx.sample(c["line"])
    if not ri or ri[0][0] in ("CRASH",) or any(k.startswith("ERR") for k, _ in ri):
        if c["dom"]: ctx.signal("O", sig + ":crash", "library failed on an in-domain case: %s" % (ri,), case=c["line"])
        else: ctx.signal("K", sig + ":crash_offdomain", "library failed on an off-domain case the model evaluates: %s" % (ri,), case=c["line"])
        return
    xi, bok, part = impl_vector(c, ri)
    if xi is None or len(xi) != c["n"]:
        ctx.signal("K", sig + ":shape", "driver output has wrong shape: %s" % (ri,), case=c["line"]); return
    if c["kind"] == "par" and part != c["parts"]:
        ctx.signal("K", sig + ":partition", "library partition %s differs from the assumed one %s" % (part, c["parts"]), case=c["line"]); return
    # ---- O: the property on the library's own output
    if not bok:
        ctx.signal("O", sig + ":b_modified", "right-hand side changed by the sweep", case=c["line"])
    tol = [Fraction(0)] * c["n"]
    if c["dom"]:
        xt, err = textbook(c["method"], c["n"], c["rows"], c["parts"], c["x"], c["b"], c["omega"], c["sweeps"])
        tol = [4 * e for e in err]
        if c["fixed"]:
            if xt != c["x"]:
                ctx.signal("K", sig + ":oracle_selftest", "textbook oracle does not fix a manufactured solution", case=c["line"])
            bad = [i for i in range(c["n"]) if xi[i] != c["x"][i]]
            if bad:
                ctx.signal("O", sig + ":fixed_point", "A x = b but the sweep moved x at index %s: %s -> %s"
                           % (bad[0], c["x"][bad[0]], xi[bad[0]]), case=c["line"], extra=dict(impl=[str(v) for v in xi]))
        else:
            bad = [i for i in range(c["n"]) if not within(xi[i], xt[i], tol[i])]
            if bad:
                i = bad[0]
                ctx.signal("O", sig + ":textbook", "x'[%d] = %s, textbook definition gives %s (tolerance %.3g)"
                           % (i, xi[i], xt[i], float(tol[i])), case=c["line"],
                           extra=dict(impl=[str(v) for v in xi], textbook=[str(v) for v in xt]))
    # ---- K: model vs library
    if not rm or rm[0][0] != "X":
        ctx.signal("K", sig + ":model", "model produced no result: %s" % (rm,), case=c["line"]); return
    xm = [nums.parse_num(t) for t in rm[0][1]]
    ctx.compared += 1
    bad = [i for i in range(c["n"]) if i >= len(xm) or not within(xi[i], xm[i], tol[i])]
    if bad or len(xm) != c["n"]:
        i = bad[0] if bad else 0
        ctx.signal("K", sig + (":model_vs_impl" if c["dom"] else ":model_vs_impl_offdomain:" + c.get("flavour", "")),
                   "x'[%d]: library %s, model %s" % (i, xi[i], xm[i] if i < len(xm) else None), case=c["line"],
                   extra=dict(impl=[str(v) for v in xi], model=[str(v) for v in xm]))


def case_from_line(line):
    """rebuild a case from its text (replay)"""
    t = line.split(); P = nums.parse_num
    c = dict(cid=t[0], kind=t[1], method=t[2], sweeps=int(t[3]), omega=P(t[4]), line=line, dom=True, fixed=False)
    if c["kind"] == "seq":
        n, nnz = int(t[6]), int(t[8]); p = 9
        ptr = [int(v) for v in t[p:p + n + 1]]; p += n + 1
        cols = [int(v) for v in t[p:p + nnz]]; p += nnz
        vals = [P(v) for v in t[p:p + nnz]]; p += nnz
        c.update(n=n, rows=[[(cols[k], vals[k]) for k in range(ptr[i], ptr[i + 1])] for i in range(n)], parts=[n])
    else:
        c.update(tap=int(t[5]), ppn=int(t[6]), scr=int(t[7]), np=int(t[8]), tinyrow=int(t[9]))
        n, Pn = int(t[10]), int(t[12]); p = 13
        if Pn > 0: p += 2 * (Pn + 1)
        nnz = int(t[p]); p += 1
        rows = [[] for _ in range(n)]
        for _ in range(nnz):
            rows[int(t[p])].append((int(t[p + 1]), P(t[p + 2]))); p += 3
        if c["tinyrow"] >= 0:
            rows[c["tinyrow"]] = [(j, Fraction(1, 2 ** 60) if j == c["tinyrow"] else v) for (j, v) in rows[c["tinyrow"]]]
        c.update(n=n, rows=rows, explicit=Pn > 0)
    n = c["n"]
    c["x"] = [P(v) for v in t[p:p + n]]; p += n
    c["b"] = [P(v) for v in t[p:p + n]]; p += n
    if c["kind"] == "par":
        k = int(t[p + 1]); c["parts"] = [int(v) for v in t[p + 2:p + 2 + k]]
    # domain / fixed-point status recomputed from the data
    a = dense_rows(n, c["rows"]); own = owners(n, c["parts"])
    ok = all(sum(1 for e in r if e[0] == i) == 1 and abs(a[i][i]) > Fraction(1, 10 ** 16) for i, r in enumerate(c["rows"]))
    if c["kind"] == "seq" and c["method"] != "jacobi": ok = ok and all(r[0][0] == i for i, r in enumerate(c["rows"]))
    c["dom"] = ok
    if not ok: c["flavour"] = "replay"
    c["fixed"] = ok and all(sum((v * c["x"][j] for j, v in a[i].items()), Fraction(0)) == c["b"][i] for i in range(n))
    return c


def run(ctx):
    ctx.rule = ("random square matrices n=1..8 with one stored power-of-two diagonal per row (any sign, non-symmetric, "
                "diagonal-only rows, explicit zeros), dyadic x/b, omega in {1/2,3/4,1,5/4,3/2}, 1..3 sweeps, x 3 methods; "
                "sequential: canonical and tail-unsorted layouts, off-diagonal duplicates; distributed: P in {1,2,3,4,5,7}, "
                "default and explicit unbalanced/empty-rank partitions, tap on/off (PPN dividing P, or one node), stored rows scrambled so the "
                "preamble sorts; 25% fixed-point cases (b = A x); 8% off-domain cases (model-vs-library only); "
                "non-trivial = n>1 and some off-diagonal entry; distinct = distinct case text")
    cases = [case_from_line(l) for l in ctx.replay] if ctx.replay else gen_cases(ctx)
    lines = [c["line"] for c in cases]
    cf = fw.write_cases(ctx, "c11.cases", lines)
    impl = {}
    seq_lines = [c["line"] for c in cases if c["kind"] == "seq"]
    if seq_lines:
        r, _ = fw.run_impl_lines(ctx, "drv_relax", seq_lines, nprocs=0, name="c11seq", timeout=300); impl.update(r)
    for np_ in sorted(set(c["np"] for c in cases if c["kind"] == "par")):
        pl = [c["line"] for c in cases if c["kind"] == "par" and c["np"] == np_]
        r, _ = fw.run_impl_lines(ctx, "drv_relax", pl, nprocs=np_, name="c11p%d" % np_, timeout=ctx.scale(120, 600), max_restarts=3)
        impl.update(r)
    rcm, model, _, errm = fw.run_model(ctx, cf)
    if rcm != 0: ctx.signal("K", "modeldriver", "model driver exited with %s: %s" % (rcm, errm[-400:]))
    for c in cases: judge(ctx, c, impl, model)
