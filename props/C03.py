"""C03 — halo exchange delivers owners' values; the reverse exchange is its adjoint (standard ParComm).
The node-aware package is exercised by C04 with the same oracle."""
from fractions import Fraction
import re
import framework as fw, nums
import commgen

ID = "C03"
FAMILY = "dist"
OCAML_SRCS = ("conv.ml", "drv_dist.ml")


def run(ctx):
    ctx.rule = ("random contiguous partitions (empty ranks, rows<procs) x per-rank sorted off-process index sets "
                "(empty, single owner, all-to-all, first/last owner) x on-process column maps x derived sub-packages; "
                "non-trivial = at least two ranks exchange data; distinct = distinct case text")
    procs = ctx.scale([1, 2, 3, 4, 6], [1, 2, 3, 4, 5, 6, 7, 8, 12, 16])
    per = ctx.scale(40, 400)
    for P in procs:
        cases = [commgen.gen_case(ctx.rng, "s%d_%d" % (P, k), P, mode=0) for k in range(per)]
        commgen.run_and_judge(ctx, cases, P, tag="std")
