"""C20 — repartitioning and diagonal scaling produce equivalent linear systems.
K: extracted model (coq/Repart/*.v) vs repartition_matrix / diagonally_scale / row_scale / diagonally_unscale on
   the same per-rank views;  O: the property itself evaluated on the implementation's output (permutation
   reported by new_local_rows, A'(pi x) = pi(A x) through A_new->mult, DAD / Db / D'A / unscale entrywise)."""
from fractions import Fraction
import math
import framework as fw, nums

ID = "C20"
FAMILY = "repart"
OCAML_SRCS = ("conv.ml", "drv_repart.ml")
ASSUMPTIONS = [
    "model input = the per-rank views ParCOOMatrix::finalize/to_ParCSR store (checked on every case: key VIEW)",
    "the INPUT matrix's own package delivers the owner's value (A->comm->communicate(partition) / (row_scales)): property C03; "
    "the package of the OUTPUT matrix is modelled and proved valid (C20_repart_package_valid)",
    "MPI delivers every message once; any-source arrival orders are the parameters sched/tau of the model (theorems hold for all of them); "
    "the implementation's actual arrival order is not controlled by the harness",
    "std::sort sorts (keys are distinct: old row ids / (owner, old column id))",
    "executed model: exact rationals; Qc_sqrt exact on squares only (generated diagonals are +-squares); theorems are over an abstract field with abstract sqrt/abs",
    "diagonally_scale is called with an empty row_scales vector (the model also covers a non-empty one: resize keeps old entries)",
    "reads past the end of idx2 (row_scale/diagonally_scale on a rank whose trailing on-process rows are all empty) are undefined behaviour and never generated",
]
PROCS = (2, 3, 4, 6, 2, 3, 4, 6, 2, 3, 4, 6, 1, 5)

# ---------------------------------------------------------------- generation
def rand_blocks(rng, n, P):
    """contiguous partition of n rows into P blocks, empty blocks on purpose"""
    r = rng.random()
    if r < 0.25:      # raptor-like even split
        a, e = divmod(n, P); sizes = [a + (1 if q < e else 0) for q in range(P)]
    elif r < 0.45 and P > 1:   # some empty ranks
        cuts = sorted(rng.randint(0, n) for _ in range(P - 1))
        k = rng.randrange(P - 1); cuts[k] = cuts[k - 1] if k > 0 else 0
        cuts = sorted(cuts); sizes = [b - a for a, b in zip([0] + cuts, cuts + [n])]
    else:
        cuts = sorted(rng.randint(0, n) for _ in range(P - 1))
        sizes = [b - a for a, b in zip([0] + cuts, cuts + [n])]
    first = [0]
    for s in sizes: first.append(first[-1] + s)
    return first

SQ = [Fraction(1, 4), Fraction(1), Fraction(4), Fraction(16), Fraction(9), Fraction(1, 16), Fraction(64), Fraction(25, 4)]
P2 = [Fraction(1, 4), Fraction(1, 2), Fraction(1), Fraction(2), Fraction(4), Fraction(8), Fraction(3), Fraction(5)]

def rand_matrix(rng, n, diag_pool, density=None, drop_diag=0.0, first=None, val_pool=None):
    """square, non-symmetric, no duplicate positions, nonzero values, nonzero diagonal (unless dropped)"""
    d = {}
    dens = density if density is not None else rng.choice([0.15, 0.3, 0.5, 0.9])
    for i in range(n):
        for j in range(n):
            if i != j and rng.random() < dens:
                if val_pool: d[(i, j)] = rng.choice(val_pool) * rng.choice([1, -1])
                else: d[(i, j)] = Fraction(rng.choice([-3, -2, -1, 1, 2, 3, 5, 7]), rng.choice([1, 1, 1, 2, 4]))
    protect = set()
    if first is not None:
        for q in range(len(first) - 1):
            if first[q + 1] > first[q]: protect.add(first[q + 1] - 1)     # last local row keeps its diagonal
    dropped = []
    for i in range(n):
        if drop_diag and i not in protect and rng.random() < drop_diag:
            dropped.append(i); continue
        d[(i, i)] = rng.choice(diag_pool) * rng.choice([1, 1, -1])
    trip = [(i, j, v) for (i, j), v in d.items()]
    rng.shuffle(trip)
    return trip, dropped

def target_map(rng, n, P, first):
    kind = rng.choice(["roundrobin", "random", "allone", "starved", "identity", "reverse", "shift"])
    owner = [next(q for q in range(P) if first[q] <= g < first[q + 1]) for g in range(n)]
    if kind == "roundrobin": tm = [g % P for g in range(n)]
    elif kind == "random": tm = [rng.randrange(P) for _ in range(n)]
    elif kind == "allone":
        k = rng.randrange(P); tm = [k] * n
    elif kind == "starved":
        keep = rng.sample(range(P), max(1, rng.randint(1, max(1, P - 1))))
        tm = [rng.choice(keep) for _ in range(n)]
    elif kind == "identity": tm = list(owner)
    elif kind == "reverse": tm = [P - 1 - o for o in owner]
    else: tm = [(o + 1) % P for o in owner]
    return kind, tm

def views_of(n, first, trip):
    """what ParCOOMatrix::finalize + to_ParCSR store: on_proc rows sorted by local column, off_proc rows sorted by
       (condensed) column, off_proc_column_map = sorted distinct off-process global columns"""
    P = len(first) - 1
    vs = []
    for q in range(P):
        f, l = first[q], first[q + 1]
        rows = {i: [] for i in range(f, l)}
        for (i, j, v) in trip:
            if f <= i < l: rows[i].append((j, v))
        cm = sorted({j for i in rows for (j, v) in rows[i] if not (f <= j < l)})
        pos = {g: k for k, g in enumerate(cm)}
        on = [sorted([(j - f, v) for (j, v) in rows[i] if f <= j < l]) for i in range(f, l)]
        off = [sorted([(pos[j], v) for (j, v) in rows[i] if not (f <= j < l)]) for i in range(f, l)]
        vs.append(dict(first=f, n=l - f, on=on, off=off, cm=cm))
    return vs

def csr_toks(rows):
    ptr = [0]
    for r in rows: ptr.append(ptr[-1] + len(r))
    flat = [e for r in rows for e in r]
    return ["P"] + [str(x) for x in ptr] + ["I"] + [str(e[0]) for e in flat] + ["V"] + [nums.tok_num(e[1]) for e in flat]

def view_toks(v, gn):
    return [str(v["first"]), str(v["n"]), str(gn), "ON"] + csr_toks(v["on"]) + ["OFF"] + csr_toks(v["off"]) + \
           ["CM"] + [str(g) for g in v["cm"]] + ["END"]

def parlit_toks(n, first, trip):
    P = len(first) - 1
    t = [str(n), str(n), str(P)] + [str(x) for x in first] + [str(x) for x in first] + [str(len(trip))]
    for (i, j, v) in trip: t += [str(i), str(j), nums.tok_num(v)]
    return t

def rand_perms(rng, P):
    out = []
    for _ in range(P):
        p = list(range(P)); rng.shuffle(p); out += p
    return [str(x) for x in out]

def rand_vec(rng, n, dy=False):
    while True:
        x = [Fraction(rng.randint(-9, 9), rng.choice([1, 2, 4]) if dy else 1) for _ in range(n)]
        if n < 2 or len(set(x)) > 1: return x

def gen_case(ctx, k):
    rng = ctx.rng
    P = rng.choice(PROCS)
    r = rng.random()
    n = rng.choice([1, 2, 3]) if r < 0.12 else (rng.randint(P, 3 * P + 4) if r < 0.85 else rng.randint(10, 22))
    first = rand_blocks(rng, n, P)
    kind = rng.choice(["repart", "repart", "repart", "dscale", "dscale", "rscale"])
    cid = "c%d" % k
    c = dict(cid=cid, kind=kind, n=n, P=P, first=first)
    if kind == "repart":
        trip, _ = rand_matrix(rng, n, [Fraction(v) for v in (1, 2, 3, 4, 5, 6, 7)])
        tk, tm = target_map(rng, n, P, first)
        x = rand_vec(rng, n)
        vs = views_of(n, first, trip)
        toks = [cid, "repart"] + parlit_toks(n, first, trip) + [str(n)] + [str(t) for t in tm] + [str(n)] + [nums.tok_num(v) for v in x]
        toks += ["VIEWS", str(P)] + sum((view_toks(v, n) for v in vs), [])
        if rng.random() < 0.6: toks += ["SCHED"] + rand_perms(rng, P) + ["TAU"] + rand_perms(rng, P)
        c.update(trip=trip, tm=tm, tmkind=tk, x=x, views=vs)
    else:
        nodiag = rng.random() < 0.15
        pool = SQ if kind == "dscale" else P2
        # without a stored diagonal the code may take a neighbouring entry for the diagonal (empty on-process row): keep
        # every value a +-square then, so that the executed model's sqrt stays exact
        trip, dropped = rand_matrix(rng, n, pool, drop_diag=(0.3 if nodiag else 0.0), first=first,
                                    val_pool=(SQ if (nodiag and kind == "dscale") else None))
        vs = views_of(n, first, trip)
        b = rand_vec(rng, n, dy=True)
        c.update(trip=trip, views=vs, dropped=dropped, b=b)
        if kind == "dscale":
            A = {(i, j): v for (i, j, v) in trip}
            xt = rand_vec(rng, n)
            if not dropped:
                # b := A x_true; y := D^-1 x_true solves the scaled system (D A D) y = D b
                b = [sum((A.get((i, j), 0) * xt[j] for j in range(n)), Fraction(0)) for i in range(n)]
                y = [xt[i] * exact_sqrt(abs(A[(i, i)])) for i in range(n)]
            else:
                y = xt
            c.update(b=b, y=y, xt=xt)
            toks = [cid, "dscale"] + parlit_toks(n, first, trip) + [str(n)] + [nums.tok_num(v) for v in b] + [str(n)] + [nums.tok_num(v) for v in y]
        else:
            toks = [cid, "rscale"] + parlit_toks(n, first, trip) + [str(n)] + [nums.tok_num(v) for v in b]
        toks += ["VIEWS", str(P)] + sum((view_toks(v, n) for v in vs), [])
    c["line"] = " ".join(toks)
    return c

def exact_sqrt(fr):
    fr = Fraction(fr)
    a, b = math.isqrt(fr.numerator), math.isqrt(fr.denominator)
    if a * a != fr.numerator or b * b != fr.denominator: raise ValueError("not a square: %s" % fr)
    return Fraction(a, b)

# ---------------------------------------------------------------- parsing of driver output
KW = {"ON", "OFF", "P", "I", "V", "CM", "END", "NLR", "LRM", "OCM", "FC", "GC", "NC", "RP", "RI", "SP", "SI", "SX", "PT", "FCS"}

def split_ranks(toks):
    out = []; cur = None
    for t in toks:
        if t.startswith("@") and t[1:].isdigit():
            cur = []; out.append(cur)
        elif cur is not None: cur.append(t)
    return out

class TS:
    def __init__(self, toks): self.t = toks; self.i = 0
    def next(self): self.i += 1; return self.t[self.i - 1]
    def expect(self, k):
        s = self.next()
        if s != k: raise ValueError("expected %s got %s" % (k, s))
    def until(self):
        out = []
        while self.i < len(self.t) and self.t[self.i] not in KW: out.append(self.next())
        return out
    def more(self): return self.i < len(self.t)

def parse_csr(ts):
    ts.expect("P"); ptr = [int(x) for x in ts.until()]
    ts.expect("I"); idx = [int(x) for x in ts.until()]
    ts.expect("V"); vals = [nums.parse_num(x) for x in ts.until()]
    if len(idx) != len(vals) or (ptr and ptr[-1] != len(idx)) or ptr != sorted(ptr) or (ptr and ptr[0] != 0):
        raise ValueError("inconsistent CSR arrays ptr=%s idx=%s" % (ptr, idx))
    return [[(idx[k], vals[k]) for k in range(ptr[i], ptr[i + 1])] for i in range(len(ptr) - 1)]

def parse_view(toks):
    ts = TS(toks)
    v = dict(first=int(ts.next()), n=int(ts.next()), gn=int(ts.next()))
    ts.expect("ON"); v["on"] = parse_csr(ts)
    ts.expect("OFF"); v["off"] = parse_csr(ts)
    ts.expect("CM"); v["cm"] = [int(x) for x in ts.until()]
    ts.expect("END")
    for key in ("NLR", "LRM", "OCM"):
        if ts.more() and ts.t[ts.i] == key:
            ts.next(); v[key] = [int(x) for x in ts.until()]
    for key in ("FC", "GC", "NC"):
        if ts.more() and ts.t[ts.i] == key:
            ts.next(); v[key] = int(ts.next())
    for key in ("PT", "FCS"):
        if ts.more() and ts.t[ts.i] == key:
            ts.next(); v[key] = [int(x) for x in ts.until()]
    for part in ("on", "off"):
        for r in v[part]:
            for (_, val) in r:
                if isinstance(val, str): raise ValueError("non-finite matrix value " + val)
    return v

def parse_pkg(toks):
    ts = TS(toks); d = {}
    for key in ("RP", "RI", "SP", "SI", "SX"):
        ts.expect(key); d[key] = [int(x) for x in ts.until()]
    return d

def res_get(res, key):
    for (k, toks) in res or []:
        if k == key: return toks
    return None

def vec_ranks(toks): return [[nums.parse_num(x) for x in r] for r in split_ranks(toks)]

def nonfinite(res, keys):
    for key in keys:
        t = res_get(res, key)
        if t is None: return key + " missing"
        for r in vec_ranks(t):
            for u in r:
                if isinstance(u, str): return "%s contains %s" % (key, u)
    return ""

def view_eq(a, b, tol=True):
    """views equal: scalars, pointer structure, indices exactly; values by tolerance"""
    for k in ("first", "n", "cm"):
        if a[k] != b[k]: return "%s: %s vs %s" % (k, a[k], b[k])
    for part in ("on", "off"):
        if len(a[part]) != len(b[part]): return "%s rows %d vs %d" % (part, len(a[part]), len(b[part]))
        for i, (ra, rb) in enumerate(zip(a[part], b[part])):
            if [e[0] for e in ra] != [e[0] for e in rb]: return "%s row %d indices %s vs %s" % (part, i, [e[0] for e in ra], [e[0] for e in rb])
            for ea, eb in zip(ra, rb):
                if not nums.close(ea[1], eb[1]): return "%s row %d value %s vs %s" % (part, i, ea[1], eb[1])
    return ""

def vecs_eq(a, b):
    if len(a) != len(b): return "rank count %d vs %d" % (len(a), len(b))
    for r, (x, y) in enumerate(zip(a, b)):
        if len(x) != len(y): return "rank %d length %d vs %d" % (r, len(x), len(y))
        for i, (u, w) in enumerate(zip(x, y)):
            if not nums.close(u, w): return "rank %d entry %d: %s vs %s" % (r, i, u, w)
    return ""

def global_dense(views, use_maps=False):
    """dense image of a list of per-rank views (global numbering through first / colmap, or LRM/OCM if present)"""
    d = {}
    for v in views:
        rowmap = v.get("LRM") if use_maps and v.get("LRM") is not None else [v["first"] + i for i in range(v["n"])]
        colmap = v.get("OCM") if use_maps and v.get("OCM") is not None else [v["first"] + i for i in range(v["n"])]
        for i in range(len(v["on"])):
            for (c, val) in v["on"][i]:
                key = (rowmap[i], colmap[c]); d[key] = d.get(key, Fraction(0)) + val
            for (k, val) in v["off"][i]:
                key = (rowmap[i], v["cm"][k]); d[key] = d.get(key, Fraction(0)) + val
    return d

# ---------------------------------------------------------------- judging
def judge(ctx, c, impl, model):
    cid = c["cid"]; kind = c["kind"]; n = c["n"]; P = c["P"]
    ri, rm = impl.get(cid), model.get(cid)
    ctx.evaluations += 1
    ctx.count("op_" + kind); ctx.count("P_%d" % P); ctx.count("n_%s" % ("1-3" if n <= 3 else "4-9" if n <= 9 else "10+"))
    if any(c["first"][q] == c["first"][q + 1] for q in range(P)): ctx.count("empty_old_rank")
    noff = sum(len(r) for v in c["views"] for r in v["off"])
    if noff and sum(1 for v in c["views"] if v["n"]) >= 2: ctx.nontrivial.add(c["line"].split(" ", 1)[1][:4000])
    ctx.sample(c["line"])
    sig = kind if kind != "repart" else "repart:" + c["tmkind"]
    if kind == "repart": ctx.count("tmap_" + c["tmkind"])
    if not ri or any(k in ("CRASH", "ERR") or k.startswith("ERR") for k, _ in ri):
        ctx.signal("O", sig + ":crash", "implementation failed on case: %s" % (str(ri)[:300],), case=c["line"]); return
    try:
        iv = [parse_view(t) for t in split_ranks(res_get(ri, "VIEW"))]
        inew = [parse_view(t) for t in split_ranks(res_get(ri, "NEW"))]
    except Exception as e:
        ctx.signal("O", sig + ":malformed", "implementation output malformed (inconsistent arrays): %s" % e, case=c["line"]); return
    keys = ["MULT"] if kind == "repart" else (["B", "S", "U"] if kind == "dscale" else ["B"])
    w = nonfinite(ri, keys)
    if w:
        ctx.signal("O", sig + ":nonfinite", "implementation output not finite / missing: " + w, case=c["line"]); return
    # input representation: the views the model is run on are the ones the library built
    for q in range(P):
        w = view_eq(iv[q], c["views"][q])
        if w: ctx.signal("K", sig + ":inputview", "input view of rank %d differs from the assumed storage: %s" % (q, w), case=c["line"]); return
    A = {}
    for (i, j, v) in c["trip"]: A[(i, j)] = A.get((i, j), Fraction(0)) + v
    if kind == "repart": oracle_repart(ctx, c, sig, A, ri, inew)
    elif kind == "dscale": oracle_dscale(ctx, c, sig, A, ri, inew)
    else: oracle_rscale(ctx, c, sig, A, ri, inew)
    # ---- K: model vs implementation
    if not rm or res_get(rm, "NEW") is None:
        ctx.signal("K", sig + ":model", "model produced no result: %s" % (str(rm)[:300],), case=c["line"]); return
    mnew = [parse_view(t) for t in split_ranks(res_get(rm, "NEW"))]
    ctx.compared += 1
    if len(mnew) != len(inew):
        ctx.signal("K", sig, "rank count differs", case=c["line"]); return
    for q in range(P):
        w = view_eq(inew[q], mnew[q])
        if not w:
            for key in ("NLR", "LRM", "OCM", "FC", "GC", "NC", "PT", "FCS"):
                if inew[q].get(key) != mnew[q].get(key): w = "%s: %s vs %s" % (key, inew[q].get(key), mnew[q].get(key)); break
        if w:
            ctx.signal("K", sig + ":view", "rank %d: implementation vs model: %s" % (q, w), case=c["line"],
                       extra=dict(impl=" ".join(res_get(ri, "NEW")), model=" ".join(res_get(rm, "NEW")))); return
    keys = ["MULT"] if kind == "repart" else (["B", "S", "U"] if kind == "dscale" else ["B"])
    for key in keys:
        w = vecs_eq(vec_ranks(res_get(ri, key)), vec_ranks(res_get(rm, key)))
        if w: ctx.signal("K", sig + ":" + key, "%s: implementation vs model: %s" % (key, w), case=c["line"]); return
    if kind == "repart":
        pi_ = [parse_pkg(t) for t in split_ranks(res_get(ri, "PKG"))]
        pm_ = [parse_pkg(t) for t in split_ranks(res_get(rm, "PKG"))]
        for q in range(P):
            a, b = pi_[q], pm_[q]
            if (a["RP"], a["RI"]) != (b["RP"], b["RI"]):
                ctx.signal("K", sig + ":pkg", "rank %d recv side %s vs %s" % (q, (a["RP"], a["RI"]), (b["RP"], b["RI"])), case=c["line"]); return
            def sends(d): return sorted((d["SP"][k], tuple(d["SX"][d["SI"][k]:d["SI"][k + 1]])) for k in range(len(d["SP"])))
            if sends(a) != sends(b):
                ctx.signal("K", sig + ":pkg", "rank %d send side (sorted by peer) %s vs %s" % (q, sends(a), sends(b)), case=c["line"]); return

def oracle_repart(ctx, c, sig, A, ri, inew):
    n, P, tm, x = c["n"], c["P"], c["tm"], c["x"]
    def bad(what, detail): ctx.signal("O", sig + ":" + what, detail, case=c["line"], extra=dict(impl=" ".join(res_get(ri, "NEW"))))
    inv = [g for v in inew for g in v["NLR"]]
    if sorted(inv) != list(range(n)):
        return bad("perm", "new_local_rows over all ranks is not a permutation of 0..%d: %s" % (n - 1, inv))
    for q, v in enumerate(inew):
        if sorted(v["NLR"]) != [g for g in range(n) if tm[g] == q]:
            return bad("owner", "rank %d received rows %s, target map names %s" % (q, v["NLR"], [g for g in range(n) if tm[g] == q]))
        if v["n"] != len(v["NLR"]) or v["first"] != sum(len(w["NLR"]) for w in inew[:q]) or v["gn"] != n or v.get("GC") != n:
            return bad("blocks", "rank %d: first/local/global sizes %s/%s/%s inconsistent with new_local_rows" % (q, v["first"], v["n"], v["gn"]))
        if v["LRM"] != [v["first"] + i for i in range(v["n"])] or v["OCM"] != v["LRM"]:
            return bad("maps", "rank %d: local_row_map / on_proc_column_map not the contiguous new numbering" % q)
        f_, n_ = v["first"], v["n"]
        nnz_ = sum(len(r) for r in v["on"]) + sum(len(r) for r in v["off"])
        if v.get("PT") != [f_, f_ + n_ - 1, f_, f_ + n_ - 1, n_, n_, n, n, len(v["cm"]), nnz_] or \
           v.get("FCS") != [sum(len(w["NLR"]) for w in inew[:r]) for r in range(P)] + [n] or v.get("FC") != f_ or v.get("NC") != n_:
            return bad("partition", "rank %d: Partition object of the new matrix inconsistent with its blocks: PT=%s FCS=%s (first=%d, local=%d, global=%d)"
                       % (q, v.get("PT"), v.get("FCS"), f_, n_, n))
        if any(k < 0 or k >= len(v["cm"]) for r in v["off"] for (k, _) in r) or any(k < 0 or k >= v["n"] for r in v["on"] for (k, _) in r) \
           or any(g < 0 or g >= n for g in v["cm"]):
            return bad("range", "rank %d: column index out of range" % q)
    Anew = global_dense(inew, use_maps=True)
    for i2 in range(n):
        for j2 in range(n):
            a, b = Anew.get((i2, j2), Fraction(0)), A.get((inv[i2], inv[j2]), Fraction(0))
            if a != b:
                return bad("operator", "A'[%d][%d] = %s but A[pi^-1 %d][pi^-1 %d] = A[%d][%d] = %s" % (i2, j2, a, i2, j2, inv[i2], inv[j2], b))
    # A'(pi x) = pi(A x), computed by the library with the new matrix's own communication package
    Ax = [sum((A.get((i, j), Fraction(0)) * x[j] for j in range(n)), Fraction(0)) for i in range(n)]
    mult = [u for r in vec_ranks(res_get(ri, "MULT")) for u in r]
    want = [Ax[inv[i2]] for i2 in range(n)]
    if len(mult) != n or any(not nums.close(u, w, 1e-12, 0) for u, w in zip(mult, want)):
        return bad("mult", "A_new->mult(pi x) = %s, pi(A x) = %s" % ([str(u) for u in mult], [str(w) for w in want]))

def scaled_checks(ctx, c, sig, A, ri, inew, d, what):
    """A' = diag(dl) A diag(dr), b' = diag(dl) b entrywise (on- and off-process)"""
    n = c["n"]; dl, dr = d
    Anew = global_dense(inew)
    for i in range(n):
        for j in range(n):
            a = Anew.get((i, j), Fraction(0)); w = dl[i] * A.get((i, j), Fraction(0)) * dr[j]
            if not nums.close(a, w):
                ctx.signal("O", sig + ":" + what, "scaled entry (%d,%d) = %s, required %s (a_ij = %s)" % (i, j, a, w, A.get((i, j), 0)),
                           case=c["line"], extra=dict(impl=" ".join(res_get(ri, "NEW")))); return False
    bnew = [u for r in vec_ranks(res_get(ri, "B")) for u in r]
    want = [dl[i] * c["b"][i] for i in range(n)]
    if len(bnew) != n or any(not nums.close(u, w) for u, w in zip(bnew, want)):
        ctx.signal("O", sig + ":rhs", "scaled right-hand side %s, required %s" % ([str(u) for u in bnew], [str(w) for w in want]), case=c["line"]); return False
    return True

def oracle_dscale(ctx, c, sig, A, ri, inew):
    if c["dropped"]: ctx.count("missing_diagonal(K only)"); return
    n = c["n"]
    d = [1 / exact_sqrt(abs(A[(i, i)])) for i in range(n)]
    if not scaled_checks(ctx, c, sig, A, ri, inew, (d, d), "DAD"): return
    S = [u for r in vec_ranks(res_get(ri, "S")) for u in r]
    if len(S) != n or any(not nums.close(u, w) for u, w in zip(S, d)):
        ctx.signal("O", sig + ":scales", "row_scales %s, required %s" % ([str(u) for u in S], [str(w) for w in d]), case=c["line"]); return
    # unscale: y solves the scaled system as the library produced it  =>  unscale(y) solves the original
    Anew = global_dense(inew); bnew = [u for r in vec_ranks(res_get(ri, "B")) for u in r]; y = c["y"]
    for i in range(n):
        lhs = sum((Anew.get((i, j), Fraction(0)) * y[j] for j in range(n)), Fraction(0))
        if not nums.close(lhs, bnew[i]):
            ctx.signal("O", sig + ":scaledsystem", "row %d of (DAD) y = D b fails for y = D^-1 x: %s vs %s" % (i, lhs, bnew[i]), case=c["line"]); return
    U = [u for r in vec_ranks(res_get(ri, "U")) for u in r]
    for i in range(n):
        if len(U) != n or not nums.close(U[i], c["xt"][i]):
            ctx.signal("O", sig + ":unscale", "unscaled solution %s, solution of the original system %s" % ([str(u) for u in U], [str(w) for w in c["xt"]]), case=c["line"]); return

def oracle_rscale(ctx, c, sig, A, ri, inew):
    if c["dropped"]: ctx.count("missing_diagonal(K only)"); return
    n = c["n"]
    d = [1 / A[(i, i)] for i in range(n)]
    scaled_checks(ctx, c, sig, A, ri, inew, (d, [Fraction(1)] * n), "DA")

# ---------------------------------------------------------------- driver
def case_from_line(line):
    """rebuild a case from its text (replay)"""
    t = line.split(); cid, kind = t[0], t[1]
    n, P = int(t[2]), int(t[4]); p = 5
    first = [int(x) for x in t[p:p + P + 1]]; p += 2 * (P + 1)
    nnz = int(t[p]); p += 1
    trip = [(int(t[p + 3 * k]), int(t[p + 3 * k + 1]), nums.parse_num(t[p + 3 * k + 2])) for k in range(nnz)]; p += 3 * nnz
    c = dict(cid=cid, kind=kind, n=n, P=P, first=first, trip=trip, line=line, views=views_of(n, first, trip))
    def vec(p):
        m = int(t[p]); return [nums.parse_num(x) for x in t[p + 1:p + 1 + m]], p + 1 + m
    if kind == "repart":
        tm, p = vec(p); x, p = vec(p); c.update(tm=[int(v) for v in tm], x=x, tmkind="replay")
    elif kind == "dscale":
        b, p = vec(p); y, p = vec(p)
        A = {(i, j): v for (i, j, v) in trip}
        dropped = [i for i in range(n) if (i, i) not in A]
        xt = y if dropped else [y[i] / exact_sqrt(abs(A[(i, i)])) for i in range(n)]
        c.update(b=b, y=y, xt=xt, dropped=dropped)
    else:
        b, p = vec(p); A = {(i, j): v for (i, j, v) in trip}
        c.update(b=b, dropped=[i for i in range(n) if (i, i) not in A])
    return c

def run(ctx):
    ctx.rule = ("random square non-symmetric matrices with nonzero diagonal (dyadic values, diagonals +-squares for "
                "diagonally_scale), random contiguous partitions incl. empty ranks, P in {1,2,3,4,6}; target maps "
                "round-robin/random/all-to-one/starved/identity/reverse/shift; random arrival orders for the model; "
                "non-trivial = >= 2 ranks own rows and >= 1 off-process entry; distinct = distinct case text")
    n = ctx.scale(420, 5000)
    if ctx.replay: cases = [case_from_line(l) for l in ctx.replay]
    else: cases = [gen_case(ctx, k) for k in range(n)]
    cf = fw.write_cases(ctx, "c20.cases", [c["line"] for c in cases])
    impl = {}
    for P in sorted(set(c["P"] for c in cases)):
        lines = [c["line"] for c in cases if c["P"] == P]
        out, crashed = fw.run_impl_lines(ctx, "drv_repart", lines, nprocs=P, name="c20p%d" % P,
                                         timeout=ctx.scale(300, 900), max_restarts=4)
        impl.update(out)
    rcm, model, _, errm = fw.run_model(ctx, cf)
    if rcm != 0: ctx.signal("K", "modeldriver", "model driver exited with %s: %s" % (rcm, errm[-400:]))
    for c in cases: judge(ctx, c, impl, model)
