"""C14 — strength of connection follows its definition and is partition independent."""
from fractions import Fraction
import framework as fw, nums

ID = "C14"
FAMILY = "interp"
OCAML_SRCS = ("conv.ml", "drv_interp.ml")
RAND_MAX = Fraction(2147483647)
THETAS = [Fraction(0), Fraction(1, 4), Fraction(1, 2), Fraction(3, 4), Fraction(1)]
ASSUMPTIONS = [
    "ordered field abstract (ltb transitive, asymmetric, total) - instantiated and proved for Qc; floating point not modelled "
    "(inputs are small integers and dyadic theta, so every threshold product is exact in double)",
    "halo values (variables, neg_diags, row_scales) are the owners' values (C03 exchange theorem), for ParComm and TAPComm alike",
    "every non-empty row stores its diagonal (the property's quantifier); without it par_strength.cpp reads a neighbouring row",
]


# ---------------------------------------------------------------- generator
def rand_partition(rng, n, P):
    """P contiguous blocks covering 0..n, empty blocks allowed (first_rows array)"""
    r = rng.random()
    if r < 0.35:                       # raptor-like balanced
        base, extra = divmod(n, P); cuts = [0]
        for p in range(P): cuts.append(cuts[-1] + base + (1 if p < extra else 0))
        return cuts
    cuts = sorted(rng.randint(0, n) for _ in range(P - 1))
    return [0] + cuts + [n]


def rand_matrix(rng):
    """square, stored diagonal in every non-empty row; kinds aim at the case splits of the kernels"""
    n = rng.choice([1, 2, 3, 4, 5, 6, 7, 8, 9, 10, 12])
    kind = rng.choice(["mixed", "mixed", "mmatrix", "negdiag", "samesign", "ties", "sparse"])
    vals = {"ties": [-2, -1, 1, 2], "mmatrix": [-4, -3, -2, -1]}.get(kind, [-5, -4, -3, -2, -1, 1, 2, 3, 4, 5])
    dens = {"sparse": 0.15}.get(kind, rng.choice([0.3, 0.5, 0.8]))
    rows = []
    for i in range(n):
        r = rng.random()
        if r < 0.06: rows.append([]); continue                      # row without any entry
        if kind == "negdiag": d = -rng.randint(1, 8)
        elif kind == "mmatrix": d = rng.randint(1, 8)
        else: d = rng.choice([-8, -4, -2, -1, 1, 2, 4, 8, 3, -3])
        ent = [(i, d)]
        if r < 0.20: rows.append(ent); continue                     # diagonal only
        same = (kind == "samesign") or rng.random() < 0.12           # all off-diagonals of the diagonal's sign
        for j in range(n):
            if j != i and rng.random() < dens:
                v = rng.choice(vals)
                if same: v = abs(v) if d >= 0 else -abs(v)
                ent.append((j, v))
        rng.shuffle(ent)                                             # unsorted storage: the routines sort themselves
        rows.append(ent)
    return n, rows, kind


def gen_cases(ctx, count):
    rng = ctx.rng; cases = []
    for k in range(count):
        n, rows, kind = rand_matrix(rng)
        P = rng.choice([1, 2, 2, 3, 3, 4, 4])
        cuts = rand_partition(rng, n, P)
        sym = 1 if rng.random() < 0.45 else 0
        theta = rng.choice(THETAS)
        tap = 1 if rng.random() < 0.5 else 0
        ppn = rng.choice([q for q in (4, 2, 2, 1) if P % q == 0 or q == 4]) if tap else 4   # TAPComm needs full nodes
        nv = rng.choice([1, 1, 2, 3])
        if nv == 1: vars_ = [0] * n
        elif rng.random() < 0.7: vars_ = [i % nv for i in range(n)]   # interleaved unknowns
        else: vars_ = [rng.randrange(nv) for i in range(n)]
        ppn += 10 * rng.choice([0, 0, 1, 2, 3])       # state of the operand (tens digit, see drv_interp): fresh / sorted / sorted+diag first / used before
        cases.append(mk_case("s%d" % k, sym, theta, tap, ppn, nv, vars_, n, rows, cuts, kind))
    return cases


def mk_case(cid, sym, theta, tap, ppn, nv, vars_, n, rows, cuts, kind="replay"):
    P = len(cuts) - 1
    trip = [(i, j, v) for i, r in enumerate(rows) for (j, v) in r]
    toks = [cid, "strength", str(sym), nums.tok_num(theta), str(tap), str(ppn), str(nv), str(n)] + [str(v) for v in vars_]
    toks += [str(n), str(n), str(P)] + [str(c) for c in cuts] + [str(c) for c in cuts] + [str(len(trip))]
    for (i, j, v) in trip: toks += [str(i), str(j), nums.tok_num(v)]
    return dict(cid=cid, sym=sym, theta=Fraction(theta), tap=tap, ppn=ppn, nv=nv, vars=vars_, n=n,
                rows=[[(j, Fraction(v)) for (j, v) in r] for r in rows], cuts=cuts, P=P, kind=kind, line=" ".join(toks))


def case_from_line(line):
    t = line.split(); cid = t[0]
    sym = int(t[2]); theta = nums.parse_num(t[3]); tap = int(t[4]); ppn = int(t[5]); nv = int(t[6]); n = int(t[7])
    vars_ = [int(x) for x in t[8:8 + n]]; p = 8 + n
    nr, nc, P = int(t[p]), int(t[p + 1]), int(t[p + 2]); p += 3
    cuts = [int(x) for x in t[p:p + P + 1]]; p += 2 * (P + 1)
    nnz = int(t[p]); p += 1
    rows = [[] for _ in range(nr)]
    for k in range(nnz):
        rows[int(t[p])].append((int(t[p + 1]), nums.parse_num(t[p + 2]))); p += 3
    return mk_case(cid, sym, theta, tap, ppn, nv, vars_, n, rows, cuts)


# ---------------------------------------------------------------- result parsing
def parse_rows(toks, nrows=None):
    rows = []; p = 0
    while p < len(toks):
        k = int(toks[p]); p += 1
        rows.append([(int(toks[p + 2 * q]), nums.parse_num(toks[p + 2 * q + 1])) for q in range(k)]); p += 2 * k
    if nrows is not None and len(rows) != nrows: raise ValueError("expected %d rows, got %d" % (nrows, len(rows)))
    return rows


def result_rows(res, key, gathered):
    for (k, toks) in res or []:
        if k == key:
            if gathered: return parse_rows([x for x in toks if not x.startswith("@")])
            return parse_rows(toks[1:], int(toks[0]))
    return None


def rows_equal(a, b):
    if len(a) != len(b): return False, "row counts %d vs %d" % (len(a), len(b))
    for i, (x, y) in enumerate(zip(a, b)):
        if len(x) != len(y): return False, "row %d: %s vs %s" % (i, x, y)
        for e, f in zip(x, y):
            if e[0] != f[0] or not nums.close(e[1], f[1]): return False, "row %d: %s vs %s" % (i, x, y)
    return True, ""


# ---------------------------------------------------------------- the property's own oracle
def extreme(neg, cand):
    """the row's extreme off-diagonal of sign class opposite to the diagonal; None when there is no candidate"""
    if not cand: return None
    return max(cand) if neg else min(cand)


def beyond(neg, thr, v):
    return v > thr if neg else v < thr


def documented(c):
    """the strength matrix by its documented definition: {i: set of (j, v)}"""
    n, rows, th = c["n"], c["rows"], c["theta"]
    diag = [dict(r).get(i, Fraction(0)) for i, r in enumerate(rows)]
    neg = [d < 0 for d in diag]
    S = []
    if not c["sym"]:
        for i, r in enumerate(rows):
            same = lambda j: c["nv"] == 1 or c["vars"][i] == c["vars"][j]
            m = extreme(neg[i], [v for (j, v) in r if j != i and same(j)])
            S.append(set((j, v) for (j, v) in r if j == i or (same(j) and m is not None and beyond(neg[i], th * m, v))))
    else:
        thr = []
        for i, r in enumerate(rows):
            if not r: thr.append(Fraction(0)); continue         # row without entries: neg_diags = 0, row_scales = 0
            m = extreme(neg[i], [v for (j, v) in r if j != i])
            if m is None: m = -RAND_MAX if neg[i] else RAND_MAX    # no off-diagonal: the extreme is the sentinel
            thr.append(th * m)
        for i, r in enumerate(rows):
            S.append(set((j, v) for (j, v) in r if j == i or beyond(neg[i], thr[i], v) or beyond(neg[j], thr[j], v)))
    return S


def oracle(ctx, c, S, which):
    """clauses of the property on one implementation output (list of rows)"""
    sig = "strength:%s:%s" % ("symmetric" if c["sym"] else "classical", which)
    if len(S) != c["n"]:
        ctx.signal("O", sig + ":rows", "%d rows returned for a %d-row matrix" % (len(S), c["n"]), case=c["line"]); return False
    doc = documented(c)
    for i, (ra, rs) in enumerate(zip(c["rows"], S)):
        A = dict(ra)
        if len(set(j for j, _ in rs)) != len(rs):
            ctx.signal("O", sig + ":dup", "row %d of S repeats a column: %s" % (i, rs), case=c["line"]); return False
        for (j, v) in rs:
            if j not in A or A[j] != v:
                ctx.signal("O", sig + ":subset", "S[%d][%d]=%s is not an entry of A (A has %s)" % (i, j, v, A.get(j)), case=c["line"]); return False
        if ra and i in A and (i, A[i]) not in rs:
            ctx.signal("O", sig + ":diag", "diagonal of non-empty row %d dropped: %s" % (i, rs), case=c["line"]); return False
        if set(rs) != doc[i]:
            ctx.signal("O", sig + ":test", "row %d: S has %s, documented test gives %s" % (i, sorted(rs), sorted(doc[i])), case=c["line"]); return False
    return True


def judge(ctx, c, impl, model):
    cid = c["cid"]; ri, rm = impl.get(cid), model.get(cid)
    ctx.evaluations += 1
    ctx.count("kind_" + c["kind"]); ctx.count("P%d" % c["P"]); ctx.count("symmetric" if c["sym"] else "classical")
    ctx.count("theta_%s" % c["theta"]); ctx.count("nv%d" % c["nv"]); ctx.count("tap_ppn%d" % c["ppn"] if c["tap"] else "tap_off")
    cuts = c["cuts"]
    if any(cuts[k] == cuts[k + 1] for k in range(c["P"])): ctx.count("empty_rank")
    if any(len(r) == 1 for r in c["rows"]): ctx.count("diag_only_row")
    if any(len(r) == 0 for r in c["rows"]): ctx.count("empty_row")
    if any(r and dict(r)[i] < 0 for i, r in enumerate(c["rows"])) and any(r and dict(r)[i] > 0 for i, r in enumerate(c["rows"])):
        ctx.count("mixed_sign_diagonals")
    if any(len(r) > 1 for r in c["rows"]): ctx.nontrivial.add(c["line"].split(" ", 1)[1])
    ctx.sample(c["line"])
    sig = "strength:%s" % ("symmetric" if c["sym"] else "classical")
    if not ri or any(k in ("CRASH", "ERR") or k.startswith("ERR") for k, _ in ri):
        ctx.signal("O", sig + ":crash", "implementation failed on the case: %s" % (ri,), case=c["line"]); return
    try:
        Si, Pi = result_rows(ri, "SEQ", False), result_rows(ri, "PAR", True)
    except Exception as e:
        ctx.signal("O", sig + ":malformed", "unreadable implementation output: %s" % e, case=c["line"]); return
    if Si is None or Pi is None:
        ctx.signal("O", sig + ":crash", "implementation produced no result: %s" % (ri,), case=c["line"]); return
    # O: the property on the implementation's own outputs
    ok = oracle(ctx, c, Si, "seq")
    ok = oracle(ctx, c, Pi, "par") and ok
    if len(Si) == len(Pi):
        for i, (x, y) in enumerate(zip(Si, Pi)):
            if sorted(x) != sorted(y):
                ctx.signal("O", sig + ":partition", "row %d differs between sequential %s and distributed %s (partition %s)"
                           % (i, sorted(x), sorted(y), cuts), case=c["line"]); break
    # K: model vs implementation, storage order included
    if not rm:
        ctx.signal("K", sig + ":model", "model produced no result", case=c["line"]); return
    try:
        Sm, Pm = result_rows(rm, "SEQ", False), result_rows(rm, "PAR", False)
    except Exception as e:
        ctx.signal("K", sig + ":model", "unreadable model output: %s %s" % (e, rm), case=c["line"]); return
    if Sm is None or Pm is None:
        ctx.signal("K", sig + ":model", "model produced no result: %s" % (rm,), case=c["line"]); return
    for (a, b, w) in ((Si, Sm, "seq"), (Pi, Pm, "par")):
        eq, why = rows_equal(a, b); ctx.compared += 1
        if not eq:
            ctx.signal("K", sig + ":" + w, "model and implementation differ: " + why, case=c["line"])


def run(ctx):
    ctx.rule = ("random square matrices with stored diagonal (mixed/negative/zero diagonals, diagonal-only and empty rows, rows whose "
                "off-diagonals all have the diagonal's sign, tie-rich value sets, unsorted storage) x theta in {0,1/4,1/2,3/4,1} x "
                "classical/symmetric x 1..3 variables (interleaved or random) x P in 1..4 with random contiguous partitions "
                "(empty ranks included) x tap off/on (PPN 4,2,1); non-trivial = some row has an off-diagonal; distinct = distinct case text")
    if ctx.replay:
        cases = [case_from_line(l) for l in ctx.replay]
    else:
        cases = gen_cases(ctx, ctx.scale(1500, 16000))
    impl = {}
    for P in sorted(set(c["P"] for c in cases)):
        lines = [c["line"] for c in cases if c["P"] == P]
        res, crashed = fw.run_impl_lines(ctx, "drv_interp", lines, nprocs=P, name="c14p%d" % P, timeout=ctx.scale(120, 600))
        impl.update(res)
    cf = fw.write_cases(ctx, "c14.cases", [c["line"] for c in cases])
    rcm, model, _, errm = fw.run_model(ctx, cf)
    if rcm != 0: ctx.signal("K", "modeldriver", "model driver exited with %s: %s" % (rcm, errm[-400:]))
    for c in cases: judge(ctx, c, impl, model)
