"""Distributed part of C07: conversions between ParCOO/ParCSR/ParCSC, copy, transpose, add, subtract preserve /
transpose / add the global operator on every partition (oracle: dense image of the gathered result)."""
from fractions import Fraction
import framework as fw, gen, nums, commgen, C02par

POPS = ["to_coo", "to_csr", "to_csc", "copy", "transpose"]

def dense_of(trip):
    d = {}
    for (i, j, v) in trip: d[(i, j)] = d.get((i, j), Fraction(0)) + v
    return {k: v for k, v in d.items() if v != 0}

def gathered(res_T):
    d = {}
    for rk in commgen.split_ranks(res_T):
        for a in range(0, len(rk) - 2, 3):
            k = (int(rk[a]), int(rk[a + 1])); d[k] = d.get(k, Fraction(0)) + nums.parse_num(rk[a + 2])
    return {k: v for k, v in d.items() if v != 0}


def run_struct(ctx, P, drv):
    """model tie of the distributed routines: the local blocks (on-process rows, off-process rows, column map, partition)
    of ParCSRMatrix::transpose / add / subtract / conversion round trips against the extracted Dist/ParConv.v model"""
    rng = ctx.rng; cases = []
    for k in range(ctx.scale(45, 400)):
        c = C02par.gen_parcase(rng, "s%d_%d" % (P, k), P)
        if rng.random() < 0.35:        # a few larger ones: several off-process columns per owner, several senders per row
            n = rng.randint(8, 16); c.update(nr=n, nc=n, fr=commgen.rand_partition(rng, P, n)); c["fc"] = list(c["fr"]) if rng.random() < 0.5 else commgen.rand_partition(rng, P, n)
            c["trip"] = gen.rand_triples(rng, n, n, rng.choice([n, 3 * n, 5 * n]))
        what = rng.choice(["transpose", "transpose", "add", "subtract", "conv"])
        lit = C02par.parlit_tokens(c, True)
        if what in ("add", "subtract"):
            c2 = dict(c); c2["trip"] = gen.rand_triples(rng, c["nr"], c["nc"], rng.choice([0, 1, c["nr"] + c["nc"], 2 * (c["nr"] + c["nc"])]) if c["nr"] * c["nc"] else 0)
            if rng.random() < 0.3 and c["trip"]:     # cancelling entries: columns that disappear from the merged map
                sg = 1 if what == "subtract" else -1
                c2["trip"] = [(i, j, sg * v) for (i, j, v) in c["trip"] if rng.random() < 0.6] + c2["trip"][:2]
            c.update(B=c2["trip"]); toks = [what] + lit + C02par.parlit_tokens(c2, True)
        elif what == "conv":
            ops = [rng.choice(["to_coo", "to_csr", "to_csc", "copy"]) for _ in range(rng.choice([1, 2, 3]))]
            c.update(ops=ops); toks = ["conv", len(ops)] + ops + lit
        else:
            toks = [what] + lit
        c.update(kind=what, line=" ".join(str(x) for x in [c["cid"], "pstruct"] + toks)); cases.append(c)
    impl, crashed = fw.run_impl_lines(ctx, "drv_parmat", [c["line"] for c in cases], nprocs=P, name="pstruct_%d" % P)
    cf = fw.write_cases(ctx, "pstruct_model_%d.cases" % P, [c["line"] for c in cases])
    rc, model, _, err = fw.run_model(ctx, cf, driver=drv)
    if rc != 0: ctx.signal("K", "modeldriver", "model driver failed: " + err[-300:])
    for c in cases:
        ctx.evaluations += 1; ctx.count("par_P=%d" % P); ctx.count("par_struct_" + c["kind"])
        if c["trip"]: ctx.nontrivial.add(c["line"].split(" ", 1)[1])
        r = impl.get(c["cid"]); res = {k: v for k, v in r} if r else {}
        sig = "par:struct:%s" % c["kind"]
        if "DONE" not in res:
            ctx.signal("O", sig + ":crash_or_hang", "implementation did not complete: %s" % (r[:1] if r else None,), case=c["line"]); continue
        exp = dense_of(c["trip"])
        if c["kind"] == "transpose": exp = {(j, i): v for (i, j), v in exp.items()}
        elif c["kind"] in ("add", "subtract"):
            sgn = 1 if c["kind"] == "add" else -1
            for k, v in dense_of(c["B"]).items(): exp[k] = exp.get(k, Fraction(0)) + sgn * v
            exp = {k: v for k, v in exp.items() if v != 0}
        ok, why = fw.dense_equal(gathered(res["T"]), exp)
        if not ok:
            ctx.signal("O", sig, "gathered result differs from the required global operator: " + why, case=c["line"]); continue
        mr = {k: v for k, v in model.get(c["cid"], [])}
        if "S" not in mr:
            ctx.signal("K", sig + ":model", "model produced no result: %s" % (model.get(c["cid"]),), case=c["line"]); continue
        ctx.compared += 1
        gi, gm = commgen.split_ranks(res["S"]), commgen.split_ranks(mr["S"])
        for p_, (a, b) in enumerate(zip(gi, gm)):
            if not fw.toks_equal(a, b):
                ctx.signal("K", sig, "rank %d: local blocks differ from the model (Dist/ParConv.v): implementation %s, model %s" % (p_, " ".join(a)[:300], " ".join(b)[:300]), case=c["line"]); break

def run(ctx):
    rng = ctx.rng
    try:
        drv = fw.model_driver(ctx, "dist", ("conv.ml", "drv_dist.ml"))
    except Exception as e:
        ctx.signal("T", "extraction:dist", "distributed model does not build/extract: " + str(e)[-800:]); drv = None
    for P in ctx.scale([1, 2, 3, 4], [1, 2, 3, 4, 5, 7, 8, 12]):
        if drv: run_struct(ctx, P, drv)
        cases = []
        for k in range(ctx.scale(40, 300)):
            c = C02par.gen_parcase(rng, "v%d_%d" % (P, k), P)
            if rng.random() < 0.6:
                ops = [rng.choice(POPS) for _ in range(rng.choice([1, 2, 3]))]
                # the library transposes on the row/column partitions of the operand; a default-partitioned rectangular
                # matrix with rows < procs has no column owner for every column: keep explicit partitions for transposes
                c.update(kind="pconv", ops=ops, line=" ".join(str(x) for x in [c["cid"], "pconv"] + C02par.parlit_tokens(c, c["explicit"]) + [len(ops)] + ops))
            else:
                c2 = dict(c); c2["trip"] = gen.rand_triples(rng, c["nr"], c["nc"], rng.choice([0, 1, c["nr"] + c["nc"], 2 * (c["nr"] + c["nc"])]) if c["nr"] * c["nc"] else 0)
                which = rng.choice(["add", "subtract"])
                c.update(kind=which, B=c2["trip"], line=" ".join(str(x) for x in [c["cid"], "padd", which] + C02par.parlit_tokens(c, True) + C02par.parlit_tokens(c2, True)))
            cases.append(c)
        impl, crashed = fw.run_impl_lines(ctx, "drv_parmat", [c["line"] for c in cases], nprocs=P, name="pconv_%d" % P)
        for c in cases:
            ctx.evaluations += 1; ctx.count("par_P=%d" % P); ctx.count("par_" + c["kind"])
            if c["trip"]: ctx.nontrivial.add(c["line"].split(" ", 1)[1])
            r = impl.get(c["cid"]); res = {k: v for k, v in r} if r else {}
            sig = "par:%s" % (c["kind"] if c["kind"] != "pconv" else "conv:" + ">".join(c["ops"]))
            if "DONE" not in res:
                ctx.signal("O", sig + ":crash_or_hang", "implementation did not complete: %s" % (r[:1] if r else None,), case=c["line"]); continue
            exp = dense_of(c["trip"]); nr, nc = c["nr"], c["nc"]
            if c["kind"] == "pconv":
                for op in c["ops"]:
                    if op == "transpose": exp = {(j, i): v for (i, j), v in exp.items()}; nr, nc = nc, nr
            else:
                sgn = 1 if c["kind"] == "add" else -1
                for k, v in dense_of(c["B"]).items(): exp[k] = exp.get(k, Fraction(0)) + sgn * v
                exp = {k: v for k, v in exp.items() if v != 0}
            got = gathered(res["T"])
            ok, why = fw.dense_equal(got, exp)
            dims = commgen.split_ranks(res["D"])
            if ok and dims and (int(dims[0][0]), int(dims[0][1])) != (nr, nc):
                ok, why = False, "global dimensions %s x %s, required %d x %d" % (dims[0][0], dims[0][1], nr, nc)
            if ok and c["kind"] in ("add", "subtract") and any(rk != ["1"] for rk in commgen.split_ranks(res["M"])):
                ok, why = False, "off-process column map of the result is not a sorted list of non-local columns"
            if not ok:
                ctx.signal("O", sig, "gathered result differs from the required global operator: " + why, case=c["line"])
        # distributed block forms: ParCSRMatrix::to_ParBSR(br, bc) followed by to_ParBCOO / to_ParBSR / to_ParBSC / copy
        bcases = []
        for k in range(ctx.scale(25, 200)):
            c = C02par.gen_blockcase(rng, "w%d_%d" % (P, k), P)
            ops = [rng.choice(["to_bcoo", "to_bsr", "to_bsc", "copy"]) for _ in range(rng.choice([1, 1, 2, 3]))]
            if rng.random() < 0.45:       # back to ParCSR: ParBSR expands to scalars (ParBCOO / ParBSC return the block-row form)
                ops = ([rng.choice(["to_bsr", "copy"]) for _ in range(rng.choice([0, 1]))] if rng.random() < 0.7 else ops[:2]) + ["to_csr"]
            c.update(ops=ops, line=" ".join(str(x) for x in [c["cid"], "pbconv", c["br"], c["bc"]] + C02par.parlit_tokens(c, True) + [len(ops)] + ops))
            bcases.append(c)
        impl, crashed = fw.run_impl_lines(ctx, "drv_parmat", [c["line"] for c in bcases], nprocs=P, name="pbconv_%d" % P)
        for c in bcases:
            ctx.evaluations += 1; ctx.count("par_P=%d" % P); ctx.count("par_block_conv")
            if c["trip"]: ctx.nontrivial.add(c["line"].split(" ", 1)[1])
            r = impl.get(c["cid"]); res = {k: v for k, v in r} if r else {}
            sig = "par:bconv:%dx%d:%s" % (c["br"], c["bc"], ">".join(c["ops"]))
            if "DONE" not in res:
                ctx.signal("O", sig + ":crash_or_hang", "implementation did not complete: %s" % (r[:1] if r else None,), case=c["line"]); continue
            ok, why = fw.dense_equal(gathered(res["T"]), dense_of(c["trip"]))
            dims = commgen.split_ranks(res["D"])
            if ok and dims and "fc" in dims[0]:
                # scalar result: every rank's column block is the scalar image of its block-column block
                for p_, dk in enumerate(dims):
                    q = dk.index("fc"); fcol, ncol = int(dk[q + 1]), int(dk[q + 2])
                    if (fcol, ncol) != (c["fc"][p_], c["fc"][p_ + 1] - c["fc"][p_]) and c["fc"][p_ + 1] > c["fc"][p_]:
                        ok, why = False, "rank %d: column block starts at %d with %d columns, required %d with %d" % (p_, fcol, ncol, c["fc"][p_], c["fc"][p_ + 1] - c["fc"][p_]); break
            if ok and dims and (int(dims[0][0]) * c["br"], int(dims[0][1]) * c["bc"]) != (c["nr"], c["nc"]):
                ok, why = False, "global block dimensions %s x %s for a %d x %d matrix in %dx%d blocks" % (dims[0][0], dims[0][1], c["nr"], c["nc"], c["br"], c["bc"])
            if not ok:
                ctx.signal("O", sig, "gathered block matrix differs from the required global operator: " + why, case=c["line"])
