"""C15 — distance-two independent sets and aggregates are valid partitions (sequential and distributed)."""
import itertools, hashlib
from fractions import Fraction
import framework as fw, nums

ID = "C15"
FAMILY = "agg"
OCAML_SRCS = ("conv.ml", "drv_agg.ml")
DRIVER = "drv_agg"
PPN_ENV = {"PPN": "4"}            # as raptor's own TAP tests: setenv("PPN", "4", 1)
SIG_D15A = "par_aggregate:pass2_label_hits_isolated_sentinel:root_is_last_global_vertex"
SIG_D15A_N1 = "par_aggregate:isolated_sentinel_equals_unassigned_marker:global_num_rows_is_1"


# ---------------------------------------------------------------- graphs
def sym_graph(n, edges):
    """adjacency (sorted lists) of the undirected graph with all self loops"""
    adj = [set([i]) for i in range(n)]
    for (i, j) in edges:
        if i != j: adj[i].add(j); adj[j].add(i)
    return [sorted(a) for a in adj]

def all_pairs(n): return [(i, j) for i in range(n) for j in range(i + 1, n)]

def rand_graph(rng, n, p):
    return sym_graph(n, [e for e in all_pairs(n) if rng.random() < p])

def grid_graph(a, b, nine=False):
    idx = lambda x, y: x * b + y
    ed = []
    for x in range(a):
        for y in range(b):
            if x + 1 < a: ed.append((idx(x, y), idx(x + 1, y)))
            if y + 1 < b: ed.append((idx(x, y), idx(x, y + 1)))
            if nine and x + 1 < a and y + 1 < b: ed.append((idx(x, y), idx(x + 1, y + 1)))
            if nine and x + 1 < a and y > 0: ed.append((idx(x, y), idx(x + 1, y - 1)))
    return sym_graph(a * b, ed)

def named_graph(rng):
    k = rng.choice(["path", "ring", "grid5", "grid9", "star", "complete", "isolated", "two_comp", "ladder", "path_tail"])
    if k == "path":
        n = rng.randint(2, 16); return k, sym_graph(n, [(i, i + 1) for i in range(n - 1)])
    if k == "ring":
        n = rng.randint(3, 14); return k, sym_graph(n, [(i, (i + 1) % n) for i in range(n)])
    if k == "grid5":
        a, b = rng.randint(1, 6), rng.randint(2, 6); return k, grid_graph(a, b)
    if k == "grid9":
        a, b = rng.randint(2, 5), rng.randint(2, 5); return k, grid_graph(a, b, True)
    if k == "star":
        n = rng.randint(2, 10); c = rng.randrange(n); return k, sym_graph(n, [(c, i) for i in range(n) if i != c])
    if k == "complete":
        n = rng.randint(1, 7); return k, sym_graph(n, all_pairs(n))
    if k == "isolated":
        n = rng.randint(1, 8); return k, sym_graph(n, [])
    if k == "two_comp":
        n = rng.randint(4, 12); h = n // 2
        return k, sym_graph(n, [(i, i + 1) for i in range(h - 1)] + [(i, i + 1) for i in range(h, n - 1)] +
                            ([(0, h - 1)] if rng.random() < .5 else []))
    if k == "ladder":
        m = rng.randint(2, 7)
        return k, sym_graph(2 * m, [(i, i + 1) for i in range(m - 1)] + [(m + i, m + i + 1) for i in range(m - 1)] + [(i, m + i) for i in range(m)])
    # a path hanging off a random graph, ending at the last vertex
    n0 = rng.randint(1, 6); g = [e for e in all_pairs(n0) if rng.random() < .5]; t = rng.randint(2, 4)
    return k, sym_graph(n0 + t, g + [(n0 - 1 + i, n0 + i) for i in range(t)])

def distinct_keys(rng, n, style=None):
    """distinct non-negative dyadic keys (raptor's keys are rand()/RAND_MAX in [0,1])"""
    style = style or rng.choice(["perm64", "perm64", "perm_int", "incr", "decr", "last_max", "near_equal"])
    perm = list(range(n)); rng.shuffle(perm)
    if style == "incr": perm = list(range(n))
    if style == "decr": perm = list(range(n - 1, -1, -1))
    if style == "last_max" and n:
        i = perm.index(n - 1); perm[i], perm[n - 1] = perm[n - 1], perm[i]
    if style == "perm_int": return [Fraction(p) for p in perm]
    if style == "near_equal":        # distinct doubles that agree to single precision (raptor's keys are doubles: rand()/RAND_MAX)
        return [Fraction(1, 4) + Fraction(p + 1, 2 ** 40) for p in perm]
    return [Fraction(p + 1, 64) for p in perm]


# ---------------------------------------------------------------- cases
class Base:
    """one input: S (pattern rows), A (rows of (col, val)) with S's pattern inside A's, keys"""
    def __init__(self, name, S, A, keys, kind):
        self.name, self.S, self.A, self.keys, self.kind = name, S, A, keys, kind
        self.n = len(S)
    def csr_tokens(self, rows):
        ptr = [0]
        for r in rows: ptr.append(ptr[-1] + len(r))
        return ["csr", str(self.n), str(self.n), str(ptr[-1])] + [str(p) for p in ptr] + \
               [str(c) for r in rows for (c, v) in r] + [nums.tok_num(v) for r in rows for (c, v) in r]
    def S_rows(self): return [[(c, Fraction(1)) for c in r] for r in self.S]
    def seq_line(self, cid, mode="mis", states=None, A=None, S=None):
        t = [cid, "seq", mode] + self.csr_tokens(A or self.A) + self.csr_tokens(S or self.S_rows()) + \
            [str(len(self.keys))] + [nums.tok_num(k) for k in self.keys]
        if mode == "given": t += [str(s) for s in states]
        return " ".join(t)
    def parlit(self, rows, P, first):
        t = [str(self.n), str(self.n), str(P)]
        if P: t += [str(f) for f in first] * 2
        tr = [(i, c, v) for i, r in enumerate(rows) for (c, v) in r]
        t.append(str(len(tr)))
        for (i, c, v) in tr: t += [str(i), str(c), nums.tok_num(v)]
        return t
    def par_line(self, cid, tap, P, first):
        return " ".join([cid, "par", str(tap)] + self.parlit(self.A, P, first) + self.parlit(self.S_rows(), P, first) +
                        [str(self.n)] + [nums.tok_num(k) for k in self.keys])
    def chk_line(self, cid, kind, states, aggs, n_aggs):
        return " ".join([cid, "chk", kind] + self.csr_tokens(self.S_rows()) + [str(len(states))] + [str(s) for s in states] +
                        [str(len(aggs))] + [str(a) for a in aggs] + [str(n_aggs)])
    # what the property assumes
    def symmetric(self): return all(i in self.S[j] for i in range(self.n) for j in self.S[i])
    def reflexive(self): return all(i in self.S[i] for i in range(self.n))
    def keys_distinct(self): return len(set(self.keys)) == len(self.keys) == self.n
    def in_scope(self): return self.symmetric() and self.reflexive() and self.keys_distinct() and self.vals_positive()
    def aval(self, i, c):
        for (cc, v) in self.A[i]:
            if cc == c: return v
        return None
    def vals_positive(self):
        return all(abs(self.aval(i, c)) + self.keys[c] > 0 for i in range(self.n) for c in self.S[i])
    def tie_free(self):
        if not hasattr(self, "_tf"): self._tf = self._tie_free()
        return self._tf
    def _tie_free(self):
        for i in range(self.n):
            vs = [abs(self.aval(i, c)) + self.keys[c] for c in self.S[i] if c != i]
            if len(set(vs)) != len(vs): return False
        return True
    def isolated(self, v): return all(c == v for c in self.S[v])
    def reordered(self, first):
        """rows in the order par_aggregate scans them on the owning rank: diagonal, on-process columns
           ascending, off-process columns ascending"""
        A2, S2 = [], []
        owner_lo = {}
        for p in range(len(first) - 1):
            for i in range(first[p], first[p + 1]): owner_lo[i] = (first[p], first[p + 1])
        for i in range(self.n):
            lo, hi = owner_lo[i]
            key = lambda c: (0 if c == i else (1 if lo <= c < hi else 2), c)
            A2.append(sorted(self.A[i], key=lambda e: key(e[0])))
            S2.append([(c, Fraction(1)) for c in sorted(self.S[i], key=key)])
        return A2, S2


def make_A(rng, S, keys, style):
    """A has S's pattern (plus extra entries for style 'super'); values dyadic, never zero on S's pattern"""
    n = len(S); A = []
    for i in range(n):
        cols = set(S[i])
        if style == "super":
            for c in range(n):
                if rng.random() < 0.15: cols.add(c)
        row = []
        for c in sorted(cols):
            if style == "ones": v = Fraction(1)
            elif style == "lapl": v = Fraction(len(S[i]) - 1 or 1) if c == i else Fraction(-1)
            elif style == "zeros": v = Fraction(rng.choice([0, 0, 1, -2]))
            elif style == "ties": v = (Fraction(100) - keys[c]) * rng.choice([1, -1])    # |a_ij| + r_j = 100 for every j
            else: v = Fraction(rng.choice([-4, -3, -2, -1, 1, 2, 3, 5]), rng.choice([1, 1, 2, 4]))
            row.append((c, v))
        A.append(row)
    return A


def gen_bases(ctx, n_bases):
    rng = ctx.rng; out = []
    # the input class of DESIGN D15a first: a path whose far end wins the election
    for n in (3, 4, 5):
        S = sym_graph(n, [(i, i + 1) for i in range(n - 1)])
        keys = [Fraction(i + 1, 64) for i in range(n)]; keys[n - 2] = Fraction(60, 64); keys[n - 1] = Fraction(50, 64)
        out.append(Base("b_end%d" % n, S, make_A(rng, S, keys, "ones"), keys, "path_last_root"))
    # long chains with keys monotone along the chain: one vertex is decided per sweep and end, so the election needs about n/3
    # sweeps (far more than log n); and a strip three vertices wide
    for n, inc in ((150, True), (300, False)) if ctx.quick() else ((150, True), (300, False), (300, True), (420, False)):
        S = sym_graph(n, [(i, i + 1) for i in range(n - 1)])
        keys = [Fraction((i + 1) if inc else (n - i), 1024) for i in range(n)]
        out.append(Base("b_chain%d%s" % (n, "i" if inc else "d"), S, make_A(rng, S, keys, "ones"), keys, "long_chain_monotone"))
    m = 60
    S = sym_graph(3 * m, [(3 * i + j, 3 * (i + 1) + j) for i in range(m - 1) for j in range(3)] + [(3 * i + j, 3 * i + j + 1) for i in range(m) for j in range(2)])
    keys = [Fraction(3 * m - i, 1024) for i in range(3 * m)]
    out.append(Base("b_strip", S, make_A(rng, S, keys, "ones"), keys, "long_chain_monotone"))
    while len(out) < n_bases:
        k = len(out); r = rng.random()
        if r < 0.45:
            n = rng.choice([1, 2, 3, 4, 5, 6, 6, 7, 8, 9, 10, 12, 14]); p = rng.choice([0.1, 0.2, 0.3, 0.5, 0.8])
            kind, S = "random", rand_graph(rng, n, p)
        elif r < 0.55:
            n = rng.randint(15, 40); kind, S = "random_sparse", rand_graph(rng, n, rng.choice([2.0, 3.0, 4.0]) / n)
        else:
            kind, S = named_graph(rng)
        keys = distinct_keys(rng, len(S))
        A = make_A(rng, S, keys, rng.choice(["ones", "ones", "lapl", "rand", "rand", "super", "ties"]))
        out.append(Base("b%d" % k, S, A, keys, kind))
    return out


def gen_konly(ctx, m):
    """sequential cases outside the property's hypotheses (non-symmetric, no self loops, equal keys, arbitrary
       states): model and implementation must still agree"""
    rng = ctx.rng; out = []
    for k in range(m):
        n = rng.randint(1, 9)
        S = [sorted(set(c for c in range(n) if rng.random() < 0.35)) for _ in range(n)]
        kind = rng.choice(["nonsym", "dupkeys", "given", "given"])
        if kind == "dupkeys":
            S = rand_graph(rng, n, 0.4); keys = [Fraction(rng.randint(0, 3), 4) for _ in range(n)]
        else:
            keys = distinct_keys(rng, n)
        b = Base("k%d" % k, S, make_A(rng, S, keys, rng.choice(["ones", "rand", "super"])), keys, kind)
        if kind == "given":
            b.S = S = rand_graph(rng, n, 0.4) if rng.random() < 0.6 else S
            b.A = make_A(rng, S, keys, rng.choice(["ones", "rand", "zeros", "ties"]))
            b.states = [rng.choice([0, 0, 0, 1, 1, -1, 2, 3]) for _ in range(n)]
            if rng.random() < 0.3: b.keys = [Fraction(0)] * n
        out.append(b)
    return out


def compositions(n, P):
    """all ways to cut 0..n into P contiguous blocks (empty blocks allowed) -> first-row arrays"""
    for cuts in itertools.combinations_with_replacement(range(n + 1), P - 1):
        yield [0] + list(cuts) + [n]


def rand_partition(rng, n, P):
    style = rng.choice(["cuts", "cuts", "empty_first", "empty_last", "empty_mid", "one_owner"])
    cuts = sorted(rng.randint(0, n) for _ in range(P - 1))
    if style == "empty_first" and P > 1: cuts[0] = 0
    if style == "empty_last" and P > 1: cuts[-1] = n
    if style == "empty_mid" and P > 2: cuts[1] = cuts[0]
    if style == "one_owner": o = rng.randrange(P); cuts = [0] * o + [n] * (P - 1 - o)
    return [0] + cuts + [n]


# ---------------------------------------------------------------- parsing results
def parse_seq(toks):
    """ST n s.. AG na len a..  -> (states, n_aggs, aggs) or None"""
    try:
        if toks[0] != "ST": return None
        n = int(toks[1]); st = [int(x) for x in toks[2:2 + n]]; p = 2 + n
        if toks[p] != "AG": return None
        na = int(toks[p + 1]); m = int(toks[p + 2]); ag = [int(x) for x in toks[p + 3:p + 3 + m]]
        if len(st) != n or len(ag) != m: return None
        return st, na, ag
    except Exception:
        return None

def parse_par(toks):
    """@r FR f NL l IT it ST .. OC .. OS .. NA x AG ..  per rank -> list of dicts"""
    ranks = []; cur = None; fld = None
    for t in toks:
        if t.startswith("@"):
            cur = dict(FR=[], NL=[], IT=[], ST=[], OC=[], OS=[], NA=[], AG=[]); ranks.append(cur); fld = None
        elif t in ("FR", "NL", "IT", "ST", "OC", "OS", "NA", "AG"): fld = t
        else: cur[fld].append(int(t))
    return ranks


# ---------------------------------------------------------------- judging
def judge_seq(ctx, b, cid, impl, model, chk, scope):
    ctx.evaluations += 1
    ri, rm = impl.get(cid), model.get(cid)
    line = b.line
    ctx.count("seq_" + b.kind)
    if not ri:
        ctx.count("seq_not_run_after_crash"); return None
    if ri[0][0] != "R":
        ctx.signal("O" if scope else "K", "seq:crash_or_hang", "sequential mis2/aggregate crashed or did not terminate: %s" % (ri,), case=line)
        return None
    pi = parse_seq(ri[0][1])
    if not rm or rm[0][0] != "R":
        ctx.signal("K", "seq:model", "model produced no result: %s" % (rm,), case=line); return pi
    ctx.compared += 1
    if ri[0][1] != rm[0][1]:
        ctx.signal("K", "seq:mis2_aggregate", "model and implementation differ", case=line,
                   extra=dict(impl=" ".join(ri[0][1]), model=" ".join(rm[0][1])))
    if scope:
        rc = chk.get(cid)
        if not rc or rc[0][0] != "C":
            ctx.signal("K", "seq:checker", "checker produced no result: %s" % (rc,), case=line); return pi
        f = dict(zip(rc[0][1][0::2], rc[0][1][1::2]))
        if f["WF"] != "1" or f["SYM"] != "1" or f["REFL"] != "1":
            ctx.signal("K", "seq:scope", "generator and verified predicates disagree on the hypotheses: %s" % f, case=line); return pi
        for key, sig, what in (("DEC", "mis2:decided", "a vertex is left undecided (state not 0/1)"),
                               ("IND", "mis2:independence", "two roots are adjacent or share a neighbour"),
                               ("MAX", "mis2:maximality", "a vertex is farther than two edges from every root"),
                               ("AGG", "aggregate:agg_ok", "aggregation is not a valid partition around the roots / wrong count")):
            if f[key] != "1":
                ctx.signal("O", sig, what + " (verified checker on the implementation's output)", case=line,
                           extra=dict(impl=" ".join(ri[0][1])))
    return pi


def expected_glob(b, mstates, maggs):
    """sequential labelling of the model -> distributed labelling (root's global index, isolated -> -1)"""
    roots = [v for v in range(b.n) if mstates[v] > 0]
    exp = []
    for v in range(b.n):
        if b.isolated(v): exp.append(-1)
        else:
            a = maggs[v]; exp.append(roots[a] if 0 <= a < len(roots) else None)
    return exp, len([s for s in roots if not b.isolated(s)])


def d15a_vertices(b, states, exp):
    """vertices aggregated in pass 2 (no root neighbour) whose aggregate is rooted at the last global vertex"""
    out = set()
    for v in range(b.n):
        if exp[v] == b.n - 1 and states[v] <= 0 and not any(states[c] > 0 for c in b.S[v]): out.add(v)
    return out


def judge_par(ctx, b, pc, impl, model, chk, seqres):
    cid = pc["cid"]; line = pc["line"]
    ctx.evaluations += 1
    ctx.count("par_P%d" % pc["P"]); ctx.count("par_tap%d" % pc["tap"])
    ctx.count("par_partition_" + pc["pkind"])
    ri = impl.get(cid)
    if not ri:
        ctx.count("par_not_run_after_crash"); return
    if ri[0][0] != "R":
        ctx.signal("O", "par:crash_or_hang", "distributed mis2/aggregate crashed or did not terminate: %s" % (ri,), case=line)
        return
    ranks = parse_par(ri[0][1])
    first = [rk["FR"][0] for rk in ranks] + [b.n]
    gst, gag = [], []
    ok_shape = len(ranks) == pc["P"]
    for p, rk in enumerate(ranks):
        nl = rk["NL"][0]
        if len(rk["ST"]) != nl or len(rk["AG"]) != nl or first[p] + nl != first[p + 1]: ok_shape = False
        gst += rk["ST"]; gag += rk["AG"]
    if not ok_shape or len(gst) != b.n or len(gag) != b.n:
        ctx.signal("O", "par:shape", "per-rank outputs do not cover the rows: %s" % " ".join(ri[0][1][:80]), case=line); return
    na = sum(rk["NA"][0] for rk in ranks)
    if any(rk["NL"][0] == 0 for rk in ranks): ctx.count("par_empty_rank")
    if len([1 for rk in ranks if rk["NL"][0] > 0]) >= 2 and any(rk["OC"] for rk in ranks):
        ctx.nontrivial.add(nt_key(line))
    # O: every process agrees with the owner on the labels of its off-process columns
    for p, rk in enumerate(ranks):
        for c, s in zip(rk["OC"], rk["OS"]):
            if gst[c] != s:
                ctx.signal("O", "par_mis2:shared_labels", "rank %d holds state %d for column %d, its owner has %d" % (p, s, c, gst[c]), case=line)
                break
    # O: the verified checkers on the gathered output
    rc = chk.get(cid)
    exp_seq = None
    if seqres is not None:
        exp_seq, exp_na_seq = expected_glob(b, seqres[0], seqres[2])
    if rc and rc[0][0] == "C":
        f = dict(zip(rc[0][1][0::2], rc[0][1][1::2]))
        for key, sig, what in (("DEC", "par_mis2:decided", "a vertex is left undecided"),
                               ("IND", "par_mis2:independence", "two roots are adjacent or share a neighbour"),
                               ("MAX", "par_mis2:maximality", "a vertex is farther than two edges from every root")):
            if f[key] != "1":
                ctx.signal("O", sig, what + " (verified checker on the gathered output)", case=line, extra=dict(states=gst))
        if f["AGG"] != "1":
            sig = "par_aggregate:agg_ok"
            if b.n == 1 and gag == [0] and na == 0: sig = SIG_D15A_N1
            elif exp_seq is not None:
                bad = [v for v in range(b.n) if gag[v] != exp_seq[v]]
                if bad and set(bad) <= d15a_vertices(b, gst, exp_seq) and all(gag[v] == -1 for v in bad): sig = SIG_D15A
            ctx.signal("O", sig, "gathered aggregates are not a valid partition around the roots: states %s aggregates %s n_aggs %d"
                       % (gst, gag, na), case=line)
    else:
        ctx.signal("K", "par:checker", "checker produced no result: %s" % (rc,), case=line)
    # O: same keys => the distributed result equals the sequential one (implementation against implementation)
    if seqres is not None and b.tie_free():
        if gst != seqres[0]:
            ctx.signal("O", "par_mis2:neq_sequential", "distributed states %s, sequential %s" % (gst, seqres[0]), case=line)
        else:
            bad = [v for v in range(b.n) if gag[v] != exp_seq[v]]
            if bad:
                d15 = set(bad) <= d15a_vertices(b, gst, exp_seq) and all(gag[v] == -1 for v in bad)
                ctx.signal("O", SIG_D15A if d15 else SIG_D15A_N1 if (b.n == 1 and gag == [0]) else "par_aggregate:neq_sequential",
                           "distributed aggregates %s, sequential (as global root ids) %s" % (gag, exp_seq), case=line)
            elif na != exp_na_seq:
                ctx.signal("O", "par_aggregate:count", "sum of local aggregate counts %d, sequential %d" % (na, exp_na_seq), case=line)
    elif seqres is not None: ctx.count("par_val_ties")
    # K: model (run on the rows in the scan order of the owning rank) against the implementation
    rm = model.get(pc["mid"])
    pm = parse_seq(rm[0][1]) if rm and rm[0][0] == "R" else None
    if pm is None:
        ctx.signal("K", "par:model", "model produced no result: %s" % (rm,), case=line); return
    ctx.compared += 1
    exp, exp_na = expected_glob(b, pm[0], pm[2])
    if gst != pm[0]:
        ctx.signal("K", "par:mis2", "states: model %s implementation %s" % (pm[0], gst), case=line); return
    bad = [v for v in range(b.n) if gag[v] != exp[v]]
    if bad:
        ctx.signal("K", "par:aggregate", "aggregates: model (global root ids) %s implementation %s" % (exp, gag), case=line)
    elif na != exp_na:
        ctx.signal("K", "par:count", "n_aggs: model %d implementation %d" % (exp_na, na), case=line)


# ---------------------------------------------------------------- run
def nt_key(line):
    """compact identity of a non-trivial case (the case text without its id)"""
    return hashlib.blake2b(line.split(" ", 1)[1].encode(), digest_size=8).digest()


def process_seq(ctx, bases, konly=(), tag="seq"):
    """sequential side of a batch: K (model = implementation) and O (verified checkers) -> {base name: result}"""
    seq_lines = []
    for b in bases:
        b.line = b.seq_line("s_" + b.name); seq_lines.append(b.line)
    for b in konly:
        b.line = b.seq_line("s_" + b.name, "given", b.states) if b.kind == "given" else b.seq_line("s_" + b.name)
        seq_lines.append(b.line)
    if not seq_lines: return {}
    ctx.sample(seq_lines[min(3, len(seq_lines) - 1)])
    if getattr(ctx, "c15_abort", False): return {}
    impl, crashed = fw.run_impl_lines(ctx, DRIVER, seq_lines, nprocs=0, name="c15" + tag,
                                      timeout=ctx.scale(40, 120) + 0.004 * len(seq_lines), max_restarts=1)
    note_crashes(ctx, crashed, "sequential")
    rcm, model, _, errm = fw.run_model(ctx, fw.write_cases(ctx, "c15%s.model" % tag, seq_lines))
    if rcm != 0: ctx.signal("K", "modeldriver", "model driver exited with %s: %s" % (rcm, errm[-400:]))
    chk_lines = []
    for b in bases:
        ri = impl.get("s_" + b.name)
        p = parse_seq(ri[0][1]) if ri and ri[0][0] == "R" else None
        if p: chk_lines.append(b.chk_line("s_" + b.name, "seq", p[0], p[2], p[1]))
    chk = fw.run_model(ctx, fw.write_cases(ctx, "c15%s.chk" % tag, chk_lines))[1] if chk_lines else {}
    seqres = {}
    for b in bases:
        if not b.in_scope():
            ctx.signal("K", "gen:scope", "generated base outside the property's hypotheses", case=b.line); continue
        seqres[b.name] = judge_seq(ctx, b, "s_" + b.name, impl, model, chk, True)
        if b.n > 1 and any(len(r) > 1 for r in b.S): ctx.nontrivial.add(nt_key(b.line))
        ctx.count("n_%s" % ("0-3" if b.n <= 3 else "4-6" if b.n <= 6 else "7-12" if b.n <= 12 else "13+"))
    for b in konly:
        judge_seq(ctx, b, "s_" + b.name, impl, model, {}, False)
    return seqres


def note_crashes(ctx, crashed, where):
    """a crash or hang is itself a violation (reported by the judges); after two of them the remaining batches
       are skipped so that the verdict comes quickly"""
    if not crashed: return
    ctx.c15_crashes = getattr(ctx, "c15_crashes", 0) + len(crashed)
    if ctx.c15_crashes >= 2 and not getattr(ctx, "c15_abort", False):
        ctx.c15_abort = True
        ctx.notes.append("implementation crashed or hung %d times (last: %s); remaining batches skipped" % (ctx.c15_crashes, where))


def par_case(b, P, tap, pkind, Pl, first, k):
    cid = "p%d_%s_%s%d_%d" % (P, b.name, pkind[0], k, tap)
    return dict(cid=cid, b=b, P=P, tap=tap, pkind=pkind, first=first, line=b.par_line(cid, tap, Pl, first))


def run(ctx):
    ctx.rule = ("undirected graphs with all self loops (random G(n,p), paths, rings, 5/9-point grids, stars, complete, "
                "edgeless, two components, ladders, path ending in the last vertex; exhaustive: all graphs on <= 3 (quick) / "
                "<= 5 (thorough) vertices x all key orders x all contiguous partitions over <= 3 ranks, 6 vertices sampled) "
                "with distinct dyadic keys and A-values on a superset pattern; sequential: model = implementation and "
                "mis_ok/agg_ok on the output; distributed P=1..3 (thorough ..5, also PPN=2 and PPN=1 with tap), default and explicit "
                "partitions incl. empty ranks, tap off/on (PPN=4): gathered output = model, = sequential implementation, "
                "mis_ok/agg_ok_glob, shared labels agree; non-trivial = sequential: some edge; distributed: at least "
                "two ranks own rows and some rank has off-process columns; distinct = distinct case text")
    rng = ctx.rng
    ctx.extra_cov = dict(
        proved_for_all_inputs=["mis_ok / agg_ok / agg_ok_glob decide (resp. are sound for) the property's clauses",
                               "sequential mis2: terminates within n rounds, every vertex decided, roots maximal (any keys, any pattern)",
                               "sequential mis2 on a symmetric pattern with self loops and distinct keys: accepted by mis_ok",
                               "sequential aggregate on decided maximal roots: returns, accepted by agg_ok; pipeline mis2;aggregate (abstract order and Qc instance)"],
        validated_by_verified_checker_not_proved=["distributed mis2/aggregate (par_mis.cpp, par_aggregate.cpp): gathered output equals the sequential model "
                                                  "and the sequential implementation for the same keys, accepted by mis_ok/agg_ok_glob, shared labels agree, "
                                                  "on the explored graphs/partitions (exhaustive <= 3 / <= 5 vertices, sampled beyond)"],
        tap_configurations="tap on only with one node or only full nodes (TAPComm construction hangs when num_procs % PPN != 0 on several nodes)")
    if ctx.replay:
        return replay(ctx)
    # ---- random and named graphs
    bases = gen_bases(ctx, ctx.scale(260, 2600))
    konly = gen_konly(ctx, ctx.scale(150, 1500))
    seqres = process_seq(ctx, bases, konly)
    # tap on only where the node-aware communicator can be built: one node, or full nodes only (the TAPComm
    # constructor hangs when num_procs is not a multiple of PPN on more than one node; reported, outside C15)
    for P in range(1, ctx.scale(3, 5) + 1):
        pcs = []
        for b in bases:
            if P > 3 and rng.random() < 0.5: continue
            variants = [("default", 0, None), ("explicit", P, rand_partition(rng, b.n, P))]
            if ctx.tier != "quick": variants.append(("explicit", P, rand_partition(rng, b.n, P)))
            for (pk, Pl, first) in variants:
                for tap in ((0, 1) if P <= 4 else (0,)): pcs.append(par_case(b, P, tap, pk, Pl, first, len(pcs)))
        run_par_batch(ctx, P, pcs, seqres)
    # several nodes: two full nodes of two ranks (quick: a sixth of the inputs); every rank its own node (thorough)
    for P, ppn in ((4, 2),) + (((2, 1), (3, 1), (4, 1), (5, 1)) if ctx.tier != "quick" else ()):
        pcs = []
        stride = 3 if ctx.tier != "quick" else 6
        for b in bases[(P + ppn) % stride::stride]:
            pcs.append(par_case(b, P, 1, "default", 0, None, len(pcs)))
            pcs.append(par_case(b, P, 1, "explicit", P, rand_partition(rng, b.n, P), len(pcs)))
        run_par_batch(ctx, P, pcs, seqres, env={"PPN": str(ppn)}, tag="ppn%d" % ppn)
    # the two-step node-aware package (TAPComm with form_S = false) on three and four nodes of two ranks: grid-like inputs
    for P in (6, 8):
        pcs = []
        gb = [b for b in bases if b.kind in ("grid9", "grid5", "random_sparse", "ladder", "long_chain_monotone")]
        big = []
        for q in range(ctx.scale(10, 60)):
            a_, b_ = rng.randint(5, 9), rng.randint(4, 8); S = grid_graph(a_, b_, rng.random() < 0.7)
            keys = distinct_keys(rng, len(S))
            big.append(Base("g%d_%d" % (P, q), S, make_A(rng, S, keys, "ones"), keys, "grid_two_step"))
        sr2 = process_seq(ctx, big, [], tag="g%d" % P) if big else {}
        sr2.update(seqres)
        for b in big + gb[:ctx.scale(12, 80)]:
            if b.n < P: continue
            pcs.append(par_case(b, P, 2, "default", 0, None, len(pcs)))
            if rng.random() < 0.5: pcs.append(par_case(b, P, 1, "explicit", P, rand_partition(rng, b.n, P), len(pcs)))
        run_par_batch(ctx, P, pcs, sr2, env={"PPN": "2"}, tag="twostep")
    # ---- exhaustive small graphs
    for chunk in exhaustive_chunks(ctx):
        sr = process_seq(ctx, chunk, tag="xseq")
        for P in (1, 2, 3):
            pcs = []
            for bi, b in enumerate(chunk):
                if b.par_stride > 1 and P == 3 and (bi % b.par_stride) != (b.mask % b.par_stride): continue
                for first in compositions(b.n, P):
                    pcs.append(par_case(b, P, len(pcs) % 2 if P == 3 else 0, "xhaustive", P, first, len(pcs)))
            run_par_batch(ctx, P, pcs, sr, tag="x")


def run_par_batch(ctx, P, pcs, seqres, env=None, tag=""):
    if not pcs or getattr(ctx, "c15_abort", False): return
    ctx.sample(pcs[len(pcs) // 2]["line"])
    impl, crashed = fw.run_impl_lines(ctx, DRIVER, [pc["line"] for pc in pcs], nprocs=P, env=env or PPN_ENV,
                                      name="c15par%d%s" % (P, tag), timeout=ctx.scale(40, 120) + 0.004 * len(pcs),
                                      max_restarts=1)
    note_crashes(ctx, crashed, "P=%d" % P)
    if env: ctx.count("par_PPN" + env["PPN"], len(pcs))
    mlines, clines = [], []
    seen = {}
    for pc in pcs:
        b = pc["b"]; ri = impl.get(pc["cid"])
        if not ri or ri[0][0] != "R": pc["mid"] = None; continue
        ranks = parse_par(ri[0][1])
        first = [rk["FR"][0] for rk in ranks] + [b.n]
        if sorted(first) != first or len(first) != P + 1: pc["mid"] = None; continue
        k = (b.name, tuple(first)) if not b.tie_free() else (b.name, None)
        if k not in seen:
            mid = "m%d" % len(seen); seen[k] = mid
            A2, S2 = b.reordered(first) if k[1] is not None else (b.A, b.S_rows())
            mlines.append(b.seq_line(mid, A=A2, S=S2))
        pc["mid"] = seen[k]
        gst = [s for rk in ranks for s in rk["ST"]]; gag = [a for rk in ranks for a in rk["AG"]]
        clines.append(b.chk_line(pc["cid"], "glob", gst, gag, sum(rk["NA"][0] for rk in ranks)))
    model = fw.run_model(ctx, fw.write_cases(ctx, "c15par%d.model" % P, mlines))[1] if mlines else {}
    chk = fw.run_model(ctx, fw.write_cases(ctx, "c15par%d.chk" % P, clines))[1] if clines else {}
    for pc in pcs:
        judge_par(ctx, pc["b"], pc, impl, model, chk, seqres.get(pc["b"].name))


def exhaustive_chunks(ctx):
    """all undirected graphs with self loops on n vertices x all key orders (A = ones on S's pattern), in chunks;
       b.par_stride > 1: on 3 ranks only every stride-th key order of a graph is run over all partitions"""
    rng = ctx.rng
    def mk(n, mask, perm, kind, stride=1):
        prs = all_pairs(n)
        S = sym_graph(n, [e for k, e in enumerate(prs) if mask >> k & 1])
        keys = [Fraction(p + 1, 64) for p in perm]
        b = Base("x%d_%d_%s" % (n, mask, "".join(map(str, perm))), S, [[(c, Fraction(1)) for c in r] for r in S], keys, kind)
        b.mask, b.par_stride = mask, stride
        return b
    plan = ctx.scale([(1, 1), (2, 1), (3, 1)], [(1, 1), (2, 1), (3, 1), (4, 1), (5, 6)])
    chunk = []
    for n, stride in plan:
        perms = list(itertools.permutations(range(n)))
        for mask in range(1 << len(all_pairs(n))):
            chunk += [mk(n, mask, perm, "exhaustive%d" % n, stride) for perm in perms]
            if len(chunk) >= 7680: yield chunk; chunk = []
    # sampled larger ones (all partitions each)
    for n, cnt in ((4, ctx.scale(200, 0)), (5, ctx.scale(150, 0)), (6, ctx.scale(100, 1500))):
        npr = len(all_pairs(n))
        for k in range(cnt):
            perm = list(range(n)); rng.shuffle(perm)
            chunk.append(mk(n, rng.getrandbits(npr), perm, "sampled%d" % n))
            chunk[-1].name += "_%d" % k
            if len(chunk) >= 7680: yield chunk; chunk = []
    if chunk: yield chunk


def replay(ctx):
    """re-run exactly the recorded case line(s): sequential lines directly, distributed lines under their P"""
    for line in ctx.replay:
        t = line.split()
        if t[1] == "seq":
            impl, _ = fw.run_impl_lines(ctx, DRIVER, [line], nprocs=0, name="replay")
            model = fw.run_model(ctx, fw.write_cases(ctx, "replay.model", [line]))[1]
            ri = impl.get(t[0])
            p = parse_seq(ri[0][1]) if ri and ri[0][0] == "R" else None
            b = base_from_seq_line(t); b.line = line
            chk = fw.run_model(ctx, fw.write_cases(ctx, "replay.chk", [b.chk_line(t[0], "seq", p[0], p[2], p[1])]))[1] if p else {}
            judge_seq(ctx, b, t[0], impl, model, chk, t[2] == "mis" and b.in_scope())
        else:
            b, tap, P, first = base_from_par_line(t)
            for Pn in ([P] if P else [1, 2, 3]):
                cid = t[0]
                pc = dict(cid=cid, b=b, P=Pn, tap=tap, pkind="replay", first=first, line=line)
                b.line = b.seq_line("s_" + cid)
                impl, _ = fw.run_impl_lines(ctx, DRIVER, [b.line], nprocs=0, name="replayseq")
                ri = impl.get("s_" + cid)
                sr = parse_seq(ri[0][1]) if ri and ri[0][0] == "R" else None
                run_par_batch(ctx, Pn, [pc], {b.name: sr})


def _read_csr(t, p):
    nr, nnz = int(t[p + 1]), int(t[p + 3]); q = p + 4
    ptr = [int(x) for x in t[q:q + nr + 1]]; q += nr + 1
    cols = [int(x) for x in t[q:q + nnz]]; q += nnz
    vals = [nums.parse_num(x) for x in t[q:q + nnz]]; q += nnz
    return [[(cols[k], vals[k]) for k in range(ptr[i], ptr[i + 1])] for i in range(nr)], q

def base_from_seq_line(t):
    A, p = _read_csr(t, 3); S, p = _read_csr(t, p)
    nk = int(t[p]); keys = [nums.parse_num(x) for x in t[p + 1:p + 1 + nk]]
    return Base("replay", [[c for (c, v) in r] for r in S], A, keys, "replay")

def _read_parlit(t, p):
    n, P = int(t[p]), int(t[p + 2]); q = p + 3; first = None
    if P: first = [int(x) for x in t[q:q + P + 1]]; q += 2 * (P + 1)
    nnz = int(t[q]); q += 1
    rows = [[] for _ in range(n)]
    for k in range(nnz):
        rows[int(t[q])].append((int(t[q + 1]), nums.parse_num(t[q + 2]))); q += 3
    return rows, P, first, q

def base_from_par_line(t):
    tap = int(t[2])
    A, P, first, p = _read_parlit(t, 3); S, _, _, p = _read_parlit(t, p)
    n = int(t[p]); keys = [nums.parse_num(x) for x in t[p + 1:p + 1 + n]]
    return Base("replay", [[c for (c, v) in r] for r in S], A, keys, "replay"), tap, P, first
