"""C12 — classical interpolation: injection at C-points, constants preserved, parallel = sequential."""
from fractions import Fraction
import math
import framework as fw, nums
import C14 as strength_mod

ID = "C12"
FAMILY = "interp"
OCAML_SRCS = ("conv.ml", "drv_interp.ml")
KINDS = ["direct", "modcls", "extended"]
DIST = {"direct": 1, "modcls": 1, "extended": 2}
ASSUMPTIONS = [
    "field abstract (division a Section variable with the field laws); floating point not modelled: model/implementation "
    "compared with tolerance 1e-9, the verified checker reads the implementation's doubles exactly and tests row sums with tolerance 1e-9",
    "S has A's values on a sub-pattern of A containing the diagonal (what ParCSRMatrix::strength returns, C14)",
    "distributed modified-classical and extended interpolation are not modelled as algorithms: verified checker on their gathered "
    "output + differential comparison with the sequential routines (filter_threshold = 0)",
    "with num_variables > 1 the row-sum clause is evaluated on the same-variable part of the row (cross-variable entries are ignored by the routines)",
]


# ---------------------------------------------------------------- generator
def rand_mmatrix(rng, nv):
    n = rng.choice([2, 3, 4, 5, 6, 7, 8, 9, 10, 12, 14])
    sym = rng.random() < 0.6
    dens = rng.choice([0.25, 0.4, 0.6])
    off = [dict() for _ in range(n)]
    sparse = rng.random() < 0.3
    if sparse:
        # long sparse chains with weak second neighbours and rare weak chords: a rank then does NOT know most columns, and rows
        # received from other ranks carry coarse columns that are new to it
        n = rng.choice([16, 20, 24, 28]); off = [dict() for _ in range(n)]
        for i in range(n):
            for dj, v, pr in ((1, -4, 1.0), (-1, -4, 1.0), (2, -1, 0.5), (-2, -1, 0.5), (rng.randint(4, n - 1), -1, 0.12)):
                j = (i + dj) % n if abs(dj) > 2 else i + dj
                if 0 <= j < n and j != i and rng.random() < pr: off[i][j] = v if rng.random() < 0.85 else -rng.choice([1, 2, 3])
    for i in range(n if not sparse else 0):
        for j in range(n):
            if i == j: continue
            if sym and j < i: continue
            if rng.random() < dens:
                v = -rng.choice([1, 1, 2, 2, 3, 4])
                off[i][j] = v
                if sym: off[j][i] = v if rng.random() < 0.8 else -rng.choice([1, 2, 3])
    if nv == 1: vars_ = [0] * n
    elif rng.random() < 0.7: vars_ = [i % nv for i in range(n)]
    else: vars_ = [rng.randrange(nv) for _ in range(n)]
    rows = []
    for i in range(n):
        if rng.random() < 0.08: off[i] = {}                                 # diagonal-only row
        same = sum(v for j, v in off[i].items() if vars_[j] == vars_[i])
        tot = sum(off[i].values())
        r = rng.random()
        if r < 0.55: d = -(same if nv > 1 else tot)                          # zero (same-variable) row sum
        elif r < 0.75: d = -tot                                             # zero full row sum
        else: d = -tot + rng.choice([1, 2, 3])                              # strictly dominant
        if d <= 0: d = rng.choice([1, 2, 4])
        ent = [(i, d)] + sorted(off[i].items())
        rng.shuffle(ent)
        rows.append(ent)
    return n, rows, vars_


def strength_mask(rng, n, rows, nv, vars_):
    """strong off-diagonal pairs: documented classical strength for a random theta, or a random sub-pattern; always within
       one variable (ParCSRMatrix::strength never connects different variables)"""
    if rng.random() < 0.7:
        theta = rng.choice(strength_mod.THETAS[:4])
        c = dict(n=n, rows=[[(j, Fraction(v)) for j, v in r] for r in rows], theta=theta, sym=0, nv=nv, vars=vars_)
        S = strength_mod.documented(c)
        return sorted((i, j) for i in range(n) for (j, v) in S[i] if j != i), "theta=%s" % theta
    p = rng.choice([0.3, 0.6, 0.9])
    return sorted((i, j) for i, r in enumerate(rows) for (j, v) in r
                  if j != i and vars_[i] == vars_[j] and rng.random() < p), "random"


def random_states(rng, n, mask):
    nb = [[] for _ in range(n)]
    for (i, j) in mask: nb[i].append(j)
    st = [1 if rng.random() < rng.choice([0.3, 0.5]) else 0 for _ in range(n)]
    for i in range(n):                   # neighbour precondition: an F point with strong neighbours has a strong C neighbour
        if st[i] == 0 and nb[i] and not any(st[j] == 1 for j in nb[i]):
            st[rng.choice(nb[i])] = 1
    return st


def vtok(v):
    """exact token for a value: small rationals as p/q, doubles as C99 hex floats"""
    v = Fraction(v)
    if v.denominator < 2**20 and abs(v.numerator) < 2**40: return nums.tok_num(v)
    f = float(v)
    assert Fraction(f) == v
    return f.hex()


def parlit(n, rows, cuts):
    P = len(cuts) - 1
    trip = [(i, j, v) for i, r in enumerate(rows) for (j, v) in r]
    t = [str(n), str(n), str(P)] + [str(c) for c in cuts] * 2 + [str(len(trip))]
    for (i, j, v) in trip: t += [str(i), str(j), nums.tok_num(v)]
    return t


def mask_toks(mask):
    t = [str(len(mask))]
    for (i, j) in mask: t += [str(i), str(j)]
    return t


def gen_inputs(ctx, count):
    rng = ctx.rng; out = []
    for k in range(count):
        nv = rng.choice([1, 1, 1, 2, 3])
        n, rows, vars_ = rand_mmatrix(rng, nv)
        mask, how = strength_mask(rng, n, rows, nv, vars_)
        split = rng.choice(["rs", "rs", "cljp", "pmis", "random", "random"])
        out.append(dict(k=k, n=n, rows=rows, nv=nv, vars=vars_, mask=mask, how=how, split=split,
                        states=random_states(rng, n, mask) if split == "random" else None))
    return out


def enc_state(s): return s if s in (0, 1) else 2


def impl_line(c):
    t = [c["cid"], "interp", c["kind"], str(c["tap"]), str(c["ppn"]), str(c["nv"]), str(c["n"])]
    t += [str(v) for v in c["vars"]] + [str(s) for s in c["states"]] + parlit(c["n"], c["rows"], c["cuts"]) + mask_toks(c["mask"])
    return " ".join(t)


def model_line(c, checks):
    """checks: list of (dist, rows) of implementation outputs (coarse column numbering) for the verified checker"""
    n = c["n"]
    atr = [(i, j, v) for i, r in enumerate(c["rows"]) for (j, v) in r]
    ms = set(c["mask"])
    strp = [(i, j, v) for (i, j, v) in atr if i == j or (i, j) in ms]
    t = [c["cid"], "interp", c["kind"], str(c["nv"]), str(n)] + [str(v) for v in c["vars"]] + [str(enc_state(s)) for s in c["states"]]
    for tr in (atr, strp):
        t.append(str(len(tr)))
        for (i, j, v) in tr: t += [str(i), str(j), vtok(v)]
    cuts = c["cuts"]; t += [str(len(cuts) - 1)] + [str(cuts[k + 1] - cuts[k]) for k in range(len(cuts) - 1)]
    if checks:
        t += ["CHK", str(len(checks))]
        for dist, rows in checks:
            t += [str(dist), str(len(rows))]
            for r in rows:
                t.append(str(len(r)))
                for (cc, v) in r: t += [str(cc), v]
    return " ".join(t)


# ---------------------------------------------------------------- result parsing
def parse_rows_raw(toks):
    """-> rows of (col, value-token); values kept as tokens (may be nan/inf)"""
    rows = []; p = 0
    while p < len(toks):
        k = int(toks[p]); p += 1
        rows.append([(int(toks[p + 2 * q]), toks[p + 2 * q + 1]) for q in range(k)]); p += 2 * k
    return rows


def get(res, key):
    for (k, toks) in res or []:
        if k == key: return toks
    return None


def rank_of(states):
    rk = {}; c = 0
    for i, s in enumerate(states):
        if s == 1: rk[i] = c; c += 1
    return rk, c


# ---------------------------------------------------------------- the property's own oracle
def weak_in_pattern_rows(c):
    """F rows with a WEAK connection to a C point that enters the extended pattern through a strong F neighbour
       (sequential extended_interpolation neither interpolates from nor lumps that entry)"""
    n, states = c["n"], c["states"]
    nb = [set() for _ in range(n)]
    for (i, j) in c["mask"]: nb[i].add(j)
    out = set()
    for i in range(n):
        if states[i] == 1: continue
        direct = set(j for j in nb[i] if states[j] == 1)
        hat = set(direct)
        for k in nb[i]:
            if states[k] == 0: hat |= set(j for j in nb[k] if states[j] == 1)
        if any(j in hat and j not in nb[i] and j != i for j, _ in c["rows"][i]): out.add(i)
    return out


def cancelled_rows(c):
    """F rows whose diagonal equals minus the sum of their weak (non-strong) off-diagonal entries: the modified diagonal of the
       extended (+i) formula is exactly zero there when no strong F neighbour contributes (KF-C12-seq-extended-zero-diagonal)"""
    ms_ = set(c["mask"]); out = set()
    for i, r in enumerate(c["rows"]):
        if c["states"][i] != 0: continue
        weak = -sum(v for (j, v) in r if j != i and (i, j) not in ms_)
        if weak > 0 and dict(r).get(i) == weak: out.add(i)
    return out


def oracle(ctx, c, P, which):
    """P: rows of (coarse col, value token). Clauses of C12 on one implementation output."""
    sig = "interp:%s:%s" % (c["kind"], which)
    n, states, rows = c["n"], c["states"], c["rows"]
    rk, nc = rank_of(states); inv = {v: k for k, v in rk.items()}
    if len(P) != n:
        ctx.signal("O", sig + ":rows", "%d rows for %d points" % (len(P), n), case=c["line"]); return False
    nb = [set() for _ in range(n)]
    for (i, j) in c["mask"]: nb[i].add(j)
    dist = DIST[c["kind"]]
    for i in range(n):
        vals = []
        for (cc, tok) in P[i]:
            v = nums.parse_num(tok)
            if isinstance(v, str):
                kf = ":cancelled_diagonal" if (((which == "seq" and c["kind"] == "extended") or c["kind"] == "modcls") and i in cancelled_rows(c)) else ""
                ctx.signal("O", sig + ":finite" + kf, "row %d has a non-finite weight %s" % (i, tok), case=c["line"]); return False
            vals.append((cc, v))
        if states[i] == 1:
            if len(vals) != 1 or vals[0][0] != rk[i] or vals[0][1] != 1:
                ctx.signal("O", sig + ":injection", "C point %d (coarse %d) has row %s" % (i, rk[i], vals), case=c["line"]); return False
            continue
        reach = set(nb[i])
        if dist == 2:
            for k in nb[i]: reach |= nb[k]
        reach.discard(i)
        for (cc, v) in vals:
            j = inv.get(cc)
            if j is None or j not in reach:
                ctx.signal("O", sig + ":support", "F row %d interpolates from coarse column %s (fine %s), not a C point within %d strong "
                           "connection(s): %s" % (i, cc, j, dist, sorted(reach)), case=c["line"]); return False
        if len(set(cc for cc, _ in vals)) != len(vals):
            ctx.signal("O", sig + ":dup", "F row %d repeats a column: %s" % (i, vals), case=c["line"]); return False
        A = dict(rows[i])
        usevar = c["nv"] > 1 and c["kind"] != "direct"
        rs = sum(v for j, v in A.items() if not usevar or c["vars"][j] == c["vars"][i])
        negC = any(states[j] == 1 and A[j] < 0 for j in nb[i])
        if abs(rs) <= Fraction(1, 10**12) * max(1, abs(A.get(i, 1))) and negC:
            ctx.count("rowsum_clause_rows")
            s = sum(v for _, v in vals)
            if abs(s - 1) > Fraction(1, 10**9):
                cause = ":weak_in_pattern" if c["kind"] == "extended" and i in weak_in_pattern_rows(c) else ""
                ctx.signal("O", sig + ":rowsum" + cause, "F row %d has zero row sum and a strong negative C neighbour but P row sums to %s: %s"
                           % (i, float(s), [(cc, float(v)) for cc, v in vals]), case=c["line"]); return False
    return True


def truncation_violation(P0, Pf, thr):
    """Pf must be trunc(P0): keep |w| >= thr*max|w|, scale kept weights by rowsum/keptsum (when both are non-zero and differ)"""
    if len(P0) != len(Pf): return "row count %d vs %d" % (len(Pf), len(P0))
    for i, (r0, rf) in enumerate(zip(P0, Pf)):
        try:
            w0 = [(j, float(nums.parse_num(v))) for j, v in r0]; wf = dict((j, float(nums.parse_num(v))) for j, v in rf)
        except (TypeError, ValueError): continue       # non-finite weights: reported by the other oracles
        if not w0:
            if wf: return "row %d: entries %s appear in an empty row" % (i, sorted(wf.items()))
            continue
        m = max(abs(v) for _, v in w0) * thr
        if any(abs(abs(v) - m) <= 1e-9 * max(m, 1e-300) for _, v in w0): continue      # a weight sits on the threshold: rounding decides
        kept = [(j, v) for j, v in w0 if abs(v) >= m]
        rs, ks = math.fsum(v for _, v in w0), math.fsum(v for _, v in kept)
        scale = rs / ks if abs(ks) > 1e-16 and abs(rs - ks) > 1e-16 else 1.0
        exp = dict((j, v * scale) for j, v in kept)
        if set(exp) != set(wf): return "row %d keeps columns %s, required %s (untruncated row %s)" % (i, sorted(wf), sorted(exp), w0)
        for j in exp:
            if abs(exp[j] - wf[j]) > 1e-9 * max(1.0, abs(exp[j])):
                return "row %d: weight of column %d is %.12g, required %.12g (row sum %.12g, kept sum %.12g)" % (i, j, wf[j], exp[j], rs, ks)
    return None

def rows_close(a, b, ordered=True):
    if len(a) != len(b): return False, "row counts %d vs %d" % (len(a), len(b))
    for i, (x, y) in enumerate(zip(a, b)):
        x = [(cc, nums.parse_num(v)) for cc, v in x]; y = [(cc, nums.parse_num(v)) for cc, v in y]
        if not ordered:
            x = sorted(x, key=lambda e: e[0]); y = sorted(y, key=lambda e: e[0])
        if len(x) != len(y) or any(e[0] != f[0] or not nums.close(e[1], f[1]) for e, f in zip(x, y)):
            return False, "row %d: %s vs %s" % (i, [(cc, float(v) if not isinstance(v, str) else v) for cc, v in x],
                                                [(cc, float(v) if not isinstance(v, str) else v) for cc, v in y])
    return True, ""


def run(ctx):
    rng = ctx.rng
    ctx.rule = ("random M-matrix-like matrices (positive diagonal, non-positive integer off-diagonals, zero row sums on most rows, "
                "diagonal-only rows, 1..3 variables) x strength pattern (documented classical strength for theta in {0,1/4,1/2,3/4} or a "
                "random sub-pattern) x splitting (library split_rs / split_cljp / split_pmis, or random with the neighbour precondition) "
                "x {direct, modified classical, extended} x P in 1..4 with random contiguous partitions (empty ranks included) x tap off/on; "
                "non-trivial = some F point has a strong C neighbour; distinct = distinct case text")
    if ctx.replay:
        cases = [case_from_line(l) for l in ctx.replay]
    else:
        inputs = gen_inputs(ctx, ctx.scale(260, 3000))
        # phase 1: splittings from the library's own coarsenings
        need = [x for x in inputs if x["states"] is None]
        lines = []
        for x in need:
            lines.append(" ".join(["p%d" % x["k"], "split", x["split"]] + parlit(x["n"], x["rows"], [0, x["n"]]) + mask_toks(x["mask"])))
        res, crashed = fw.run_impl_lines(ctx, "drv_interp", lines, nprocs=1, name="c12split", timeout=ctx.scale(120, 600))
        for x in need:
            toks = get(res.get("p%d" % x["k"]), "STATES")
            if toks is None or len(toks) != x["n"]:
                ctx.signal("O", "split:crash", "library coarsening %s failed: %s" % (x["split"], res.get("p%d" % x["k"])),
                           case=lines[need.index(x)]); x["states"] = None
            else: x["states"] = [int(s) for s in toks]
        cases = []
        for x in inputs:
            if x["states"] is None: continue
            for kind in KINDS:
                P = rng.choice([1, 2, 2, 3, 3, 4, 4])
                cuts = strength_mod.rand_partition(rng, x["n"], P)
                tap = 1 if rng.random() < 0.4 else 0
                ppn = rng.choice([q for q in (4, 2, 2, 1) if P % q == 0 or q == 4]) if tap else 4
                c = dict(x); c.update(cid="i%d%s" % (x["k"], kind[0]), kind=kind, P=P, cuts=cuts, tap=tap, ppn=ppn)
                if kind == "direct" and rng.random() < 0.5:
                    # the distributed coarsenings label F points without strong connections NoNeighbors (-2).  Direct
                    # interpolation treats the label like F; the other two routines deliberately ignore connections to such
                    # points (as hypre does), which is outside the 0/1 splittings the property quantifies over
                    has = set(i for (i, j) in x["mask"])
                    c["states"] = [(-2 if (s_ == 0 and i not in has and rng.random() < 0.7) else s_) for i, s_ in enumerate(x["states"])]
                if kind in ("extended", "modcls") and x["nv"] == 1 and rng.random() < (0.3 if kind == "extended" else 0.15):
                    # M-matrix-like but NOT diagonally dominant: on some F rows the diagonal equals minus the sum of the weak
                    # (non-strong) entries, so the modified diagonal of the +i formula cancels to exactly zero when no strong
                    # F neighbour contributes; the weights must stay finite (the routine leaves such a row unscaled)
                    ms_ = set(x["mask"]); rows2 = []; hit = 0
                    for i, r in enumerate(x["rows"]):
                        weak = -sum(v for (j, v) in r if j != i and (i, j) not in ms_)
                        if x["states"][i] == 0 and weak > 0 and any((i, j) in ms_ for (j, v) in r) and rng.random() < 0.5:
                            rows2.append([(j, (weak if j == i else v)) for (j, v) in r]); hit += 1
                        else: rows2.append(r)
                    if hit: c["rows"] = rows2; ctx.count("cancelled_diagonal_cases")
                c["line"] = impl_line(c); cases.append(c)
                if kind == "direct":
                    # directed: an F point without strong connections (NoNeighbors) that another F point strongly depends on,
                    # with a partition boundary between the two
                    has = set(i for (i, j) in x["mask"])
                    pairs = [(j, i) for (j, i) in x["mask"] if x["states"][i] == 0 and i not in has and x["states"][j] == 0 and abs(i - j) >= 1]
                    if pairs and x["n"] >= 2:
                        (j, i) = rng.choice(pairs); cut = rng.randint(min(i, j) + 1, max(i, j))
                        P2 = rng.choice([2, 3])
                        cuts2 = [0, cut, x["n"]] if P2 == 2 else sorted([0, cut, rng.randint(0, x["n"]), x["n"]])
                        c2 = dict(x); c2.update(cid="i%dn" % x["k"], kind="direct", P=P2, cuts=cuts2, tap=0, ppn=4)
                        c2["states"] = [(-2 if (s_ == 0 and q not in has) else s_) for q, s_ in enumerate(x["states"])]
                        c2["line"] = impl_line(c2); cases.append(c2)
    l1lines = []
    if ctx.replay:
        l1lines = [c["line"] for c in cases if c.get("level1")]; cases = [c for c in cases if not c.get("level1")]
    else:
        l1lines = gen_level1(ctx, ctx.scale(60, 700))
    impl = {}
    for P in sorted(set(c["P"] for c in cases)):
        lines = [c["line"] for c in cases if c["P"] == P]
        res, crashed = fw.run_impl_lines(ctx, "drv_interp", lines, nprocs=P, name="c12p%d" % P, timeout=ctx.scale(120, 600))
        impl.update(res)
    # implementation outputs -> coarse numbering; model cases carry them for the verified checker
    for c in cases:
        ri = impl.get(c["cid"]); c["Pseq"] = c["Ppar"] = None; c["bad"] = None
        if not ri or any(k.startswith("CRASH") or k.startswith("ERR") for k, _ in ri) or get(ri, "PSEQ") is None or get(ri, "PPAR") is None:
            c["bad"] = "implementation failed on the case: %s" % (ri,)
        else:
            try:
                ts = get(ri, "PSEQ"); c["Pseq"] = parse_rows_raw(ts[2:]); c["ncseq"] = int(ts[1])
                raw = parse_rows_raw([x for x in get(ri, "PPAR") if not x.startswith("@")])
                rk, nc = rank_of(c["states"])
                c["Ppar_fine"] = raw
                c["Ppar"] = [[(rk.get(j, -1 - j), v) for (j, v) in r] for r in raw]
                c["pdim"] = [[int(x) for x in r] for r in split_ranks(get(ri, "PDIM") or [])]
                c["Pfil_fine"] = parse_rows_raw([x for x in get(ri, "PFIL") if not x.startswith("@")]) if get(ri, "PFIL") is not None else None
            except Exception as e:
                c["bad"] = "unreadable implementation output: %s" % e
    if l1lines: cases += level1_cases(ctx, l1lines)
    mlines = []
    for c in cases:
        if c["bad"]: continue
        checks = []
        if c["Pseq"] is not None and all(cc >= 0 for r in c["Ppar"] for cc, _ in r) and \
           all(nums.is_num_tok(v) and not isinstance(nums.parse_num(v), str) for P_ in (c["Pseq"], c["Ppar"]) for r in P_ for _, v in r):
            checks = [(DIST[c["kind"]], c["Pseq"]), (DIST[c["kind"]], c["Ppar"])]
        c["checked"] = bool(checks)
        mlines.append(model_line(c, checks))
        if c.get("Pfil_fine") is not None and all(nums.is_num_tok(v) and not isinstance(nums.parse_num(v), str) for r in c["Ppar_fine"] for _, v in r):
            t = [c["cid"] + "t", "trunc", (0.3).hex(), str(len(c["Ppar_fine"]))]
            for r in c["Ppar_fine"]:
                t.append(str(len(r)))
                for (cc, v) in r: t += [str(cc), v]
            mlines.append(" ".join(t))
    cf = fw.write_cases(ctx, "c12.model", mlines)
    rcm, model, _, errm = fw.run_model(ctx, cf)
    if rcm != 0: ctx.signal("K", "modeldriver", "model driver exited with %s: %s" % (rcm, errm[-400:]))
    for c in cases: judge(ctx, c, model.get(c["cid"]))
    # K: the extracted truncation (filter_interp) applied to the implementation's untruncated rows
    for c in cases:
        if c.get("bad") or c.get("Pfil_fine") is None: continue
        rm = model.get(c["cid"] + "t")
        tm = get(rm, "TRUNC") if rm else None
        if tm is None:
            if rm is not None or not any(isinstance(nums.parse_num(v), str) for r in c["Ppar_fine"] for _, v in r):
                ctx.signal("K", "interp:extended:truncation:model", "model produced no result: %s" % (rm,), case=c["line"])
            continue
        mrows = parse_rows_raw(tm[1:]); ctx.compared += 1
        for i, (r0, rf, rmod) in enumerate(zip(c["Ppar_fine"], c["Pfil_fine"], mrows)):
            w0 = [abs(float(nums.parse_num(v))) for _, v in r0]
            m = max(w0 + [0.0]) * 0.3
            if any(abs(a - m) <= 1e-9 * max(m, 1e-300) for a in w0): continue        # a weight on the threshold: rounding decides
            eq, why = rows_close([rf], [rmod], ordered=False)
            if not eq:
                ctx.signal("K", "interp:extended:truncation", "row %d: model and implementation differ: %s" % (i, why), case=c["line"]); break



def judge(ctx, c, rm):
    ctx.evaluations += 1
    sig = "interp:%s" % c["kind"]
    ctx.count("kind_" + c["kind"]); ctx.count("P%d" % c["P"]); ctx.count("split_" + c.get("split", "replay")); ctx.count("nv%d" % c["nv"])
    ctx.count("tap_ppn%d" % c["ppn"] if c["tap"] else "tap_off"); ctx.count("S_" + c.get("how", "replay").split("=")[0])
    cuts = c["cuts"]
    if any(cuts[k] == cuts[k + 1] for k in range(c["P"])): ctx.count("empty_rank")
    nbC = any(c["states"][i] != 1 and c["states"][j] == 1 for (i, j) in c["mask"])
    if nbC: ctx.nontrivial.add(c["line"].split(" ", 1)[1])
    ctx.sample(c["line"])
    if c["bad"]:
        ctx.signal("O", sig + ":crash", c["bad"], case=c["line"]); return
    if c["kind"] == "extended":
        k = len(weak_in_pattern_rows(c))
        if k: ctx.count("extended_cases_with_weak_connection_into_pattern"); ctx.count("extended_rows_with_weak_connection_into_pattern", k)
    # the property quantifies over M-matrix-like operators; a level-1 Galerkin operator with a positive off-diagonal is
    # outside it (there the sequential extended routine adds coef*a_ki to the diagonal without the sign test the
    # parallel one applies): only the model/implementation comparison is kept for such inputs
    mm = all(dict(r).get(i, 0) > 0 and all(v <= 0 for j, v in r if j != i) for i, r in enumerate(c["rows"]))
    if not mm: ctx.count("not_mmatrix_O_skipped")
    # O: the property on both implementation outputs, and their agreement
    if mm:
        oracle(ctx, c, c["Pseq"], "seq")
        oracle(ctx, c, c["Ppar"], "par")
    # dimensions of the distributed operator: one row per point, one column per coarse point, on every rank; local
    # column counts add up to the global one
    if c.get("pdim"):
        ncoarse = sum(1 for s_ in c["states"] if s_ == 1)
        if any(r[0] != c["n"] or r[1] != ncoarse for r in c["pdim"]) or sum(r[2] for r in c["pdim"]) != ncoarse:
            ctx.signal("O", sig + ":dims", "distributed operator reports (global rows, global cols, local cols) %s for %d points, %d coarse points"
                       % (c["pdim"], c["n"], ncoarse), case=c["line"])
        if any(s_ == -2 for s_ in c["states"]): ctx.count("states_with_NoNeighbors")
    # truncation (filter_interp, threshold 0.3 = the solver default) of the distributed extended operator: every row is the
    # row of the untruncated operator restricted to |w| >= 0.3 max|w| and rescaled to the same row sum
    if c.get("Pfil_fine") is not None:
        ctx.count("truncated_operators_checked")
        bad = truncation_violation(c["Ppar_fine"], c["Pfil_fine"], 0.3)
        if bad: ctx.signal("O", sig + ":truncation", "truncated distributed operator (threshold 0.3): " + bad, case=c["line"])
    eq, why = rows_close(c["Pseq"], c["Ppar"], ordered=False) if mm else (True, "")
    if not eq:
        cause = ""
        if c["kind"] == "extended":
            try: r = int(why.split(":")[0].split()[1])
            except Exception: r = -1
            if r in weak_in_pattern_rows(c): cause = ":weak_in_pattern"
            if 0 <= r < len(c["Pseq"]) and r in cancelled_rows(c) and any(isinstance(nums.parse_num(t_), str) for _, t_ in c["Pseq"][r]) \
               and all(not isinstance(nums.parse_num(t_), str) for _, t_ in c["Ppar"][r]):
                cause = ":cancelled_diagonal"      # sequential routine divides by the zero modified diagonal, the distributed one does not
        ctx.signal("O", sig + ":partition" + cause, "sequential and distributed operators differ (partition %s): %s" % (cuts, why), case=c["line"])
    # K: model vs implementation
    if not rm:
        ctx.signal("K", sig + ":model", "model produced no result", case=c["line"]); return
    tm = get(rm, "PSEQ")
    if tm is None:
        ctx.signal("K", sig + ":model", "model produced no result: %s" % (rm,), case=c["line"]); return
    finite = all(not isinstance(nums.parse_num(v), str) for r in c["Pseq"] for _, v in r)
    if finite:      # a division by zero has no counterpart in the exact model (already reported by the oracle)
        eq, why = rows_close(c["Pseq"], parse_rows_raw(tm[1:])); ctx.compared += 1
        if not eq: ctx.signal("K", sig + ":seq", "model and implementation differ: " + why, case=c["line"])
    else: ctx.count("nonfinite_not_compared")
    if c["kind"] == "direct" and not c.get("level1"):
        tp = get(rm, "PPAR"); ctx.compared += 1
        eq, why = rows_close(c["Ppar_fine"], parse_rows_raw(tp[1:])) if tp else (False, "no model output")
        if not eq: ctx.signal("K", sig + ":par", "model and implementation differ (distributed, fine columns): " + why, case=c["line"])
    # verified checker interp_ok on the implementation's outputs
    if c["checked"] and mm:
        ck = get(rm, "CHK"); ctx.count("verified_checker_runs", 2)
        if ck is None or len(ck) != 2:
            ctx.signal("K", sig + ":checker", "verified checker did not run: %s" % (rm,), case=c["line"])
        else:
            for w, b in zip(("seq", "par"), ck):
                if b != "1":
                    cause = ":weak_in_pattern" if c["kind"] == "extended" and weak_in_pattern_rows(c) else ""
                    ctx.signal("O", sig + ":" + w + ":checker" + cause, "verified checker interp_ok rejects the %s operator" % w, case=c["line"])


def split_ranks(toks):
    """tokens of an emit_all line -> list of per-rank token lists"""
    out = []
    for x in toks:
        if x.startswith("@"): out.append([])
        else: out[-1].append(x)
    return out


def gen_level1(ctx, count):
    rng = ctx.rng; lines = []
    for k in range(count):
        r = rng.random()
        if r < 0.5:                                   # grid Laplacians (5 or 9 point), Dirichlet boundary
            nx, ny = rng.randint(3, 6), rng.randint(3, 6); n = nx * ny; nine = rng.random() < 0.4
            rows = []
            for i in range(n):
                x, y = i % nx, i // nx; ent = []
                for dx in (-1, 0, 1):
                    for dy in (-1, 0, 1):
                        if (dx or dy) and (nine or not (dx and dy)) and 0 <= x + dx < nx and 0 <= y + dy < ny:
                            ent.append((i + dx + dy * nx, -1))
                rows.append([(i, 8 if nine else 4)] + ent)
        else:                                         # random symmetric-pattern M-matrix, weakly diagonally dominant
            n = rng.randint(8, 26); off = [dict() for _ in range(n)]
            for i in range(n):
                for j in range(i + 1, n):
                    if rng.random() < min(0.5, 4.0 / n):
                        off[i][j] = -rng.choice([1, 2, 4]); off[j][i] = off[i][j] if rng.random() < 0.7 else -rng.choice([1, 2])
            rows = [[(i, -sum(off[i].values()) + rng.choice([0, 0, 1])  or 1)] + sorted(off[i].items()) for i in range(n)]
        P = rng.choice([2, 2, 3, 3, 4])
        cuts = strength_mod.rand_partition(rng, n, P)
        if min(cuts[q + 1] - cuts[q] for q in range(P)) == 0:      # the library's setup is run with every rank owning rows
            base, extra = divmod(n, P); cuts = [0]
            for q in range(P): cuts.append(cuts[-1] + base + (1 if q < extra else 0))
        tap = 1 if rng.random() < 0.3 else 0
        ppn = rng.choice([q for q in (4, 2) if P % q == 0 or q == 4]) if tap else 4
        kind = rng.choice(["modcls", "extended", "modcls", "extended", "direct"])
        th0, th1 = rng.choice(["1/4", "1/2", "0"]), rng.choice(["1/4", "1/2", "0"])
        co0, co1 = rng.choice(["rs", "pmis"]), rng.choice(["rs", "pmis"])
        lines.append(" ".join(["L%d" % k, "level1", kind, str(tap), str(ppn), th0, co0, th1, co1] + parlit(n, rows, cuts)))
    return lines


def level1_cases(ctx, lines):
    """run the library's level-1 setup, then turn each result into an ordinary explicit case (compact numbering)"""
    res = {}
    for P in sorted(set(int(l.split()[11]) for l in lines)):
        sub = [l for l in lines if int(l.split()[11]) == P]
        r, crashed = fw.run_impl_lines(ctx, "drv_interp", sub, nprocs=P, name="c12l1p%d" % P, timeout=ctx.scale(120, 600))
        res.update(r)
    cases = []; seq_lines = []
    for l in lines:
        t = l.split(); cid, kind = t[0], t[2]; ri = res.get(cid)
        base = dict(cid=cid, kind=kind, tap=int(t[3]), ppn=int(t[4]), nv=1, P=int(t[11]), line=l, split="level1:" + t[8], how="level1", level1=True)
        if not ri or get(ri, "PPAR") is None:
            base.update(bad="library level-1 setup failed: %s" % (ri,), n=0, rows=[], states=[], mask=[], cuts=[0] * (base["P"] + 1), vars=[])
            cases.append(base); continue
        idr = split_ranks(get(ri, "IDS")); ids = [int(x) for r in idr for x in r]
        idx = {g: k for k, g in enumerate(ids)}; n = len(ids)
        cuts = [0]
        for r in idr: cuts.append(cuts[-1] + len(r))
        states = [int(x) for r in split_ranks(get(ri, "ST1")) for x in r]
        def rows_of(key):
            raw = parse_rows_raw([x for x in get(ri, key) if not x.startswith("@")])
            return [[(idx[j], v) for (j, v) in r] for r in raw]
        try:
            A = [[(j, nums.parse_num(v)) for j, v in r] for r in rows_of("AC")]
            S = rows_of("S1"); Pp = rows_of("PPAR")
        except KeyError as e:
            base.update(bad="level-1 output refers to unknown global id %s" % e, n=n, rows=[], states=states, mask=[], cuts=cuts, vars=[0] * n)
            cases.append(base); continue
        if any(isinstance(v, str) for r in A for _, v in r):
            base.update(bad="the library's own level-1 operator (direct interpolation + Galerkin product on level 0) has a non-finite entry",
                        n=n, rows=[], states=states, mask=[], cuts=cuts, vars=[0] * n)
            cases.append(base); continue
        mask = sorted((i, j) for i, r in enumerate(S) for (j, _) in r if j != i)
        rk, nc = rank_of(states)
        base.update(n=n, rows=A, states=states, mask=mask, cuts=cuts, vars=[0] * n, bad=None,
                    Ppar_fine=Pp, Ppar=[[(rk.get(j, -1 - j), v) for (j, v) in r] for r in Pp])
        cases.append(base)
        atr = [(i, j, v) for i, r in enumerate(A) for (j, v) in r]
        ms = set(mask); strp = [(i, j, v) for (i, j, v) in atr if i == j or (i, j) in ms]
        tt = [cid, "seqinterp", kind, "1", str(n)] + ["0"] * n + [str(x) for x in states]
        for tr in (atr, strp):
            tt.append(str(len(tr)))
            for (i, j, v) in tr: tt += [str(i), str(j), vtok(v)]
        seq_lines.append(" ".join(tt))
    r, crashed = fw.run_impl_lines(ctx, "drv_interp", seq_lines, nprocs=1, name="c12l1seq", timeout=ctx.scale(120, 600))
    for c in cases:
        if c["bad"]: continue
        ts = get(r.get(c["cid"]), "PSEQ")
        if ts is None: c["bad"] = "sequential routine failed on the gathered level-1 operator: %s" % (r.get(c["cid"]),)
        else: c["Pseq"] = parse_rows_raw(ts[2:])
    return cases


def case_from_line(line):
    if line.split()[1] == "level1": return dict(level1=True, line=line, P=int(line.split()[11]))
    t = line.split(); cid, kind, tap, ppn, nv, n = t[0], t[2], int(t[3]), int(t[4]), int(t[5]), int(t[6])
    p = 7; vars_ = [int(x) for x in t[p:p + n]]; p += n
    states = [int(x) for x in t[p:p + n]]; p += n
    nr, nc, P = int(t[p]), int(t[p + 1]), int(t[p + 2]); p += 3
    cuts = [int(x) for x in t[p:p + P + 1]]; p += 2 * (P + 1)
    nnz = int(t[p]); p += 1
    rows = [[] for _ in range(n)]
    for k in range(nnz):
        rows[int(t[p])].append((int(t[p + 1]), int(nums.parse_num(t[p + 2])))); p += 3
    nm = int(t[p]); p += 1
    mask = [(int(t[p + 2 * k]), int(t[p + 2 * k + 1])) for k in range(nm)]
    return dict(cid=cid, kind=kind, tap=tap, ppn=ppn, nv=nv, n=n, vars=vars_, states=states, rows=rows, cuts=cuts, P=P,
                mask=mask, line=line, split="replay", how="replay")
