"""Shared by props/C09.py and props/C01.py (family `cycle`): system generators, case lines for harness/drv_cycle.cpp,
parsing of its output (hierarchy dump, per-operation vectors), hierarchy domain checks, model case lines."""
from fractions import Fraction
import nums

COARSEN = {"RS": 0, "CLJP": 1, "Falgout": 2, "PMIS": 3, "HMIS": 4}
INTERP = {"Direct": 0, "ModClassical": 1, "Extended": 2}
RELAX = {"Jacobi": 0, "SOR": 1, "SSOR": 2}
RELAX_TAG = {0: "J", 1: "S", 2: "SS"}


# ------------------------------------------------------------------ systems
def lap1d(n, shift, off=Fraction(-1)):
    t = {}
    for i in range(n):
        t[(i, i)] = Fraction(2) + shift
        if i > 0: t[(i, i - 1)] = off
        if i < n - 1: t[(i, i + 1)] = off
    return t

def grid2d(a, b, shift):
    n = a * b; t = {}
    for i in range(a):
        for j in range(b):
            k = i * b + j; t[(k, k)] = Fraction(4) + shift
            if i > 0: t[(k, k - b)] = Fraction(-1)
            if i < a - 1: t[(k, k + b)] = Fraction(-1)
            if j > 0: t[(k, k - 1)] = Fraction(-1)
            if j < b - 1: t[(k, k + 1)] = Fraction(-1)
    return n, t

def graph_lap(rng, n, shift, extra=None):
    """weighted graph Laplacian of a connected random graph + shift*I : a symmetric M-matrix"""
    t = {}
    edges = set()
    for i in range(1, n):
        edges.add((rng.randrange(max(0, i - 3), i), i))
    for _ in range(extra if extra is not None else n // 2):
        i, j = rng.randrange(n), rng.randrange(n)
        if i != j and abs(i - j) <= 5: edges.add((min(i, j), max(i, j)))
    deg = [Fraction(0)] * n
    for (i, j) in sorted(edges):
        w = Fraction(rng.choice([1, 1, 2, 3]), rng.choice([1, 1, 2]))
        t[(i, j)] = -w; t[(j, i)] = -w; deg[i] += w; deg[j] += w
    for i in range(n): t[(i, i)] = deg[i] + shift
    return t

def convdiff(n, shift, c):
    """1-D convection-diffusion, upwind-ish: non-symmetric M-matrix for |c| < 1"""
    t = {}
    for i in range(n):
        t[(i, i)] = Fraction(2) + shift
        if i > 0: t[(i, i - 1)] = Fraction(-1) - c
        if i < n - 1: t[(i, i + 1)] = Fraction(-1) + c
    return t

def nonsym_dd(rng, n, density=0.5):
    """random non-symmetric strictly diagonally dominant matrix (nonsingular, well conditioned), mixed signs"""
    t = {}
    for i in range(n):
        s = Fraction(0)
        for j in range(n):
            if i != j and rng.random() < density:
                v = Fraction(rng.choice([-3, -2, -1, 1, 2]), rng.choice([1, 2]))
                t[(i, j)] = v; s += abs(v)
        t[(i, i)] = (s + Fraction(rng.choice([1, 2, 3]), 2)) * rng.choice([1, 1, -1])
    return t

def decouple_row(t, n, k, d=Fraction(3)):
    """make row/column k diagonal-only"""
    t = {ij: v for ij, v in t.items() if ij[0] != k and ij[1] != k}
    t[(k, k)] = d
    return t

def is_symmetric(t):
    return all(t.get((j, i)) == v for (i, j), v in t.items())

def matvec(t, x, n):
    y = [Fraction(0)] * n
    for (i, j), v in t.items(): y[i] += v * x[j]
    return y

def rand_partition(rng, n, P, allow_empty=False):
    """first_rows of P contiguous blocks"""
    if allow_empty and P > 1 and rng.random() < 0.5:
        cuts = sorted(rng.randint(0, n) for _ in range(P - 1))
    else:
        if n >= P:
            cuts = sorted(rng.sample(range(1, n), P - 1))
        else:
            cuts = sorted(rng.randint(0, n) for _ in range(P - 1))
    return [0] + cuts + [n]

def parlit(t, n, first_rows=None):
    items = sorted(t.items())
    toks = [str(n), str(n)]
    if first_rows is None: toks.append("0")
    else:
        toks.append(str(len(first_rows) - 1)); toks += [str(f) for f in first_rows] * 2
    toks.append(str(len(items)))
    for (i, j), v in items: toks += [str(i), str(j), nums.tok_num(v)]
    return toks

def num_tok(x):
    x = Fraction(x)
    if abs(x.numerator) < 2 ** 53 and x.denominator <= 2 ** 61: return nums.tok_num(x)
    return float(x).hex()        # large / very small magnitudes: exact hex float (the generators only produce doubles there)

def vec_toks(v): return [num_tok(x) for x in v]

def case_line(cid, cls, opts, t, n, first_rows, vecs, ops, dump=1):
    """opts: dict coarsen interp strength theta relax omega sweeps max_coarse max_levels tap tol"""
    head = [cid, cls, str(opts["coarsen"]), str(opts["interp"]), str(opts["strength"]), nums.tok_num(opts["theta"]),
            str(opts["relax"]), nums.tok_num(opts["omega"]), str(opts["sweeps"]), str(opts["max_coarse"]),
            str(opts["max_levels"]), str(opts["tap"]), str(dump), nums.tok_num(opts["tol"])]
    toks = head + ["MAT"] + parlit(t, n, first_rows) + ["VECS", str(len(vecs))]
    for v in vecs: toks += vec_toks(v)
    toks += ["OPS", str(len(ops))]
    for o in ops: toks += [str(x) for x in o]
    return " ".join(toks)


# ------------------------------------------------------------------ output parsing
def split_ranks(toks):
    """'@0 a b @1 c' -> [[a,b],[c]]"""
    out = []
    for x in toks:
        if x.startswith("@") and x[1:].isdigit(): out.append([])
        elif out: out[-1].append(x)
    return out

class Level:
    pass

def parse_levels(res):
    """res: list of (key, toks) of one case -> list of Level(ids, parts, pcols, A{(i,j):v} by position, P, badp) or None"""
    d = {k: v for k, v in res}
    if "NLEV" not in d: return None
    L = int(d["NLEV"][0]); sizes = [int(x) for x in d["NLEV"][1:1 + L]]
    raw = []
    for l in range(L):
        key = "LEV%d" % l
        if key not in d: return None
        lev = Level(); lev.parts = []; lev.pcols = []; lev.ids = []; lev.At = []; lev.Pt = []; lev.pnc = 0; lev.badp = False
        for rk in split_ranks(d[key]):
            nloc, ncol = int(rk[0]), int(rk[1]); lev.parts.append(nloc); lev.pcols.append(ncol)
            p = rk.index("IDS"); k = int(rk[p + 1]); lev.ids += [int(x) for x in rk[p + 2:p + 2 + k]]
            if "BADP" in rk: lev.badp = True
            if "A" in rk:
                p = rk.index("A"); nnz = int(rk[p + 1]); q = p + 2
                for e in range(nnz):
                    lev.At.append((int(rk[q]), int(rk[q + 1]), nums.parse_num(rk[q + 2]))); q += 3
                if q < len(rk) and rk[q] == "P":
                    lev.pnc = int(rk[q + 1]); nnz = int(rk[q + 2]); q += 3
                    for e in range(nnz):
                        lev.Pt.append((int(rk[q]), int(rk[q + 1]), nums.parse_num(rk[q + 2]))); q += 3
        lev.n = sizes[l]
        raw.append(lev)
    # ids -> positions
    for l, lev in enumerate(raw):
        lev.pos = {g: k for k, g in enumerate(lev.ids)}
        lev.ok = (len(lev.ids) == lev.n and len(lev.pos) == lev.n)
    for l, lev in enumerate(raw):
        lev.A = {}; lev.P = {}
        if not lev.ok: continue
        try:
            for (i, j, v) in lev.At:
                key = (lev.pos[i], lev.pos[j]); lev.A[key] = lev.A.get(key, 0) + v
            if l < len(raw) - 1:
                nxt = raw[l + 1]
                for (i, j, v) in lev.Pt:
                    key = (lev.pos[i], nxt.pos[j]); lev.P[key] = lev.P.get(key, 0) + v
        except KeyError:
            lev.ok = False
    return raw

def parse_vec(rank_toks_list):
    """OUT tokens '@0 k v.. @1 k v..' -> (k, [values]) with values Fractions or nan/inf marker strings"""
    k = None; vals = []
    for rk in split_ranks(rank_toks_list):
        k = int(rk[0]); vals += [nums.parse_num(x) for x in rk[1:]]
    return k, vals

def outs_of(res):
    """-> {op index: (raw token string, [values])}, BOK {k: bool}, ITER {k: it}, RES {k: [values]}, HOK"""
    outs, bok, iters, ress, hok = {}, {}, {}, {}, None
    global last_scr
    last_scr = {}
    for key, toks in res:
        if key in ("SX", "SB"):
            vals = []; k = l = None
            for rk in split_ranks(toks):
                k, l = int(rk[0]), int(rk[1]); vals += [nums.parse_num(x) for x in rk[2:]]
            last_scr[(key, k, l)] = vals
            continue
        if key == "OUT":
            k, vals = parse_vec(toks)
            raw = " ".join(" ".join(rk[1:]) for rk in split_ranks(toks))     # the printed values of all ranks, bit-exact
            outs[k] = (raw, vals)
        elif key == "BOK": bok[int(toks[0])] = toks[1] == "1"
        elif key == "ITER": iters[int(toks[0])] = int(toks[1])
        elif key == "RES": ress[int(toks[0])] = [nums.parse_num(x) for x in toks[1:]]
        elif key == "HOK": hok = toks[0] == "1"
    return outs, bok, iters, ress, hok

last_scr = {}

def finite(v): return all(not isinstance(x, str) for x in v)
def vmax(v): return max([abs(float(x)) for x in v] + [0.0])


# ------------------------------------------------------------------ hierarchy domain (the hypotheses of the theorems)
def dense_f(A, n):
    M = [[0.0] * n for _ in range(n)]
    for (i, j), v in A.items(): M[i][j] = float(v)
    return M

def cond_estimate(M):
    """max-norm condition number of a small dense matrix by Gauss-Jordan inversion with partial pivoting; None if singular"""
    n = len(M)
    if n == 0: return 1.0
    a = [row[:] + [1.0 if i == j else 0.0 for j in range(n)] for i, row in enumerate(M)]
    for k in range(n):
        p = max(range(k, n), key=lambda r: abs(a[r][k]))
        if abs(a[p][k]) < 1e-300: return None
        a[k], a[p] = a[p], a[k]
        piv = a[k][k]; a[k] = [x / piv for x in a[k]]
        for r in range(n):
            if r != k and a[r][k] != 0.0:
                f = a[r][k]; a[r] = [x - f * y for x, y in zip(a[r], a[k])]
    ninv = max(sum(abs(x) for x in row[n:]) for row in a)
    nm = max(sum(abs(x) for x in row) for row in M)
    return nm * ninv

def hierarchy_domain(levels):
    """-> (in_domain, reason).  chier_wf of Properties_C09.v: numbering consistent, stored nonzero diagonal on every level
       that is relaxed, partition invariant, coarsest matrix nonsingular (and not numerically singular)."""
    if levels is None: return False, "nodump"
    for l, lev in enumerate(levels):
        if not lev.ok: return False, "ids"
        if any(isinstance(v, str) for v in lev.A.values()) or any(isinstance(v, str) for v in lev.P.values()):
            return False, "nonfinite_hierarchy"
        if l < len(levels) - 1:
            for i in range(lev.n):
                if lev.A.get((i, i), 0) == 0: return False, "zero_diag"
            if lev.pnc != levels[l + 1].n: return False, "pdims"
    last = levels[-1]
    c = cond_estimate(dense_f(last.A, last.n))
    if c is None or c > 1e6: return False, "coarse_singular"
    return True, ""

def guard_violations(levels):
    """ranks that own columns of P_l but no rows of it (the layout D02b needs)"""
    bad = []
    for l, lev in enumerate(levels[:-1]):
        if lev.badp: bad.append((l, -1))
        for r, (nr, nc) in enumerate(zip(lev.parts, lev.pcols)):
            if nr == 0 and nc != 0: bad.append((l, r))
    return bad


# ------------------------------------------------------------------ model case lines (ocaml/drv_cycle.ml)
def hier_tokens(levels, relax, omega, sweeps, trans=1):
    toks = [RELAX_TAG[relax], nums.tok_num(omega), str(sweeps), str(trans), str(len(levels) - 1)]
    def trip(d):
        out = [str(len(d))]
        for (i, j), v in sorted(d.items()): out += [str(i), str(j), frac_tok(v)]
        return out
    for l, lev in enumerate(levels[:-1]):
        toks += [str(lev.n), str(levels[l + 1].n), str(len(lev.parts))] + [str(p) for p in lev.parts]
        toks += trip(lev.A) + trip(lev.P)
    last = levels[-1]
    toks += [str(last.n), str(len(last.parts))] + [str(p) for p in last.parts] + trip(last.A)
    return toks

def frac_tok(v):
    """exact token for a Fraction that came from a double: hex float"""
    v = Fraction(v)
    if v.denominator == 1 and abs(v.numerator) < 2 ** 53: return str(v.numerator)
    return float(v).hex()

def vec_close(u, v, rtol, scale=None):
    """max-norm comparison relative to the magnitude of the vectors"""
    if len(u) != len(v): return False, "length %d vs %d" % (len(u), len(v))
    if not finite(u) or not finite(v): return False, "non-finite entry"
    s = scale if scale is not None else max(1.0, vmax(u), vmax(v))
    for k, (a, b) in enumerate(zip(u, v)):
        if abs(float(a) - float(b)) > rtol * s:
            return False, "entry %d: %.17g vs %.17g (scale %.3g)" % (k, float(a), float(b), s)
    return True, ""
