"""C01 - AMG solve tells the truth: converged means small true residual.

Tie of Amg/Solve.v to raptor: harness/drv_cycle.cpp runs solve() of the four solver classes over an options grid and
re-creates the iterates with cycle() calls.
O (the property on the implementation's output): an independent reference residual recomputed here from the generated
A, b and the returned iterates: iter < max => x finite and ||b - A x|| / ||b|| <= tol; every entry of the reported residual
history equals the recomputed relative residual of the corresponding iterate; the returned vector is the last iterate.
K: the extracted model of the solve wrapper (exact rationals, extended values) is run with the library's own iterates as
its cycle function and must report the same iteration count, history (squared) and finiteness."""
from fractions import Fraction
import math
import framework as fw, nums
import cycle_common as cc

ID = "C01"
FAMILY = "cycle"
OCAML_SRCS = ("conv.ml", "drv_cycle.ml")
SEQ_TOL = Fraction(1, 10 ** 7)

def rvec(rng, n, scale=1):
    return [Fraction(rng.randint(-8, 8), scale) for _ in range(n)]

def gen_case(ctx, k, P, force=None):
    """force = (class, 'x0_overflow'): directed cases - every solver class meets an initial guess whose products overflow"""
    rng = ctx.rng
    par = P > 1 or rng.random() < 0.55
    cls = rng.choice(["parrs", "parrs", "parsa"]) if par else rng.choice(["seqrs", "seqrs", "seqsa"])
    if force: cls = force[0]; par = cls.startswith("par")
    kind = rng.choice(["graph", "graph", "lap1d_dec", "convdiff", "grid", "tiny", "lap1d", "nonsym_tiny", "tiny_illcond"])
    if kind == "tiny_illcond":
        # coarse already and nearly singular (graph Laplacian + 2^-40..2^-46): the single-level "cycle" is one LU solve whose
        # residual is far above the tolerance, so the solve must run to its limit and must not claim convergence
        n = rng.choice([2, 3, 4, 6]); t = cc.graph_lap(rng, n, Fraction(1, 2 ** rng.choice([40, 43, 46])))
    elif kind == "tiny":
        n = rng.choice([1, 2, 3, 4, 6]); n, t = n, cc.graph_lap(rng, n, Fraction(rng.choice([1, 2]), 2)) if n > 1 else {(0, 0): Fraction(3)}
    elif kind == "nonsym_tiny":
        n = rng.choice([2, 3, 5, 7]); t = cc.nonsym_dd(rng, n)
    else:
        n = rng.choice([30, 30, 40, 60, 60, 90, 120, 150] if not ctx.quick() else [30, 30, 40, 60, 60, 90, 120])
        sh = Fraction(rng.choice([0, 1, 1, 2, 4]), rng.choice([2, 4, 8, 16]))
        if kind == "graph": t = cc.graph_lap(rng, n, sh + Fraction(1, 16))
        elif kind == "lap1d": t = cc.lap1d(n, sh)
        elif kind == "lap1d_dec":
            t = cc.lap1d(n, sh)
            for _ in range(rng.choice([1, 1, 2])): t = cc.decouple_row(t, n, rng.randrange(n), Fraction(rng.choice([1, 2, 3, 5])))
        elif kind == "convdiff": t = cc.convdiff(n, sh, Fraction(rng.choice([-3, -1, 1, 2, 3]), 4))
        else:
            a = rng.choice([4, 5, 6]); n, t = cc.grid2d(a, n // a, sh)
    sa = cls.endswith("sa")
    tol = SEQ_TOL if not par else rng.choice([SEQ_TOL, SEQ_TOL, Fraction(1, 10 ** 4), Fraction(1, 10 ** 10), Fraction(1, 2 ** 20)])
    opts = dict(coarsen=rng.choice([0, 1, 2, 3, 4]), interp=rng.choice([0, 1, 2]),
                strength=(1 if sa else rng.choice([0, 0, 0, 1])), theta=rng.choice([Fraction(0), Fraction(1, 4), Fraction(1, 2), Fraction(3, 4)]),
                relax=rng.choice([0, 1, 1, 2]), omega=rng.choice([Fraction(1, 2), Fraction(2, 3), Fraction(1), Fraction(1), Fraction(5, 4)]),
                sweeps=rng.choice([1, 1, 2]), max_coarse=rng.choice([2, 4, 6, 10]), max_levels=rng.choice([25, 25, 2, 3, 5]),
                tap=(rng.choice([-1, -1, -1, 0, 1, 2]) if par else -1), tol=tol)
    if kind in ("tiny", "nonsym_tiny") and rng.random() < 0.7: opts["max_coarse"] = max(opts["max_coarse"], n)
    if kind == "tiny_illcond": opts["max_coarse"] = max(opts["max_coarse"], n)
    first_rows = None
    if par and rng.random() < 0.5: first_rows = cc.rand_partition(rng, n, P, allow_empty=(rng.random() < 0.1))
    # right-hand sides: random, A*xs (known solution), small magnitude (the norm cutoff regression), zero
    r = rng.random()
    if r < 0.45: b = rvec(rng, n); bkind = "random"
    elif r < 0.7: b = cc.matvec(t, rvec(rng, n), n); bkind = "consistent"
    elif r < 0.93:
        e = rng.choice([30, 34, 40, 43, 46, 60]); b = rvec(rng, n, 2 ** e); bkind = "small"
        if all(v == 0 for v in b): b[0] = Fraction(1, 2 ** e)
    else: b = [Fraction(0)] * n; bkind = "zero"
    r = rng.random(); xkind = "x0"
    if force: r = 0.99
    if r < 0.6: x0 = [Fraction(0)] * n
    elif r < 0.86: x0 = rvec(rng, n)
    elif r < 0.94: x0 = rvec(rng, n, 2 ** 20)
    else:
        # an initial guess whose products overflow: the residual is inf / NaN from the first evaluation on
        x0 = [Fraction(rng.choice([1e308, -1e308, 1e308, 0.0])) for _ in range(n)]; x0[rng.randrange(n)] = Fraction(1e308); xkind = "x0_overflow"
    maxit = rng.choice([3, 8, 30, 60] if n <= 60 else [3, 8, 25])
    cid = "s%d_p%d" % (k, P)
    # a hierarchy is solved with more than once: with some probability an earlier solve of another system (other b, other
    # guess, other limit) runs first on the same object; the judged solve's history must be its own
    vecs = [x0, b]; hist = [("SI", 0, 1, maxit)]; kop = 0
    if rng.random() < 0.4:
        bw = rvec(rng, n) if rng.random() < 0.7 else cc.matvec(t, rvec(rng, n), n)
        if all(v == 0 for v in bw) and n: bw[0] = Fraction(1)
        xw = rvec(rng, n) if rng.random() < 0.6 else [Fraction(0)] * n
        vecs = [x0, b, xw, bw]; hist = [("S", 2, 3, rng.choice([1, 2, 5, 12, 40])), ("SI", 0, 1, maxit)]; kop = 1
    nores = rng.random() < 0.2
    if nores: hist[-1] = ("SN",) + hist[-1][1:]          # the judged solve runs with store_residuals = false (no history kept)
    line = cc.case_line(cid, cls, opts, t, n, first_rows, vecs, hist, dump=0)
    return dict(cid=cid, cls=cls, opts=opts, t=t, n=n, P=P, first_rows=first_rows, vecs=vecs, hist=hist, maxit=maxit, kop=kop, nores=nores,
                kind=kind, bkind=bkind, xkind=xkind, line=line)

def ffloat(v):
    if isinstance(v, str): return float("nan") if "nan" in v else (float("-inf") if v.startswith("-") else float("inf"))
    try: return float(v)
    except OverflowError: return float("inf") if v > 0 else float("-inf")

def fnorm(v): return math.sqrt(math.fsum(x * x for x in v))

def ref_residual(rows, bf, x):
    """||b - A x||_2 in floating point with exactly rounded sums (independent of the library)"""
    try:
        r = [math.fsum([bf[i]] + [-a * x[j] for (j, a) in row]) for i, row in enumerate(rows)]
        return fnorm(r)
    except (OverflowError, ValueError):
        return float("inf")

def judge(ctx, c, res, model_lines):
    cid = c["cid"]; n = c["n"]; sig0 = "solve:%s" % c["cls"]
    ctx.evaluations += 1
    ctx.count("cls_" + c["cls"]); ctx.count("P_%d" % c["P"]); ctx.count("sys_" + c["kind"]); ctx.count("rhs_" + c["bkind"]); ctx.count(c.get("xkind", "x0"))
    ctx.count("coarsen_%d" % c["opts"]["coarsen"]); ctx.count("interp_%d" % c["opts"]["interp"]); ctx.count("relax_" + cc.RELAX_TAG[c["opts"]["relax"]])
    if c["opts"]["tap"] >= 0: ctx.count("tap_on")
    if c["first_rows"] is not None: ctx.count("explicit_partition")
    ctx.sample(c["line"] if len(c["line"]) < 600 else c["line"][:600] + "...")
    keys = [k for k, _ in (res or [])]
    if not res or "CRASH" in keys or any(k.startswith("ERR") for k in keys):
        if "SETUP" not in keys:
            ctx.count("setup_failed_not_C01"); return          # hierarchy construction failed: C08/C12/C13's business, not the solve wrapper's
        ctx.signal("O", sig0 + ":crash", "solve() crashed on a hierarchy that was set up: %s" % (res[-1:],), case=c["line"]); return
    d = {}
    for key, toks in res:
        if key == "XK":
            vals = []; q = None
            for rk in cc.split_ranks(toks): q = int(rk[1]); vals += [nums.parse_num(x) for x in rk[2:]]
            d[("XK", q)] = vals
        elif key == "NLEV": ctx.count("levels_%s" % (toks[0] if int(toks[0]) < 6 else "6+"))
    outs, bok, iters, ress, hok = cc.outs_of(res)
    kop = c.get("kop", 0)
    if any(k not in outs or k not in iters or k not in ress for k in range(kop + 1)):
        ctx.signal("O", sig0 + ":incomplete", "no complete output", case=c["line"]); return
    if kop: ctx.count("second_solve_on_same_hierarchy")
    it = iters[kop]; maxit = c["maxit"]; rep = ress[kop]; xfin = outs[kop][1]
    tol = float(c["opts"]["tol"]) if c["cls"].startswith("par") else float(SEQ_TOL)
    rows = [[] for _ in range(n)]
    for (i, j), v in c["t"].items(): rows[i].append((j, float(v)))
    bf = [float(v) for v in c["vecs"][1]]; bnorm = fnorm(bf)
    relative = abs(bnorm) > 1e-16
    anorm = max(sum(abs(a) for _, a in row) for row in rows) if n else 0.0
    if kop:
        # the earlier solve is judged on what it returned: converged => small true residual, last reported entry = true residual
        wit, wrep, wx = iters[0], ress[0], outs[0][1]; wmax = c["hist"][0][3]
        bw = [float(v) for v in c["vecs"][3]]; bwn = fnorm(bw)
        if cc.finite(wx) and len(wrep) == wit + 1 and bwn > 1e-16:
            wt = ref_residual(rows, bw, [float(v) for v in wx]) / bwn
            wsl = 64 * 2.2e-16 * (bwn + anorm * max([abs(float(v)) for v in wx] + [0.0]) * math.sqrt(max(n, 1))) / bwn
            if wit < wmax and not (wt <= tol * (1 + 1e-6) + wsl):
                ctx.signal("O", "solve:truth:" + c["cls"], "first solve returned %d < %d iterations but the recomputed relative residual is %.6g > tol %.3g" % (wit, wmax, wt, tol), case=c["line"])
            r = wrep[wit]
            if math.isfinite(wt) and (isinstance(r, str) or abs(ffloat(r) - wt) > 1e-6 * wt + wsl):
                ctx.signal("O", sig0 + ":history", "first solve: last reported residual %s, recomputed %.9g" % (r if isinstance(r, str) else "%.9g" % ffloat(r), wt), case=c["line"])
        elif wit < wmax and not cc.finite(wx):
            ctx.signal("O", sig0 + ":truth:nonfinite", "first solve returned %d < %d iterations with a non-finite vector" % (wit, wmax), case=c["line"])
    iterates = [[float(v) for v in c["vecs"][0]]]
    complete = True
    for q in range(1, it + 1):
        v = d.get(("XK", q))
        if v is None: complete = False; break
        iterates.append(v)
    nores = c.get("nores", False) or (c["hist"] and c["hist"][-1][0] == "SN")
    if nores:
        ctx.count("store_residuals_off")
        if rep: ctx.signal("O", sig0 + ":history", "store_residuals = false but a history of %d entries was kept" % len(rep), case=c["line"])
        rep = [None] * (it + 1)
    if not complete or len(rep) != it + 1:
        ctx.signal("O", sig0 + ":incomplete", "iterates / residual history incomplete (iter %d, %d history entries)" % (it, len(rep)), case=c["line"]); return
    if it > maxit:
        ctx.signal("O", sig0 + ":iters", "more iterations (%d) than the limit (%d)" % (it, maxit), case=c["line"])
    # the returned vector is the last iterate (bitwise)
    last = iterates[it]
    if it > 0 and [str(a) for a in xfin] != [str(a) for a in last]:
        ctx.signal("O", sig0 + ":final_iterate", "solve() returned a vector that differs from %d successive cycle() calls" % it, case=c["line"])
    trues = []
    for kq, xk in enumerate(iterates):
        if not cc.finite(xk): trues.append(None); continue
        xf = [float(v) for v in xk]
        rn = ref_residual(rows, bf, xf)
        if not math.isfinite(rn): rn = float("inf")
        slack = 64 * 2.2e-16 * (bnorm + anorm * max([abs(v) for v in xf] + [0.0]) * math.sqrt(max(n, 1)))
        trues.append((rn / bnorm if relative else rn, slack / bnorm if relative else slack))
    nontrivial = it > 0
    # --- O: truth of convergence
    if it < maxit:
        ctx.count("converged")
        # the claim must at least agree with the solver's own last reported residual (no rounding slack involved: on nearly
        # singular coarse-already systems the iterates are huge and the recomputed residual carries a slack of its own size)
        if rep[it] is not None and not isinstance(rep[it], str) and ffloat(rep[it]) > tol * (1 + 1e-9):
            ctx.signal("O", "solve:truth:" + c["cls"], "solve returned %d < %d iterations although its own last reported residual %.6g is above the tolerance %.3g"
                       % (it, maxit, ffloat(rep[it]), tol), case=c["line"])
        if trues[it] is None:
            ctx.signal("O", sig0 + ":truth:nonfinite", "solve returned %d < %d iterations with a non-finite vector (reported residual %s)" % (it, maxit, rep[it]), case=c["line"])
        else:
            tr, sl = trues[it]
            if not (tr <= tol * (1 + 1e-6) + sl):
                sig = sig0.replace("solve:", "solve:truth:") + (":small_rhs" if c["bkind"] == "small" else "")
                sig = "solve:truth:small_rhs" if c["bkind"] == "small" else "solve:truth:" + c["cls"]
                ctx.signal("O", sig, "solve returned %d < %d iterations (reported %s) but the recomputed relative residual is %.6g > tol %.3g"
                           % (it, maxit, "no history kept" if rep[it] is None else (rep[it] if isinstance(rep[it], str) else ffloat(rep[it])), tr, tol), case=c["line"])
    else:
        ctx.count("hit_limit")
    # --- O: the reported history is the true history
    for kq in range(it + 1):
        r = rep[kq]
        if r is None: break          # no history kept
        if trues[kq] is None:
            if not isinstance(r, str):
                ctx.signal("O", sig0 + ":history:nonfinite", "iterate %d is not finite but the reported residual is %.6g" % (kq, ffloat(r)), case=c["line"]); break
            continue
        tr, sl = trues[kq]
        if not math.isfinite(tr): continue          # the exact residual overflows the double range: any non-finite report is right
        if isinstance(r, str):
            if math.isfinite(tr) and tr < 1e150:
                ctx.signal("O", sig0 + ":history", "reported residual %d is %s, recomputed %.6g" % (kq, r, tr), case=c["line"]); break
            continue
        if abs(ffloat(r) - tr) > 1e-6 * tr + sl:
            sig = "solve:history:small_rhs" if c["bkind"] == "small" else sig0 + ":history"
            ctx.signal("O", sig, "reported residual %d is %.9g, recomputed %.9g (|b| = %.3g)" % (kq, ffloat(r), tr, bnorm), case=c["line"]); break
    if nontrivial: ctx.nontrivial.add(c["line"].split(" ", 1)[1][:2000])
    # --- K: the model of the wrapper on the library's iterates
    if ctx.k_budget > 0 and n * (it + 1) <= 2500 and not nores:
        ctx.k_budget -= 1
        toks = [cid, "slv", nums.tok_num(Fraction(tol).limit_denominator(10 ** 12) if c["cls"].startswith("par") else SEQ_TOL), str(maxit), str(n), str(len(c["t"]))]
        toks[2] = nums.tok_num(c["opts"]["tol"] if c["cls"].startswith("par") else SEQ_TOL)
        for (i, j), v in sorted(c["t"].items()): toks += [str(i), str(j), nums.tok_num(v)]
        toks += cc.vec_toks(c["vecs"][1]) + cc.vec_toks(c["vecs"][0]) + [str(it)]
        def tk(v): return "nan" if isinstance(v, str) else cc.frac_tok(v)
        for q in range(1, it + 1): toks += [tk(v) for v in iterates[q]]
        model_lines.append(dict(cid=cid, mline=" ".join(toks), it=it, rep=rep, trues=trues, tol=tol, sig0=sig0, line=c["line"], maxit=maxit))

def compare_model(ctx, e, mres):
    sig0, line = e["sig0"], e["line"]
    if not mres:
        ctx.signal("K", sig0 + ":model", "model produced no output", case=line); return
    d = {k: v for k, v in mres}
    if "ERR" in d or "IT" not in d:
        ctx.signal("K", sig0 + ":model", "model driver error: %s" % (mres[:2],), case=line); return
    mit = int(d["IT"][0]); mres2 = [nums.parse_num(x) for x in d["RES2"]]
    ctx.compared += 1
    # a measure sitting on the tolerance: the exact and the floating-point test may differ legitimately
    borderline = any(t is not None and abs(t[0] - e["tol"]) <= 1e-9 * e["tol"] + t[1] for t in e["trues"])
    if mit != e["it"]:
        if borderline: ctx.skipped_borderline += 1; return
        ctx.signal("K", sig0 + ":iterations", "model stops after %d iterations, implementation after %d" % (mit, e["it"]), case=line,
                   extra=dict(model_case=e["mline"][:2000])); return
    for kq in range(min(len(mres2), len(e["rep"]))):
        m2, r = mres2[kq], e["rep"][kq]
        if isinstance(m2, str) or isinstance(r, str):
            if isinstance(m2, str) != isinstance(r, str) and not (isinstance(r, str) or ffloat(m2) > 1e300):
                ctx.signal("K", sig0 + ":history", "entry %d: model %s, implementation %s" % (kq, m2, r), case=line); return
            continue
        mv = math.sqrt(ffloat(m2)); rv = ffloat(r)
        sl = e["trues"][kq][1] if e["trues"][kq] is not None else 0.0
        if abs(mv - rv) > 1e-6 * max(mv, rv) + sl:
            ctx.signal("K", sig0 + ":history", "entry %d of the residual history: model %.9g, implementation %.9g" % (kq, mv, rv), case=line,
                       extra=dict(model_case=e["mline"][:2000])); return
    if d.get("LAST", ["1"])[0] != "1":
        ctx.signal("K", sig0 + ":last", "model: returned vector is not the last iterate", case=line)

def run(ctx):
    ctx.rule = ("solve() of RugeStubenSolver / SmoothedAggregationSolver / ParRugeStubenSolver / ParSmoothedAggregationSolver over coarsening RS/CLJP/"
                "Falgout/PMIS/HMIS x interpolation Direct/ModClassical/Extended x relaxation x weight x sweeps x strength threshold x max_coarse x max_levels x "
                "tap level x solve_tol; shifted graph / 1-D / 2-D Laplacians (n = 30..150), decoupled diagonal-only rows, convection-diffusion, tiny systems that "
                "are coarse already; random / consistent / small-magnitude (2^-30..2^-60) / zero right-hand sides, zero / random initial guesses; P in {1,2,3,4}; "
                "non-trivial = at least one iteration performed")
    per_P = {1: ctx.scale(300, 3600), 2: ctx.scale(180, 2200), 3: ctx.scale(180, 2200), 4: ctx.scale(140, 1700)}
    k_total = ctx.scale(132, 1500)
    if ctx.replay: cases = [replay_case(l) for l in ctx.replay]
    else:
        cases = []; k = 0
        for P in (1, 2, 3, 4):
            for q in range(per_P[P]):
                force = None
                if P == 1 and q < 24: force = (["seqrs", "seqsa", "parrs", "parsa"][q % 4], "x0_overflow")
                elif q < 8: force = (["parrs", "parsa"][q % 2], "x0_overflow")
                cases.append(gen_case(ctx, k, P, force)); k += 1
    import time
    model_lines = []
    for P in (1, 2, 3, 4):
        sub = [c for c in cases if c["P"] == P]
        if not sub: continue
        t0 = time.time()
        ctx.k_budget = k_total // 4
        impl = {}; crashed = []
        for ppn, part in ((None, sub[0::2]), ("2" if P == 4 else "1", sub[1::2] if P > 1 else [])):
            if not part: continue
            r_, cr_ = fw.run_impl_lines(ctx, "drv_cycle", [c["line"] for c in part], nprocs=P, name="c01_p%d_%s" % (P, ppn or "d"), timeout=1500,
                                        max_restarts=40, env=({"PPN": ppn} if ppn else None))
            impl.update(r_); crashed += list(cr_ or [])
            if ppn: ctx.count("cases_on_several_nodes", len(part))
        if P == 1: r_, cr_ = fw.run_impl_lines(ctx, "drv_cycle", [c["line"] for c in sub[1::2]], nprocs=P, name="c01_p1_b", timeout=1500, max_restarts=40); impl.update(r_)
        t1 = time.time()
        for c in sub: judge(ctx, c, impl.get(c["cid"]), model_lines)
        ctx.notes.append("P=%d: %d cases, implementation %.1fs, oracle %.1fs, restarts after crashes %d" % (P, len(sub), t1 - t0, time.time() - t1, len(crashed)))
    if model_lines:
        cf = fw.write_cases(ctx, "c01.model", [m["mline"] for m in model_lines])
        t0 = time.time()
        rcm, model, _, errm = fw.run_model(ctx, cf, timeout=1500)
        ctx.notes.append("model: %d case lines, %.1fs" % (len(model_lines), time.time() - t0))
        if rcm != 0: ctx.signal("K", "modeldriver", "model driver exited with %s: %s" % (rcm, errm[-400:]))
        for m in model_lines: compare_model(ctx, m, model.get(m["cid"]))

def replay_case(line):
    import C09
    c = C09.replay_case(line)
    o = [h for h in c["hist"] if h[0] in ("SI", "SN")]
    c["maxit"] = o[0][3] if o else 0
    c["kind"] = "replay"
    b = c["vecs"][1]
    mx = max([abs(float(v)) for v in b] + [0.0])
    c["bkind"] = "zero" if mx == 0 else ("small" if mx < 1e-6 else "random")
    return c
