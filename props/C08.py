"""C08 — every AMG hierarchy is Galerkin, conformal and strictly coarsening.

Tie: harness/drv_hier.cpp runs the setup phase of RugeStubenSolver / SmoothedAggregationSolver (1 process) and
ParRugeStubenSolver / ParSmoothedAggregationSolver (mpirun -n 1..4) and dumps every level.  This module
 * O: evaluates every clause of the property on the dump in exact rational arithmetic (hex floats read exactly):
      Galerkin  |A_{l+1} - P^T A_l P| <= tol_l  entrywise, conformal dimensions, work-vector sizes, global sizes =
      sums of local sizes, column maps name existing unknowns, sizes non-increasing and strictly decreasing where the
      level's strength graph has an edge, setup stopped exactly at the size / depth limit;
 * K: the extracted verified checker hier_ok (coq/Amg/Hierarchy.v) run on the same dump gives the same verdict,
      clause by clause, and the extracted setup-loop model, run with coarsen := "the implementation's own P of that
      level", reproduces number of levels, level sizes, partitions, vector sizes, coarse_n, coarse sizes/displs.

Galerkin slack (stated here because the verdict depends on it): with N_ij the number of partial products
p_ki*a_km*p_mj of an entry, T_ij the sum of their absolute values and S = max column abs-sum of P,
    tol_l = 1e-15*(max N_ij + 4)*(max T_ij) + 2e-15*(1 + S)            (rounded up to a double),
the first term being ~4.5x the standard bound gamma_{N+2}*T for floating-point summation in any order, the second
covering entries/partial sums the code drops when |.| <= zero_tol = 1e-16 (AP entries: 1e-16*|p_ki| each; in the
distributed product each of the <= 2*np+2 partial sums of an entry is dropped separately)."""
from fractions import Fraction
import framework as fw, nums

ID = "C08"
FAMILY = "hier"
OCAML_SRCS = ("conv.ml", "drv_hier.ml")
ASSUMPTIONS = [
    "theorems C08_levels_conformal .. C08_coarse_duplicate are about the model's setup loop with abstract stages: spgemm / spgemm_T satisfy "
    "den(A*B) = drop(sum_k a_ik b_kj) resp. den(P^T*B) = drop(sum_k p_ki b_kj) (C06), prep / finish preserve den, dimensions and well-formedness "
    "(C07: copy, sort, move_diag), coarsen returns a well-formed P with n_l rows whose per-rank column blocks sum to its column count "
    "(dimension contract of C12/C13/C15/C16); sizes non-increasing assumes #columns(P) <= #rows(A); strict decrease assumes the C13/C15 contract "
    "'a strength edge implies at least one F point / one aggregate with two nodes' (hypothesis coarsen_strict); termination without depth limit "
    "assumes coarsen strictly reduces every level larger than max_coarse. The hypotheses are shown satisfiable (C08_model_nonvacuous: exact "
    "products, pairwise aggregation).",
    "max_coarse is a nat (negative values not modelled); max_levels is option nat (None = -1 = no limit; 0 and 1 behave alike, other negative "
    "values of the C++ int behave like 0 and are not generated)",
    "the distributed product drops partial sums <= 1e-16 separately on each rank; the model's two-drop form is the sequential one, the checker "
    "compares against the exact triple product with the stated slack instead",
    "hier_ok runs on position-space global operators assembled by props/C08.py from the per-rank dumps (name of an unknown -> position in the "
    "rank-ordered concatenation of local_row_map); this renumbering, the per-level slack tol_l and the strength-edge flag are computed by trusted "
    "Python (the flag must agree with the library's own strength(); levels with num_variables = 2 are not checked for strict decrease)",
    "executed instance: Qc with Qcplus_fast / Qcminus_fast / Qc_leb_fast (proved equal to Qcplus / Qcminus / Qc_leb in Extract/Inst_hier.v)",
]
RAND_MAX = 2147483647
PROBE_LEVELS = 16
WORK_CAP = 30000000          # partial products per level above which the Galerkin clause is not evaluated (safety net, counted)
MODEL_LINE_CAP = 4000000     # dumps larger than this (characters) are not sent to the extracted checker (counted)
F0 = Fraction(0)

# ---------------------------------------------------------------- matrices (global triple lists, dyadic values)
def lap_graph(rng, n, shift):
    """weighted graph Laplacian of a connected random graph + shift*I"""
    W = [Fraction(1, 2), Fraction(1), Fraction(1), Fraction(2), Fraction(3)]
    if rng.random() < 0.25: W = W + [Fraction(1, 2 ** 24), Fraction(1, 2 ** 24), Fraction(3, 2 ** 30)]     # couplings 1e-7 .. 1e-9 of the others
    E = {}
    for i in range(1, n):
        j = rng.randrange(max(0, i - 6), i)          # spanning tree with local edges
        E[(j, i)] = rng.choice(W)
    for _ in range(rng.randint(n // 2, 2 * n)):
        i = rng.randrange(n); j = min(n - 1, max(0, i + rng.randint(-8, 8)))
        if i != j: E[(min(i, j), max(i, j))] = rng.choice(W)
    d = [Fraction(shift)] * n; T = []
    for (i, j), w in E.items():
        T.append((i, j, -w)); T.append((j, i, -w)); d[i] += w; d[j] += w
    for i in range(n): T.append((i, i, d[i]))
    return T

def grid(rng, nx, ny, eps, nine):
    """5- or 9-point diffusion stencil on nx x ny, anisotropy eps in y"""
    def idx(x, y): return y * nx + x
    T = []
    for y in range(ny):
        for x in range(nx):
            i = idx(x, y); T.append((i, i, (2 + 2 * eps) if not nine else Fraction(8)))
            for dx, dy in ((-1, 0), (1, 0), (0, -1), (0, 1)) + (((-1, -1), (1, 1), (-1, 1), (1, -1)) if nine else ()):
                X, Y = x + dx, y + dy
                if 0 <= X < nx and 0 <= Y < ny:
                    T.append((i, idx(X, Y), Fraction(-1) if nine else (Fraction(-1) if dy == 0 else -eps)))
    return T

def convdiff(rng, nx, ny, eps, bx, by):
    """upwind convection-diffusion  -eps*Lap(u) + b.grad(u): non-symmetric M-matrix"""
    def idx(x, y): return y * nx + x
    T = []
    for y in range(ny):
        for x in range(nx):
            i = idx(x, y)
            T.append((i, i, 4 * eps + bx + by if ny > 1 else 2 * eps + bx))
            for dx, dy, v in ((-1, 0, -eps - bx), (1, 0, -eps)) + (((0, -1, -eps - by), (0, 1, -eps)) if ny > 1 else ()):
                X, Y = x + dx, y + dy
                if 0 <= X < nx and 0 <= Y < ny: T.append((i, idx(X, Y), v))
    return T

def decouple(rng, T, n, k, both):
    """make k rows diagonal-only (both: also remove the column, so the unknown is fully decoupled)"""
    rows = set(rng.sample(range(n), min(k, n)))
    return [(i, j, v) for (i, j, v) in T if i == j or (i not in rows and not (both and j in rows))], rows

def gen_matrix(rng, kind, n, tiny=False):
    info = kind
    if kind == "lap":
        T = lap_graph(rng, n, rng.choice([Fraction(1, 4), Fraction(1), Fraction(1, 16), 0]))
    elif kind == "grid":
        nx = rng.randint(3, max(3, int(n ** 0.5) + 2)); ny = max(1, n // nx); n = nx * ny
        eps = rng.choice([Fraction(1), Fraction(1, 4), Fraction(1, 16), Fraction(1, 2 ** 24), Fraction(1, 2 ** 27)])
        if tiny: eps = rng.choice([Fraction(1, 2 ** 24), Fraction(1, 2 ** 27)])
        T = grid(rng, nx, ny, eps, rng.random() < 0.3 and not tiny)
    elif kind == "convdiff":
        if rng.random() < 0.4: nx, ny = n, 1
        else:
            nx = rng.randint(3, max(3, int(n ** 0.5) + 2)); ny = max(2, n // nx)
        n = nx * ny
        T = convdiff(rng, nx, ny, rng.choice([Fraction(1), Fraction(1, 4), Fraction(1, 8)]),
                     rng.choice([Fraction(1), Fraction(2), Fraction(1, 2)]), rng.choice([0, Fraction(1)]))
    elif kind == "decoupled":
        base = rng.choice(["lap", "grid", "convdiff"])
        T, n, _ = gen_matrix(rng, base, n)
        T, rows = decouple(rng, T, n, rng.choice([1, 2, max(1, n // 10), max(1, n // 3)]), rng.random() < 0.5)
        info = "decoupled/" + base
    elif kind == "nolocal":
        # shifted Laplacian of a random graph without locality: every rank is coupled to every other one, several ranks of a
        # node to the same remote unknowns (what the node-aware matrix exchange has to merge)
        E = {}
        for i in range(1, n): E[(rng.randrange(i), i)] = Fraction(rng.choice([1, 2, 3]), rng.choice([1, 2]))
        for _ in range(2 * n):
            i, j = rng.randrange(n), rng.randrange(n)
            if i != j: E[(min(i, j), max(i, j))] = Fraction(rng.choice([1, 2, 3]), rng.choice([1, 2]))
        d = [Fraction(1, 2)] * n; T = []
        for (i, j), w in E.items(): T.append((i, j, -w)); T.append((j, i, -w)); d[i] += w; d[j] += w
        for i in range(n): T.append((i, i, d[i]))
    elif kind == "diag":
        T = [(i, i, Fraction(rng.choice([1, 2, 3]))) for i in range(n)]
    else:
        raise ValueError(kind)
    rng.shuffle(T)
    return T, n, info

def redblack(rng, n, P):
    """5-point grid / 1-D chain / upwind convection-diffusion numbered red-black and partitioned so that no rank owns
       both colours: every strong edge crosses a process boundary"""
    if rng.random() < 0.4: nx, ny = max(2, n), 1
    else:
        nx = rng.randint(2, max(2, int(n ** 0.5) + 1)); ny = max(2, n // nx)
    n = nx * ny
    T0 = grid(rng, nx, ny, Fraction(1), False) if rng.random() < 0.6 else \
        convdiff(rng, nx, ny, Fraction(1), Fraction(1), Fraction(1) if ny > 1 else 0)
    red = [i for i in range(n) if ((i % nx) + (i // nx)) % 2 == 0]; blk = [i for i in range(n) if ((i % nx) + (i // nx)) % 2 == 1]
    new = {g: k for k, g in enumerate(red + blk)}
    T = [(new[i], new[j], v) for (i, j, v) in T0]; rng.shuffle(T)
    nr = len(red)
    if P == 1: cuts = None
    else:
        inner = sorted(set([nr] + [rng.randint(0, n) for _ in range(P - 2)]))
        while len(inner) < P - 1: inner = sorted(inner + [rng.choice([0, nr, n])])
        cuts = [0] + inner + [n]
    return T, n, cuts

def pairs_boundary(rng, P):
    """m mutually strong pairs (a, b), each on one rank, a weakly (positively) coupled to a singleton c on the next rank:
       every pair has a boundary member although its strong edge is on-process (exercises the boundary treatment of Falgout)"""
    m = rng.randint(1, 4); per = [[] for _ in range(P)]; trip = []
    for k in range(m):
        r = k % P; a, b, c = ("a", k), ("b", k), ("c", k)
        per[r] += [a, b] if rng.random() < 0.5 else [b, a]; per[(r + 1) % P].append(c)
        trip += [(a, a, 2), (b, b, 2), (c, c, 2), (a, b, -1), (b, a, -1), (a, c, Fraction(1, 64)), (c, a, Fraction(1, 64))]
    order = [u for r in range(P) for u in per[r]]; new = {u: i for i, u in enumerate(order)}
    cuts = [0]
    for r in range(P): cuts.append(cuts[-1] + len(per[r]))
    T = [(new[i], new[j], Fraction(v)) for (i, j, v) in trip]; rng.shuffle(T)
    return T, len(order), cuts

def gen_partition(rng, n, P):
    """first_rows of P contiguous blocks: default, balanced explicit, unbalanced, with 1-row / empty blocks"""
    r = rng.random()
    if r < 0.25: return None                                   # raptor's default partition (P = 0 literal)
    if r < 0.45:
        cuts = [n * k // P for k in range(P + 1)]
    elif r < 0.85 or n < P + 2:
        cuts = [0] + sorted(rng.randint(1, max(1, n - 1)) for _ in range(P - 1)) + [n]
    else:
        cuts = [0] + sorted(rng.choice([1, n - 1, rng.randint(1, n - 1)]) for _ in range(P - 1)) + [n]
    return cuts

RS_COARSEN = [0, 1, 2, 3, 4]; RS_INTERP = [0, 1, 2]

def gen_cases(ctx, P, count, with_seq):
    rng = ctx.rng; cases = []
    for k in range(count):
        solver = rng.choice((["rs", "rs", "sa"] if with_seq else []) + ["prs", "prs", "prs", "psa"])
        # two cases of every run are pinned to the generator classes of the two known stagnation findings
        force = {(2, 0): "pb", (2, 1): "rb", (3, 0): "pb", (4, 1): "rb"}.get((P, k))
        if force: solver = "prs"
        r = rng.random()
        kind = "lap" if r < 0.3 else "grid" if r < 0.5 else "convdiff" if r < 0.7 else "decoupled" if r < 0.93 else "diag"
        r = rng.random()
        n = rng.randint(20, 60) if r < 0.55 else rng.randint(60, 140) if r < 0.9 else rng.randint(140, 300)
        tiny = rng.random() < 0.12
        if tiny: n = rng.randint(1, 12)
        if tiny and kind in ("grid", "convdiff", "decoupled"): kind = "lap"
        tinyw = with_seq and k in (5, 6, 7, 8)       # every run: sequential and distributed hierarchies on couplings ~1e-7..1e-8 of the others
        if tinyw: kind = "grid"; solver = ("rs", "sa", "prs", "psa")[k - 5]; tiny = False; n = rng.randint(30, 80)
        nolocal = (P >= 4 and (k % 3 == 2 or P >= 6))       # node-aware setup on >= 2 nodes with non-local couplings
        if nolocal and not tinyw: kind = "nolocal"; solver = rng.choice(["prs", "prs", "psa"]); tiny = False; n = rng.randint(40, 90); force = None
        T, n, info = gen_matrix(rng, kind, n, tiny=tinyw)
        rb_part = None
        if solver in ("prs", "psa") and (rng.random() < 0.07 or force == "rb"):
            T, n, rb_part = redblack(rng, rng.choice([P, P + 1, 8, 12, rng.randint(4, 40)]), P); info = "redblack"; tiny = False
        pb_part = None
        if solver == "prs" and P >= 2 and force != "rb" and (rng.random() < 0.05 or force == "pb"):
            T, n, pb_part = pairs_boundary(rng, P); info = "pairs_boundary"; tiny = False
        if tiny:
            max_coarse = rng.choice([n, n, n + 1, max(1, n - 1), 50])
        else:
            max_coarse = rng.choice([1, 2, 3, 4, 5, 8, 13, n // 4, n // 2])
        max_levels = rng.choice([25, 25, 25, -1, -1, 1, 2, 3, 4, 0])
        theta = rng.choice(["0", "1/4", "1/4", "1/4", "1/2", "1/2", "3/4", "1"])
        if theta == "1" and solver in ("sa", "psa") and not tiny and n > 30:
            # no strength edge at all: singleton aggregates, P = I - w D^-1 A, the hierarchy stagnates and fills in
            # (dense n x n operators level after level); kept small so that the exact triple products stay cheap
            n = rng.randint(8, 30); T, n, info = gen_matrix(rng, kind, n)
        if solver in ("rs", "prs"):
            coarsen, interp = rng.choice(RS_COARSEN), rng.choice(RS_INTERP)
            strength = rng.choice([0, 0, 0, 1]); psteps, pweight = 1, "4/3"
            nvars = 2 if rng.random() < 0.06 else 1
        else:
            coarsen, interp = 0, 0
            strength = rng.choice([1, 1, 0]); nvars = 1
            psteps = rng.choice([1, 1, 1, 2, 0]); pweight = rng.choice(["4/3", "4/3", "1", "2/3"])
        tap = -1
        if solver in ("prs", "psa"): tap = rng.choice([-1, -1, 0, 0, 1, 2])
        if info == "nolocal": tap = rng.choice([0, 0, 1]); max_levels = rng.choice([25, 25, 3]); theta = rng.choice(["0", "1/4"])
        part = gen_partition(rng, n, P) if solver in ("prs", "psa") else None
        if info == "redblack": part = rb_part; max_coarse = rng.choice([1, 2, max(1, n // 4)])
        if force == "rb": coarsen = 0; solver = "prs"; max_levels = 25; theta = "1/4"; strength = 0; nvars = 1
        if info == "pairs_boundary":
            part = pb_part; max_coarse = 1; theta = "1/4"; strength = 0; nvars = 1; coarsen = rng.choice([2, 2, 0, 1, 3, 4])
            max_levels = rng.choice([5, 8, 25])
            if force == "pb": coarsen = 2
        lit = [n, n] + ([0] if part is None else [P] + part + part) + [len(T)]
        for (i, j, v) in T: lit += [i, j, nums.tok_num(v)]
        cid = "p%dc%d" % (P, k)
        line = " ".join(str(x) for x in [cid, "hier", solver, theta, coarsen, interp, strength, max_coarse, max_levels,
                                         tap, nvars, psteps, pweight] + lit)
        cases.append(dict(cid=cid, line=line, solver=solver, theta=Fraction(theta), coarsen=coarsen, interp=interp,
                          strength=strength, max_coarse=max_coarse, max_levels=max_levels, tap=tap, nvars=nvars,
                          n=n, P=P, part=part, info=info, psteps=psteps, pweight=pweight))
    return cases

def case_from_line(line):
    t = line.split()
    n = int(t[13]); Pl = int(t[15]); part = [int(x) for x in t[16:16 + Pl + 1]] if Pl else None
    return dict(cid=t[0], line=line, solver=t[2], theta=Fraction(t[3]), coarsen=int(t[4]), interp=int(t[5]),
                strength=int(t[6]), max_coarse=int(t[7]), max_levels=int(t[8]), tap=int(t[9]), nvars=int(t[10]),
                psteps=int(t[11]), pweight=t[12], n=n, P=Pl, part=part, info="replay")

# ---------------------------------------------------------------- parsing the dump
def split_ranks(toks):
    out = []; cur = None
    for x in toks:
        if x.startswith("@"): cur = []; out.append(cur)
        elif cur is not None: cur.append(x)
    return out

def parse_maps(t):
    m = {}; p = 0
    while p < len(t):
        tag = t[p]; k = int(t[p + 1]); m[tag] = [int(x) for x in t[p + 2:p + 2 + k]]; p += 2 + k
    return m

def parse_triples(t):
    return [(int(t[p]), int(t[p + 1]), nums.parse_num(t[p + 2])) for p in range(0, len(t) - 2, 3)], \
           [t[p + 2] for p in range(0, len(t) - 2, 3)]

class Dump: pass

def parse_dump(res, seq):
    """res: [(key, tokens)] of one case -> Dump or None"""
    d = {}
    for k, t in res: d[k] = t
    if "NLEV" not in d or "DONE" not in d: return None
    D = Dump(); D.seq = seq
    nl = split_ranks(d["NLEV"]); D.np = len(nl)
    D.num_levels = [int(r[0]) for r in nl]; D.nsize = [int(r[1]) for r in nl]; D.coarse_n = [int(r[2]) for r in nl]
    D.cs = split_ranks(d["CS"]) if "CS" in d else None
    D.levels = []
    l = 0
    while "SZ%d" % l in d:
        L = Dump(); L.ranks = []
        sz = split_ranks(d["SZ%d" % l]); ma = split_ranks(d.get("MA%d" % l, [])); ta = split_ranks(d["TA%d" % l])
        mp = split_ranks(d.get("MP%d" % l, [])); tp = split_ranks(d.get("TP%d" % l, []))
        ed = split_ranks(d.get("ED%d" % l, []))
        for r in range(D.np):
            R = Dump(); s = [int(x) for x in sz[r]]
            (R.grows, R.gcols, R.lrows, R.lcols, R.offc, R.nnz_on, R.nnz_off, R.frow, R.fcol) = s[:9]
            R.x, R.b, R.tmp = tuple(s[9:12]), tuple(s[12:15]), tuple(s[15:18]); R.hasP = s[18]
            p = 19
            if R.hasP == 1:
                (R.pgrows, R.pgcols, R.plrows, R.plcols, R.poffc, R.pfcol) = s[p:p + 6]; p += 6
            R.blocks = s[p:]
            if seq:
                R.rowmap = list(range(R.lrows)); R.onmap = list(range(R.lcols)); R.offmap = []
                if R.hasP == 1: R.prowmap = list(range(R.plrows)); R.ponmap = list(range(R.plcols)); R.poffmap = []
            else:
                m = parse_maps(ma[r]); R.rowmap, R.onmap, R.offmap = m["row"], m["on"], m["off"]
                if R.hasP == 1:
                    m = parse_maps(mp[r]); R.prowmap, R.ponmap, R.poffmap = m["row"], m["on"], m["off"]
            R.tA, R.sA = parse_triples(ta[r])
            if R.hasP == 1: R.tP, R.sP = parse_triples(tp[r])
            R.edges = int(ed[r][0]) if ed and ed[r] else None
            L.ranks.append(R)
        D.levels.append(L); l += 1
    return D

# ---------------------------------------------------------------- the property evaluated on the dump
def strength_has_edge(rows, n, theta, kind, owner=None):
    """exact re-evaluation of raptor's classical / symmetric strength (num_variables = 1): is there an
       off-diagonal strong entry, and is there one whose two unknowns live on the same rank?
       rows: list of dict col -> value (duplicates summed)"""
    neg = [False] * n; thr = [F0] * n
    for i in range(n):
        r = rows[i]
        if not r: continue
        diag = r.get(i, F0); off = [v for c, v in r.items() if c != i]
        if diag < 0:
            neg[i] = True; scale = max(off + [Fraction(-RAND_MAX)])
        else:
            scale = min(off + [Fraction(RAND_MAX)])
        thr[i] = scale * theta
    edge = local = False; S = [[] for _ in range(n)]
    for i in range(n):
        for c, v in rows[i].items():
            if c == i: continue
            strong = (neg[i] and v > thr[i]) or (not neg[i] and v < thr[i])
            if not strong and kind == 1 and 0 <= c < n:
                strong = (neg[c] and v > thr[c]) or (not neg[c] and v < thr[c])
            if strong:
                edge = True; S[i].append(c)
                if owner is None or (0 <= c < n and owner[i] == owner[c]): local = True
    # an edge i -> c whose target c has a strong dependency of its own (its row of S is not empty)
    dep = any(0 <= c < n and S[c] for i in range(n) for c in S[i])
    return edge, local, dep

def to_rows(trip, n):
    rows = [dict() for _ in range(n)]
    for (i, j, v) in trip:
        if 0 <= i < n: rows[i][j] = rows[i].get(j, F0) + v
    return rows

def int_rows(rows):
    """rows of dyadic Fractions -> (rows of Python ints, e) with value = int / 2**e  (exact; big ints are much faster
       than Fractions for the thousands of partial products of a level)"""
    e = 0
    for r in rows:
        for v in r.values():
            b = v.denominator.bit_length() - 1
            if b > e: e = b
    out = []
    for r in rows:
        out.append({c: v.numerator << (e - (v.denominator.bit_length() - 1)) for c, v in r.items()})
    return out, e

def exact_ptap(Arows, Prows, n, nc):
    """E = P^T A P exactly; returns (E rows: col -> int, shift s with value = int / 2**s, max #partial products,
       max abs-sum of partial products (Fraction), max column abs-sum of P (Fraction))"""
    Ai, ea = int_rows(Arows); Pi, ep = int_rows(Prows)
    if sum(len(Pi[m]) for k in range(n) for m in Ai[k] if 0 <= m < n) > WORK_CAP: return None
    AP = [None] * n
    for k in range(n):
        acc = {}
        for m, a in Ai[k].items():
            if not (0 <= m < n): continue
            for j, p in Pi[m].items():
                x = a * p
                e = acc.get(j)
                if e is None: acc[j] = [x, abs(x), 1]
                else: e[0] += x; e[1] += abs(x); e[2] += 1
        AP[k] = acc
    if sum(len(Pi[k]) * len(AP[k]) for k in range(n)) > WORK_CAP: return None
    E = {}; colsum = {}
    for k in range(n):
        for i, p in Pi[k].items():
            colsum[i] = colsum.get(i, 0) + abs(p)
            row = E.setdefault(i, {})
            ap = abs(p)
            for j, (v, av, cnt) in AP[k].items():
                e = row.get(j)
                if e is None: row[j] = [p * v, ap * av, cnt]
                else: e[0] += p * v; e[1] += ap * av; e[2] += cnt
    Nmax = 0; Tmax = 0
    for i, row in E.items():
        for j, (v, av, cnt) in row.items():
            if cnt > Nmax: Nmax = cnt
            if av > Tmax: Tmax = av
    s_ = ea + 2 * ep
    return E, s_, Nmax, Fraction(Tmax, 1 << s_), Fraction(max(list(colsum.values()) + [0]), 1 << ep)

def tol_of(Nmax, Tmax, Smax):
    t = Fraction(1, 10 ** 15) * (Nmax + 4) * Tmax + Fraction(2, 10 ** 15) * (1 + Smax)
    x = float(t) * (1 + 2.0 ** -50)               # a double >= t; both sides use exactly this number
    return x

def cont_cond(mc, ml, n, size):
    return n > mc and (ml == -1 or size < ml)

def evaluate(c, D):
    """-> (violations [(clause, level, text)], per-level clause bits as the checker computes them, model input line,
           notes dict).  Everything below is the property's own statement evaluated on the implementation's output."""
    V = []; bits = []; notes = {}; c["wfP"] = {}; toolarge = False
    np_ = D.np; L = D.levels; nlev = len(L)
    mc, ml = c["max_coarse"], c["max_levels"]
    # names and position numbering per level
    names = []; pos = []
    for lv in L:
        nm = [x for R in lv.ranks for x in R.rowmap]; names.append(nm)
        pos.append({x: k for k, x in enumerate(nm)})          # duplicates: last wins, flagged by maps clause
    nsz = [lv.ranks[0].grows for lv in L]
    if any(v != D.num_levels[0] for v in D.num_levels) or any(v != nlev for v in D.nsize) or D.num_levels[0] != nlev:
        V.append(("stop", 0, "num_levels %s / levels.size() %s / dumped %d disagree" % (D.num_levels, D.nsize, nlev)))
    mats = []
    for l, lv in enumerate(L):
        n = nsz[l]
        # position-space triples of A_l (unknown name -> index n, i.e. out of range)
        tA = []
        for R in lv.ranks:
            for (i, j, v), s in zip(R.tA, R.sA): tA.append((pos[l].get(i, n), pos[l].get(j, n), v, s))
        tP = None; ncP = None
        if l + 1 < nlev and all(R.hasP == 1 for R in lv.ranks):
            ncP = nsz[l + 1]; tP = []
            for R in lv.ranks:
                for (i, j, v), s in zip(R.tP, R.sP): tP.append((pos[l].get(i, n), pos[l + 1].get(j, ncP), v, s))
        mats.append((tA, tP, ncP))
    nonfinite = any(isinstance(t[2], str) for (tA, tP, _) in mats for t in (tA + (tP or [])))
    if nonfinite:
        V.append(("nonfinite", 0, "non-finite entry in a stored operator")); return V, None, None, notes
    model = [c["cid"], "dump", mc, ml, max(PROBE_LEVELS + 2, (ml if ml > 0 else 0) + 2), nlev, np_]
    for l, lv in enumerate(L):
        n = nsz[l]; tA, tP, ncP = mats[l]; last = (l + 1 == nlev)
        Arows = to_rows([(i, j, v) for (i, j, v, s) in tA], n)
        # ---- sizes_ok
        wfA = all(0 <= i < n and 0 <= j < n for (i, j, v, s) in tA)
        sizes = wfA and sum(R.lrows for R in lv.ranks) == n and sum(R.lcols for R in lv.ranks) == n and \
            all(R.grows == n and R.gcols == n and len(R.rowmap) == R.lrows and len(R.onmap) == R.lcols for R in lv.ranks)
        if not sizes: V.append(("sizes", l, "level %d: n=%d, local rows %s, local cols %s, global %s, entries in range: %s" % (
            l, n, [R.lrows for R in lv.ranks], [R.lcols for R in lv.ranks], [(R.grows, R.gcols) for R in lv.ranks], wfA)))
        # ---- vectors_ok
        vec = all(v == (n, R.lrows, R.lrows) for R in lv.ranks for v in (R.x, R.b, R.tmp))
        if not vec: V.append(("vectors", l, "level %d (n=%d, local rows %s): x %s b %s tmp %s" % (
            l, n, [R.lrows for R in lv.ranks], [R.x for R in lv.ranks], [R.b for R in lv.ranks], [R.tmp for R in lv.ranks])))
        # ---- maps_ok
        nmset = set(names[l])
        maps = len(nmset) == len(names[l]) and all(
            R.onmap == R.rowmap and all(x in nmset and x not in set(R.rowmap) for x in R.offmap) for R in lv.ranks)
        if not maps: V.append(("maps", l, "level %d: names %s...; off maps %s" % (l, names[l][:12], [R.offmap[:8] for R in lv.ranks])))
        # blocks: local CSR blocks as large as the maps (array bounds of the per-rank storage)
        if not D.seq:
            for R in lv.ranks:
                bl = R.blocks
                if bl[:4] != [R.lrows, R.lcols, R.lrows, len(R.offmap)] or R.offc != len(R.offmap):
                    V.append(("sizes", l, "level %d: local blocks of A %s vs rows %d, on cols %d, off cols %d/%d" % (
                        l, bl[:4], R.lrows, R.lcols, len(R.offmap), R.offc)))
                if R.hasP == 1 and (bl[4:8] != [R.plrows, R.plcols, R.plrows, len(R.poffmap)] or R.poffc != len(R.poffmap)):
                    V.append(("sizes", l, "level %d: local blocks of P %s vs rows %d, on cols %d, off cols %d" % (
                        l, bl[4:8], R.plrows, R.plcols, len(R.poffmap))))
        cont = cont_cond(mc, ml, n, l + 1)
        b = [sizes, vec, maps, cont]
        # ---- strength graph has an edge (exact re-evaluation; the library's own count must agree)
        edge = False; local_edge = True; dep_edge = True
        if c["nvars"] == 1:
            owner = [r for r, R in enumerate(lv.ranks) for _ in range(R.lrows)]
            mine, local_edge, dep_edge = strength_has_edge(Arows, n, c["theta"], c["strength"], owner if len(owner) == n else None)
            lib = [R.edges for R in lv.ranks]
            if None not in lib and (sum(lib) > 0) == mine: edge = mine
            else: notes["edge_flag_disagree"] = notes.get("edge_flag_disagree", 0) + 1
        else:
            notes["edge_flag_unknown_nvars"] = notes.get("edge_flag_unknown_nvars", 0) + 1
        tolx = 0.0
        if not last:
            n2 = nsz[l + 1]
            if not cont: V.append(("stop", l, "level %d has n=%d, max_coarse=%d, max_levels=%d: setup should have stopped here but built level %d" % (l, n, mc, ml, l + 1)))
            # ---- prolong_ok = dims + rank data + galerkin
            pro = tP is not None
            if not pro:
                V.append(("conformal", l, "level %d has a successor but no P on some rank" % l)); gal = False
            else:
                wfP = all(0 <= i < n and 0 <= j < n2 for (i, j, v, s) in tP)
                dims = wfP; c["wfP"][l] = wfP
                names2 = set(names[l + 1])
                for R, R2 in zip(lv.ranks, L[l + 1].ranks):
                    okr = R.pgrows == n and R.pgcols == n2 and R.plrows == R.lrows and R.plcols == R2.lrows
                    okm = R.prowmap == R.rowmap and R.ponmap == R2.rowmap and \
                        all(x in names2 and x not in set(R2.rowmap) for x in R.poffmap)
                    if not okr:
                        V.append(("conformal", l, "level %d: P is %dx%d (local %dx%d) but A_l has %d (local %d) rows and A_{l+1} %d (local %d)" % (
                            l, R.pgrows, R.pgcols, R.plrows, R.plcols, n, R.lrows, n2, R2.lrows)))
                    if not okm:
                        V.append(("maps", l, "level %d: P maps: rows %s.. on %s.. off %s.. vs next level rows %s.." % (
                            l, R.prowmap[:6], R.ponmap[:6], R.poffmap[:6], R2.rowmap[:6])))
                    dims = dims and okr and okm
                if not wfP: V.append(("conformal", l, "level %d: entry of P outside %dx%d" % (l, n, n2)))
                Prows = to_rows([(i, j, v) for (i, j, v, s) in tP], n)
                ep_ = exact_ptap(Arows, Prows, n, n2); skipgal = ep_ is None
                if skipgal:
                    notes["galerkin_skipped_too_large"] = notes.get("galerkin_skipped_too_large", 0) + 1; toolarge = True
                    ep_ = ({}, 0, 0, F0, F0)
                E, sh, Nmax, Tmax, Smax = ep_
                tolx = tol_of(Nmax, Tmax, Smax); tol = Fraction(tolx)
                A2rows, e2 = int_rows(to_rows([(i, j, v) for (i, j, v, s) in mats[l + 1][0]], max(n2, 0)))
                S_ = max(sh, e2); fa = S_ - e2; fe = S_ - sh
                tol_int = (tol.numerator << S_) // tol.denominator         # dlt/2^S <= tol  <=>  dlt <= floor(tol*2^S)
                gal = True; worst = None
                nrows2 = max([i + 1 for (i, j, v, s) in mats[l + 1][0]] + [n2])
                if nrows2 != n2: gal = False            # close_rows: row counts differ
                for i in ([] if skipgal else range(n2)):
                    ra = A2rows[i]; re = E.get(i, {})
                    for j in set(ra) | set(re):
                        va = ra.get(j, 0) << fa; ve = (re[j][0] << fe) if j in re else 0
                        dlt = abs(va - ve)
                        if dlt > tol_int:
                            gal = False
                            if worst is None or dlt > worst[0]: worst = (dlt, i, j, Fraction(va, 1 << S_), Fraction(ve, 1 << S_))
                if worst is not None: worst = (Fraction(worst[0], 1 << S_),) + worst[1:]
                if worst is not None:
                    V.append(("galerkin", l, "A_%d[%d,%d] = %.17g but (P^T A_%d P) = %.17g (difference %.3g > slack %.3g)" % (
                        l + 1, worst[1], worst[2], float(worst[3]), l, float(worst[4]), float(worst[0]), tolx)))
                elif not gal and wfP:
                    V.append(("galerkin", l, "A_%d has a row outside its %d rows" % (l + 1, n2)))
                pro = dims and gal
            # ---- coarsening_ok
            coa = n2 <= n and (not edge or n2 < n)
            if n2 > n: V.append(("monotone", l, "level %d has %d unknowns, level %d has %d" % (l, n, l + 1, n2)))
            elif edge and n2 == n:
                # ParRugeStubenSolver/RS runs the serial RS on the diagonal block only (levels 0-2): classified apart
                cl = "strict"
                if c["solver"] == "prs" and c["coarsen"] == 0 and l < 3 and not local_edge: cl = "strict_rs_local"
                # split_falgout: reset_boundaries un-assigns every boundary point after the local RS pass, CLJP then makes them C
                elif c["solver"] == "prs" and (c["coarsen"] == 2 or (c["coarsen"] == 0 and l >= 3)): cl = "strict_falgout"
                elif not dep_edge: cl = "strict_nodep"
                V.append((cl, l, "level %d has a strength edge%s%s but level %d has the same size %d" % (
                    l, "" if local_edge else " (none of them on-process)",
                    "" if dep_edge else " (but no edge whose target has a strong dependency of its own)", l + 1, n)))
            b += [pro, gal, coa]
        else:
            if cont: V.append(("stop", l, "coarsest level %d has n=%d > max_coarse=%d and %d levels < max_levels=%d: setup stopped early" % (l, n, mc, nlev, ml)))
            if any(R.hasP != 0 for R in lv.ranks): V.append(("conformal", l, "coarsest level stores a P"))
        bits.append(b)
        # ---- model input
        model += [n, len(tA)] + [x for (i, j, v, s) in tA for x in (i, j, s)]
        if tP is not None: model += [1, ncP, len(tP)] + [x for (i, j, v, s) in tP for x in (i, j, s)]
        else: model += [0]
        model += [1 if edge else 0, float(tolx).hex()]
        for R in lv.ranks:
            model += [R.grows, R.gcols, R.lrows, R.lcols, len(R.rowmap)] + R.rowmap + [len(R.onmap)] + R.onmap + \
                     [len(R.offmap)] + R.offmap + list(R.x) + list(R.b) + list(R.tmp)
            if R.hasP == 1:
                model += [1, R.pgrows, R.pgcols, R.plrows, R.plcols, len(R.prowmap)] + R.prowmap + [len(R.ponmap)] + R.ponmap + \
                         [len(R.poffmap)] + R.poffmap
            else: model += [0]
    if ml != -1 and nlev > max(1, ml): V.append(("stop", nlev - 1, "%d levels > max_levels %d" % (nlev, ml)))
    mline = " ".join(str(x) for x in model)
    if toolarge or len(mline) > MODEL_LINE_CAP:
        notes["model_skipped_too_large"] = 1; mline = None
    return V, bits, mline, notes

# ---------------------------------------------------------------- judging
def analyse(args):
    """pure part of the judgement (runs in a worker process): parse the dump of one case and evaluate the property"""
    c, res = args
    c = dict(c); r = dict(status="ok")
    try:
        if not res or res[0][0] == "CRASH" or not any(k == "DONE" for k, _ in res):
            return dict(status="crash", detail="setup crashed / hung / produced no hierarchy: %s" % ((res or [])[:1],))
        d = dict(res)
        if "NOSTOP" in d:
            # max_levels = -1 and coarsening stagnates: the unlimited setup would not return.  The probe hierarchy
            # (limit PROBE_LEVELS) is evaluated instead; it violates the property iff a stagnating level has a strength edge.
            c["max_levels"] = PROBE_LEVELS; r["nostop"] = True
        D = parse_dump(res, c["solver"] in ("rs", "sa"))
        if D is None or not D.levels:
            return dict(status="crash", detail="no levels dumped")
        V, bits, mline, notes = evaluate(c, D)
        r.update(V=V, bits=bits, mline=mline, notes=notes, wfP=c.get("wfP", {}), max_levels=c["max_levels"])
        r["levels"] = [dict(n=lv.ranks[0].grows, lrows=[R.lrows for R in lv.ranks], x=[R.x for R in lv.ranks],
                            b=[R.b for R in lv.ranks], tmp=[R.tmp for R in lv.ranks]) for lv in D.levels]
        r["coarse_n"] = D.coarse_n; r["cs"] = D.cs; r["seq"] = D.seq
        return r
    except Exception as e:
        import traceback
        return dict(status="error", detail="oracle failed on the dump: %s" % traceback.format_exc()[-600:])

def record(ctx, c, r):
    ctx.evaluations += 1
    ctx.count("solver_" + c["solver"]); ctx.count("P%d" % c["P"]) if c["solver"] in ("prs", "psa") else None
    ctx.count("kind_" + c["info"])
    if c["solver"] in ("rs", "prs"): ctx.count("coarsen%d_interp%d" % (c["coarsen"], c["interp"]))
    ctx.count("strength%d" % c["strength"]); ctx.count("tap%d" % c["tap"]); ctx.count("max_levels_%d" % c["max_levels"])
    if c["nvars"] > 1: ctx.count("nvars2")
    if r["status"] == "crash":
        ctx.signal("O", "hier:crash:" + c["solver"], r["detail"], case=c["line"]); return
    if r["status"] == "error":
        ctx.signal("K", "hier:oracle:" + c["solver"], r["detail"], case=c["line"]); return
    if r.get("nostop"): ctx.count("nostop_unlimited_levels"); c["nostop"] = True
    c["max_levels"] = r["max_levels"]; c["wfP"] = r["wfP"]; c["summary"] = r
    V = r["V"]
    for k, v in r["notes"].items(): ctx.count(k, v)
    L = r["levels"]; nlev = len(L)
    ctx.count("levels_%d" % min(nlev, 8))
    if nlev > 1: ctx.nontrivial.add(c["line"].split(" ", 1)[1][:4000])
    if any(any(x == 0 for x in lv["lrows"]) for lv in L if lv["n"] > 0): ctx.count("level_with_empty_rank")
    if any(lv["n"] == c["max_coarse"] for lv in L): ctx.count("level_size_eq_max_coarse")
    if L[-1]["n"] == 0: ctx.count("empty_coarsest")
    for (cl, l, txt) in V[:6]:
        if cl == "strict_rs_local": ctx.signal("O", "hier:strict:prs:rs_local", txt, case=c["line"])
        elif cl == "strict_nodep": ctx.signal("O", "hier:strict:%s:nodep_target" % c["solver"], txt, case=c["line"])
        elif cl == "strict_falgout": ctx.signal("O", "hier:strict:prs:falgout_boundary", txt, case=c["line"])
        else: ctx.signal("O", "hier:%s:%s" % (cl, c["solver"]), txt, case=c["line"])
    if c.get("nostop") and not any(cl.startswith("strict") for (cl, l, txt) in V):
        ctx.count("nostop_level_without_strength_edge")
        if len(ctx.notes) < 3:
            ctx.notes.append("max_levels=-1 (no depth limit) and a level larger than max_coarse without any strength edge: coarsening "
                             "stagnates (%s: every point C / singleton aggregates) and the unlimited setup would never return; evaluated with the "
                             "probe limit of %d levels; not a violation of C08 (no edge, no depth limit given). case %s" % (c["solver"], PROBE_LEVELS, c["cid"]))
    c["verdict"] = (not V); c["bits"] = r["bits"]; c["mline"] = r["mline"]

def judge_model(ctx, c, mres):
    """K: extracted checker and setup-loop model against the implementation / the Python evaluation"""
    if c.get("mline") is None: return
    R_ = c["summary"]; LV = R_["levels"]; sig = "hier:model:" + c["solver"]
    if not mres:
        ctx.signal("K", sig, "extracted checker produced no result", case=c["line"]); return
    m = {}
    for k, t in mres: m[k] = t
    if "HOK" not in m:
        ctx.signal("K", sig, "extracted checker failed: %s" % (mres[:2],), case=c["line"]); return
    ctx.compared += 1
    hok = m["HOK"][0] == "1"
    pybits_all = all(all(b[:3]) and (b[3] and b[4] and b[6] if len(b) > 4 else not b[3]) for b in c["bits"])
    if hok != pybits_all:
        ctx.signal("K", sig + ":hier_ok", "hier_ok = %s but the Python evaluation of the same clauses says %s" % (hok, pybits_all), case=c["line"])
    if hok != c["verdict"] and hok:
        ctx.signal("K", sig + ":verdict", "hier_ok accepts a hierarchy the oracle rejects", case=c["line"])
    for l, b in enumerate(c["bits"]):
        got = [x == "1" for x in m.get("CL%d" % l, [])]
        want = [bool(x) for x in b]
        # the product clauses are only meaningful (and only specified by the soundness theorem) on well-formed
        # operators of matching sizes; on ill-formed dumps both sides already report the sizes clause
        if len(want) > 4 and len(got) == len(want) and not (want[0] and c["bits"][l + 1][0] and c["wfP"].get(l, False)):
            got[4] = want[4]; got[5] = want[5]
        if got != want:
            ctx.signal("K", sig + ":clauses", "level %d: checker clauses %s, Python %s (sizes vectors maps cont [prolong galerkin coarsening])" % (l, got, b), case=c["line"])
    mo = m.get("MODEL")
    if mo is None: return
    nlev = len(LV); sizes = [lv["n"] for lv in LV]
    if mo[0] == "NONE":
        ctx.signal("K", sig + ":loop", "setup-loop model wants another level / runs out of fuel, implementation has %d levels %s" % (nlev, sizes), case=c["line"]); return
    def sect(a, b):
        i = mo.index(a); j = mo.index(b) if b else len(mo)
        return mo[i + 1:j]
    def groups(toks):
        out = [[]]
        for x in toks:
            if x == ";": out.append([])
            else: out[-1].append(x)
        return out
    msizes = [int(x) for x in sect("N", "PARTS")]
    mparts = [[int(x) for x in g] for g in groups(sect("PARTS", "X"))]
    mx = groups(sect("X", "CN"))
    mcn = int(sect("CN", "CS")[0]); mcs = [int(x) for x in sect("CS", "CD")]; mcd = [int(x) for x in sect("CD", None)]
    if int(mo[0]) != nlev or msizes != sizes:
        ctx.signal("K", sig + ":loop", "model: %s levels %s, implementation: %d levels %s" % (mo[0], msizes, nlev, sizes), case=c["line"]); return
    parts = [lv["lrows"] for lv in LV]
    if mparts != parts:
        ctx.signal("K", sig + ":parts", "model partitions %s, implementation %s" % (mparts, parts), case=c["line"])
    for l, lv in enumerate(LV):
        g, first = mx[l][0].split(":"); loc = [int(x) for x in ([first] if first else []) + mx[l][1:]]
        for r, lo in enumerate(loc):
            if r < len(lv["x"]) and any(tuple(v[r][:2]) != (int(g), lo) for v in (lv["x"], lv["b"], lv["tmp"])):
                ctx.signal("K", sig + ":vectors", "level %d rank %d: model vectors (%s,%d), implementation %s %s %s" % (
                    l, r, g, lo, lv["x"][r], lv["b"][r], lv["tmp"][r]), case=c["line"]); break
    if sizes[-1] > 0:
        act = [r for r, x in enumerate(LV[-1]["lrows"]) if x > 0]
        if any(R_["coarse_n"][r] != mcn for r in (act if not R_["seq"] else [0])):
            ctx.signal("K", sig + ":coarse_n", "coarse_n: model %d, implementation %s" % (mcn, R_["coarse_n"]), case=c["line"])
        if R_["cs"] is not None:
            for r in act:
                t = [int(x) for x in R_["cs"][r]]
                k = t[0]; cs = t[1:1 + k]; cd = t[2 + k:]
                if cs != mcs or cd != mcd:
                    ctx.signal("K", sig + ":coarse_sizes", "rank %d: coarse sizes/displs %s %s, model %s %s" % (r, cs, cd, mcs, mcd), case=c["line"]); break

def run(ctx):
    ctx.rule = ("matrices: random weighted graph Laplacians + shift, 5/9-point (anisotropic) grids, upwind convection-diffusion, "
                "the same with decoupled diagonal-only rows, diagonal, tiny (n <= max_coarse); n = 1..300; solvers RS/SA (1 process) "
                "and ParRS/ParSA on 1-4 processes with default/balanced/unbalanced/1-row/empty-block partitions; all coarsen x interp "
                "x strength, theta in {0,1/4,1/2,3/4,1}, max_coarse small, max_levels in {-1,0,1,2,3,4,25}, tap_amg in {-1,0,1,2}; "
                "non-trivial = hierarchy with >= 2 levels; distinct = distinct case text")
    per = ctx.scale(30, 300)
    allcases = []
    if ctx.replay:
        plan = {}
        for l in ctx.replay:
            c = case_from_line(l); P = c["P"] if c["P"] else 1
            if c["solver"] in ("rs", "sa"): P = 1
            plan.setdefault(P, []).append(c)
    else:
        plan = {P: gen_cases(ctx, P, per + (per // 2 if P == 1 else 0), P == 1) for P in (1, 2, 3, 4)}
        plan[6] = gen_cases(ctx, 6, ctx.scale(6, 30), False)          # three nodes of two ranks, non-local couplings
    import multiprocessing
    pool = multiprocessing.get_context("fork").Pool(ctx.scale(6, 12))
    pending = []
    try:
        for P, cases in sorted(plan.items()):
            for ppn in (["4"] if P < 4 else ["4", "2"] if P == 4 else ["2"]):
                sub = cases if P != 4 else ([c for c in cases if c["info"] != "nolocal"][0::2] if ppn == "4" else
                                            [c for c in cases if c["info"] != "nolocal"][1::2] + [c for c in cases if c["info"] == "nolocal"])
                if not sub: continue
                res, crashed = fw.run_impl_lines(ctx, "drv_hier", [c["line"] for c in sub], nprocs=P, env={"PPN": ppn},
                                                 timeout=ctx.scale(240, 1500), name="c08p%d_%s" % (P, ppn))
                # the exact evaluation of the dumps runs in worker processes while the next launch computes
                pending.append((sub, pool.map_async(analyse, [(c, res.get(c["cid"])) for c in sub], chunksize=4)))
                for c in sub: c["ppn"] = ppn
        for sub, ar in pending:
            for c, r in zip(sub, ar.get()):
                record(ctx, c, r)
                if len(ctx.samples) < 4 and c["n"] <= 12: ctx.sample(c["line"])
            allcases += sub
    finally:
        pool.close(); pool.join()
    ml = [c["mline"] for c in allcases if c.get("mline")]
    if ml and ctx.ocaml:
        model = run_model_parallel(ctx, ml)
        for c in allcases: judge_model(ctx, c, model.get(c["cid"]))

def run_model_parallel(ctx, lines, nproc=14):
    """the extracted checker is a pure function of one case line: run chunks of the case file concurrently"""
    import subprocess
    lines = sorted(lines, key=len, reverse=True)
    chunks = [[] for _ in range(nproc)]; load = [0] * nproc
    for ln in lines:                                   # greedy balancing, cost ~ (line length)^1.5
        k = load.index(min(load)); chunks[k].append(ln); load[k] += len(ln) ** 1.5
    procs = []
    for k, ch in enumerate(chunks):
        if not ch: continue
        cf = fw.write_cases(ctx, "c08.model.%d" % k, ch)
        procs.append(subprocess.Popen([ctx.ocaml, cf], stdout=subprocess.PIPE, stderr=subprocess.PIPE, text=True))
    model = {}
    for p in procs:
        try:
            out, err = p.communicate(timeout=ctx.scale(600, 3000))
        except subprocess.TimeoutExpired:
            p.kill(); out, err = p.communicate()
            ctx.signal("K", "modeldriver", "model driver timed out")
        if p.returncode != 0: ctx.signal("K", "modeldriver", "model driver exited with %s: %s" % (p.returncode, (err or "")[-400:]))
        model.update(fw.parse_out(out))
    return model
