#!/bin/sh
# Offline setup: full .vo build of the Coq development (never -vos), extraction, OCaml driver, libraptor from /repo.
set -e
cd "$(dirname "$0")"
python3 - <<'PY'
import sys, glob, os, importlib
sys.path.insert(0, "lib"); sys.path.insert(0, "props")
import buildlib, coqtools
coqtools.regen_makefile()
rc, log, wall = coqtools.make([], timeout=3000)
print("coq build rc=%s in %.0fs" % (rc, wall)); print(log[-1500:] if rc else "")
print("libraptor:", buildlib.build_lib())
seen = set()
for f in sorted(glob.glob("props/C*.py")):
    try:
        mod = importlib.import_module(os.path.basename(f)[:-3])
    except Exception as e:
        print("skip", f, e); continue
    fam = getattr(mod, "FAMILY", "sparse")
    if fam in seen: continue
    seen.add(fam)
    try:
        print("model driver:", coqtools.build_extracted(getattr(mod, "FAMILY", "sparse"), getattr(mod, "OCAML_SRCS", ("conv.ml", "mat.ml", "drv_sparse.ml"))))
    except Exception as e:
        print("model driver failed:", e)
PY
