#!/bin/sh
# Offline setup: full .vo build of the Coq development (never -vos), extraction, OCaml driver, libraptor from /repo.
set -e
cd "$(dirname "$0")"
( cd coq && coq_makefile -f _CoqProject -o Makefile >/dev/null && timeout 3000 make -k -j16 ) || true
python3 - <<'PY'
import sys; sys.path.insert(0, "lib")
import buildlib, coqtools
print("libraptor:", buildlib.build_lib())
try:
    print("model driver:", coqtools.build_extracted())
except Exception as e:
    print("model driver failed:", e)
PY
