#!/bin/sh
# usage: verify_mutation.sh <worktree> <mdir>   -- re-confirm a seeded change in its scratch worktree:
#   with the patch: builds, ctest passes, demo FAILS; without: demo PASSES.  Prints one summary line.
WT=$1; MD=$2
export OMPI_ALLOW_RUN_AS_ROOT=1 OMPI_ALLOW_RUN_AS_ROOT_CONFIRM=1 OMPI_MCA_rmaps_base_oversubscribe=1 OMPI_MCA_btl_vader_single_copy_mechanism=none
cd $WT || exit 2
git checkout -q -- . 
git apply $MD/patch.diff || { echo "RESULT $MD patch-does-not-apply"; exit 1; }
cmake --build _build -j8 -- -k 0 >/tmp/vm_build.log 2>&1
nerr=$(grep -c "FAILED:" /tmp/vm_build.log)
( cd $MD && bash ./run.sh >/tmp/vm_demo_with.log 2>&1 ); with=$?
ctest --test-dir _build -j4 --timeout 900 >/tmp/vm_ctest.log 2>&1; ct=$?
passed=$(grep -o "[0-9]*% tests passed, [0-9]* tests failed out of [0-9]*" /tmp/vm_ctest.log)
git checkout -q -- .
cmake --build _build -j8 -- -k 0 >/tmp/vm_build2.log 2>&1
( cd $MD && bash ./run.sh >/tmp/vm_demo_without.log 2>&1 ); without=$?
echo "RESULT $MD build_failed_targets=$nerr demo_with_patch_rc=$with ctest_rc=$ct [$passed] demo_without_patch_rc=$without"
