#!/bin/sh
# usage: try_mutation.sh <patch.diff> <check id> [<check id>...]  -- run checks against a private copy of /repo with the patch applied
P=$1; shift
D=$(mktemp -d /tmp/mutrun-XXXXXX)
mkdir -p $D && cp -r /repo/raptor $D/raptor
( cd $D && git init -q . && git apply $P ) || { echo "patch does not apply"; rm -rf $D; exit 2; }
cd /verif
for id in "$@"; do
  RAPTOR_REPO=$D ./check $id --tier quick > $D/out_$id.txt 2>&1; rc=$?
  echo "== $id rc=$rc"; grep -m3 "VIOLATION\|^  \[" $D/out_$id.txt; tail -1 $D/out_$id.txt
done
rm -rf $D
