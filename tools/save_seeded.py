#!/usr/bin/env python3
"""save_seeded.py <ID> <mdir> <name> <detected text> [<checks_run>] -- copy a confirmed seeded change into /verif/seeded/<name>/"""
import sys, os, json, shutil
pid, md, name, detected = sys.argv[1:5]
checks = sys.argv[5] if len(sys.argv) > 5 else "RAPTOR_REPO=<copy+patch> ./check %s -> exit 1" % pid
dst = os.path.join("/verif/seeded", name); os.makedirs(dst, exist_ok=True)
for f in os.listdir(md):
    p = os.path.join(md, f)
    if os.path.isfile(p) and os.path.getsize(p) < 200000 and not os.access(p, os.X_OK) or f in ("run.sh",):
        shutil.copy(p, os.path.join(dst, f))
m = json.load(open(os.path.join(md, "meta.json"))) if os.path.exists(os.path.join(md, "meta.json")) else {}
m["property"] = pid
m["confirmed_by_coordinator"] = "tools/verify_mutation.sh in scratch worktree: builds, ctest 62/62 with the change, demo fails with / passes without"
m["detected"] = detected; m["checks_run"] = checks
json.dump(m, open(os.path.join(dst, "meta.json"), "w"), indent=1)
print(dst, sorted(os.listdir(dst)))
