"""Round-3 prompt: the round-1 prompt plus the list of change sites earlier agents already used (from their own reports,
so that a new agent explores other mechanisms) and an optional focus sentence.  usage: mut_prompt3.py <ID> <dirtag> [focus]"""
import json, sys, os, subprocess
pid, tag = sys.argv[1], sys.argv[2]
focus = sys.argv[3] if len(sys.argv) > 3 else ""
base = subprocess.run([sys.executable, os.path.join(os.path.dirname(__file__), "mut_prompt.py"), pid], capture_output=True, text=True).stdout
base = base.replace("/tmp/mut-%s" % pid, "/tmp/%s-%s" % (tag, pid))
used = []
sd = "/verif/seeded"
for d in sorted(os.listdir(sd)):
    m = json.load(open(os.path.join(sd, d, "meta.json")))
    files = m.get("files") or []
    if m.get("property") == pid or any(f in base for f in files):
        used.append("- %s: %s" % (", ".join(files)[:120], (m.get("what") or "")[:220]))
extra = "\n\nOther people have ALREADY explored the following change sites; do not reuse them or close variants of them, pick different functions and mechanisms:\n" + "\n".join(used[:25])
if focus:
    extra += "\n\n" + focus
    base = base.replace("Stay with the scalar (non-block) classes. ", "")
marker = "\n\nHow to build and test in your worktree"
print(base.replace(marker, extra + marker, 1))
