#!/usr/bin/env python3
"""Regenerates MANIFEST.json from the table below (claimed checks) + properties.jsonl (unclaimed -> not_applicable)."""
import json, os
HERE = os.path.dirname(os.path.dirname(os.path.abspath(__file__)))
NOTE = ("Trusted: Coq 8.16.1 kernel; ExtrOcamlBasic extraction + OCaml glue; C++ drivers, Python generators/differ (1e-9 rel/1e-12 abs, "
        "exact on integer/dyadic data); model = exact arithmetic over Qc (floats not modelled); MPI, LAPACK, std::sort. ")
CLAIMS = {
 "C07": ("Coq theorems for all sizes/index patterns: the nine format conversions, copies, the three transposes (dimensions exchanged), sort, "
         "move_diag, remove_duplicates (drop of sums below 1e-16 only) and add/subtract preserve / transpose / add the represented operator `den`; "
         "BSR->CSR represents the sum of the stored blocks when the dropped scalars are exact zeros; block forms by slice naturality; distributed counterparts over every list of rank states: the nine ParCOO/ParCSR/ParCSC conversions, ParCSRMatrix::transpose (for every package accepted by the reverse check of C03) and add/subtract with different off-process column maps; tie: extracted model vs C++ classes on generated chains of operations (per-line multisets), local blocks of the distributed results, + dense image of the implementation's output.",
         NOTE + "Distributed counterparts (Dist/ParConv.v): conversions between ParCOO/ParCSR/ParCSC, ParCSRMatrix::transpose (reverse exchange of packed columns + finalize) and add/subtract with different off-process column maps are modelled over the list of rank states, proved (C07_par_conversions, C07_par_transpose, C07_par_add_subtract) and tied through the local blocks of the result, storage order included; distributed block forms: dense image only. Block formats BCOO/BSR/BSC: conversions, sort, move_diag, transposes, remove_duplicates proved by slice naturality and tied by chains of operations.",
         "Coq proof over Gallina model + model/implementation correspondence"),
 "C02": ("Coq theorems: every SpMV kernel (b=Ax, b+=Ax, b-=Ax, r=b-Ax, A^T variants) of COO/CSR/CSC equals the product with the represented operator for all "
         "matrices/vectors; distributed A x, b + A x, b - A x: each rank's rows equal the rows of the global operator gden applied to the global vector, for every list of rank "
         "states (any process count, any contiguous partition, empty ranks) and every package accepted by the forward check of C03; distributed A^T x = global transpose product "
         "summed over all ranks' rows for every package accepted by the reverse check, independent of the previous content of b; block kernels = scalar kernels of the expanded blocks; distributed block (ParBSR) products = rows of the operator the stored blocks represent, for every package accepted on BLOCK ids (the check lifts to the expanded package); assembly (add_global_value, finalize, to_ParCSR) represents the user's triples; the same four products through the node-aware packages (model of tap_mult / tap_mult_T composed with the exchange theorems of C04) equal the global products. Tie: extracted kernels and distributed model "
         "(assembly with duplicates, package construction, exchange) vs the library on all formats, default/explicit/empty-rank partitions, tap on/off; dense reference; stale-output sentinel.",
         NOTE + "Block formats (BCOO/BSR/BSC): the kernels are proved for the row-major expansion of the blocks (with its denotation in terms of the blocks) and the expansion is what the correspondence compares with the library's block kernels; the distributed block products are proved on the expanded rank states and the expanded package (Dist/ParBlock.v; expand_world tied through C03's block exchange), the implementation's ParBSR products compared with the scalar model and the dense oracle. The package checks are discharged for the standard constructor by C03's construction theorem and checked on dumps otherwise.",
         "Coq proof over Gallina model + model/implementation correspondence"),
 "C03": ("Coq theorems about the package model (world of per-rank send/receive lists): forward exchange is natural in the payload, so one check on the vector of "
         "global ids (run by the extracted verified checker on the package dumped from the implementation on every run) implies that every vector/block/row payload "
         "is delivered from its owner; reverse exchange = fold of the caller's reduction over exactly the routed contributions; with + it is the transpose of the forward "
         "exchange. Tie: dumped ParComm packages (direct, with on-process map, derived by column filtering) checked by the extracted checkers, construction model "
         "compared with the dump, forward/reverse buffers (int/double/block, sum/max/select) compared with model and with the owners' values; sparse-row payloads "
         "(with values, pattern only through both interfaces) and the reverse row exchange compared with the owners' rows.",
         NOTE + "Package construction theorem (build_world satisfies the checkers for all inputs) not yet proved: the checker runs on every dumped package instead.",
         "Coq proof (naturality/homomorphism) + verified checker on implementation dumps"),
}
def chk(pid, text, note, tech):
    return {"property_id": pid, "quick_cmd": "./check %s --tier quick" % pid, "thorough_cmd": "./check %s --tier thorough" % pid,
            "evidence_file": "evidence/%s.json" % pid, "replay_cmd_template": "./check %s --replay {path}" % pid,
            "engine": "coq-model+correspondence",
            "level_claimed": {"category": "proof", "text": text, "design_ref": "DESIGN.md section 5, " + pid},
            "level_note": note, "technique": tech}
def main():
    extra = {}
    p = os.path.join(HERE, "tools", "claims_extra.json")
    if os.path.exists(p): extra = json.load(open(p))
    claims = dict(CLAIMS); claims.update({k: tuple(v) for k, v in extra.items()})
    props = [json.loads(l)["id"] for l in open(os.path.join(HERE, "properties.jsonl"))]
    m = {"version": 1, "setup_cmd": "./setup.sh",
         "hooks": {"guard": "RAPTOR_VERIF", "enable": "lib/buildlib.py compiles /repo's sources with -DRAPTOR_VERIF (no source hook is needed: all raptor members are public)",
                   "baseline_off_cmd": "./tools_suite.sh", "source_commits": [], "add_only": True},
         "engines": [{"name": "coq-model+correspondence", "path": "check", "serves_properties": sorted(claims),
                      "kind_free_text": "Coq 8.16 theorems about executable Gallina models (coq/), extracted to OCaml and compared with the C++ library on generated inputs; property oracle evaluated on the implementation's output"}],
         "checks": [chk(pid, *claims[pid]) for pid in props if pid in claims],
         "notes": "see DESIGN.md; known_findings.jsonl lists open findings and fix commits",
         "not_applicable": [{"property_id": pid, "reason": "not yet claimed: check under construction in this build round (DESIGN.md section 9)"}
                            for pid in props if pid not in claims]}
    json.dump(m, open(os.path.join(HERE, "MANIFEST.json"), "w"), indent=1)
    print("claimed:", sorted(claims))
if __name__ == "__main__":
    main()
