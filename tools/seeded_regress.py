#!/usr/bin/env python3
"""Re-runs every kept seeded change against the checks that are recorded as catching it (first ./check id of checks_run with 'exit 1'),
for the given seeds; prints one line per (change, seed).  usage: seeded_regress.py [seed ...]"""
import json, os, re, subprocess, sys, tempfile, shutil
seeds = sys.argv[1:] or ["2"]
sd = "/verif/seeded"
only = [x for x in os.environ.get("REG_ONLY", "").split(",") if x]       # REG_ONLY=C07,C13: only changes caught by these checks
for d in sorted(os.listdir(sd)):
    m = json.load(open(os.path.join(sd, d, "meta.json")))
    txt = (m.get("checks_run") or "") + " " + (m.get("detected") or "")
    ids = re.findall(r"\./check (C\d\d)[^;]*?-> exit 1|\./check (C\d\d)[^;]*?exit 0 before / exit 1 after|caught by \./check (C\d\d)", txt)
    ids = [x for t in ids for x in t if x] or [m.get("property")]
    cid = ids[0]
    if only and cid not in only: continue
    for s in seeds:
        D = tempfile.mkdtemp(prefix="mutreg-", dir="/tmp")
        try:
            shutil.copytree("/repo/raptor", os.path.join(D, "raptor"))
            subprocess.run(["git", "init", "-q", "."], cwd=D)
            r = subprocess.run(["git", "apply", os.path.join(sd, d, "patch.diff")], cwd=D, capture_output=True, text=True)
            if r.returncode != 0:
                print(d, cid, "seed", s, "PATCH-DOES-NOT-APPLY", flush=True); continue
            env = dict(os.environ, RAPTOR_REPO=D, VERIF_SEED=s)
            r = subprocess.run(["./check", cid, "--tier", "quick"], cwd="/verif", env=env, capture_output=True, text=True)
            last = (r.stdout.strip().splitlines() or [""])[-1]
            print(d, cid, "seed", s, "rc=%d" % r.returncode, last[-90:], flush=True)
        finally:
            shutil.rmtree(D, ignore_errors=True)
