#!/bin/sh
# make inside coq/ under the same lock the checks take (a check deletes and rebuilds Props/*.vo; two makes must not overlap)
cd "$(dirname "$0")/../coq" || exit 2
mkdir -p ../.cache
exec flock ../.cache/lock make "$@"
