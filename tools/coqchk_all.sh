#!/bin/sh
# Re-checks every compiled property file (and everything it depends on) with Coq's independent checker and lists
# the axioms the loaded libraries rely on. Takes ~1 min per property; not part of the per-change checks.
cd "$(dirname "$0")/../coq" || exit 2
out=../reports/coqchk.txt; : > $out
for f in Props/Properties_C*.v; do
  m=$(basename $f .v)
  echo "== $m" >> $out
  timeout 1800 coqchk -o -silent -Q . Raptor Raptor.Props.$m 2>&1 | sed -n '/CONTEXT SUMMARY/,$p' >> $out
done
grep -c "Axioms: <none>" $out
