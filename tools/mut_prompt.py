import json,sys
pid=sys.argv[1]
for l in open('/verif/properties.jsonl'):
    p=json.loads(l)
    if p['id']==pid:
        print(f"""You are testing how well a semantic property of the C++/MPI library raptor (an algebraic multigrid solver; sources in your own git worktree /tmp/mut-{pid}) can be defended. You work ONLY inside /tmp/mut-{pid} (a scratch git worktree of the repository; never touch /repo or /verif, and do not look into /verif). The sandbox is offline.

The property ({pid}: {p['title']}):
STATEMENT: {p['statement']}
QUANTIFIER: {p['quantifier']['text']}
CODE IT IS ANCHORED IN: {', '.join(p['anchors']['files'])}

Your job: produce THREE different, realistic changes to raptor (each a small patch such as a developer could make by mistake or as a plausible 'optimisation'/'cleanup') that each BREAK this property, while the library still compiles and the repository's existing test suite still passes. Prefer changes that need something specific to manifest — an unusual input (rectangular, empty rank, rows < processes, duplicates, non-symmetric, weight != 1, block size > 1 ...), a particular partition or process count, a multi-step sequence of operations, a particular message arrival order, or two cooperating sites that each look fine alone — NOT changes that ordinary use would expose at once. Each of the three should touch a different mechanism/site. Stay with the scalar (non-block) classes. Known limitation you must not rely on: the topology-aware (TAP) package fails when PPN does not divide the process count.

How to build and test in your worktree (takes a few minutes; the machine is shared, be patient):
  cd /tmp/mut-{pid} && cmake -G Ninja -B _build -S . -DFETCHCONTENT_SOURCE_DIR_GOOGLETEST=/usr/src/googletest >/dev/null && cmake --build _build -j6 -- -k 0   (the target examples/benchmark_spmv fails to link in the pristine tree too: ignore exactly that failure)
  export OMPI_ALLOW_RUN_AS_ROOT=1 OMPI_ALLOW_RUN_AS_ROOT_CONFIRM=1 OMPI_MCA_rmaps_base_oversubscribe=1 OMPI_MCA_btl_vader_single_copy_mechanism=none
  ctest --test-dir _build -j4 --timeout 900        (62 tests, all pass on the pristine tree)
For each change i = 1,2,3 deliver in /tmp/mut-{pid}/MUTATION/m<i>/ :
  patch.diff   (output of `git diff` for that change alone, applicable with `git apply` to the pristine worktree HEAD)
  demo.cpp (+ run.sh)  a small standalone program using only raptor's public API (include "raptor/raptor.hpp"; compile e.g. with `mpicxx -std=c++11 -O1 -w -I/tmp/mut-{pid} demo.cpp -L/tmp/mut-{pid}/_build/lib -lraptor -llapack -lblas -Wl,-rpath,/tmp/mut-{pid}/_build/lib`, run with mpirun -n <P> if distributed) that exits 0 / prints PASS on the pristine tree and exits non-zero / prints FAIL with the change applied, by checking the property itself (e.g. against a dense reference computed in the demo);
  meta.json    {{"property":"{pid}","what":"one sentence: what the change does","needs":"what is needed for it to manifest","files":[...],"ran":"what you ran to confirm (build, ctest result, demo before/after)"}}
You MUST actually confirm, for each change: (a) it compiles, (b) ctest still passes 62/62 (report the numbers), (c) the demo passes without and fails with the change. Work on one change at a time: apply, build, test, record `git diff > MUTATION/m<i>/patch.diff`, then `git checkout -- .` (keep the untracked MUTATION dir and _build) before the next one. Rebuilds after a small change are incremental (fast). If a change turns out to be caught by the existing tests, discard it and find another. Finish with the worktree clean except for MUTATION/ and _build/. Final message: a short table of the three changes (site, effect, what it needs to manifest, confirmation results).""")
