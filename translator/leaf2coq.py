#!/usr/bin/env python3
"""leaf2coq: clang JSON AST -> Gallina (over Z) for raptor's leaf integer arithmetic.

Translated from what the headers say NOW (every ./check C18 run):
  Topology::get_node, Topology::get_local_proc, Topology::get_global_proc        (whole bodies)
  Topology::Topology(int,int)           the num_nodes computation (slice between the first write of
                                         `num_nodes` and the `get_node` call)
  Partition::Partition(index_t,index_t,Topology*)   everything before `create_assumed_partition()`
                                         (row block, clamp, column block, last_local_*)

Semantics of the translation (all C++ values are `int`; overflow is NOT modelled):
  /  -> Z.quot     %  -> Z.rem     + - * unary-  -> Z ops      < > <= >= == !=  -> Z.ltb ... (bool)
  && || !  -> andb orb negb        int used as condition -> negb (x =? 0)
  x = e; x op= e; x++; x--  (statement level only)  -> let x := ... in
  if / else  -> `let '(w1,..,wn) := if c then ... (w1,..,wn) else ... (w1,..,wn) in` over the variables
                written in either branch; when a branch returns, the continuation is duplicated instead
  return e   -> the value of the function
  RAPtor_MPI_Comm_rank(RAPtor_MPI_COMM_WORLD,&x) -> let x := mpi_rank ;  ..._size -> let x := mpi_size
  printf(...) -> nothing (output is not modelled)
  every divisor d of a `/` or `%` that is evaluated adds  ok := ok && negb (d =? 0)   (division by zero is
  undefined behaviour in C++; Z.quot x 0 = 0 in Coq, so definedness is carried explicitly)
  reading a variable that is not definitely assigned, or any construct not listed here -> TranslateError
  (the caller reports it as signal "T"); nothing is guessed.
"""
import hashlib, json, os, subprocess, sys, tempfile, shutil

class TranslateError(Exception):
    pass

INT_TYPES = {"int", "raptor::index_t", "index_t", "const int", "const raptor::index_t"}
RESERVED = {"in", "let", "fun", "if", "then", "else", "match", "with", "end", "forall", "exists", "fix", "cofix",
            "as", "at", "return", "Type", "Prop", "Set", "SProp", "where", "using", "for", "Z", "bool", "true", "false",
            "negb", "andb", "orb", "ok", "mpi_rank", "mpi_size", "pair", "fst", "snd", "_"}
OK = "ok"

# ------------------------------------------------------------------ clang
def clang_dump(repo, qualified_class):
    """JSON AST objects matching -ast-dump-filter=<qualified_class>; clang must report no error."""
    tmp = tempfile.mkdtemp(prefix="leaf2coq-")
    try:
        tu = os.path.join(tmp, "tu.cpp")
        with open(tu, "w") as f:
            f.write('#include "raptor/core/mpi_types.hpp"\n#include "raptor/core/partition.hpp"\n')
        cmd = ["clang++", "-std=c++11", "-fsyntax-only", "-I" + repo, "-I" + os.path.join(repo, "raptor"),
               "-I/usr/lib/x86_64-linux-gnu/openmpi/include", "-DUSING_MPI", "-w",
               "-Xclang", "-ast-dump=json", "-Xclang", "-ast-dump-filter=" + qualified_class, tu]
        p = subprocess.run(cmd, capture_output=True, text=True, timeout=300)
        if p.returncode != 0:
            raise TranslateError("clang failed on the headers (rc=%d): %s" % (p.returncode, p.stderr[-1500:]))
        s = p.stdout
    finally:
        shutil.rmtree(tmp, ignore_errors=True)
    dec = json.JSONDecoder(); i = 0; out = []
    while True:
        while i < len(s) and s[i] != "{":
            i += 1
        if i >= len(s): break
        o, i = dec.raw_decode(s, i); out.append(o)
    return out

def find_class(objs, name):
    c = [o for o in objs if o.get("kind") == "CXXRecordDecl" and o.get("name") == name and o.get("inner")]
    if len(c) != 1:
        raise TranslateError("expected exactly one definition of class %s in the AST dump, found %d" % (name, len(c)))
    return c[0]

def find_member(cls, kind, name, qualtype):
    c = [m for m in cls.get("inner", []) if m.get("kind") == kind and m.get("name") == name
         and m.get("type", {}).get("qualType") == qualtype and not m.get("isImplicit")]
    if len(c) != 1:
        raise TranslateError("expected exactly one %s %s of type `%s`, found %d (signature changed?)"
                             % (kind, name, qualtype, len(c)))
    return c[0]

def body_of(fn):
    b = [n for n in fn.get("inner", []) if n.get("kind") == "CompoundStmt"]
    if len(b) != 1:
        raise TranslateError("function %s has no body" % fn.get("name"))
    return b[0]

def where(n):
    r = n.get("range", {}).get("begin", {})
    l = r.get("line") or r.get("spellingLoc", {}).get("line") or r.get("expansionLoc", {}).get("line")
    return "%s@line %s col %s" % (n.get("kind"), l if l else "?", r.get("col", "?"))

# ------------------------------------------------------------------ expression IR
# ('var', name) ('lit', int) ('bin', op, a, b) ('neg', a) ('cmp', op, a, b) ('and', a, b) ('or', a, b) ('not', a)
# ('nz', a)  int -> bool      ('b2z', a)  bool -> int     ('true',)
def qualtype(n):
    t = n.get("type", {})
    return t.get("qualType")

def desugared_int(n):
    t = n.get("type", {})
    return t.get("qualType") in INT_TYPES or t.get("desugaredQualType") in INT_TYPES

def strip_parens(n):
    while n.get("kind") == "ParenExpr":
        n = n["inner"][0]
    return n

def lvalue_name(n):
    """name of an int lvalue: local/param (DeclRefExpr) or field of *this (MemberExpr on this)"""
    n = strip_parens(n)
    if n.get("kind") == "DeclRefExpr":
        rd = n.get("referencedDecl", {})
        if rd.get("kind") not in ("VarDecl", "ParmVarDecl"):
            raise TranslateError("reference to %s is not supported (%s)" % (rd.get("kind"), where(n)))
        if not desugared_int(n):
            raise TranslateError("variable %s has non-int type %s (%s)" % (rd.get("name"), qualtype(n), where(n)))
        return check_name(rd.get("name"))
    if n.get("kind") == "MemberExpr":
        base = n["inner"][0]
        if base.get("kind") != "CXXThisExpr":
            raise TranslateError("member access through something other than `this` (%s)" % where(n))
        if not desugared_int(n):
            raise TranslateError("field %s has non-int type %s (%s)" % (n.get("name"), qualtype(n), where(n)))
        return check_name(n.get("name"))
    raise TranslateError("unsupported lvalue %s" % where(n))

def check_name(nm):
    if not nm or nm in RESERVED or not all(c.isalnum() or c == "_" for c in nm) or nm[0].isdigit():
        raise TranslateError("identifier `%s` cannot be used in the generated Gallina" % nm)
    return nm

class Ex:
    """expression translation; collects divisors in evaluation order"""
    def __init__(self, defined):
        self.defined = defined; self.divisors = []
    def rd(self, name, n):
        if name not in self.defined:
            raise TranslateError("`%s` is read before it is definitely assigned (%s)" % (name, where(n)))
        return ("var", name)
    def int_(self, n, guarded=False):
        k = n.get("kind")
        if k == "ParenExpr": return self.int_(n["inner"][0], guarded)
        if k == "IntegerLiteral":
            return ("lit", int(n["value"]))
        if k == "ImplicitCastExpr":
            ck = n.get("castKind")
            if ck == "LValueToRValue":
                return self.rd(lvalue_name(n["inner"][0]), n)
            if ck in ("IntegralCast", "NoOp"):
                sub = n["inner"][0]
                if qualtype(sub) == "bool": return ("b2z", self.bool_(sub, guarded))
                if desugared_int(n) and desugared_int(sub): return self.int_(sub, guarded)
            raise TranslateError("unsupported cast %s to %s (%s)" % (ck, qualtype(n), where(n)))
        if k == "UnaryOperator":
            op = n.get("opcode")
            if op == "-": return ("neg", self.int_(n["inner"][0], guarded))
            if op == "+": return self.int_(n["inner"][0], guarded)
            raise TranslateError("unsupported unary operator `%s` inside an expression (%s)" % (op, where(n)))
        if k == "BinaryOperator":
            op = n.get("opcode")
            if not desugared_int(n):
                raise TranslateError("arithmetic at type %s (%s)" % (qualtype(n), where(n)))
            if op in ("+", "-", "*"):
                a = self.int_(n["inner"][0], guarded); b = self.int_(n["inner"][1], guarded)
                return ("bin", op, a, b)
            if op in ("/", "%"):
                a = self.int_(n["inner"][0], guarded); b = self.int_(n["inner"][1], guarded)
                if guarded:
                    raise TranslateError("division under a short-circuit operator is not supported (%s)" % where(n))
                self.divisors.append(b)
                return ("bin", op, a, b)
            raise TranslateError("unsupported binary operator `%s` at int type (%s)" % (op, where(n)))
        raise TranslateError("unsupported int expression %s" % where(n))
    def bool_(self, n, guarded=False):
        k = n.get("kind")
        if k == "ParenExpr": return self.bool_(n["inner"][0], guarded)
        if k == "ImplicitCastExpr":
            ck = n.get("castKind")
            if ck == "IntegralToBoolean": return ("nz", self.int_(n["inner"][0], guarded))
            if ck in ("NoOp",) and qualtype(n["inner"][0]) == "bool": return self.bool_(n["inner"][0], guarded)
            if ck == "LValueToRValue":
                raise TranslateError("bool variables are not supported (%s)" % where(n))
            raise TranslateError("unsupported cast %s to bool (%s)" % (ck, where(n)))
        if k == "CXXBoolLiteralExpr":
            return ("true",) if n.get("value") else ("not", ("true",))
        if k == "UnaryOperator" and n.get("opcode") == "!":
            return ("not", self.bool_(n["inner"][0], guarded))
        if k == "BinaryOperator":
            op = n.get("opcode")
            if op in ("<", ">", "<=", ">=", "==", "!="):
                l, r = n["inner"]
                if qualtype(l) == "bool" or qualtype(r) == "bool":
                    raise TranslateError("comparison of bool operands (%s)" % where(n))
                return ("cmp", op, self.int_(l, guarded), self.int_(r, guarded))
            if op in ("&&", "||"):
                a = self.bool_(n["inner"][0], guarded); b = self.bool_(n["inner"][1], True)
                return ("and" if op == "&&" else "or", a, b)
            raise TranslateError("unsupported binary operator `%s` at bool type (%s)" % (op, where(n)))
        raise TranslateError("unsupported condition %s" % where(n))
    def cond(self, n):
        if qualtype(n) == "bool": return self.bool_(n)
        raise TranslateError("condition of type %s (%s)" % (qualtype(n), where(n)))

def pe(e, prec=0):
    """print expression IR as Gallina"""
    k = e[0]
    if k == "var": return e[1]
    if k == "lit": return str(e[1]) if e[1] >= 0 else "(%d)" % e[1]
    if k == "true": return "true"
    if k == "neg": return "(- %s)" % pe(e[1], 9)
    if k == "bin":
        op = e[1]
        if op in ("/", "%"):
            s = "%s %s %s" % ("Z.quot" if op == "/" else "Z.rem", pe(e[2], 9), pe(e[3], 9)); p = 8
        elif op == "*":
            s = "%s * %s" % (pe(e[2], 4), pe(e[3], 5)); p = 4
        else:
            s = "%s %s %s" % (pe(e[2], 3), op, pe(e[3], 4)); p = 3
        return "(%s)" % s if prec > p else s
    if k == "cmp":
        op = {"<": "<?", ">": ">?", "<=": "<=?", ">=": ">=?", "==": "=?"}.get(e[1])
        if e[1] == "!=": return "negb (%s =? %s)" % (pe(e[2], 3), pe(e[3], 3)) if prec < 9 else "(negb (%s =? %s))" % (pe(e[2], 3), pe(e[3], 3))
        s = "%s %s %s" % (pe(e[2], 3), op, pe(e[3], 3))
        return "(%s)" % s if prec > 1 else s
    if k == "and": return "(%s && %s)" % (pe(e[1], 2), pe(e[2], 2))
    if k == "or": return "(%s || %s)" % (pe(e[1], 2), pe(e[2], 2))
    if k == "not": return "(negb %s)" % pe(e[1], 9)
    if k == "nz": return "(negb (%s =? 0))" % pe(e[1], 3)
    if k == "b2z": return "(if %s then 1 else 0)" % pe(e[1], 0)
    raise TranslateError("internal: expression IR " + repr(e))

def fv_e(e, acc):
    if e[0] == "var": acc.add(e[1])
    else:
        for x in e[1:]:
            if isinstance(x, tuple): fv_e(x, acc)
    return acc

# ------------------------------------------------------------------ body IR
# ('let', [names], rhs, body)   rhs: ('e', expr) or a body ending in ('tuple', [names])
# ('if', cond, body1, body2)    ('tuple', [names])   ('final', {out: expr})
def fv_b(b):
    k = b[0]
    if k == "e": return fv_e(b[1], set())
    if k == "tuple": return set(b[1])
    if k == "final":
        s = set()
        for e in b[1].values(): fv_e(e, s)
        return s
    if k == "if": return fv_e(b[1], set()) | fv_b(b[2]) | fv_b(b[3])
    if k == "let": return fv_b(b[2]) | (fv_b(b[3]) - set(b[1]))
    raise TranslateError("internal: body IR " + repr(b)[:80])

def prune(b):
    """drop lets none of whose bound names is used (all right-hand sides are pure)"""
    k = b[0]
    if k == "if": return ("if", b[1], prune(b[2]), prune(b[3]))
    if k == "let":
        body = prune(b[3])
        if not (set(b[1]) & fv_b(body)): return body
        return ("let", b[1], prune(b[2]) if b[2][0] != "e" else b[2], body)
    return b

def project(b, outs):
    k = b[0]
    if k == "final": return ("final", {o: b[1][o] for o in outs})
    if k == "if": return ("if", b[1], project(b[2], outs), project(b[3], outs))
    if k == "let": return ("let", b[1], b[2], project(b[3], outs))
    raise TranslateError("internal: project " + k)

def pb(b, ind, final_printer):
    sp = "  " * ind
    k = b[0]
    if k == "e": return sp + pe(b[1])
    if k == "tuple": return sp + ("(%s)" % ", ".join(b[1]) if len(b[1]) != 1 else b[1][0])
    if k == "final": return sp + final_printer(b[1])
    if k == "if":
        return "%sif %s\n%sthen\n%s\n%selse\n%s" % (sp, pe(b[1]), sp, pb(b[2], ind + 1, final_printer), sp, pb(b[3], ind + 1, final_printer))
    if k == "let":
        names, rhs, body = b[1], b[2], b[3]
        pat = names[0] if len(names) == 1 else "'(%s)" % ", ".join(names)
        if rhs[0] == "e":
            return "%slet %s := %s in\n%s" % (sp, pat, pe(rhs[1]), pb(body, ind, final_printer))
        return "%slet %s :=\n%s in\n%s" % (sp, pat, pb(rhs, ind + 2, final_printer), pb(body, ind, final_printer))
    raise TranslateError("internal: print " + k)

# ------------------------------------------------------------------ statements
def stmts_of(n):
    if n is None: return []
    return list(n.get("inner", [])) if n.get("kind") == "CompoundStmt" else [n]

def has_return(n):
    if n is None: return False
    if n.get("kind") == "ReturnStmt": return True
    return any(has_return(c) for c in n.get("inner", []) if isinstance(c, dict))

def is_comm_world(n):
    names = []
    def walk(x):
        if x.get("kind") == "DeclRefExpr": names.append(x.get("referencedDecl", {}).get("name"))
        for c in x.get("inner", []): walk(c)
    walk(n)
    return names == ["ompi_mpi_comm_world"]

def callee_name(n):
    f = n["inner"][0]
    while f.get("kind") in ("ImplicitCastExpr", "ParenExpr"): f = f["inner"][0]
    if f.get("kind") == "DeclRefExpr" and f.get("referencedDecl", {}).get("kind") == "FunctionDecl":
        return f["referencedDecl"].get("name")
    return None

class Fn:
    """translation of a statement list in continuation style"""
    def __init__(self, value_returning, outputs):
        self.value_returning = value_returning; self.outputs = outputs

    def with_divs(self, ex, defined, mk):
        """emit ok-updates for the divisors collected by ex, then mk(defined)"""
        divs = list(ex.divisors)
        def go(i):
            if i == len(divs): return mk(defined)
            return ("let", [OK], ("e", ("and", ("var", OK), ("nz", divs[i]))), go(i + 1))
        return go(0)

    def assign(self, name, expr_fn, defined, k):
        ex = Ex(defined); e = expr_fn(ex)
        return self.with_divs(ex, defined, lambda d: ("let", [name], ("e", e), k(d | {name})))

    def seq(self, stmts, defined, k):
        """stmts: list of AST statements; defined: definitely-assigned names; k(defined) -> body for what follows.
           Variable names are unique in the translated code (checked by unique_decls), so C++ block scoping
           needs no renaming: a name declared inside a block is simply never mentioned after it."""
        if not stmts: return k(defined)
        s, rest = stmts[0], stmts[1:]
        kind = s.get("kind")
        nxt = lambda d: self.seq(rest, d, k)
        if kind == "CompoundStmt":
            return self.seq(stmts_of(s), defined, nxt)
        if kind == "NullStmt": return nxt(defined)
        if kind == "DeclStmt":
            def decls(vs, d):
                if not vs: return nxt(d)
                v = vs[0]
                if v.get("kind") != "VarDecl" or qualtype(v) not in INT_TYPES:
                    raise TranslateError("unsupported declaration of %s : %s (%s)" % (v.get("name"), qualtype(v), where(v)))
                nm = check_name(v.get("name"))
                init = [c for c in v.get("inner", [])]
                if not init: return decls(vs[1:], d - {nm})
                if v.get("init") != "c": raise TranslateError("unsupported initialiser style (%s)" % where(v))
                return self.assign(nm, lambda ex: ex.int_(init[0]), d, lambda d2: decls(vs[1:], d2))
            return decls(list(s.get("inner", [])), defined)
        if kind == "BinaryOperator" and s.get("opcode") == "=":
            nm = lvalue_name(s["inner"][0])
            return self.assign(nm, lambda ex: ex.int_(s["inner"][1]), defined, nxt)
        if kind == "CompoundAssignOperator":
            op = s.get("opcode")[:-1]
            if op not in ("+", "-", "*", "/", "%"): raise TranslateError("unsupported `%s` (%s)" % (s.get("opcode"), where(s)))
            nm = lvalue_name(s["inner"][0])
            def mk(ex):
                a = ex.rd(nm, s); b = ex.int_(s["inner"][1])
                if op in ("/", "%"): ex.divisors.append(b)
                return ("bin", op, a, b)
            return self.assign(nm, mk, defined, nxt)
        if kind == "UnaryOperator" and s.get("opcode") in ("++", "--"):
            nm = lvalue_name(s["inner"][0])
            return self.assign(nm, lambda ex: ("bin", "+" if s["opcode"] == "++" else "-", ex.rd(nm, s), ("lit", 1)), defined, nxt)
        if kind == "CallExpr":
            cn = callee_name(s)
            args = s["inner"][1:]
            if cn in ("RAPtor_MPI_Comm_rank", "RAPtor_MPI_Comm_size", "MPI_Comm_rank", "MPI_Comm_size"):
                if len(args) != 2 or not is_comm_world(args[0]):
                    raise TranslateError("%s on a communicator other than MPI_COMM_WORLD (%s)" % (cn, where(s)))
                a = strip_parens(args[1])
                if a.get("kind") != "UnaryOperator" or a.get("opcode") != "&":
                    raise TranslateError("%s: second argument is not &variable (%s)" % (cn, where(s)))
                nm = lvalue_name(a["inner"][0])
                src = "mpi_rank" if cn.endswith("rank") else "mpi_size"
                return ("let", [nm], ("e", ("var", src)), nxt(defined | {nm}))
            if cn == "printf":
                for a in args:
                    if a.get("kind") == "ImplicitCastExpr" and a["inner"][0].get("kind") == "StringLiteral": continue
                    raise TranslateError("printf with non-literal arguments (%s)" % where(s))
                return nxt(defined)
            raise TranslateError("call of `%s` is not supported (%s)" % (cn, where(s)))
        if kind == "ReturnStmt":
            if not self.value_returning: raise TranslateError("return in a region that is not value returning (%s)" % where(s))
            if rest: raise TranslateError("statements after return (%s)" % where(rest[0]))
            ex = Ex(defined); e = ex.int_(s["inner"][0])
            return self.with_divs(ex, defined, lambda d: ("final", {"ret": e, OK: ("var", OK)}))
        if kind == "IfStmt":
            if s.get("hasInit") or s.get("hasVar"): raise TranslateError("if with initialiser/declaration (%s)" % where(s))
            parts = s["inner"]
            cond, th = parts[0], parts[1]
            el = parts[2] if len(parts) > 2 else None
            ex = Ex(defined); c = ex.cond(cond)
            if has_return(th) or has_return(el):
                def mk(d):
                    b1 = self.seq([th], d, nxt)
                    b2 = self.seq([el] if el is not None else [], d, nxt)
                    return ("if", c, b1, b2)
                return self.with_divs(ex, defined, mk)
            def mk(d):
                ends = []
                def probe(dd):
                    ends.append(set(dd)); return ("tuple", [])
                self.seq([th], d, probe)
                self.seq([el] if el is not None else [], d, probe)
                w = writes(th) | writes(el)
                local = decl_names(th) | decl_names(el)
                vis = lambda nm: nm not in local                          # visible after the if
                W = sorted(x for x in w if vis(x) and x in ends[0] and x in ends[1])
                lost = set(x for x in w if vis(x) and not (x in ends[0] and x in ends[1]))
                tail = lambda dd: ("tuple", W)
                b1 = self.seq([th], d, tail)
                b2 = self.seq([el] if el is not None else [], d, tail)
                after = (d | set(W)) - lost
                if not W: return nxt(after)
                return ("let", W, ("if", c, b1, b2), nxt(after))
            return self.with_divs(ex, defined, mk)
        raise TranslateError("unsupported statement %s" % where(s))

def decl_names(n):
    out = set()
    def walk(x):
        if x is None: return
        if x.get("kind") == "VarDecl": out.add(x.get("name"))
        for c in x.get("inner", []):
            if isinstance(c, dict): walk(c)
    walk(n)
    return out

def unique_decls(stmts, taken, what):
    """no local variable may be declared twice or reuse the name of a parameter/field of the model"""
    seen = set(taken)
    def walk(x):
        if x.get("kind") == "VarDecl":
            nm = x.get("name")
            if nm in seen: raise TranslateError("%s: `%s` is declared twice / shadows a field or parameter (%s)" % (what, nm, where(x)))
            seen.add(nm)
        for c in x.get("inner", []):
            if isinstance(c, dict): walk(c)
    for s in stmts: walk(s)

def writes(n):
    """names syntactically written inside n (statement-level assignments, MPI rank/size calls, divisions -> ok)"""
    out = set()
    def walk(x):
        if x is None: return
        k = x.get("kind")
        if (k == "BinaryOperator" and x.get("opcode") == "=") or k == "CompoundAssignOperator" or \
           (k == "UnaryOperator" and x.get("opcode") in ("++", "--")):
            try: out.add(lvalue_name(x["inner"][0]))
            except TranslateError: pass
        if k == "UnaryOperator" and x.get("opcode") == "&":
            try: out.add(lvalue_name(x["inner"][0]))
            except TranslateError: pass
        if k in ("BinaryOperator", "CompoundAssignOperator") and x.get("opcode") in ("/", "%", "/=", "%="):
            out.add(OK)
        if k == "VarDecl" and x.get("inner"): out.add(x.get("name"))
        for c in x.get("inner", []):
            if isinstance(c, dict): walk(c)
    walk(n)
    return out

def raw_writes(n):
    """like writes, but by bare name, for the outside-of-region checks (no type filtering)"""
    out = set()
    def nm(x):
        while x.get("kind") in ("ParenExpr", "ImplicitCastExpr"): x = x["inner"][0]
        if x.get("kind") == "DeclRefExpr": return x.get("referencedDecl", {}).get("name")
        if x.get("kind") == "MemberExpr" and x["inner"][0].get("kind") == "CXXThisExpr": return x.get("name")
        return None
    def walk(x):
        k = x.get("kind")
        if (k == "BinaryOperator" and x.get("opcode") == "=") or k == "CompoundAssignOperator" or \
           (k == "UnaryOperator" and x.get("opcode") in ("++", "--", "&")):
            out.add(nm(x["inner"][0]))
        for c in x.get("inner", []):
            if isinstance(c, dict): walk(c)
    walk(n)
    out.discard(None); out.discard("ompi_mpi_comm_world")
    return out

def contains_member_call(n, name):
    if n.get("kind") == "CXXMemberCallExpr":
        f = n["inner"][0]
        if f.get("kind") == "MemberExpr" and f.get("name") == name: return True
    return any(contains_member_call(c, name) for c in n.get("inner", []) if isinstance(c, dict))

# ------------------------------------------------------------------ the five translations
def gen_value_function(fn, coq_name, params):
    """whole body of an int-returning method; params = Coq parameters in fixed order (fields + C++ params)"""
    cpp_params = [p.get("name") for p in fn.get("inner", []) if p.get("kind") == "ParmVarDecl"]
    for p in cpp_params:
        if p not in params: raise TranslateError("%s: unexpected parameter `%s`" % (coq_name, p))
    f = Fn(True, ["ret"])
    unique_decls(stmts_of(body_of(fn)), params, coq_name)
    def end(d):
        raise TranslateError("%s: control can reach the end of the function without return" % coq_name)
    body = ("let", [OK], ("e", ("true",)), f.seq(stmts_of(body_of(fn)), set(params) | {OK}, end))
    defs = []
    for out, nm, ty in (("ret", coq_name, "Z"), (OK, coq_name + "_ok", "bool")):
        b = prune(project(body, [out]))
        free = fv_b(b) - set(params)
        if free: raise TranslateError("%s: depends on %s which is not an input of the model" % (nm, sorted(free)))
        defs.append("Definition %s (%s : Z) : %s :=\n%s." % (nm, " ".join(params), ty,
                    pb(b, 1, lambda fin, out=out: pe(fin[out]))))
    return "\n\n".join(defs)

def gen_region(stmts, coq_name, params, inputs_defined, outputs):
    """a run of statements executed for their effect on `outputs` (record of Z fields + ok)"""
    f = Fn(False, outputs)
    unique_decls(stmts, set(params) | set(outputs), coq_name)
    def end(d):
        for o in outputs:
            if o not in d: raise TranslateError("%s: `%s` is not definitely assigned at the end of the region" % (coq_name, o))
        fin = {o: ("var", o) for o in outputs}; fin[OK] = ("var", OK)
        return ("final", fin)
    body = ("let", [OK], ("e", ("true",)), f.seq(stmts, set(inputs_defined) | {OK}, end))
    body = prune(body)
    free = fv_b(body) - set(params)
    if free: raise TranslateError("%s: depends on %s which is not an input of the model" % (coq_name, sorted(free)))
    rec = coq_name + "_out"
    fields = "; ".join("%s_%s : Z" % (coq_name, o) for o in outputs) + "; %s_ok : bool" % coq_name
    mk = "mk_" + rec
    txt = "Record %s := %s { %s }.\n\n" % (rec, mk, fields)
    txt += "Definition %s (%s : Z) : %s :=\n%s." % (coq_name, " ".join(params), rec,
            pb(body, 1, lambda fin: "%s %s" % (mk, " ".join(pe(fin[o], 9) for o in outputs + [OK]))))
    return txt

PART_FIELDS = ["global_num_rows", "global_num_cols", "first_local_row", "local_num_rows", "first_local_col",
               "local_num_cols", "last_local_row", "last_local_col"]

def translate(repo):
    topo = find_class(clang_dump(repo, "raptor::Topology"), "Topology")
    part = find_class(clang_dump(repo, "raptor::Partition"), "Partition")
    chunks = []
    fields = ["rank_ordering", "num_nodes", "PPN"]
    for nm, qt, extra in (("get_node", "int (int)", ["proc"]), ("get_local_proc", "int (int)", ["proc"]),
                          ("get_global_proc", "int (int, int)", ["node", "local_proc"])):
        fn = find_member(topo, "CXXMethodDecl", nm, qt)
        chunks.append("(* raptor::Topology::%s *)\n" % nm + gen_value_function(fn, "Topology_" + nm, fields + extra))
    # Topology constructor: the num_nodes slice
    ct = find_member(topo, "CXXConstructorDecl", "Topology", "void (int, int)")
    st = stmts_of(body_of(ct))
    first = [i for i, s in enumerate(st) if "num_nodes" in raw_writes(s)]
    last = [i for i, s in enumerate(st) if contains_member_call(s, "get_node")]
    if not first or len(last) != 1 or last[0] <= first[0]:
        raise TranslateError("Topology constructor: cannot locate the num_nodes computation before the get_node call")
    pre, region, post = st[:first[0]], st[first[0]:last[0]], st[last[0]:]
    size_calls = [s for s in pre if s.get("kind") == "CallExpr" and callee_name(s) == "RAPtor_MPI_Comm_size" and
                  is_comm_world(s["inner"][1]) and raw_writes(s) == {"num_procs"}]
    if len(size_calls) != 1 or sum(1 for s in pre if "num_procs" in raw_writes(s)) != 1:
        raise TranslateError("Topology constructor: num_procs is not set exactly once by RAPtor_MPI_Comm_size(COMM_WORLD)")
    for s in post:
        bad = raw_writes(s) & {"num_nodes", "PPN", "rank_ordering"}
        if bad: raise TranslateError("Topology constructor: %s written after the num_nodes computation (%s)" % (sorted(bad), where(s)))
    for fld in ("PPN", "rank_ordering"):
        if not any(fld in raw_writes(s) for s in pre):
            raise TranslateError("Topology constructor: %s is not set before num_nodes is computed" % fld)
    # inside the region num_procs / PPN are inputs: rename nothing, they are parameters
    chunks.append("(* raptor::Topology::Topology(int,int): num_nodes from num_procs (MPI_Comm_size) and PPN *)\n" +
                  gen_region(region, "Topology_ctor", ["num_procs", "PPN"], ["num_procs", "PPN"], ["num_nodes"]))
    # Partition(index_t, index_t, Topology*)
    pc = find_member(part, "CXXConstructorDecl", "Partition", "void (raptor::index_t, raptor::index_t, raptor::Topology *)")
    cparams = [p.get("name") for p in pc.get("inner", []) if p.get("kind") == "ParmVarDecl"]
    if cparams != ["_global_num_rows", "_global_num_cols", "_topology"]:
        raise TranslateError("Partition constructor: parameters are %s" % cparams)
    for c in pc.get("inner", []):
        if c.get("kind") == "CXXCtorInitializer" and c.get("anyInit", {}).get("name") != "first_cols":
            raise TranslateError("Partition constructor: member initialiser for `%s` is not supported" % c.get("anyInit", {}).get("name"))
    st = stmts_of(body_of(pc))
    cut = [i for i, s in enumerate(st) if contains_member_call(s, "create_assumed_partition")]
    if len(cut) != 1 or st[cut[0]].get("kind") != "CXXMemberCallExpr":
        raise TranslateError("Partition constructor: expected exactly one top-level call create_assumed_partition()")
    region, post = st[:cut[0]], st[cut[0] + 1:]
    for s in post:
        bad = raw_writes(s) & set(PART_FIELDS + ["first_cols", "assumed_num_cols"])
        if bad: raise TranslateError("Partition constructor: %s written after create_assumed_partition (%s)" % (sorted(bad), where(s)))
    # `num_shared = 0` inside the region is an int field assignment and is translated (then pruned as dead)
    chunks.append("(* raptor::Partition::Partition(index_t, index_t, Topology ptr): everything before create_assumed_partition() *)\n" +
                  gen_region(region, "Partition_block", ["mpi_rank", "mpi_size", "_global_num_rows", "_global_num_cols"],
                             ["_global_num_rows", "_global_num_cols"], PART_FIELDS))
    srcs = [os.path.join(repo, "raptor", "core", f) for f in ("topology.hpp", "partition.hpp")]
    h = hashlib.sha256()
    for f in srcs: h.update(open(f, "rb").read())
    head = ("(* GENERATED by translator/leaf2coq.py from raptor/core/topology.hpp and raptor/core/partition.hpp\n"
            "   (clang JSON AST; sha256 of the two headers %s). DO NOT EDIT: regenerated by every ./check C18.\n"
            "   C++ int arithmetic over Z: / is Z.quot, %% is Z.rem; *_ok is false iff some evaluated divisor is 0. *)\n"
            "From Coq Require Import ZArith Bool.\nLocal Open Scope Z_scope.\nLocal Open Scope bool_scope.\n\n" % h.hexdigest()[:16])
    return head + "\n\n".join(chunks) + "\n"

def regenerate(repo, out_path):
    """returns (changed, text); raises TranslateError"""
    txt = translate(repo)
    old = open(out_path).read() if os.path.exists(out_path) else None
    if old != txt:
        with open(out_path, "w") as f: f.write(txt)
        return True, txt
    return False, txt

if __name__ == "__main__":
    repo = os.environ.get("RAPTOR_REPO", "/repo")
    here = os.path.dirname(os.path.dirname(os.path.abspath(__file__)))
    out = sys.argv[1] if len(sys.argv) > 1 else os.path.join(here, "coq", "Dist", "GenLeaf.v")
    try:
        ch, txt = regenerate(repo, out)
    except TranslateError as e:
        print("leaf2coq: TRANSLATION FAILED: %s" % e); sys.exit(1)
    print("leaf2coq: %s %s" % (out, "rewritten" if ch else "unchanged"))
