// Correspondence driver, gallery family (C19): stencil generators, Matrix Market and PETSc-binary readers/writers.
// usage: mpirun -n P drv_gallery <casefile>      cases carry their process count and are skipped when it differs.
// Files are written only under a scratch directory created with mkdtemp under /tmp and removed at exit.
#include "common_par.hpp"
#include <unistd.h>
#include <stdint.h>
#include <algorithm>

static std::string g_dir;
static std::string g_buf;      // rank 0: the lines of the current case, printed when the case has completed

static void out_all(const std::string& cid, const std::string& key, const std::string& mine) {
    int len = (int)mine.size(); std::vector<int> lens(g_np), disp(g_np + 1, 0);
    MPI_Gather(&len, 1, MPI_INT, lens.data(), 1, MPI_INT, 0, MPI_COMM_WORLD);
    if (g_rank == 0) for (int i = 0; i < g_np; i++) disp[i + 1] = disp[i] + lens[i];
    std::vector<char> buf(g_rank == 0 ? disp[g_np] + 1 : 1);
    MPI_Gatherv((void*)mine.data(), len, MPI_CHAR, buf.data(), lens.data(), disp.data(), MPI_CHAR, 0, MPI_COMM_WORLD);
    if (g_rank == 0) {
        std::ostringstream o; o << cid << " " << key;
        for (int i = 0; i < g_np; i++) o << " @" << i << " " << std::string(buf.data() + disp[i], lens[i]);
        g_buf += o.str() + "\n";
    }
}
static void out0(const std::string& cid, const std::string& key, const std::string& text) {
    if (g_rank == 0) g_buf += cid + " " + key + " " + text + "\n";
}

static std::string csr_triples_global(ParCSRMatrix* A) {
    std::ostringstream o; bool first = true;
    for (int i = 0; i < A->local_num_rows; i++) {
        int gi = A->partition->first_local_row + i;
        for (int k = A->on_proc->idx1[i]; k < A->on_proc->idx1[i + 1]; k++) { if (!first) o << " "; first = false;
            o << gi << " " << A->on_proc_column_map[A->on_proc->idx2[k]] << " " << num_str(A->on_proc->vals[k]); }
        for (int k = A->off_proc->idx1[i]; k < A->off_proc->idx1[i + 1]; k++) { if (!first) o << " "; first = false;
            o << gi << " " << A->off_proc_column_map[A->off_proc->idx2[k]] << " " << num_str(A->off_proc->vals[k]); }
    }
    return o.str();
}
static std::string windows_str(ParMatrix* A) {
    std::ostringstream o;
    o << A->partition->first_local_row << " " << A->partition->local_num_rows << " "
      << A->partition->first_local_col << " " << A->partition->local_num_cols;
    return o.str();
}
static std::string path_of(const std::string& cid, const char* ext) { return g_dir + "/" + cid + ext; }

// the coordinate file as tokens: <general|symmetric> M N nz (r c v)*
static std::string mm_file_tokens(const std::string& fn) {
    std::ifstream in(fn.c_str()); std::string line; std::ostringstream o; bool banner = true, sizes = false;
    while (std::getline(in, line)) {
        if (banner) { std::istringstream is(line); std::string a, b, c, d, e; is >> a >> b >> c >> d >> e; o << e; banner = false; continue; }
        if (!line.empty() && line[0] == '%') continue;
        std::istringstream is(line); std::string tok; int k = 0;
        while (is >> tok) {
            if (!sizes || k < 2) o << " " << tok; else o << " " << num_str(strtod(tok.c_str(), NULL));
            k++;
        }
        if (k > 0) sizes = true;
    }
    return o.str();
}

struct Parts { int n; std::vector<int> fr, nr, fc, nc;
    void parse(Toks& t) { n = t.next_int(); fr.resize(n); nr.resize(n); fc.resize(n); nc.resize(n);
        for (int i = 0; i < n; i++) { fr[i] = t.next_int(); nr[i] = t.next_int(); fc[i] = t.next_int(); nc[i] = t.next_int(); } } };

static void do_reads(const std::string& cid, const std::string& fn) {
    if (g_rank == 0) {
        CSRMatrix* R = read_mm(fn.c_str());
        if (R) { out0(cid, "R", mat_str(R)); delete R; } else out0(cid, "R", "NULL");
    }
    MPI_Barrier(MPI_COMM_WORLD);
    ParCSRMatrix* B = read_par_mm(fn.c_str());
    out_all(cid, "PW", windows_str(B));
    out_all(cid, "PR", csr_triples_global(B));
    delete B;
}

static bool g_file_be = true;     // byte order of the binary file being written (PETSc's format is big-endian)
template <class T> static void put_be(std::ofstream& o, T v) {
    unsigned char* p = reinterpret_cast<unsigned char*>(&v); if (g_file_be) std::reverse(p, p + sizeof(T)); o.write(reinterpret_cast<char*>(p), sizeof(T)); }

static void run_case(const std::string& cid, Toks& t) {
    std::string op = t.next(); int P = t.next_int();
    if (P != g_np) return;
    if (op == "sten") {
        int dim = t.next_int(); std::vector<int> grid = t.ints(dim);
        int sl = 1; for (int i = 0; i < dim; i++) sl *= 3;
        std::vector<double> st = t.nums(sl);
        if (g_rank == 0) { CSRMatrix* A = stencil_grid(st.data(), grid.data(), dim); out0(cid, "S", mat_str(A)); delete A; }
        ParCSRMatrix* B = par_stencil_grid(st.data(), grid.data(), dim);
        out_all(cid, "PW", windows_str(B));
        out_all(cid, "P", csr_triples_global(B));
        delete B;
    } else if (op == "diffusion") {
        double eps = t.next_num(), c = t.next_num(), s = t.next_num();
        // the library takes theta; the case gives cos and sin of an angle whose cos/sin are exactly c and s (0, pi/2, ...)
        double theta = atan2(s, c);
        double* st = diffusion_stencil_2d(eps, theta);
        out0(cid, "ST", nums_str(st, 9)); delete[] st;
    } else if (op == "laplace27") {
        double* st = laplace_stencil_27pt(); out0(cid, "ST", nums_str(st, 27)); delete[] st;
    } else if (op == "mmrt") {
        Matrix* M = parse_mat(t); std::string fn = path_of(cid, ".mtx");
        if (g_rank == 0) { CSRMatrix* A = M->to_CSR(); write_mm(A, fn.c_str()); out0(cid, "FILE", mm_file_tokens(fn)); }
        MPI_Barrier(MPI_COMM_WORLD);
        do_reads(cid, fn);
        MPI_Barrier(MPI_COMM_WORLD);
        if (g_rank == 0) unlink(fn.c_str());
    } else if (op == "mmfile") {
        std::string sym = t.next(); int nr = t.next_int(), nc = t.next_int(), nz = t.next_int(), nl = t.next_int();
        std::string fn = path_of(cid, ".mtx");
        if (g_rank == 0) {
            FILE* f = fopen(fn.c_str(), "w");
            fprintf(f, "%%%%MatrixMarket matrix coordinate real %s\n%%\n%d %d %d\n", sym.c_str(), nr, nc, nz);
            for (int k = 0; k < nl; k++) { int r = t.next_int(), c = t.next_int(); double v = t.next_num(); fprintf(f, "%d %d %.17g\n", r, c, v); }
            fclose(f);
        }
        MPI_Barrier(MPI_COMM_WORLD);
        do_reads(cid, fn);
        MPI_Barrier(MPI_COMM_WORLD);
        if (g_rank == 0) unlink(fn.c_str());
    } else if (op == "parmmrt") {
        ParLit lit; lit.parse(t); std::string fn = path_of(cid, ".mtx");
        ParCSRMatrix* A = lit.csr();
        out_all(cid, "A", csr_triples_global(A));
        write_par_mm(A, fn.c_str());
        MPI_Barrier(MPI_COMM_WORLD);
        if (g_rank == 0) out0(cid, "FILE", mm_file_tokens(fn));
        do_reads(cid, fn);
        MPI_Barrier(MPI_COMM_WORLD);
        if (g_rank == 0) unlink(fn.c_str());
        delete A;
    } else if (op == "bin") {
        int nr = t.next_int(), nc = t.next_int(), nnz = t.next_int();
        std::vector<int> rowsz = t.ints(nr), cols = t.ints(nnz); std::vector<double> vals = t.nums(nnz);
        int mode = t.next_int(); Parts pa; pa.parse(t);       // bit 0: explicit partition, bit 1: file in the machine's (little-endian) byte order
        g_file_be = !(mode & 2);
        std::string fn = path_of(cid, ".pm");
        if (g_rank == 0) {
            std::ofstream o(fn.c_str(), std::ofstream::binary);
            put_be<int32_t>(o, PETSC_MAT_CODE); put_be<int32_t>(o, nr); put_be<int32_t>(o, nc); put_be<int32_t>(o, nnz);
            for (int i = 0; i < nr; i++) put_be<int32_t>(o, rowsz[i]);
            for (int i = 0; i < nnz; i++) put_be<int32_t>(o, cols[i]);
            for (int i = 0; i < nnz; i++) put_be<double>(o, vals[i]);
            o.close();
            CSRMatrix* R = readMatrix(fn.c_str()); out0(cid, "R", mat_str(R)); delete R;
        }
        MPI_Barrier(MPI_COMM_WORLD);
        ParCSRMatrix* B = !(mode & 1) ? readParMatrix(fn.c_str())
                                      : readParMatrix(fn.c_str(), pa.nr[g_rank], pa.nc[g_rank], pa.fr[g_rank], pa.fc[g_rank]);
        out_all(cid, "PW", windows_str(B));
        out_all(cid, "PR", csr_triples_global(B));
        delete B;
        MPI_Barrier(MPI_COMM_WORLD);
        if (g_rank == 0) unlink(fn.c_str());
    } else throw std::runtime_error("unknown op " + op);
}

int main(int argc, char** argv) {
    par_init(&argc, &argv);
    char buf[64]; memset(buf, 0, sizeof buf);
    if (g_rank == 0) { strcpy(buf, "/tmp/c19-drv-XXXXXX"); if (!mkdtemp(buf)) { perror("mkdtemp"); MPI_Abort(MPI_COMM_WORLD, 4); } }
    MPI_Bcast(buf, sizeof buf, MPI_CHAR, 0, MPI_COMM_WORLD);
    g_dir = buf;
    std::ifstream in(argv[1]); std::string line; int rc = 0;
    while (std::getline(in, line)) {
        if (line.empty() || line[0] == '#') continue;
        Toks t(line); std::string cid = t.next();
        g_buf.clear();
        try { run_case(cid, t); if (g_rank == 0 && !g_buf.empty()) { fputs(g_buf.c_str(), stdout); fflush(stdout); } }
        catch (std::exception& e) { printf("%s ERR@%d %s\n", cid.c_str(), g_rank, e.what()); fflush(stdout); rc = 3; break; }
    }
    MPI_Barrier(MPI_COMM_WORLD);
    if (g_rank == 0) rmdir(g_dir.c_str());
    MPI_Finalize(); return rc;
}
