// C18 driver (family `leaf`): runs raptor's Partition and Topology classes and prints their public fields.
// Case lines (whitespace separated):
//   <cid> block N M                         Partition(N, M) on every rank of this run
//   <cid> explicit N M P (lnr lnc fr fc)*P  Partition(N, M, lnr, lnc, fr, fc) on rank r (skipped unless P == #ranks)
//   <cid> topo nprocs PPN ordering          Topology: real constructor (env PPN / RAPtor_MPICH_RANK_REORDER_METHOD)
//                                           when nprocs == #ranks, otherwise fields set directly on an object
// Output per partition case:
//   <cid> R  @r gnr gnc fr lnr fc lnc lr lc ...            (all ranks, gathered)
//   <cid> FC assumed_num_cols first_cols[0..P] same=<1|0>  (rank 0's copy; same: identical on all ranks)
//   <cid> OWN o_0 .. o_{M-1} same=<1|0>                    form_col_to_proc for every column (U: the walk would read
//                                                          first_cols[-1] or divide by 0; the call is then not made)
//   and the same three keys prefixed with T for partition->transpose().
// Output per topology case:
//   <cid> TOPO how num_nodes  (node local global)*nprocs | (global node local)*(num_nodes*PPN)  [| lrank lsize @ranks]
#include "common_par.hpp"

static Topology* g_topo = NULL;

static std::string part_fields(Partition* p) {
    std::ostringstream o;
    o << p->global_num_rows << " " << p->global_num_cols << " " << p->first_local_row << " " << p->local_num_rows << " "
      << p->first_local_col << " " << p->local_num_cols << " " << p->last_local_row << " " << p->last_local_col;
    return o.str();
}

static int all_same(const std::vector<int>& v) {
    // identical vector on every rank?
    int n = (int)v.size(), n0 = n; MPI_Bcast(&n0, 1, MPI_INT, 0, MPI_COMM_WORLD);
    int ok = (n == n0);
    std::vector<int> ref(v); ref.resize(n0);
    MPI_Bcast(ref.data(), n0, MPI_INT, 0, MPI_COMM_WORLD);
    if (ok) for (int i = 0; i < n0; i++) if (ref[i] != v[i]) ok = 0;
    int all; MPI_Allreduce(&ok, &all, 1, MPI_INT, MPI_MIN, MPI_COMM_WORLD);
    return all;
}

static void dump_partition(const std::string& cid, const std::string& pre, Partition* p) {
    emit_all(cid, pre + "R", part_fields(p));
    std::vector<int> fc(p->first_cols); fc.insert(fc.begin(), p->assumed_num_cols);
    int same = all_same(fc);
    { std::ostringstream o; o << ints_str(fc) << " same=" << same; emit0(cid, pre + "FC", o.str()); }
    int M = p->global_num_cols;
    std::vector<int> own(M > 0 ? M : 0, -7);
    std::vector<int> one(1), res;
    for (int c = 0; c < M; c++) {
        bool safe = p->assumed_num_cols != 0 && !p->first_cols.empty() && p->first_cols[0] <= c
                    && c / p->assumed_num_cols < (int)p->first_cols.size();
        if (!safe) { own[c] = -7; continue; }
        one[0] = c; res.clear();
        p->form_col_to_proc(one, res);
        own[c] = res[0];
    }
    // also one call with the whole (safe) column list, to exercise the loop over the map
    std::vector<int> cols, res2;
    for (int c = 0; c < M; c++) if (own[c] != -7) cols.push_back(c);
    p->form_col_to_proc(cols, res2);
    int k = 0, consistent = 1;
    for (int c = 0; c < M; c++) if (own[c] != -7) { if (res2[k] != own[c]) consistent = 0; k++; }
    same = all_same(own) && consistent;
    std::ostringstream o;
    for (int c = 0; c < M; c++) { if (own[c] == -7) o << "U "; else o << own[c] << " "; }
    o << "same=" << same;
    emit0(cid, pre + "OWN", o.str());
}

static void run_partition(const std::string& cid, Partition* p) {
    dump_partition(cid, "", p);
    Partition* t = p->transpose();
    dump_partition(cid, "T", t);
    delete t;
    delete p;
}

static void run_topo(const std::string& cid, int nprocs, int PPN, int ordering) {
    Topology* t; std::string how;
    if (nprocs == g_np) {
        char b1[32], b2[32]; snprintf(b1, sizeof b1, "%d", PPN); snprintf(b2, sizeof b2, "%d", ordering);
        setenv("PPN", b1, 1); setenv("RAPtor_MPICH_RANK_REORDER_METHOD", b2, 1);
        t = new Topology();
        unsetenv("PPN"); unsetenv("RAPtor_MPICH_RANK_REORDER_METHOD");
        how = "ctor";
    } else {
        t = new Topology();
        t->PPN = PPN; t->rank_ordering = ordering;
        t->num_nodes = nprocs / PPN + ((nprocs % PPN) ? 1 : 0);   // driver-side: the real constructor needs nprocs ranks
        how = "fields";
    }
    std::ostringstream o;
    o << how << " " << t->num_nodes;
    for (int p = 0; p < nprocs; p++) {
        int nd = t->get_node(p), lp = t->get_local_proc(p);
        o << " " << nd << " " << lp << " " << t->get_global_proc(nd, lp);
    }
    o << " |";
    for (int nd = 0; nd < t->num_nodes; nd++) for (int lp = 0; lp < PPN; lp++) {
        int g = t->get_global_proc(nd, lp);
        o << " " << g << " " << t->get_node(g) << " " << t->get_local_proc(g);
    }
    if (how == "ctor") {
        // what Comm_split(color = node, key = rank) produced: rank and size inside local_comm
        int lr, ls; MPI_Comm_rank(t->local_comm, &lr); MPI_Comm_size(t->local_comm, &ls);
        std::vector<int> all(2 * g_np); int mine[2] = {lr, ls};
        MPI_Gather(mine, 2, MPI_INT, all.data(), 2, MPI_INT, 0, MPI_COMM_WORLD);
        o << " |"; for (int i = 0; i < 2 * g_np; i++) o << " " << all[i];
    }
    emit0(cid, "TOPO", o.str());
    delete t;
}

static void one_case(const std::string& cid, Toks& t) {
    std::string op = t.next();
    if (op == "block") {
        int N = t.next_int(), M = t.next_int();
        run_partition(cid, new Partition(N, M, g_topo));
    } else if (op == "bblock") {
        // block-aligned partition: Partition(N, M, brows, bcols) hands out whole blocks of brows rows / bcols columns
        int N = t.next_int(), M = t.next_int(), br = t.next_int(), bc = t.next_int();
        run_partition(cid, new Partition(N, M, br, bc, g_topo));
    } else if (op == "explicit") {
        int N = t.next_int(), M = t.next_int(), P = t.next_int();
        std::vector<int> a = t.ints(4 * P);
        if (P != g_np) return;
        run_partition(cid, new Partition(N, M, a[4 * g_rank], a[4 * g_rank + 1], a[4 * g_rank + 2], a[4 * g_rank + 3], g_topo));
    } else if (op == "product") {
        // the partition of a product A*B: rows of A, columns of B (Partition(Partition* A, Partition* B))
        int N = t.next_int(), K = t.next_int(), M = t.next_int(), P = t.next_int();
        std::vector<int> a = t.ints(4 * P), b = t.ints(4 * P);
        if (P != g_np) return;
        Partition* A = new Partition(N, K, a[4 * g_rank], a[4 * g_rank + 1], a[4 * g_rank + 2], a[4 * g_rank + 3], g_topo);
        Partition* B = new Partition(K, M, b[4 * g_rank], b[4 * g_rank + 1], b[4 * g_rank + 2], b[4 * g_rank + 3], g_topo);
        Partition* C = new Partition(A, B);
        dump_partition(cid, "", C);
        delete C; delete A; delete B;
    } else if (op == "topo") {
        int nprocs = t.next_int(), PPN = t.next_int(), ord = t.next_int();
        run_topo(cid, nprocs, PPN, ord);
    } else {
        emit0(cid, "UNSUPPORTED", op);
    }
}

int main(int argc, char** argv) {
    par_init(&argc, &argv);
    install_crash_handlers();
    g_topo = new Topology();
    g_topo->num_shared = 1 << 20;     // never freed by a Partition destructor
    std::ifstream in(argv[1]); std::string line;
    while (std::getline(in, line)) {
        if (line.empty() || line[0] == '#') continue;
        Toks t(line); std::string cid = t.next();
        try { one_case(cid, t); }
        catch (std::exception& e) { printf("%s ERR@%d %s\n", cid.c_str(), g_rank, e.what()); fflush(stdout); MPI_Abort(MPI_COMM_WORLD, 3); }
    }
    MPI_Finalize(); return 0;
}
