// Correspondence / oracle driver for the family `cycle` (C09: the multigrid cycle, C01: the AMG solve).
// usage: mpirun -n P drv_cycle <casefile>
//
// case line:
//   <cid> <cls> <coarsen> <interp> <strength> <theta> <relax> <omega> <sweeps> <max_coarse> <max_levels> <tap_amg> <dump>
//         <tol> MAT <ParLit> VECS <nv> (n numbers)*nv OPS <nops> (op args)*
//   cls     seqrs | seqsa | parrs | parsa          (sequential classes only when run on one process)
//   ops     C xi bi          x = vec xi, b = vec bi; ml->cycle(x, b)                       -> OUT k <x>
//           CD xi bi         as C, then the level vectors left behind: SX k l <levels[l]->x>, SB k l <levels[l]->b>, l >= 1
//           CC xi bi k       k successive cycles on the same (x, b)                          -> OUT k <x>
//           S xi bi maxit    ml->solve(x, b) with max_iterations = maxit                    -> OUT k <x>, ITER k it, RES k r0..r_it
//           SI xi bi maxit   as S, then the iterates recomputed with cycle() calls: XK k q <x_q>, q = 1..iter
//           K xi bi          PCG(A, ml, x, b, res, 1e-10, 4)          (distributed classes)  -> OUT k <x>
//           B xi bi          Pre_BiCGStab(A, x, b, ml, res, 1e-10, 3)                        -> OUT k <x>
//           P s              poison every level vector (x, b, tmp) with sentinel s (0: 1e30, 1: NaN, 2: -7.25)
//   results (one line per key, ranks gathered in order):
//           <cid> NLEV L n0 ...                       number of levels and their global sizes
//           <cid> LEV<l> @r nloc ncols_of_P_on_rank IDS nloc id* [A nnz (i j v)* [P nc nnz (i j v)*]]   (matrices when dump = 1;
//                                                          i, j are the library's global ids = local_row_map / column maps)
//           <cid> OUT k @r x_local...     <cid> BOK k 0|1 (b bitwise unchanged on every rank)
//           <cid> HOK 0|1  (every array of the hierarchy and the user's matrix bitwise unchanged after all ops)
#include "common_par.hpp"
#include <cmath>
#include <cstdint>

static std::string bits_of(const std::vector<double>& v, int n = -1) {
    int m = n < 0 ? (int)v.size() : n; return std::string((const char*)v.data(), (size_t)m * sizeof(double)); }
static std::string bits_of(Vector& v) { return std::string((const char*)v.data(), (size_t)v.size() * sizeof(double)); }
static std::string bits_of(const std::vector<int>& v) { return std::string((const char*)v.data(), v.size() * sizeof(int)); }
static std::string snap_mat(Matrix* M) {
    if (!M) return "null;";
    std::ostringstream o; o << M->n_rows << "," << M->n_cols << "," << M->nnz << ";";
    return o.str() + bits_of(M->idx1) + bits_of(M->idx2) + bits_of(M->vals); }
static std::string snap_par(ParCSRMatrix* A) {
    if (!A) return "null;";
    std::ostringstream o; o << A->global_num_rows << "," << A->global_num_cols << "," << A->local_num_rows << ","
        << A->on_proc_num_cols << "," << A->off_proc_num_cols << ";";
    return o.str() + snap_mat(A->on_proc) + snap_mat(A->off_proc) + bits_of(A->off_proc_column_map) +
           bits_of(A->on_proc_column_map) + bits_of(A->local_row_map); }

static double sentinel(int s) { return s == 0 ? 1e30 : (s == 1 ? std::nan("") : -7.25); }
static void poison(Vector& v, double s) { for (int i = 0; i < (int)v.size(); i++) v[i] = s; }

// local triples of a distributed matrix with global indices
static std::string par_triples(ParCSRMatrix* A) {
    std::ostringstream o; o << A->local_nnz;
    for (int i = 0; i < A->local_num_rows; i++) {
        for (int j = A->on_proc->idx1[i]; j < A->on_proc->idx1[i+1]; j++)
            o << " " << A->local_row_map[i] << " " << A->on_proc_column_map[A->on_proc->idx2[j]] << " " << num_str(A->on_proc->vals[j]);
        for (int j = A->off_proc->idx1[i]; j < A->off_proc->idx1[i+1]; j++)
            o << " " << A->local_row_map[i] << " " << A->off_proc_column_map[A->off_proc->idx2[j]] << " " << num_str(A->off_proc->vals[j]);
    }
    return o.str();
}
static std::string seq_triples(CSRMatrix* A) {
    std::ostringstream o; o << A->nnz;
    for (int i = 0; i < A->n_rows; i++) for (int j = A->idx1[i]; j < A->idx1[i+1]; j++)
        o << " " << i << " " << A->idx2[j] << " " << num_str(A->vals[j]);
    return o.str();
}

struct Opts { int coarsen, interp, strength; double theta; int relax; double omega; int sweeps, max_coarse, max_levels, tap, dump; double tol; };

static void run_case(const std::string& cid, Toks& t) {
    std::string cls = t.next();
    Opts o; o.coarsen = t.next_int(); o.interp = t.next_int(); o.strength = t.next_int(); o.theta = t.next_num();
    o.relax = t.next_int(); o.omega = t.next_num(); o.sweeps = t.next_int(); o.max_coarse = t.next_int();
    o.max_levels = t.next_int(); o.tap = t.next_int(); o.dump = t.next_int(); o.tol = t.next_num();
    if (t.next() != "MAT") throw std::runtime_error("MAT expected");
    ParLit lit; lit.parse(t);
    if (t.next() != "VECS") throw std::runtime_error("VECS expected");
    int nv = t.next_int(); std::vector<std::vector<double> > vecs(nv);
    for (int k = 0; k < nv; k++) vecs[k] = t.nums(lit.nr);
    if (t.next() != "OPS") throw std::runtime_error("OPS expected");
    int nops = t.next_int();
    bool seq = (cls == "seqrs" || cls == "seqsa");
    if (!lit.usable() || (seq && g_np != 1)) return;

    if (seq) {
        COOMatrix* Cs = new COOMatrix(lit.nr, lit.nc);
        for (int k = 0; k < lit.nnz; k++) Cs->add_value(lit.ti[k], lit.tj[k], lit.tv[k]);
        CSRMatrix* As = Cs->to_CSR(); delete Cs;
        std::string as_before = snap_mat(As);
        Multilevel* ml;
        if (cls == "seqrs") ml = new RugeStubenSolver(o.theta, (coarsen_t)o.coarsen, (interp_t)o.interp, (strength_t)o.strength, (relax_t)o.relax);
        else ml = new SmoothedAggregationSolver(o.theta, MIS, JacobiProlongation, (strength_t)o.strength, (relax_t)o.relax);
        ml->max_coarse = o.max_coarse; ml->max_levels = o.max_levels; ml->relax_weight = o.omega; ml->num_smooth_sweeps = o.sweeps;
        ml->setup(As);
        emit0(cid, "SETUP", "ok");
        int L = ml->num_levels;
        { std::ostringstream s; s << L; for (int l = 0; l < L; l++) s << " " << ml->levels[l]->A->n_rows; emit0(cid, "NLEV", s.str()); }
        for (int l = 0; l < L; l++) {
            CSRMatrix* Al = ml->levels[l]->A; CSRMatrix* Pl = ml->levels[l]->P;
            std::ostringstream s; s << "@0 " << Al->n_rows << " " << (l < L - 1 ? Pl->n_cols : 0) << " IDS " << Al->n_rows;
            for (int i = 0; i < Al->n_rows; i++) s << " " << i;
            if (o.dump) { s << " A " << seq_triples(Al); if (l < L - 1) s << " P " << Pl->n_cols << " " << seq_triples(Pl); }
            std::ostringstream key; key << "LEV" << l; emit0(cid, key.str(), s.str());
        }
        Multilevel* ml2 = NULL; CSRMatrix* As2 = NULL;
        std::string h_before;
        for (int l = 0; l < L; l++) h_before += snap_mat(ml->levels[l]->A) + (l < L - 1 ? snap_mat(ml->levels[l]->P) : std::string());
        h_before += bits_of(ml->A_coarse) + bits_of(ml->LU_permute);
        for (int k = 0; k < nops; k++) {
            std::string op = t.next(); std::ostringstream ks; ks << k;
            if (op == "P") { double s = sentinel(t.next_int());
                for (int l = 0; l < L; l++) { poison(ml->levels[l]->x, s); poison(ml->levels[l]->b, s); poison(ml->levels[l]->tmp, s); }
                continue; }
            if (op == "X") {
                // cross-talk: one cycle of a sibling hierarchy (same class and options, the matrix with its diagonal doubled:
                // same sizes on level 0) between two operations of this one; anything it leaves behind is hidden shared state
                int xi2 = t.next_int(), bi2 = t.next_int();
                if (!ml2) { As2 = As->copy(); for (int i = 0; i < As2->n_rows; i++) for (int q = As2->idx1[i]; q < As2->idx1[i + 1]; q++) if (As2->idx2[q] == i) As2->vals[q] *= 2.0;
                    if (cls == "seqrs") ml2 = new RugeStubenSolver(o.theta, (coarsen_t)o.coarsen, (interp_t)o.interp, (strength_t)o.strength, (relax_t)o.relax);
                    else ml2 = new SmoothedAggregationSolver(o.theta, MIS, JacobiProlongation, (strength_t)o.strength, (relax_t)o.relax);
                    ml2->max_coarse = o.max_coarse; ml2->max_levels = o.max_levels; ml2->relax_weight = o.omega; ml2->num_smooth_sweeps = o.sweeps;
                    ml2->setup(As2); }
                Vector x2(lit.nr), b2(lit.nr); for (int i = 0; i < lit.nr; i++) { x2[i] = vecs[xi2][i]; b2[i] = vecs[bi2][i]; }
                ml2->cycle(x2, b2, 0);
                continue; }
            int xi = t.next_int(), bi = t.next_int();
            Vector x(lit.nr), b(lit.nr);
            for (int i = 0; i < lit.nr; i++) { x[i] = vecs[xi][i]; b[i] = vecs[bi][i]; }
            std::string b_before = bits_of(b);
            if (op == "C" || op == "CD") ml->cycle(x, b, 0);
            else if (op == "CC") { int kk = t.next_int(); for (int q = 0; q < kk; q++) ml->cycle(x, b, 0); }
            else if (op == "S") { int maxit = t.next_int(); int it = ml->solve(x, b, maxit);
                std::ostringstream s; s << k << " " << it; emit0(cid, "ITER", s.str());
                emit0(cid, "RES", ks.str() + " " + nums_str(ml->residuals, std::min((int)ml->residuals.size(), it + 1))); }
            else if (op == "SI" || op == "SN") { int maxit = t.next_int();
                bool keep = ml->store_residuals; if (op == "SN") ml->store_residuals = false;       // SN: solve without a residual history
                int it = ml->solve(x, b, maxit); ml->store_residuals = keep;
                std::ostringstream s; s << k << " " << it; emit0(cid, "ITER", s.str());
                if (op == "SN") emit0(cid, "RES", ks.str()); else
                emit0(cid, "RES", ks.str() + " " + nums_str(ml->residuals, std::min((int)ml->residuals.size(), it + 1)));
                Vector y(lit.nr); for (int i = 0; i < lit.nr; i++) y[i] = vecs[xi][i];
                for (int q = 1; q <= it; q++) { ml->cycle(y, b, 0); std::ostringstream qs; qs << "@0 " << k << " " << q << " ";
                    emit0(cid, "XK", qs.str() + nums_str(y.data(), y.size())); } }
            else throw std::runtime_error("op " + op + " not available for the sequential classes");
            emit0(cid, "OUT", "@0 " + ks.str() + " " + nums_str(x.data(), x.size()));
            if (op == "CD") for (int l = 1; l < L; l++) { std::ostringstream ls; ls << "@0 " << k << " " << l << " ";
                emit0(cid, "SX", ls.str() + nums_str(ml->levels[l]->x.data(), ml->levels[l]->x.size()));
                emit0(cid, "SB", ls.str() + nums_str(ml->levels[l]->b.data(), ml->levels[l]->b.size())); }
            emit0(cid, "BOK", ks.str() + (bits_of(b) == b_before ? " 1" : " 0"));
        }
        std::string h_after;
        for (int l = 0; l < L; l++) h_after += snap_mat(ml->levels[l]->A) + (l < L - 1 ? snap_mat(ml->levels[l]->P) : std::string());
        h_after += bits_of(ml->A_coarse) + bits_of(ml->LU_permute);
        emit0(cid, "HOK", (h_after == h_before && snap_mat(As) == as_before) ? "1" : "0");
        delete ml; delete As; if (ml2) { delete ml2; delete As2; } return;
    }

    ParCSRMatrix* A = lit.csr();
    int first = A->partition->first_local_row, nloc = A->local_num_rows;
    std::string a_before = snap_par(A);

    ParMultilevel* ml;
    if (cls == "parrs") ml = new ParRugeStubenSolver(o.theta, (coarsen_t)o.coarsen, (interp_t)o.interp, (strength_t)o.strength, (relax_t)o.relax);
    else if (cls == "parsa") ml = new ParSmoothedAggregationSolver(o.theta, MIS, JacobiProlongation, (strength_t)o.strength, (relax_t)o.relax);
    else throw std::runtime_error("class " + cls);
    ml->max_coarse = o.max_coarse; ml->max_levels = o.max_levels; ml->relax_weight = o.omega; ml->num_smooth_sweeps = o.sweeps;
    ml->tap_amg = o.tap; ml->solve_tol = o.tol;
    ml->setup(A);
    emit0(cid, "SETUP", "ok");
    int L = ml->num_levels;
    { std::ostringstream s; s << L; for (int l = 0; l < L; l++) s << " " << ml->levels[l]->A->global_num_rows; emit0(cid, "NLEV", s.str()); }
    // the partition invariant the theorems assume: a rank without rows of P owns no column of P
    for (int l = 0; l < L; l++) {
        ParCSRMatrix* Al = ml->levels[l]->A; ParCSRMatrix* Pl = ml->levels[l]->P;
        std::ostringstream s; s << Al->local_num_rows << " " << (l < L - 1 ? Pl->on_proc_num_cols : 0) << " IDS " << Al->local_num_rows;
        for (int i = 0; i < Al->local_num_rows; i++) s << " " << Al->local_row_map[i];
        if (l < L - 1 && Pl->local_num_rows != Al->local_num_rows) s << " BADP";
        if (o.dump) { s << " A " << par_triples(Al);
            if (l < L - 1) s << " P " << Pl->global_num_cols << " " << par_triples(Pl); }
        std::ostringstream key; key << "LEV" << l; emit_all(cid, key.str(), s.str());
    }
    auto snap_h = [&]() { std::string h;
        for (int l = 0; l < L; l++) { h += snap_par(ml->levels[l]->A); if (l < L - 1) h += snap_par(ml->levels[l]->P); }
        h += bits_of(ml->A_coarse) + bits_of(ml->LU_permute); return h; };
    std::string h_before = snap_h();
    ParMultilevel* pml2 = NULL; ParCSRMatrix* pA2 = NULL;
    for (int k = 0; k < nops; k++) {
        std::string op = t.next(); std::ostringstream ks; ks << k;
        if (op == "P") { double s = sentinel(t.next_int());
            for (int l = 0; l < L; l++) { poison(ml->levels[l]->x.local, s); poison(ml->levels[l]->b.local, s); poison(ml->levels[l]->tmp.local, s); }
            continue; }
        if (op == "X") {      // cross-talk with a sibling hierarchy (see the sequential branch)
            int xi2 = t.next_int(), bi2 = t.next_int();
            if (!pml2) { pA2 = A->copy();
                for (int i = 0; i < pA2->local_num_rows; i++) for (int q = pA2->on_proc->idx1[i]; q < pA2->on_proc->idx1[i + 1]; q++)
                    if (pA2->on_proc_column_map[pA2->on_proc->idx2[q]] == pA2->local_row_map[i]) pA2->on_proc->vals[q] *= 2.0;
                if (cls == "parrs") pml2 = new ParRugeStubenSolver(o.theta, (coarsen_t)o.coarsen, (interp_t)o.interp, (strength_t)o.strength, (relax_t)o.relax);
                else pml2 = new ParSmoothedAggregationSolver(o.theta, MIS, JacobiProlongation, (strength_t)o.strength, (relax_t)o.relax);
                pml2->max_coarse = o.max_coarse; pml2->max_levels = o.max_levels; pml2->relax_weight = o.omega; pml2->num_smooth_sweeps = o.sweeps;
                pml2->tap_amg = o.tap; pml2->solve_tol = o.tol;
                pml2->setup(pA2); }
            ParVector x2(lit.nr, nloc), b2(lit.nr, nloc); fill_parvec(x2, first, vecs[xi2]); fill_parvec(b2, first, vecs[bi2]);
            pml2->cycle(x2, b2);
            continue; }
        int xi = t.next_int(), bi = t.next_int();
        ParVector x(lit.nr, nloc), b(lit.nr, nloc);
        fill_parvec(x, first, vecs[xi]); fill_parvec(b, first, vecs[bi]);
        std::string b_before = bits_of(b.local);
        if (op == "C" || op == "CD") ml->cycle(x, b);
        else if (op == "CC") { int kk = t.next_int(); for (int q = 0; q < kk; q++) ml->cycle(x, b); }
        else if (op == "S") { ml->max_iterations = t.next_int(); int it = ml->solve(x, b);
            std::ostringstream s; s << k << " " << it; emit0(cid, "ITER", s.str());
            emit0(cid, "RES", ks.str() + " " + nums_str(ml->residuals, std::min((int)ml->residuals.size(), it + 1))); }
        else if (op == "SI" || op == "SN") { ml->max_iterations = t.next_int();
            bool keep = ml->store_residuals; if (op == "SN") ml->store_residuals = false;
            int it = ml->solve(x, b); ml->store_residuals = keep;
            std::ostringstream s; s << k << " " << it; emit0(cid, "ITER", s.str());
            if (op == "SN") emit0(cid, "RES", ks.str()); else
            emit0(cid, "RES", ks.str() + " " + nums_str(ml->residuals, std::min((int)ml->residuals.size(), it + 1)));
            ParVector y(lit.nr, nloc); fill_parvec(y, first, vecs[xi]);
            for (int q = 1; q <= it; q++) { ml->cycle(y, b); std::ostringstream qs; qs << k << " " << q << " ";
                emit_all(cid, "XK", qs.str() + parvec_str(y)); } }
        else if (op == "K") { std::vector<double> res; PCG(A, ml, x, b, res, 1e-10, 4); }
        else if (op == "B") { std::vector<double> res; Pre_BiCGStab(A, x, b, ml, res, 1e-10, 3); }
        else throw std::runtime_error("op " + op);
        emit_all(cid, "OUT", ks.str() + " " + parvec_str(x));
        if (op == "CD") for (int l = 1; l < L; l++) { std::ostringstream ls; ls << k << " " << l << " ";
            emit_all(cid, "SX", ls.str() + parvec_str(ml->levels[l]->x));
            emit_all(cid, "SB", ls.str() + parvec_str(ml->levels[l]->b)); }
        int ok = bits_of(b.local) == b_before ? 1 : 0, all_ok = 0;
        MPI_Allreduce(&ok, &all_ok, 1, MPI_INT, MPI_MIN, MPI_COMM_WORLD);
        emit0(cid, "BOK", ks.str() + (all_ok ? " 1" : " 0"));
    }
    int ok = (snap_h() == h_before && snap_par(A) == a_before) ? 1 : 0, all_ok = 0;
    MPI_Allreduce(&ok, &all_ok, 1, MPI_INT, MPI_MIN, MPI_COMM_WORLD);
    emit0(cid, "HOK", all_ok ? "1" : "0");
    delete ml; delete A; if (pml2) { delete pml2; delete pA2; }
}

int main(int argc, char** argv) { return par_main(argc, argv, run_case); }
