// Driver of family `energy` (property C10): V-cycles of raptor's AMG classes on SPD systems; every iterate is
// dumped as hex floats so that the energy norm of the error can be evaluated exactly.
// Run under `mpirun -n 1` (the Par* classes are exercised on a single process).
//
// case line:  <cid> cyc <class> <coarsen> <interp> <relax> <theta> <max_coarse> <k> <dump> <prep>  csr-literal  x0[n]  b[n]
//   class   seq_rs | seq_sa | par_rs | par_sa
//   coarsen RS CLJP Falgout PMIS HMIS (ignored for *_sa)     interp Direct ModClassical Extended (ignored for *_sa)
//   relax   SOR | SSOR        theta = strength threshold        k = number of cycle() calls     dump = 1: print every level's A and P
//   prep    asis | diagfirst  (diagfirst: A->sort(); A->move_diag() before setup, as raptor does for coarse levels)
// output lines (one key per line):
//   <cid> LV <nlev> n_0 .. n_{L-1}
//   <cid> COARSE <min |u_ii|> <max |u_ii|>       LU pivots of the coarsest operator (from the factored buffer)
//   <cid> DIAG <level> <row> ...                  rows whose first stored entry is not a positive diagonal (per level)
//   <cid> X <k> v_0 .. v_{n-1}                    iterate after k cycles (k = 0: initial guess)
//   <cid> B <k> v_0 .. v_{n-1}                    right-hand side object after k cycles (must not change)
//   <cid> HA <l> csr...   /  <cid> HP <l> csr...  hierarchy (dump = 1)
//   <cid> SOLVE <iter> r_0 .. r_iter              solve() from the same initial guess, at most 30 iterations: raptor's own
//                                                 relative residual history;   <cid> XF v...  its final iterate
#include "common_par.hpp"

static coarsen_t coarsen_of(const std::string& s) {
    if (s == "RS") return RS; if (s == "CLJP") return CLJP; if (s == "Falgout") return Falgout;
    if (s == "PMIS") return PMIS; if (s == "HMIS") return HMIS; throw std::runtime_error("coarsen " + s); }
static interp_t interp_of(const std::string& s) {
    if (s == "Direct") return Direct; if (s == "ModClassical") return ModClassical; if (s == "Extended") return Extended;
    throw std::runtime_error("interp " + s); }
static relax_t relax_of(const std::string& s) {
    if (s == "SOR") return SOR; if (s == "SSOR") return SSOR; if (s == "Jacobi") return Jacobi; throw std::runtime_error("relax " + s); }

static void pivots(const std::vector<double>& lu, int n, double& mn, double& mx) {
    mn = 1e300; mx = 0;
    for (int i = 0; i < n; i++) { double u = fabs(lu[(size_t)i * n + i]); if (!(u >= mn)) mn = u; if (u > mx) mx = u; }
    if (n == 0) { mn = 1; mx = 1; }
}
static std::string csr_str(int nr, int nc, const std::vector<int>& p, const std::vector<int>& c, const std::vector<double>& v) {
    std::ostringstream o; int nnz = p[nr];
    o << "csr " << nr << " " << nc << " " << nnz << " I1 " << ints_str(p, nr + 1) << " I2 " << ints_str(c, nnz) << " V " << nums_str(v, nnz);
    return o.str();
}
// rows whose first stored entry is not a positive diagonal entry
static std::string bad_diag_rows(const CSRMatrix* A) {
    std::ostringstream o; int cnt = 0;
    for (int i = 0; i < A->n_rows; i++) {
        int s = A->idx1[i], e = A->idx1[i + 1];
        bool ok = (s < e) && A->idx2[s] == i && A->vals[s] > 0;
        if (!ok) { if (cnt < 6) o << " " << i; cnt++; }
    }
    std::ostringstream r; r << cnt << o.str(); return r.str();
}
// global CSR image of a ParCSRMatrix that lives on one process (on_proc only; off_proc must be empty)
static void par_to_csr(ParCSRMatrix* A, std::vector<int>& p, std::vector<int>& c, std::vector<double>& v) {
    if (A->off_proc->nnz != 0) throw std::runtime_error("off_proc entries on a single process");
    int n = A->local_num_rows; p.assign(n + 1, 0); c.clear(); v.clear();
    for (int i = 0; i < n; i++) {
        for (int j = A->on_proc->idx1[i]; j < A->on_proc->idx1[i + 1]; j++) {
            c.push_back(A->on_proc->idx2[j]); v.push_back(A->on_proc->vals[j]); }   // local column index = index among this process's columns
        p[i + 1] = (int)c.size();
    }
}

static void run_case(const std::string& cid, Toks& t) {
    std::string op = t.next();
    if (op != "cyc") throw std::runtime_error("op " + op);
    std::string cls = t.next(), sco = t.next(), sin = t.next(), srl = t.next();
    double theta = t.next_num();
    int max_coarse = t.next_int(), K = t.next_int(), dump = t.next_int();
    std::string prep = t.next(); int sweeps = 1, psteps = 1;       // "<asis|diagfirst>[/num_smooth_sweeps[/prolong_smooth_steps]]"
    { size_t q = prep.find('/'); if (q != std::string::npos) { sweeps = atoi(prep.c_str() + q + 1);
        size_t q2 = prep.find('/', q + 1); if (q2 != std::string::npos) psteps = atoi(prep.c_str() + q2 + 1);
        prep = prep.substr(0, q); } }
    std::string fmt = t.next(); if (fmt != "csr") throw std::runtime_error("csr literal expected");
    int nr = t.next_int(), nc = t.next_int(), nnz = t.next_int();
    std::vector<int> p = t.ints(nr + 1), c = t.ints(nnz); std::vector<double> v = t.nums(nnz);
    std::vector<double> x0 = t.nums(nr), bv = t.nums(nr);
    relax_t rl = relax_of(srl);
    const char* id = cid.c_str();
    if (cls == "seq_rs" || cls == "seq_sa") {
        CSRMatrix* A = new CSRMatrix(nr, nc, p, c, v);
        if (prep == "diagfirst") { A->sort(); A->move_diag(); }
        Multilevel* ml;
        if (cls == "seq_rs") ml = new RugeStubenSolver(theta, coarsen_of(sco), interp_of(sin), Classical, rl);
        else { SmoothedAggregationSolver* sa = new SmoothedAggregationSolver(theta, MIS, JacobiProlongation, Symmetric, rl);
               sa->prolong_smooth_steps = psteps; ml = sa; }
        ml->max_coarse = max_coarse; ml->relax_weight = 1.0; ml->num_smooth_sweeps = sweeps;
        ml->setup(A);
        { std::ostringstream o; o << ml->num_levels; for (int l = 0; l < ml->num_levels; l++) o << " " << ml->levels[l]->A->n_rows;
          printf("%s LV %s\n", id, o.str().c_str()); }
        double mn, mx; pivots(ml->A_coarse, ml->coarse_n, mn, mx);
        printf("%s COARSE %s %s\n", id, num_str(mn).c_str(), num_str(mx).c_str());
        for (int l = 0; l + 1 < ml->num_levels; l++)   // levels that are relaxed
            printf("%s DIAG %d %s\n", id, l, bad_diag_rows(ml->levels[l]->A).c_str());
        if (dump) for (int l = 0; l < ml->num_levels; l++) {
            CSRMatrix* Al = ml->levels[l]->A;
            printf("%s HA %d %s\n", id, l, csr_str(Al->n_rows, Al->n_cols, Al->idx1, Al->idx2, Al->vals).c_str());
            if (l + 1 < ml->num_levels) { CSRMatrix* Pl = ml->levels[l]->P;
                printf("%s HP %d %s\n", id, l, csr_str(Pl->n_rows, Pl->n_cols, Pl->idx1, Pl->idx2, Pl->vals).c_str()); }
        }
        Vector x(nr), b(nr);
        for (int i = 0; i < nr; i++) { x[i] = x0[i]; b[i] = bv[i]; }
        printf("%s X 0 %s\n", id, nums_str(x.data(), nr).c_str());
        for (int k = 1; k <= K; k++) {
            ml->cycle(x, b, 0);
            printf("%s X %d %s\n", id, k, nums_str(x.data(), nr).c_str());
            printf("%s B %d %s\n", id, k, nums_str(b.data(), nr).c_str());
        }
        {   // the solve loop on the same system (residual history without blow-up)
            Vector xs2(nr), bs2(nr);
            for (int i = 0; i < nr; i++) { xs2[i] = x0[i]; bs2[i] = bv[i]; }
            int it = ml->solve(xs2, bs2, 30);
            std::vector<double>& rs = ml->get_residuals();
            printf("%s SOLVE %d %s\n", id, it, nums_str(rs.data(), std::min((int)rs.size(), it + 1)).c_str());
            printf("%s XF %s\n", id, nums_str(xs2.data(), nr).c_str());
        }
        delete ml; delete A;
    } else if (cls == "par_rs" || cls == "par_sa") {
        ParCOOMatrix* Ac = new ParCOOMatrix(nr, nc);
        for (int i = 0; i < nr; i++) for (int j = p[i]; j < p[i + 1]; j++) Ac->add_global_value(i, c[j], v[j]);
        Ac->finalize();
        ParCSRMatrix* A = Ac->to_ParCSR(); delete Ac;
        if (prep == "diagfirst") { A->sort(); A->on_proc->move_diag(); }
        ParMultilevel* ml;
        if (cls == "par_rs") ml = new ParRugeStubenSolver(theta, coarsen_of(sco), interp_of(sin), Classical, rl);
        else ml = new ParSmoothedAggregationSolver(theta, MIS, JacobiProlongation, Symmetric, rl, psteps);
        ml->max_coarse = max_coarse; ml->relax_weight = 1.0; ml->num_smooth_sweeps = sweeps;
        ml->setup(A);
        { std::ostringstream o; o << ml->num_levels; for (int l = 0; l < ml->num_levels; l++) o << " " << ml->levels[l]->A->global_num_rows;
          printf("%s LV %s\n", id, o.str().c_str()); }
        // ParMultilevel::duplicate_coarse leaves coarse_n unset when the coarsest level has no rows
        int cn = ml->levels[ml->num_levels - 1]->A->local_num_rows ? ml->coarse_n : 0;
        double mn, mx; pivots(ml->A_coarse, cn, mn, mx);
        printf("%s COARSE %s %s\n", id, num_str(mn).c_str(), num_str(mx).c_str());
        for (int l = 0; l + 1 < ml->num_levels; l++) {
            ml->levels[l]->A->on_proc->sort(); ml->levels[l]->A->on_proc->move_diag();   // what the relaxation routines do first
            printf("%s DIAG %d %s\n", id, l, bad_diag_rows((CSRMatrix*)ml->levels[l]->A->on_proc).c_str());
        }
        if (dump) for (int l = 0; l < ml->num_levels; l++) {
            std::vector<int> pp, cc; std::vector<double> vv;
            ParCSRMatrix* Al = ml->levels[l]->A; par_to_csr(Al, pp, cc, vv);
            printf("%s HA %d %s\n", id, l, csr_str(Al->local_num_rows, Al->on_proc_num_cols, pp, cc, vv).c_str());
            if (l + 1 < ml->num_levels) { ParCSRMatrix* Pl = ml->levels[l]->P; par_to_csr(Pl, pp, cc, vv);
                printf("%s HP %d %s\n", id, l, csr_str(Pl->local_num_rows, Pl->on_proc_num_cols, pp, cc, vv).c_str()); }
        }
        ParVector x(nr, A->local_num_rows), b(nr, A->local_num_rows);
        for (int i = 0; i < nr; i++) { x.local[i] = x0[i]; b.local[i] = bv[i]; }
        printf("%s X 0 %s\n", id, nums_str(x.local.data(), nr).c_str());
        for (int k = 1; k <= K; k++) {
            ml->cycle(x, b, 0);
            printf("%s X %d %s\n", id, k, nums_str(x.local.data(), nr).c_str());
            printf("%s B %d %s\n", id, k, nums_str(b.local.data(), nr).c_str());
        }
        {
            ParVector xs2(nr, A->local_num_rows), bs2(nr, A->local_num_rows);
            for (int i = 0; i < nr; i++) { xs2.local[i] = x0[i]; bs2.local[i] = bv[i]; }
            ml->max_iterations = 30;
            int it = ml->solve(xs2, bs2);
            std::vector<double>& rs = ml->get_residuals();
            printf("%s SOLVE %d %s\n", id, it, nums_str(rs.data(), std::min((int)rs.size(), it + 1)).c_str());
            printf("%s XF %s\n", id, nums_str(xs2.local.data(), nr).c_str());
        }
        delete ml; delete A;
    } else throw std::runtime_error("class " + cls);
}

int main(int argc, char** argv) {
    par_init(&argc, &argv);
    if (g_np != 1) { if (g_rank == 0) fprintf(stderr, "drv_energy runs on one process\n"); MPI_Finalize(); return 2; }
    install_crash_handlers();
    // raptor prints progress lines ("Strength 0", "Forming S..") on stdout: they do not start with a case id and
    // are ignored by the reader (case ids start with 'e').
    std::ifstream in(argv[1]); std::string line;
    while (std::getline(in, line)) {
        if (line.empty() || line[0] == '#') continue;
        Toks t(line); std::string cid = t.next();
        verif_jmp_armed = 1;
        int sig = sigsetjmp(verif_jmp, 1);
        if (sig == 0) {
            try { run_case(cid, t); printf("%s DONE\n", cid.c_str()); }
            catch (std::exception& e) { printf("%s ERR %s\n", cid.c_str(), e.what()); }
        } else printf("%s CRASH signal %d\n", cid.c_str(), sig);
        verif_jmp_armed = 0; fflush(stdout);
    }
    MPI_Finalize();
    return 0;
}
