// Correspondence driver, family `agg` (C15): MIS-2 and aggregation, sequential and distributed.
// usage: drv_agg <casefile>      (sequential ops: run without mpirun / on 1 rank; `par` ops: mpirun -n P)
//
//   <cid> seq <mode> <A csr literal> <S csr literal> <nk> keys[nk] [states[n] when mode = given]
//        mode = mis   : mis2(S, states, keys) ; aggregate(A, S, states, aggs, keys)
//        mode = given : aggregate on the given states
//        nk = 0 : NULL keys are passed (mis2 then draws rand(); only used with mode = given)
//     -> <cid> R ST <n> states.. AG <n_aggs> <len> aggs..
//   <cid> par <tap> <A ParLit> <S ParLit> <n> keys[n]
//     -> <cid> R @r  FR <first_local_row> NL <local_num_rows> IT <iterations> ST states.. OC off_proc global cols.. OS off_proc_states..
//                    NA <n_aggs> AG aggs..
#include "common_par.hpp"

static void run_seq(const std::string& cid, Toks& t) {
    std::string mode = t.next();
    Matrix* A0 = parse_mat(t); Matrix* S0 = parse_mat(t);
    CSRMatrix* A = (CSRMatrix*)A0; CSRMatrix* S = (CSRMatrix*)S0;
    int nk = t.next_int(); std::vector<double> keys = t.nums(nk);
    std::vector<int> states, aggs;
    if (mode == "mis") mis2(S, states, nk ? keys.data() : NULL);
    else states = t.ints(S->n_rows);
    int n_aggs = aggregate(A, S, states, aggs, nk ? keys.data() : NULL);
    std::ostringstream o;
    o << "ST " << states.size() << " " << ints_str(states) << " AG " << n_aggs << " " << aggs.size() << " " << ints_str(aggs);
    printf("%s R %s\n", cid.c_str(), o.str().c_str()); fflush(stdout);
    delete A0; delete S0;
}

static void run_par(const std::string& cid, Toks& t) {
    int tap = t.next_int();
    ParLit LA, LS; LA.parse(t); LS.parse(t);
    int n = t.next_int(); std::vector<double> keys = t.nums(n);
    if (!LA.usable() || !LS.usable()) return;
    ParCSRMatrix* A = LA.csr(); ParCSRMatrix* S = LS.csr();
    // tap 1: three-step node-aware package, tap 2: the two-step form (form_S = false)
    if (tap) S->tap_comm = new TAPComm(S->partition, S->off_proc_column_map, S->on_proc_column_map, tap != 2);
    int first = S->partition->first_local_row;
    std::vector<double> w(S->local_num_rows > 0 ? S->local_num_rows : 1);
    for (int i = 0; i < S->local_num_rows; i++) w[i] = keys[first + i];
    std::vector<int> states, off_states, aggs;
    int it = mis2(S, states, off_states, tap != 0, w.data());
    int n_aggs = aggregate(A, S, states, off_states, aggs, tap != 0, w.data());
    std::ostringstream o;
    o << "FR " << first << " NL " << S->local_num_rows << " IT " << it << " ST " << ints_str(states, std::min((int)states.size(), S->local_num_rows));
    o << " OC " << ints_str(S->off_proc_column_map, S->off_proc_num_cols)
      << " OS " << ints_str(off_states, std::min((int)off_states.size(), S->off_proc_num_cols));
    o << " NA " << n_aggs << " AG " << ints_str(aggs, std::min((int)aggs.size(), S->local_num_rows));
    emit_all(cid, "R", o.str());
    delete A; delete S;
}

static void run_case(const std::string& cid, Toks& t) {
    std::string op = t.next();
    if (op == "seq") { if (g_rank == 0) run_seq(cid, t); }
    else if (op == "par") run_par(cid, t);
    else throw std::runtime_error("unknown op " + op);
}

int main(int argc, char** argv) { return par_main(argc, argv, run_case); }
