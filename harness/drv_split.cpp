// Correspondence driver, family `split` (C13): sequential and distributed C/F splittings with caller-supplied weights.
// usage: mpirun -n P drv_split <casefile>
//   <cid> seq <rs|rs1|cljp|pmis> <n> (k c1..ck)*n  w1..wn           (run on rank 0 only; rs1 = first pass only)
//   <cid> par <rs|cljp|falgout|pmis|hmis> <tap 0|1> <ParLit> w1..wn  (ParLit: nr nc P first_rows first_cols nnz (i j v)*)
// results:
//   <cid> ST s0 .. s(n-1)                                            sequential labels
//   <cid> PST @r L <nloc> s.. O <noff> (gcol view)* ...               per rank: own labels, views of off-process columns
//   <cid> ROWS @r <nloc> (kon c.. koff c..)* ...                      per rank: local rows as stored (global columns)
#include "common_par.hpp"
#include <cmath>

static void run_seq(const std::string& cid, Toks& t) {
    std::string algo = t.next(); int n = t.next_int();
    std::vector<int> ptr(1, 0), cols;
    for (int i = 0; i < n; i++) { int k = t.next_int(); for (int j = 0; j < k; j++) cols.push_back(t.next_int()); ptr.push_back((int)cols.size()); }
    std::vector<double> w = t.nums(n);
    if (g_rank != 0) return;
    std::vector<double> vals(cols.size(), 1.0);
    CSRMatrix* S = new CSRMatrix(n, n, ptr, cols, vals);
    std::vector<int> states;
    if (algo == "rs") split_rs(S, states);
    else if (algo == "rs1") split_rs(S, states, false, false);
    else if (algo == "cljp") split_cljp(S, states, w.data());
    else if (algo == "pmis") split_pmis(S, states, w.data());
    else throw std::runtime_error("algo " + algo);
    printf("%s ST %s\n", cid.c_str(), ints_str(states, n).c_str()); fflush(stdout);
    delete S;
}

static std::string rows_str(ParCSRMatrix* S) {
    std::ostringstream o; o << S->local_num_rows;
    for (int i = 0; i < S->local_num_rows; i++) {
        int a = S->on_proc->idx1[i], b = S->on_proc->idx1[i + 1];
        o << " " << (b - a); for (int j = a; j < b; j++) o << " " << S->on_proc_column_map[S->on_proc->idx2[j]];
        a = S->off_proc->idx1[i]; b = S->off_proc->idx1[i + 1];
        o << " " << (b - a); for (int j = a; j < b; j++) o << " " << S->off_proc_column_map[S->off_proc->idx2[j]];
    }
    return o.str();
}

// entries with |value| < 1/2 are weak couplings of A: S keeps A's column maps and communicator but stores the strong entries only
static void drop_weak(CSRMatrix* M) {
    std::vector<int> p(M->n_rows + 1, 0), c; std::vector<double> v;
    for (int i = 0; i < M->n_rows; i++) {
        for (int k = M->idx1[i]; k < M->idx1[i + 1]; k++) if (fabs(M->vals[k]) >= 0.5) { c.push_back(M->idx2[k]); v.push_back(M->vals[k]); }
        p[i + 1] = (int)c.size(); }
    M->idx1 = p; M->idx2 = c; M->vals = v; M->nnz = (int)c.size();
}
static void run_par(const std::string& cid, Toks& t, bool wide) {
    std::string algo = t.next(); int tap = t.next_int();
    ParLit L; L.parse(t);
    std::vector<double> wg = t.nums(L.nr);
    if (!L.usable()) return;
    ParCSRMatrix* S = L.csr(); ParCSRMatrix* A_wide = NULL;
    if (wide) {       // what A->strength() hands to the splitting routines: the strength pattern on A's (wider) communicator
        ParCSRMatrix* A = S; S = A->copy(); A_wide = A;
        drop_weak((CSRMatrix*)S->on_proc); drop_weak((CSRMatrix*)S->off_proc); S->local_nnz = S->on_proc->nnz + S->off_proc->nnz;
    }
    if (tap) S->init_tap_communicators();
    std::vector<double> w(S->local_num_rows > 0 ? S->local_num_rows : 1);
    for (int i = 0; i < S->local_num_rows; i++) w[i] = wg[S->partition->first_local_row + i];
    std::vector<int> states, off_states;
    emit_all(cid, "ROWS", rows_str(S));
    if (algo == "rs") split_rs(S, states, off_states, tap != 0);
    else if (algo == "cljp") split_cljp(S, states, off_states, tap != 0, w.data());
    else if (algo == "falgout") split_falgout(S, states, off_states, tap != 0, w.data());
    else if (algo == "pmis") split_pmis(S, states, off_states, tap != 0, w.data());
    else if (algo == "hmis") split_hmis(S, states, off_states, tap != 0, w.data());
    else throw std::runtime_error("algo " + algo);
    std::ostringstream o;
    o << "L " << S->local_num_rows << " " << ints_str(states, std::min((int)states.size(), S->local_num_rows));
    o << " O " << S->off_proc_num_cols;
    for (int i = 0; i < S->off_proc_num_cols; i++)
        o << " " << S->off_proc_column_map[i] << " " << (i < (int)off_states.size() ? off_states[i] : -99);
    emit_all(cid, "PST", o.str());
    delete S; if (A_wide) delete A_wide;      // (a leaked matrix keeps its node communicators: tens of thousands of cases exhaust MPI's ids)

}

static void run_case(const std::string& cid, Toks& t) {
    std::string kind = t.next();
    if (kind == "seq") run_seq(cid, t);
    else if (kind == "par") run_par(cid, t, false);
    else if (kind == "parw") run_par(cid, t, true);
    else throw std::runtime_error("kind " + kind);
}

int main(int argc, char** argv) {
    setenv("PPN", "4", 0);   // processes per node for the node-aware (tap) communicators; the harness sets it to a divisor of np
    return par_main(argc, argv, run_case);
}
