// Correspondence driver, family `hier` (C08): runs the AMG setup phase of the four solver classes and dumps
// every level of the hierarchy (global triples of A_l and P_l in hex floats, local/global sizes, column maps,
// work-vector sizes, strength-graph-has-edge flag).
// usage: mpirun -n P drv_hier <casefile>
// case:  <cid> hier <solver> <theta> <coarsen> <interp> <strength> <max_coarse> <max_levels> <tap_amg> <nvars>
//               <psteps> <pweight> <ParLit>
//   solver: rs | sa (sequential classes, executed by rank 0 of a 1-process launch) | prs | psa (distributed)
//   coarsen/interp/strength: the integer values of coarsen_t / interp_t / strength_t (agg_t / prolong_t for sa, psa)
// result lines (one per key; per-rank texts gathered with emit_all):
//   <cid> NLEV  @r <num_levels> <levels.size()> <coarse_n>
//   <cid> SZ<l> @r <A gr gc lr onc offc nnz_on nnz_off first_row first_col> <x.g x.l x.sz b.g b.l b.sz t.g t.l t.sz>
//                  <hasP> [<P gr gc lr onc offc first_col>]
//   <cid> MA<l> @r off <k> ids.. on <k> ids.. row <k> ids..          (column / row maps of A_l)
//   <cid> MP<l> @r off <k> ids.. on <k> ids.. row <k> ids..          (of P_l, if present)
//   <cid> TA<l> @r i j v ...   <cid> TP<l> @r i j v ...               (global triples, this rank's rows)
//   <cid> ED<l> @r <number of off-diagonal entries of this rank's rows of the library's strength matrix of A_l>
//   <cid> DC    @r <k> vals..   (dense coarse matrix A_coarse before LU is not available; we dump coarse_n only)
#include "common_par.hpp"

static std::string imap_str(const char* tag, const std::vector<int>& v, int n) {
    std::ostringstream o; o << tag << " " << n; for (int i = 0; i < n; i++) o << " " << v[i]; return o.str();
}

static std::string seq_triples(CSRMatrix* A) {
    std::ostringstream o; bool first = true;
    for (int i = 0; i < A->n_rows; i++) for (int k = A->idx1[i]; k < A->idx1[i + 1]; k++) {
        if (!first) o << " "; first = false; o << i << " " << A->idx2[k] << " " << num_str(A->vals[k]); }
    return o.str();
}
static int seq_offdiag(CSRMatrix* S) {
    int c = 0; for (int i = 0; i < S->n_rows; i++) for (int k = S->idx1[i]; k < S->idx1[i + 1]; k++) if (S->idx2[k] != i) c++; return c;
}
static std::string par_triples(ParCSRMatrix* A) {
    std::ostringstream o; bool first = true;
    for (int i = 0; i < A->local_num_rows; i++) {
        for (int k = A->on_proc->idx1[i]; k < A->on_proc->idx1[i + 1]; k++) { if (!first) o << " "; first = false;
            o << A->local_row_map[i] << " " << A->on_proc_column_map[A->on_proc->idx2[k]] << " " << num_str(A->on_proc->vals[k]); }
        for (int k = A->off_proc->idx1[i]; k < A->off_proc->idx1[i + 1]; k++) { if (!first) o << " "; first = false;
            o << A->local_row_map[i] << " " << A->off_proc_column_map[A->off_proc->idx2[k]] << " " << num_str(A->off_proc->vals[k]); }
    }
    return o.str();
}
static std::string par_maps(ParCSRMatrix* A) {
    return imap_str("off", A->off_proc_column_map, (int)A->off_proc_column_map.size()) + " " +
           imap_str("on", A->on_proc_column_map, (int)A->on_proc_column_map.size()) + " " +
           imap_str("row", A->local_row_map, (int)A->local_row_map.size());
}
static std::string lstr(int l, const char* k) { std::ostringstream o; o << k << l; return o.str(); }

struct Opts { std::string solver; double theta; int coarsen, interp, strength, max_coarse, max_levels, tap, nvars, psteps; double pweight; };

static void dump_seq(const std::string& cid, Multilevel* ml, const Opts& o) {
    std::ostringstream s; s << ml->num_levels << " " << ml->levels.size() << " " << ml->coarse_n;
    emit_all(cid, "NLEV", s.str());
    for (int l = 0; l < (int)ml->levels.size(); l++) {
        Level* L = ml->levels[l]; CSRMatrix* A = L->A; CSRMatrix* P = L->P;
        std::ostringstream z;
        z << A->n_rows << " " << A->n_cols << " " << A->n_rows << " " << A->n_cols << " 0 " << A->nnz << " 0 0 0 "
          << L->x.size() << " " << L->x.size() << " " << L->x.size() << " " << L->b.size() << " " << L->b.size() << " " << L->b.size() << " "
          << L->tmp.size() << " " << L->tmp.size() << " " << L->tmp.size() << " ";
        bool hasP = (P != NULL) && l + 1 < (int)ml->levels.size();
        if (hasP) z << "1 " << P->n_rows << " " << P->n_cols << " " << P->n_rows << " " << P->n_cols << " 0 0";
        else z << (P != NULL ? "2" : "0");
        emit_all(cid, lstr(l, "SZ"), z.str());
        emit_all(cid, lstr(l, "TA"), seq_triples(A));
        if (hasP) emit_all(cid, lstr(l, "TP"), seq_triples(P));
        if (o.nvars == 1) {
            CSRMatrix* S = A->strength((strength_t)o.strength, o.theta);
            std::ostringstream e; e << seq_offdiag(S); emit_all(cid, lstr(l, "ED"), e.str()); delete S;
        }
    }
}

static void dump_par(const std::string& cid, ParMultilevel* ml, const Opts& o) {
    // coarse_n is only assigned on ranks that own rows of the coarsest operator; elsewhere it is uninitialised and not reported
    std::ostringstream s; s << ml->num_levels << " " << ml->levels.size() << " "
        << (ml->levels[ml->levels.size() - 1]->A->local_num_rows ? ml->coarse_n : -1);
    emit_all(cid, "NLEV", s.str());
    {   // duplicate_coarse: sizes / displacements of the ranks that own rows of the coarsest operator
        std::ostringstream c; ParCSRMatrix* Ac = ml->levels[ml->levels.size() - 1]->A;
        if (Ac->local_num_rows) { c << ml->coarse_sizes.size(); for (size_t i = 0; i < ml->coarse_sizes.size(); i++) c << " " << ml->coarse_sizes[i];
            c << " " << ml->coarse_displs.size(); for (size_t i = 0; i < ml->coarse_displs.size(); i++) c << " " << ml->coarse_displs[i]; }
        else c << "-1";
        emit_all(cid, "CS", c.str());
    }
    for (int l = 0; l < (int)ml->levels.size(); l++) {
        ParLevel* L = ml->levels[l]; ParCSRMatrix* A = L->A; ParCSRMatrix* P = L->P;
        std::ostringstream z;
        z << A->global_num_rows << " " << A->global_num_cols << " " << A->local_num_rows << " " << A->on_proc_num_cols << " "
          << A->off_proc_num_cols << " " << A->on_proc->nnz << " " << A->off_proc->nnz << " "
          << (A->local_row_map.size() ? A->local_row_map[0] : -1) << " " << (A->on_proc_column_map.size() ? A->on_proc_column_map[0] : -1) << " "
          << L->x.global_n << " " << L->x.local_n << " " << L->x.local.size() << " "
          << L->b.global_n << " " << L->b.local_n << " " << L->b.local.size() << " "
          << L->tmp.global_n << " " << L->tmp.local_n << " " << L->tmp.local.size() << " ";
        bool hasP = (P != NULL) && l + 1 < (int)ml->levels.size();
        if (hasP) z << "1 " << P->global_num_rows << " " << P->global_num_cols << " " << P->local_num_rows << " " << P->on_proc_num_cols << " "
                    << P->off_proc_num_cols << " " << (P->on_proc_column_map.size() ? P->on_proc_column_map[0] : -1);
        else z << (P != NULL ? "2" : "0");
        // internal consistency of the local blocks with the maps (array bounds the triples rely on)
        z << " " << A->on_proc->n_rows << " " << A->on_proc->n_cols << " " << A->off_proc->n_rows << " " << A->off_proc->n_cols;
        if (hasP) z << " " << P->on_proc->n_rows << " " << P->on_proc->n_cols << " " << P->off_proc->n_rows << " " << P->off_proc->n_cols;
        emit_all(cid, lstr(l, "SZ"), z.str());
        emit_all(cid, lstr(l, "MA"), par_maps(A));
        emit_all(cid, lstr(l, "TA"), par_triples(A));
        if (hasP) { emit_all(cid, lstr(l, "MP"), par_maps(P)); emit_all(cid, lstr(l, "TP"), par_triples(P)); }
        if (o.nvars == 1) {
            ParCSRMatrix* S = A->strength((strength_t)o.strength, o.theta, false, 1, NULL);
            int c = 0;
            for (int i = 0; i < S->local_num_rows; i++) {
                for (int k = S->on_proc->idx1[i]; k < S->on_proc->idx1[i + 1]; k++) if (S->on_proc->idx2[k] != i) c++;
                c += S->off_proc->idx1[i + 1] - S->off_proc->idx1[i];
            }
            std::ostringstream e; e << c; emit_all(cid, lstr(l, "ED"), e.str()); delete S;
        }
    }
}

// max_levels = -1 means "no limit": a hierarchy that stops coarsening would make setup run (and allocate) for ever.
// Such a case is first run with the limit PROBE_LEVELS; only when that run stops earlier by itself (then the
// unlimited run is the same computation) is the unlimited setup executed; otherwise NOSTOP is reported.
static const int PROBE_LEVELS = 16;
static void run_case_inner(const std::string& cid, Toks& t, bool allow_probe) {
    size_t pos0 = t.pos;
    std::string op = t.next();
    if (op != "hier") throw std::runtime_error("op " + op);
    Opts o; o.solver = t.next(); o.theta = t.next_num(); o.coarsen = t.next_int(); o.interp = t.next_int(); o.strength = t.next_int();
    o.max_coarse = t.next_int(); o.max_levels = t.next_int(); o.tap = t.next_int(); o.nvars = t.next_int();
    o.psteps = t.next_int(); o.pweight = t.next_num();
    ParLit L; L.parse(t);
    if (!L.usable()) return;
    bool probe = allow_probe && o.max_levels == -1;
    if (probe) o.max_levels = PROBE_LEVELS;
    bool seq = (o.solver == "rs" || o.solver == "sa");
    if (seq) {
        if (g_np != 1) return;
        COOMatrix C(L.nr, L.nc, L.ti, L.tj, L.tv);
        CSRMatrix* A = C.to_CSR();
        Multilevel* ml;
        if (o.solver == "rs") {
            RugeStubenSolver* r = new RugeStubenSolver(o.theta, (coarsen_t)o.coarsen, (interp_t)o.interp, (strength_t)o.strength, SOR);
            r->num_variables = o.nvars; ml = r;
        } else {
            SmoothedAggregationSolver* r = new SmoothedAggregationSolver(o.theta, (agg_t)o.coarsen, (prolong_t)o.interp, (strength_t)o.strength, SOR);
            r->prolong_smooth_steps = o.psteps; r->prolong_weight = o.pweight; ml = r;
        }
        ml->max_coarse = o.max_coarse; ml->max_levels = o.max_levels;
        ml->setup(A);
        if (probe) { bool stuck = (int)ml->levels.size() >= PROBE_LEVELS; int nl = ml->levels[ml->levels.size() - 1]->A->n_rows;
            if (stuck) { std::ostringstream e; e << PROBE_LEVELS << " " << nl; emit_all(cid, "NOSTOP", e.str()); }
            else { delete ml; delete A; t.pos = pos0; run_case_inner(cid, t, false); return; } }
        dump_seq(cid, ml, o);
        delete ml; delete A;
    } else {
        ParCSRMatrix* A = L.csr();
        ParMultilevel* ml;
        if (o.solver == "prs") {
            ParRugeStubenSolver* r = new ParRugeStubenSolver(o.theta, (coarsen_t)o.coarsen, (interp_t)o.interp, (strength_t)o.strength, SOR);
            r->num_variables = o.nvars; ml = r;
        } else {
            ParSmoothedAggregationSolver* r = new ParSmoothedAggregationSolver(o.theta, (agg_t)o.coarsen, (prolong_t)o.interp, (strength_t)o.strength, SOR,
                                                                              o.psteps, o.pweight);
            r->num_variables = 1; ml = r;
        }
        ml->max_coarse = o.max_coarse; ml->max_levels = o.max_levels; ml->tap_amg = o.tap;
        ml->setup(A);
        if (probe) { bool stuck = (int)ml->levels.size() >= PROBE_LEVELS; int nl = ml->levels[ml->levels.size() - 1]->A->global_num_rows;
            if (stuck) { std::ostringstream e; e << PROBE_LEVELS << " " << nl; emit_all(cid, "NOSTOP", e.str()); }
            else { delete ml; delete A; t.pos = pos0; run_case_inner(cid, t, false); return; } }
        dump_par(cid, ml, o);
        delete ml; delete A;
    }
    emit0(cid, "DONE", "1");
}

static void run_case(const std::string& cid, Toks& t) { run_case_inner(cid, t, true); }

int main(int argc, char** argv) {
    setenv("PPN", "4", 0);      // as raptor's own TAP tests do (node size for the node-aware communicators); the launcher may override
    return par_main(argc, argv, run_case);
}
