// Correspondence driver, family spgemm (property C06): sequential Matrix::mult / mult_T in all format
// combinations (with the optional renumbering argument), the sequential Galerkin product, and the distributed
// ParCSRMatrix::mult / mult_T (ParCSC and ParCSR argument forms, standard or topology-aware communication) and the
// Galerkin product as the AMG setup forms it.
// usage: [mpirun -n P] drv_spgemm <casefile>    one or more result lines per case:  <cid> <key> <tokens...>
#include "common_par.hpp"

// ---------- sequential ----------
static std::vector<int> parse_map(Toks& t, bool& has) {
    int n = t.next_int(); has = n >= 0; std::vector<int> m; if (has) m = t.ints(n); return m;
}
static CSRMatrix* seq_mult(Matrix* A, Matrix* B, int* map) {
    if (B->format() == CSR) return A->mult((CSRMatrix*)B, map);
    if (B->format() == CSC) return A->mult((CSCMatrix*)B, map);
    return A->mult((COOMatrix*)B, map);
}
static CSRMatrix* seq_mult_T(Matrix* A, Matrix* B, int* map) {     // A^T * B
    if (A->format() == CSC) return B->mult_T((CSCMatrix*)A, map);
    if (A->format() == CSR) return B->mult_T((CSRMatrix*)A, map);
    return B->mult_T((COOMatrix*)A, map);
}

// ---------- distributed ----------
static void set_ppn(int tap) { if (tap > 0) { char b[16]; snprintf(b, sizeof b, "%d", tap); setenv("PPN", b, 1); } }

// this rank's part of a distributed CSR matrix, columns as global ids through the column maps
static std::string rank_dump(ParCSRMatrix* C) {
    std::ostringstream o;
    o << "G " << C->global_num_rows << " " << C->global_num_cols << " L " << C->local_num_rows
      << " NNZ " << C->local_nnz << " " << C->on_proc->nnz << " " << C->off_proc->nnz
      << " NC " << C->on_proc_num_cols << " " << C->off_proc_num_cols << " " << C->on_proc->n_cols << " " << C->off_proc->n_cols
      << " I1 " << C->on_proc->idx1.size() << " " << C->off_proc->idx1.size()
      << " PART " << C->partition->global_num_rows << " " << C->partition->global_num_cols << " "
      << C->partition->first_local_row << " " << C->partition->local_num_rows << " "
      << C->partition->first_local_col << " " << C->partition->local_num_cols;
    o << " ONMAP " << C->on_proc_column_map.size() << " " << ints_str(C->on_proc_column_map);
    o << " OFFMAP " << C->off_proc_column_map.size() << " " << ints_str(C->off_proc_column_map);
    o << " ROWS " << C->local_num_rows;
    for (int i = 0; i < C->local_num_rows; i++) {
        int g = (i < (int)C->local_row_map.size()) ? C->local_row_map[i] : -1;
        o << " " << g << " " << (C->on_proc->idx1[i + 1] - C->on_proc->idx1[i]);
        for (int k = C->on_proc->idx1[i]; k < C->on_proc->idx1[i + 1]; k++) {
            int lc = C->on_proc->idx2[k];
            o << " " << ((lc >= 0 && lc < (int)C->on_proc_column_map.size()) ? C->on_proc_column_map[lc] : -1000 - lc) << " " << num_str(C->on_proc->vals[k]);
        }
        o << " " << (C->off_proc->idx1[i + 1] - C->off_proc->idx1[i]);
        for (int k = C->off_proc->idx1[i]; k < C->off_proc->idx1[i + 1]; k++) {
            int lc = C->off_proc->idx2[k];
            o << " " << ((lc >= 0 && lc < (int)C->off_proc_column_map.size()) ? C->off_proc_column_map[lc] : -1000 - lc) << " " << num_str(C->off_proc->vals[k]);
        }
    }
    o << " END";
    return o.str();
}

// ParLit::csr() goes through COOMatrix::add_value, which discards zeros; explicit zeros (part of the property's
// quantifier) are therefore entered as a sentinel and set to 0 in the finished blocks (positions are distinct).
static const double ZERO_SENTINEL = 1234567.890625;
static ParCSRMatrix* build_csr(const ParLit& l) {
    ParLit m = l;
    for (size_t k = 0; k < m.tv.size(); k++) if (m.tv[k] == 0.0) m.tv[k] = ZERO_SENTINEL;
    ParCSRMatrix* A = m.csr();
    for (size_t k = 0; k < A->on_proc->vals.size(); k++) if (A->on_proc->vals[k] == ZERO_SENTINEL) A->on_proc->vals[k] = 0.0;
    for (size_t k = 0; k < A->off_proc->vals.size(); k++) if (A->off_proc->vals[k] == ZERO_SENTINEL) A->off_proc->vals[k] = 0.0;
    return A;
}

static ParCSRMatrix* par_mult_T(ParCSRMatrix* B, ParCSRMatrix* A, const std::string& form, int tap) {   // A^T * B
    if (form == "csc") { ParCSCMatrix* Ac = A->to_ParCSC(); ParCSRMatrix* C = B->mult_T(Ac, tap > 0); delete Ac; return C; }
    return B->mult_T(A, tap > 0);
}

static void run_case(const std::string& cid, Toks& t) {
    std::string op = t.next();
    if (op == "spgemm" || op == "spgemm_T") {
        Matrix* A = parse_mat(t); Matrix* B = parse_mat(t); bool has; std::vector<int> m = parse_map(t, has);
        CSRMatrix* C = (op == "spgemm") ? seq_mult(A, B, has ? m.data() : NULL) : seq_mult_T(A, B, has ? m.data() : NULL);
        emit0(cid, "R", mat_str(C)); delete A; delete B; delete C;
    } else if (op == "galerkin") {
        Matrix* A = parse_mat(t); Matrix* P = parse_mat(t);
        CSRMatrix* AP = seq_mult(A, P, NULL);
        CSRMatrix* Ac = seq_mult_T(P, AP, NULL);
        emit0(cid, "AP", mat_str(AP)); emit0(cid, "R", mat_str(Ac));
        delete A; delete P; delete AP; delete Ac;
    } else if (op == "pmult" || op == "pmult_T" || op == "pgalerkin") {
        int tap = t.next_int(); std::string form = t.next();
        ParLit la, lb; la.parse(t); lb.parse(t);
        if (!la.usable() || !lb.usable()) { emit0(cid, "SKIP", "partition for another process count"); return; }
        set_ppn(tap);
        ParCSRMatrix* A = build_csr(la); ParCSRMatrix* B = build_csr(lb);
        if (op == "pmult") {
            ParCSRMatrix* C = A->mult(B, tap > 0);
            emit_all(cid, "C", rank_dump(C)); delete C;
        } else if (op == "pmult_T") {
            ParCSRMatrix* C = par_mult_T(B, A, form, tap);
            emit_all(cid, "C", rank_dump(C)); delete C;
        } else {
            ParCSRMatrix* AP = A->mult(B, tap > 0);
            emit_all(cid, "AP", rank_dump(AP));
            ParCSRMatrix* Ac = par_mult_T(AP, B, form, tap);
            emit_all(cid, "C", rank_dump(Ac));
            delete Ac; delete AP;
        }
        delete A; delete B;
    } else throw std::runtime_error("unknown op " + op);
}

int main(int argc, char** argv) { return par_main(argc, argv, run_case); }
