// Correspondence driver for the communication packages (C03 standard ParComm, C04 node-aware TAPComm).
// One case = one process layout + partition + per-rank sorted off-process column list.
//   cid comm <mode> <PPN> <ordering> <with_onmap> P fc[P+1] { n cols... }xP  [derive: keepmask per rank]
//     mode 0: ParComm, 1: TAPComm 3-step, 2: TAPComm 2-step
// Payloads are deterministic functions of (global id, rank, slot) so the Python side can recompute them.
// Output (rank 0, gathered): PKG (dump of the package), FI/FD/FB (forward int/double/block 2),
//   RS/RM/RL (reverse sum/max/select), and the same with prefix D for the derived package.
#include "common_par.hpp"
#include <algorithm>

static std::string data_str(CommData* d, Topology* topo, bool local_ranks) {
    std::ostringstream o;
    o << d->num_msgs << " p";
    int node = 0; int rank; MPI_Comm_rank(MPI_COMM_WORLD, &rank); node = topo->get_node(rank);
    for (int i = 0; i < d->num_msgs; i++) o << " " << (local_ranks ? topo->get_global_proc(node, d->procs[i]) : d->procs[i]);
    o << " ptr"; for (int i = 0; i <= d->num_msgs; i++) o << " " << d->indptr[i];
    NonContigData* nc = dynamic_cast<NonContigData*>(d);
    DuplicateData* dd = dynamic_cast<DuplicateData*>(d);
    if (dd) { o << " dup " << dd->indptr_T.size(); for (size_t i = 0; i < dd->indptr_T.size(); i++) o << " " << dd->indptr_T[i]; }
    if (nc) { o << " idx " << nc->indices.size(); for (size_t i = 0; i < nc->indices.size(); i++) o << " " << nc->indices[i]; }
    o << " size " << d->size_msgs;
    return o.str();
}
static std::string parcomm_str(ParComm* c, Topology* topo, bool local_ranks) {
    if (!c) return "none";
    return "R " + data_str(c->recv_data, topo, local_ranks) + " S " + data_str(c->send_data, topo, local_ranks);
}
static std::string pkg_str(CommPkg* c, int mode, Topology* topo) {
    if (mode == 0) return "std " + parcomm_str((ParComm*)c, topo, false);
    TAPComm* t = (TAPComm*)c;
    std::ostringstream o;
    o << "tap recv_size " << t->recv_size << " L " << parcomm_str(t->local_L_par_comm, topo, true)
      << " SS " << parcomm_str(t->local_S_par_comm, topo, true) << " G " << parcomm_str(t->global_par_comm, topo, false)
      << " RR " << parcomm_str(t->local_R_par_comm, topo, true);
    return o.str();
}

static int vsel_func(int a, int b) { if (b >= 0) return b; else return a; }
static int vmax_func(int a, int b) { return b > a ? b : a; }

static void exercise(const std::string& cid, const std::string& pre, CommPkg* c, int mode, Topology* topo,
                     const std::vector<int>& lids,     // global id of each local entry
                     const std::vector<int>& colmap)   // global id of each receive slot
{
    int n = lids.size(), m = colmap.size();
    emit_all(cid, pre + "PKG", pkg_str(c, mode, topo));
    // forward: int (global ids), double, block of 2
    std::vector<int> xi(n); std::vector<double> xd(n), xb(2 * n);
    for (int i = 0; i < n; i++) { xi[i] = lids[i]; xd[i] = 0.5 * lids[i] + 1.0; xb[2 * i] = 10.0 * lids[i]; xb[2 * i + 1] = 10.0 * lids[i] + 1; }
    { std::vector<int>& r = c->communicate(xi); emit_all(cid, pre + "FI", ints_str(r, m)); }
    { std::vector<double>& r = c->communicate(xd); emit_all(cid, pre + "FD", nums_str(r, m)); }
    { std::vector<double>& r = c->communicate(xb, 2); emit_all(cid, pre + "FB", nums_str(r, 2 * m)); }
    { std::vector<int> xb2(2 * n); for (int i = 0; i < 2 * n; i++) xb2[i] = (int)xb[i];
      std::vector<int>& r = c->communicate(xb2, 2); emit_all(cid, pre + "FBI", ints_str(r, 2 * m)); }
    // forward exchange of sparse rows: the entry with global id g carries the row {((5g + t) mod 11, g + t/4) : t < g mod 3}.
    // FR: with values; FRP: pattern only through the array interface (empty value array, as the library's own callers do);
    // FRQ: pattern only through the matrix interface on a matrix that does store values
    {   CSRMatrix R(n, 11); R.idx1[0] = 0;
        for (int i = 0; i < n; i++) { int g = lids[i];
            for (int tt = 0; tt < g % 3; tt++) { R.idx2.push_back((5 * g + tt) % 11); R.vals.push_back(g + 0.25 * tt); }
            R.idx1[i + 1] = (int)R.idx2.size(); }
        R.nnz = (int)R.idx2.size();
        auto rows_str = [&](CSRMatrix* r, bool vals) { std::ostringstream o;
            for (int j = 0; j < m; j++) { int a = r->idx1[j], b = r->idx1[j + 1]; o << (j ? " " : "") << (b - a);
                for (int k = a; k < b; k++) { o << " " << r->idx2[k]; if (vals) o << " " << num_str(r->vals[k]); } }
            return o.str(); };
        { CSRMatrix* r = c->communicate(&R); emit_all(cid, pre + "FR", rows_str(r, true)); delete r; }
        { std::vector<double> none; CSRMatrix* r = c->communicate(R.idx1, R.idx2, none, 1, 1, false); emit_all(cid, pre + "FRP", rows_str(r, false)); delete r; }
        { CSRMatrix* r = c->communicate(&R, false); emit_all(cid, pre + "FRQ", rows_str(r, false)); delete r; }
    }
    // reverse exchange of sparse rows: slot j of rank p carries the row {((3c + p) mod 13, p + 1 + j/8), ((3c + p + 5) mod 13, -j)}
    // (+ (c mod 13, (p+1)/2) when 3 does not divide c) of c = colmap[j] (first entry only when c is even); the owner of c receives
    // the union of the rows sent for c
    {   CSRMatrix R(m, 13); R.idx1[0] = 0;
        for (int j = 0; j < m; j++) { int cg = colmap[j];
            R.idx2.push_back((3 * cg + g_rank) % 13); R.vals.push_back(g_rank + 1 + 0.125 * j);
            if (cg % 2) { R.idx2.push_back((3 * cg + g_rank + 5) % 13); R.vals.push_back(-1.0 * j); }
            if (cg % 3) { R.idx2.push_back(cg % 13); R.vals.push_back(0.5 * (g_rank + 1)); }      // a column every contributor of c shares
            R.idx1[j + 1] = (int)R.idx2.size(); }
        R.nnz = (int)R.idx2.size();
        CSRMatrix* r = c->communicate_T(R.idx1, R.idx2, R.vals, n);
        std::ostringstream o;
        for (int i = 0; i < n; i++) { int a = r->idx1[i], b = r->idx1[i + 1];
            std::vector<std::pair<int, double> > e; for (int k = a; k < b; k++) e.push_back(std::make_pair(r->idx2[k], r->vals[k]));
            std::sort(e.begin(), e.end());
            o << (i ? " " : "") << (b - a); for (size_t k = 0; k < e.size(); k++) o << " " << e[k].first << " " << num_str(e[k].second); }
        emit_all(cid, pre + "RR", o.str()); delete r;
    }
    // reverse: sum (double and int), max (int), select (int: every contribution to an entry carries the same value or -1)
    std::vector<double> yd(m); std::vector<int> yi(m), ysel(m);
    for (int j = 0; j < m; j++) { yi[j] = (g_rank + 1) * 100 + j; yd[j] = 0.25 * yi[j];
        ysel[j] = ((colmap[j] + g_rank) % 3 == 0) ? -1 : colmap[j]; }
    { std::vector<double> res(n); for (int i = 0; i < n; i++) res[i] = 1000.0 * lids[i];
      c->communicate_T(yd, res); emit_all(cid, pre + "RS", nums_str(res)); }
    { std::vector<int> res(n); for (int i = 0; i < n; i++) res[i] = 1000 * lids[i];
      c->communicate_T(yi, res); emit_all(cid, pre + "RSI", ints_str(res)); }
    { std::vector<int> res(n, 0); std::function<int(int, int)> f = vmax_func;
      c->communicate_T(yi, res, 1, f, f, 0); emit_all(cid, pre + "RM", ints_str(res)); }
    { std::vector<int> res(n, -1); std::function<int(int, int)> f = vsel_func;
      c->communicate_T(ysel, res, 1, f, f, -1); emit_all(cid, pre + "RL", ints_str(res)); }
    // max with negative owner entries and contributions equal to 0 (the node-aware package combines duplicates with the
    // init function, so the same reduction and a neutral element below every value are passed)
    { std::vector<int> yz(m), res(n, -1000); for (int j = 0; j < m; j++) yz[j] = ((colmap[j] + g_rank + j) % 3 == 0) ? 0 : -(g_rank + 1) * 10 - j;
      std::function<int(int, int)> f = vmax_func;
      if (mode == 0) c->communicate_T(yz, res, 1, f); else c->communicate_T(yz, res, 1, f, f, -1000000); emit_all(cid, pre + "RMN", ints_str(res)); }
    { std::vector<double> yz(m), res(n, -1000.0); for (int j = 0; j < m; j++) yz[j] = ((colmap[j] + g_rank + j) % 3 == 0) ? 0.0 : -(g_rank + 1) * 10.0 - j;
      std::function<double(double, double)> f = [](double a, double b) { return b > a ? b : a; };
      if (mode == 0) c->communicate_T(yz, res, 1, f); else c->communicate_T(yz, res, 1, f, f, -1000000.0); emit_all(cid, pre + "RMND", nums_str(res)); }
    { std::vector<double> yb(2 * m), res(2 * n, 0.0); for (int j = 0; j < m; j++) { yb[2 * j] = yi[j]; yb[2 * j + 1] = 0.5 * yi[j]; }
      c->communicate_T(yb, res, 2); emit_all(cid, pre + "RB", nums_str(res)); }
}

static void run_case(const std::string& cid, Toks& t) {
    std::string op = t.next();
    if (op != "comm") throw std::runtime_error("op " + op);
    int mode = t.next_int(), ppn = t.next_int(), ordering = t.next_int(), with_on = t.next_int(), derive = t.next_int();
    int P = t.next_int(); std::vector<int> fc = t.ints(P + 1);
    std::vector<std::vector<int> > cols(P), keep(P), onkeep(P);
    for (int p = 0; p < P; p++) { int n = t.next_int(); cols[p] = t.ints(n); }
    std::vector<int> gkeep;
    if (derive == 1) for (int p = 0; p < P; p++) { int n = t.next_int(); keep[p] = t.ints(n); }
    if (derive == 2) { int n = t.next_int(); gkeep = t.ints(n); }
    if (with_on) for (int p = 0; p < P; p++) { int n = t.next_int(); onkeep[p] = t.ints(n); }
    if (P != g_np) return;
    char buf[32]; snprintf(buf, sizeof buf, "%d", ppn); setenv("PPN", buf, 1);
    snprintf(buf, sizeof buf, "%d", ordering); setenv("RAPtor_MPICH_RANK_REORDER_METHOD", buf, 1);
    int N = fc[P], nloc = fc[g_rank + 1] - fc[g_rank], f0 = fc[g_rank];
    Partition* part = new Partition(N, N, nloc, nloc, f0, f0);
    std::vector<int>& mycols = cols[g_rank];
    // on_proc_column_map: the kept subset of local columns (sorted global ids) when with_on
    std::vector<int> lids, onmap;
    if (with_on) { for (int i = 0; i < nloc; i++) if (onkeep[g_rank][i]) onmap.push_back(f0 + i); lids = onmap; }
    else for (int i = 0; i < nloc; i++) lids.push_back(f0 + i);
    CommPkg* c;
    if (mode == 0) c = with_on ? new ParComm(part, mycols, onmap) : new ParComm(part, mycols);
    else c = with_on ? new TAPComm(part, mycols, onmap, mode == 1) : new TAPComm(part, mycols, mode == 1);
    exercise(cid, "", c, mode, part->topology, lids, mycols);
    if (derive) {
        // restricted sub-package by column filtering (and optionally renumbering of the local entries)
        std::vector<int> off_to_new(mycols.size(), -1), newcols; int ctr = 0;
        for (size_t j = 0; j < mycols.size(); j++)
            if (derive == 1 ? keep[g_rank][j] : gkeep[mycols[j]]) { off_to_new[j] = ctr++; newcols.push_back(mycols[j]); }
        CommPkg* dpk; std::vector<int> dl = lids;
        if (derive == 2) {
            // the same global keep set on both sides (as AMG does with the C-points)
            std::vector<int> on_to_new(lids.size(), -1); dl.clear(); int k = 0;
            for (size_t i = 0; i < lids.size(); i++) if (gkeep[lids[i]]) { on_to_new[i] = k++; dl.push_back(lids[i]); }
            if (mode == 0) dpk = new ParComm((ParComm*)c, on_to_new, off_to_new);
            else dpk = new TAPComm((TAPComm*)c, on_to_new, off_to_new);
        } else {
            if (mode == 0) dpk = new ParComm((ParComm*)c, off_to_new);
            else dpk = new TAPComm((TAPComm*)c, off_to_new);
        }
        exercise(cid, "D", dpk, mode, part->topology, dl, newcols);
    }
    if (mode == 1) {
        // the pair of packages a distributed matrix carries (ParMatrix::init_tap_communicators: 3-step tap_comm and 2-step
        // tap_mat_comm sharing their on-node part), and the derived pair of ParMatrix::update_tap_comm
        ParCSRMatrix* M = new ParCSRMatrix(part, N, N, nloc, (int)lids.size(), (int)mycols.size());
        M->on_proc_column_map = lids; M->off_proc_column_map = mycols;
        M->local_row_map.clear(); for (int i = 0; i < nloc; i++) M->local_row_map.push_back(f0 + i);
        M->init_tap_communicators();
        exercise(cid, "M3", M->tap_comm, 1, part->topology, lids, mycols);
        exercise(cid, "M2", M->tap_mat_comm, 2, part->topology, lids, mycols);
        if (derive == 2) {
            std::vector<int> off_to_new(mycols.size(), -1), newcols, on_to_new(lids.size(), -1), dl; int ctr = 0, k = 0;
            for (size_t j = 0; j < mycols.size(); j++) if (gkeep[mycols[j]]) { off_to_new[j] = ctr++; newcols.push_back(mycols[j]); }
            for (size_t i = 0; i < lids.size(); i++) if (gkeep[lids[i]]) { on_to_new[i] = k++; dl.push_back(lids[i]); }
            ParCSRMatrix* M2 = new ParCSRMatrix(part, N, N, nloc, (int)dl.size(), (int)newcols.size());
            M2->update_tap_comm(M, on_to_new, off_to_new);
            exercise(cid, "N3", M2->tap_comm, 1, part->topology, dl, newcols);
            exercise(cid, "N2", M2->tap_mat_comm, 2, part->topology, dl, newcols);
        }
    }
    emit0(cid, "DONE", "1");
}

int main(int argc, char** argv) { return par_main(argc, argv, run_case); }
