// Shared helpers for the correspondence drivers: token stream, number parsing, exact printing.
#ifndef VERIF_COMMON_HPP
#define VERIF_COMMON_HPP
#include <cstdio>
#include <cstdlib>
#include <cstring>
#include <string>
#include <vector>
#include <sstream>
#include <fstream>
#include <iostream>
#include <stdexcept>
#include <csignal>
#include <csetjmp>
#include "raptor/raptor.hpp"

using namespace raptor;

struct Toks {
    std::vector<std::string> t; size_t pos;
    Toks(const std::string& line) : pos(0) { std::istringstream is(line); std::string s; while (is >> s) t.push_back(s); }
    bool more() const { return pos < t.size(); }
    std::string next() { if (pos >= t.size()) throw std::runtime_error("eol"); return t[pos++]; }
    int next_int() { return atoi(next().c_str()); }
    double next_num() {
        std::string s = next();
        size_t k = s.find('/');
        if (s.find('x') != std::string::npos || s.find('X') != std::string::npos) return strtod(s.c_str(), NULL);
        if (k != std::string::npos) return strtod(s.substr(0, k).c_str(), NULL) / strtod(s.substr(k + 1).c_str(), NULL);
        return strtod(s.c_str(), NULL);
    }
    std::vector<int> ints(int n) { std::vector<int> v(n); for (int i = 0; i < n; i++) v[i] = next_int(); return v; }
    std::vector<double> nums(int n) { std::vector<double> v(n); for (int i = 0; i < n; i++) v[i] = next_num(); return v; }
};

static inline std::string num_str(double d) { char buf[64]; snprintf(buf, sizeof buf, "%a", d); return std::string(buf); }
static inline std::string ints_str(const std::vector<int>& v, int n = -1) {
    std::ostringstream o; int m = n < 0 ? (int)v.size() : n; for (int i = 0; i < m; i++) { if (i) o << " "; o << v[i]; } return o.str(); }
static inline std::string nums_str(const double* v, int n) {
    std::ostringstream o; for (int i = 0; i < n; i++) { if (i) o << " "; o << num_str(v[i]); } return o.str(); }
static inline std::string nums_str(const std::vector<double>& v, int n = -1) { return nums_str(v.data(), n < 0 ? (int)v.size() : n); }

// boundary form of a sequential matrix
static inline Matrix* parse_mat(Toks& t) {
    std::string fmt = t.next(); int nr = t.next_int(), nc = t.next_int(), nnz = t.next_int();
    if (fmt == "coo") {
        std::vector<int> r = t.ints(nnz), c = t.ints(nnz); std::vector<double> v = t.nums(nnz);
        return new COOMatrix(nr, nc, r, c, v);
    } else if (fmt == "csr") {
        std::vector<int> p = t.ints(nr + 1), c = t.ints(nnz); std::vector<double> v = t.nums(nnz);
        return new CSRMatrix(nr, nc, p, c, v);
    } else if (fmt == "csc") {
        std::vector<int> p = t.ints(nc + 1), c = t.ints(nnz); std::vector<double> v = t.nums(nnz);
        return new CSCMatrix(nr, nc, p, c, v);
    }
    throw std::runtime_error("format " + fmt);
}
static inline const char* fmt_name(Matrix* A) {
    switch (A->format()) { case COO: return "coo"; case CSR: return "csr"; case CSC: return "csc";
                           case BCOO: return "bcoo"; case BSR: return "bsr"; case BSC: return "bsc"; default: return "?"; } }
static inline std::string mat_str(Matrix* A) {
    std::ostringstream o;
    o << fmt_name(A) << " " << A->n_rows << " " << A->n_cols << " " << A->nnz << " I1 ";
    int n1 = (A->format() == COO) ? A->nnz : (int)A->idx1.size();
    o << ints_str(A->idx1, n1) << " I2 " << ints_str(A->idx2, A->nnz) << " V " << nums_str(A->vals, std::min((int)A->vals.size(), A->nnz));
    return o.str();
}

// crash containment: a segfault inside one case is reported as that case's result
static sigjmp_buf verif_jmp; static volatile int verif_jmp_armed = 0;
static void verif_sig(int sig) { if (verif_jmp_armed) siglongjmp(verif_jmp, sig); _exit(128 + sig); }
static inline void install_crash_handlers() {
    struct sigaction sa; memset(&sa, 0, sizeof sa); sa.sa_handler = verif_sig; sa.sa_flags = SA_NODEFER;
    sigaction(SIGSEGV, &sa, NULL); sigaction(SIGFPE, &sa, NULL); sigaction(SIGBUS, &sa, NULL); sigaction(SIGABRT, &sa, NULL);
}
#endif
