// Correspondence driver, relaxation family (C11): sequential jacobi/sor/ssor (relax.cpp) and the distributed
// jacobi/sor/ssor (par_relax.cpp) on the real library.
// usage: [mpirun -n P] drv_relax <casefile>
//   <cid> seq <method> <sweeps> <omega> csr n n nnz ptr.. cols.. vals..  x[n] b[n]
//   <cid> par <method> <sweeps> <omega> <tap> <ppn> <scramble> <np> <tinyrow> <ParLit>  x[n] b[n]
//        (np = process count the case is meant for; other launches skip it.  scramble: 0 none, 1 reverse every
//         stored on_proc/off_proc row, 2 rotate it by one, and clear the sorted/diag_first flags, so that the
//         routine's own sort()/move_diag() preamble has work to do.  tinyrow >= 0: after construction the stored
//         diagonal of that global row is overwritten with 2^-60 (COOMatrix::add_value drops |v| <= zero_tol, so such
//         an entry cannot be passed through the literal); -1: nothing)
// output (rank 0 only for seq):
//   <cid> X <values>                 sequential result
//   <cid> B <0|1>                    1 = right-hand side bitwise unchanged
//   <cid> X @0 <vals> @1 <vals> ...  distributed result per rank;  <cid> B @0 <0|1> ...;  <cid> PART @0 first n @1 ...
#include "common_par.hpp"
#include <cstdint>
#include <algorithm>

static bool same_bits(const double* a, const double* b, int n) { return n == 0 || memcmp(a, b, sizeof(double) * n) == 0; }

static void scramble_rows(CSRMatrix* M, int mode) {
    if (mode == 0) return;
    for (int i = 0; i < M->n_rows; i++) {
        int s = M->idx1[i], e = M->idx1[i + 1];
        if (e - s < 2) continue;
        if (mode == 1) { std::reverse(M->idx2.begin() + s, M->idx2.begin() + e); std::reverse(M->vals.begin() + s, M->vals.begin() + e); }
        else { std::rotate(M->idx2.begin() + s, M->idx2.begin() + s + 1, M->idx2.begin() + e);
               std::rotate(M->vals.begin() + s, M->vals.begin() + s + 1, M->vals.begin() + e); }
    }
    M->sorted = false; M->diag_first = false;
}

static void run_case(const std::string& cid, Toks& t) {
    std::string op = t.next();
    if (op == "seq") {
        std::string method = t.next(); int sweeps = t.next_int(); double omega = t.next_num();
        if (g_rank != 0) return;
        Matrix* M = parse_mat(t); CSRMatrix* A = (CSRMatrix*)M;
        int n = A->n_rows;
        std::vector<double> xv = t.nums(n), bv = t.nums(n);
        Vector x(n), b(n), tmp(n);
        for (int i = 0; i < n; i++) { x[i] = xv[i]; b[i] = bv[i]; tmp[i] = 12345.0; }
        if (method == "jacobi") jacobi(A, x, b, tmp, sweeps, omega);
        else if (method == "sor") sor(A, x, b, tmp, sweeps, omega);
        else if (method == "ssor") ssor(A, x, b, tmp, sweeps, omega);
        else throw std::runtime_error("method " + method);
        printf("%s X %s\n", cid.c_str(), nums_str(x.data(), n).c_str());
        printf("%s B %d\n", cid.c_str(), same_bits(b.data(), bv.data(), n) ? 1 : 0);
        fflush(stdout); delete A;
    } else if (op == "par") {
        std::string method = t.next(); int sweeps = t.next_int(); double omega = t.next_num();
        int tap = t.next_int(); int ppn = t.next_int(); int scr = t.next_int(); int np = t.next_int();
        int tinyrow = t.next_int();
        if (np != g_np) return;
        char buf[16]; snprintf(buf, sizeof buf, "%d", ppn); setenv("PPN", buf, 1);   // read by Topology when the partition is built
        ParLit L; L.parse(t);
        if (!L.usable()) return;
        std::vector<double> xv = t.nums(L.nr), bv = t.nums(L.nr);
        ParCSRMatrix* A = L.csr();
        scramble_rows((CSRMatrix*)A->on_proc, scr); scramble_rows((CSRMatrix*)A->off_proc, scr);
        int first = A->partition->first_local_row, ln = A->local_num_rows;
        if (tinyrow >= first && tinyrow < first + ln) {
            int li = tinyrow - first;
            for (int j = A->on_proc->idx1[li]; j < A->on_proc->idx1[li + 1]; j++)
                if (A->on_proc_column_map[A->on_proc->idx2[j]] == tinyrow) A->on_proc->vals[j] = ldexp(1.0, -60);
        }
        ParVector x(A->global_num_rows, ln), b(A->global_num_rows, ln), tmp(A->global_num_rows, ln);
        fill_parvec(x, first, xv); fill_parvec(b, first, bv);
        for (int i = 0; i < ln; i++) tmp.local[i] = 12345.0;
        std::vector<double> b0(b.local.data(), b.local.data() + ln);
        if (method == "jacobi") jacobi(A, x, b, tmp, sweeps, omega, tap != 0);
        else if (method == "sor") sor(A, x, b, tmp, sweeps, omega, tap != 0);
        else if (method == "ssor") ssor(A, x, b, tmp, sweeps, omega, tap != 0);
        else throw std::runtime_error("method " + method);
        emit_all(cid, "X", parvec_str(x));
        emit_all(cid, "B", same_bits(b.local.data(), b0.data(), ln) ? "1" : "0");
        { std::ostringstream o; o << first << " " << ln; emit_all(cid, "PART", o.str()); }
        delete A;
    } else throw std::runtime_error("op " + op);
}

int main(int argc, char** argv) { return par_main(argc, argv, run_case); }
