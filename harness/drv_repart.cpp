// Correspondence driver, family `repart` (C20): repartition_matrix / make_contiguous (util/linalg/repartition.cpp)
// and diagonally_scale / row_scale / diagonally_unscale (util/linalg/par_diag_scale.cpp) on the real library.
// usage: mpirun -n P drv_repart <casefile>
//   <cid> repart <ParLit> n tmap[n] n x[n]
//   <cid> dscale <ParLit> n b[n] n y[n]
//   <cid> rscale <ParLit> n b[n]
// Output (per key one line, ranks gathered):  VIEW (input local view), NEW (result view + new_local_rows + maps),
// PKG (send/recv sides of the new package), MULT (A_new * permuted x through A_new->comm), MULT0 (A * x),
// B (right-hand side after scaling), S (row_scales), U (unscaled vector).
#include "common_par.hpp"
#include "raptor/util/linalg/repartition.hpp"
#include "raptor/util/linalg/par_diag_scale.hpp"

static std::string csr_str(CSRMatrix* M, int nrows) {
    std::ostringstream o;
    std::vector<int> ptr(M->idx1.begin(), M->idx1.begin() + std::min((int)M->idx1.size(), nrows + 1));
    int nnz = ptr.empty() ? 0 : ptr.back();
    o << "P " << ints_str(ptr) << " I " << ints_str(M->idx2, std::min(nnz, (int)M->idx2.size()))
      << " V " << nums_str(M->vals, std::min(nnz, (int)M->vals.size()));
    return o.str();
}
// first nloc gn ON P.. I.. V.. OFF P.. I.. V.. CM colmap..
static std::string view_str(ParCSRMatrix* A) {
    std::ostringstream o;
    o << A->partition->first_local_row << " " << A->local_num_rows << " " << A->global_num_rows
      << " ON " << csr_str((CSRMatrix*)A->on_proc, A->local_num_rows)
      << " OFF " << csr_str((CSRMatrix*)A->off_proc, A->local_num_rows)
      << " CM " << ints_str(A->off_proc_column_map, A->off_proc_num_cols) << " END";
    return o.str();
}

static void run_case(const std::string& cid, Toks& t) {
    std::string op = t.next();
    ParLit L; L.parse(t);
    if (!L.usable()) return;
    ParCSRMatrix* A = L.csr();
    int f = A->partition->first_local_row, nl = A->local_num_rows;
    if (op == "repart") {
        int n = t.next_int(); std::vector<int> tmap = t.ints(n);
        int nx = t.next_int(); std::vector<double> xg = t.nums(nx);
        emit_all(cid, "VIEW", view_str(A));
        std::vector<int> part(nl + 1, 0);
        for (int i = 0; i < nl; i++) part[i] = tmap[f + i];
        // the output vector is an out-parameter callers reuse (test_ptscotch does): hand it over with stale content
        std::vector<int> new_local_rows; if (cid.size() % 2) { new_local_rows.push_back(-7); new_local_rows.push_back(123456); }
        ParCSRMatrix* B = repartition_matrix(A, part.data(), new_local_rows);
        std::ostringstream o;
        o << view_str(B) << " NLR " << ints_str(new_local_rows) << " LRM " << ints_str(B->local_row_map)
          << " OCM " << ints_str(B->on_proc_column_map) << " FC " << B->partition->first_local_col
          << " GC " << B->global_num_cols << " NC " << B->on_proc_num_cols
          << " PT " << B->partition->first_local_row << " " << B->partition->last_local_row << " " << B->partition->first_local_col << " "
          << B->partition->last_local_col << " " << B->partition->local_num_rows << " " << B->partition->local_num_cols << " "
          << B->partition->global_num_rows << " " << B->partition->global_num_cols << " " << B->off_proc_num_cols << " " << B->local_nnz
          << " FCS " << ints_str(B->partition->first_cols) << " END";
        emit_all(cid, "NEW", o.str());
        ParComm* c = (ParComm*)B->comm;
        std::ostringstream p;
        p << "RP " << ints_str(c->recv_data->procs, c->recv_data->num_msgs) << " RI " << ints_str(c->recv_data->indptr, c->recv_data->num_msgs + 1)
          << " SP " << ints_str(c->send_data->procs, c->send_data->num_msgs) << " SI " << ints_str(c->send_data->indptr, c->send_data->num_msgs + 1)
          << " SX " << ints_str(((NonContigData*)c->send_data)->indices, c->send_data->size_msgs) << " END";
        emit_all(cid, "PKG", p.str());
        // product with the new matrix through its own communication package
        ParVector xn(B->global_num_rows, B->local_num_rows), bn(B->global_num_rows, B->local_num_rows);
        for (int i = 0; i < B->local_num_rows; i++) { int g = new_local_rows[i]; xn.local[i] = (g >= 0 && g < nx) ? xg[g] : 0.0; bn.local[i] = 777.0; }
        B->mult(xn, bn);
        emit_all(cid, "MULT", parvec_str(bn));
        ParVector x0(A->global_num_rows, nl), b0(A->global_num_rows, nl);
        fill_parvec(x0, f, xg); A->mult(x0, b0);
        emit_all(cid, "MULT0", parvec_str(b0));
        delete B;
    } else if (op == "dscale") {
        int nb = t.next_int(); std::vector<double> bg = t.nums(nb);
        int ny = t.next_int(); std::vector<double> yg = t.nums(ny);
        emit_all(cid, "VIEW", view_str(A));
        ParVector b(A->global_num_rows, nl), y(A->global_num_rows, nl);
        fill_parvec(b, f, bg); fill_parvec(y, f, yg);
        std::vector<double> scales;
        diagonally_scale(A, b, scales);
        emit_all(cid, "NEW", view_str(A));
        emit_all(cid, "B", parvec_str(b));
        emit_all(cid, "S", nums_str(scales));
        diagonally_unscale(y, scales);
        emit_all(cid, "U", parvec_str(y));
    } else if (op == "rscale") {
        int nb = t.next_int(); std::vector<double> bg = t.nums(nb);
        emit_all(cid, "VIEW", view_str(A));
        ParVector b(A->global_num_rows, nl);
        fill_parvec(b, f, bg);
        row_scale(A, b);
        emit_all(cid, "NEW", view_str(A));
        emit_all(cid, "B", parvec_str(b));
    } else throw std::runtime_error("unknown op " + op);
    delete A;
}

int main(int argc, char** argv) { return par_main(argc, argv, run_case); }
