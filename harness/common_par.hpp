// Helpers for the distributed drivers: build a ParCOO/ParCSR matrix from a global triple list and an explicit
// contiguous partition, gather per-rank output to rank 0 (one line per case and key, ranks in order).
#ifndef VERIF_COMMON_PAR_HPP
#define VERIF_COMMON_PAR_HPP
#include "common.hpp"

static int g_rank = 0, g_np = 1;
static std::string g_out;   // this rank's pending output for the current case

static inline void par_init(int* argc, char*** argv) {
    MPI_Init(argc, argv); MPI_Comm_rank(MPI_COMM_WORLD, &g_rank); MPI_Comm_size(MPI_COMM_WORLD, &g_np);
}
// every rank calls emit with its own text; rank 0 prints "<cid> <key> r0: ... | r1: ... "
static inline void emit_all(const std::string& cid, const std::string& key, const std::string& mine) {
    int len = (int)mine.size(); std::vector<int> lens(g_np), disp(g_np + 1, 0);
    MPI_Gather(&len, 1, MPI_INT, lens.data(), 1, MPI_INT, 0, MPI_COMM_WORLD);
    if (g_rank == 0) for (int i = 0; i < g_np; i++) disp[i + 1] = disp[i] + lens[i];
    std::vector<char> buf(g_rank == 0 ? disp[g_np] + 1 : 1);
    MPI_Gatherv((void*)mine.data(), len, MPI_CHAR, buf.data(), lens.data(), disp.data(), MPI_CHAR, 0, MPI_COMM_WORLD);
    if (g_rank == 0) {
        std::ostringstream o; o << cid << " " << key;
        for (int i = 0; i < g_np; i++) o << " @" << i << " " << std::string(buf.data() + disp[i], lens[i]);
        printf("%s\n", o.str().c_str()); fflush(stdout);
    }
}
static inline void emit0(const std::string& cid, const std::string& key, const std::string& text) {
    if (g_rank == 0) { printf("%s %s %s\n", cid.c_str(), key.c_str(), text.c_str()); fflush(stdout); }
}

// after a case: has everything that was sent been received?  A message nobody receives stays queued and is matched by a later
// operation that uses the same tag.  Returns the number of messages found waiting on this rank (they are received and dropped).
static inline int drain_stray() {
    int n = 0;
    for (int round = 0; round < 3; round++) {
        MPI_Barrier(MPI_COMM_WORLD);
        int flag = 1; MPI_Status st;
        while (flag) {
            MPI_Iprobe(MPI_ANY_SOURCE, MPI_ANY_TAG, MPI_COMM_WORLD, &flag, &st);
            if (flag) { int cnt = 0; MPI_Get_count(&st, MPI_BYTE, &cnt); std::vector<char> b(cnt + 1);
                MPI_Recv(b.data(), cnt, MPI_BYTE, st.MPI_SOURCE, st.MPI_TAG, MPI_COMM_WORLD, MPI_STATUS_IGNORE); n++; }
        }
    }
    return n;
}

// distributed matrix literal:  nr nc  P first_rows[P+1] first_cols[P+1]  nnz (i j v)*     (P = 0: default partition)
struct ParLit {
    int nr, nc, P; std::vector<int> frow, fcol; int nnz; std::vector<int> ti, tj; std::vector<double> tv;
    void parse(Toks& t) {
        nr = t.next_int(); nc = t.next_int(); P = t.next_int();
        if (P > 0) { frow = t.ints(P + 1); fcol = t.ints(P + 1); }
        nnz = t.next_int(); ti.resize(nnz); tj.resize(nnz); tv.resize(nnz);
        for (int k = 0; k < nnz; k++) { ti[k] = t.next_int(); tj[k] = t.next_int(); tv[k] = t.next_num(); }
    }
    bool usable() const { return P == 0 || P == g_np; }
    ParCOOMatrix* coo() const {
        ParCOOMatrix* A;
        if (P == 0) A = new ParCOOMatrix(nr, nc);
        else A = new ParCOOMatrix(nr, nc, frow[g_rank + 1] - frow[g_rank], fcol[g_rank + 1] - fcol[g_rank], frow[g_rank], fcol[g_rank]);
        int f = A->partition->first_local_row, l = f + A->local_num_rows;
        for (int k = 0; k < nnz; k++) if (ti[k] >= f && ti[k] < l) A->add_global_value(ti[k], tj[k], tv[k]);
        A->finalize();
        return A;
    }
    ParCSRMatrix* csr() const { ParCOOMatrix* A = coo(); ParCSRMatrix* B = A->to_ParCSR(); delete A; return B; }
};

// distributed vector literal: n values (global); each rank takes its slice [first, first+local_n)
static inline void fill_parvec(ParVector& v, int first, const std::vector<double>& glob) {
    for (int i = 0; i < v.local_n; i++) v.local[i] = glob[first + i];
}
static inline std::string parvec_str(ParVector& v) { return nums_str(v.local.data(), v.local_n); }

// local part of a distributed matrix as global triples "i j v ..." (duplicates kept)
static inline std::string parmat_triples(ParMatrix* A) {
    std::ostringstream o; bool first = true;
    ParCOOMatrix* C = A->to_ParCOO();
    for (int k = 0; k < C->on_proc->nnz; k++) { if (!first) o << " "; first = false;
        o << C->local_row_map[C->on_proc->idx1[k]] << " " << C->on_proc_column_map[C->on_proc->idx2[k]] << " " << num_str(C->on_proc->vals[k]); }
    for (int k = 0; k < C->off_proc->nnz; k++) { if (!first) o << " "; first = false;
        o << C->local_row_map[C->off_proc->idx1[k]] << " " << C->off_proc_column_map[C->off_proc->idx2[k]] << " " << num_str(C->off_proc->vals[k]); }
    if ((ParMatrix*)C != A) delete C;
    return o.str();
}

// main loop shared by the distributed drivers: skips cases whose explicit partition is for another process count
typedef void (*case_fn)(const std::string& cid, Toks& t);
static inline int par_main(int argc, char** argv, case_fn fn) {
    par_init(&argc, &argv);
    std::ifstream in(argv[1]); std::string line;
    while (std::getline(in, line)) {
        if (line.empty() || line[0] == '#') continue;
        Toks t(line); std::string cid = t.next();
        try { fn(cid, t);
              // VERIF_DRAIN=1: after every case look for messages that were sent but never received
              static int drain = getenv("VERIF_DRAIN") ? atoi(getenv("VERIF_DRAIN")) : 0;
              if (drain) { int n = drain_stray(), mx = 0; MPI_Allreduce(&n, &mx, 1, MPI_INT, MPI_MAX, MPI_COMM_WORLD);
                  if (mx > 0) { std::ostringstream q; q << n; emit_all(cid, "STRAYMSG", q.str()); } } }
        catch (std::exception& e) { printf("%s ERR@%d %s\n", cid.c_str(), g_rank, e.what()); fflush(stdout); MPI_Abort(MPI_COMM_WORLD, 3); }
    }
    MPI_Finalize(); return 0;
}
#endif
