// Correspondence driver, Krylov family (C17): CG / BiCGStab sequential classes, CG / PCG / BiCGStab distributed,
// Vector / ParVector norm and inner product on vectors with non-finite entries.
// usage: mpirun -n P drv_krylov <casefile>      (cases whose partition is for another P are skipped)
// case:  cid solver n nnz (i j v)* b[n] x0[n] tol maxit P sizes[P] [ignored rest]
//        cid xnorm n vals[n] P sizes[P]          cid xinner n u[n] v[n] P sizes[P]
// result lines start with the case id (k...); the solvers' own progress text is discarded (stdout is
// redirected to /dev/null around every solver call).
#include "common_par.hpp"
#include <unistd.h>
#include <fcntl.h>
#include <cmath>

static int saved_fd = -1;
static void mute() { fflush(stdout); saved_fd = dup(1); int nul = open("/dev/null", O_WRONLY); dup2(nul, 1); close(nul); }
static void unmute() { fflush(stdout); dup2(saved_fd, 1); close(saved_fd); saved_fd = -1; }

static double parse_x(const std::string& s) {
    if (s == "nan" || s == "NaN") return NAN;
    if (s == "inf") return INFINITY;
    if (s == "-inf") return -INFINITY;
    Toks t(s); return t.next_num();
}

struct Sys {
    int n, nnz; std::vector<int> ti, tj; std::vector<double> tv, b, x0; double tol; int maxit, P; std::vector<int> sizes, first;
    void parse(Toks& t) {
        n = t.next_int(); nnz = t.next_int(); ti.resize(nnz); tj.resize(nnz); tv.resize(nnz);
        for (int k = 0; k < nnz; k++) { ti[k] = t.next_int(); tj[k] = t.next_int(); tv[k] = t.next_num(); }
        b = t.nums(n); x0 = t.nums(n); tol = t.next_num(); maxit = t.next_int(); P = t.next_int(); sizes = t.ints(P);
        first.assign(P + 1, 0); for (int i = 0; i < P; i++) first[i + 1] = first[i] + sizes[i];
    }
    CSRMatrix* csr() const {      // triples are sorted by row
        std::vector<int> ptr(n + 1, 0), col(nnz); std::vector<double> val(nnz);
        for (int k = 0; k < nnz; k++) ptr[ti[k] + 1]++;
        for (int i = 0; i < n; i++) ptr[i + 1] += ptr[i];
        for (int k = 0; k < nnz; k++) { col[k] = tj[k]; val[k] = tv[k]; }
        return new CSRMatrix(n, n, ptr, col, val);
    }
    ParCSRMatrix* parcsr() const {
        ParCOOMatrix* A = new ParCOOMatrix(n, n, sizes[g_rank], sizes[g_rank], first[g_rank], first[g_rank]);
        int f = first[g_rank], l = first[g_rank + 1];
        for (int k = 0; k < nnz; k++) if (ti[k] >= f && ti[k] < l) A->add_global_value(ti[k], tj[k], tv[k]);
        A->finalize();
        ParCSRMatrix* B = A->to_ParCSR(); delete A; return B;
    }
};

static void read_parts(Toks& t, int& P, std::vector<int>& sizes, std::vector<int>& first) {
    P = t.next_int(); sizes = t.ints(P); first.assign(P + 1, 0); for (int i = 0; i < P; i++) first[i + 1] = first[i] + sizes[i];
}

static void run_case(const std::string& cid, Toks& t) {
    std::string op = t.next();
    if (op == "cg_seq" || op == "bi_seq") {
        Sys s; s.parse(t);
        if (g_np != 1) return;
        CSRMatrix* A = s.csr();
        Vector x(s.n), b(s.n); for (int i = 0; i < s.n; i++) { x[i] = s.x0[i]; b[i] = s.b[i]; }
        std::vector<double> res; bool hist = cid[0] == 'h';      // ids starting with h: the caller's history vector already holds entries
        if (hist) { res.push_back(0.25); res.push_back(0.125); res.push_back(0.0625); }
        mute();
        if (op == "cg_seq") CG(A, x, b, res, s.tol, s.maxit); else BiCGStab(A, x, b, res, s.tol, s.maxit);
        unmute();
        if (hist) { bool kept = res.size() >= 3 && res[0] == 0.25 && res[1] == 0.125 && res[2] == 0.0625;
            printf("%s H %d\n", cid.c_str(), kept ? 1 : 0); if (res.size() >= 3) res.erase(res.begin(), res.begin() + 3); }
        printf("%s R %s\n", cid.c_str(), nums_str(res).c_str());
        printf("%s X %s\n", cid.c_str(), nums_str(x.data(), s.n).c_str());
        delete A;
    } else if (op == "cg_par" || op == "bi_par" || op == "pcg_par" || op == "prebi_par" || op == "bi_par_si" || op == "bi_par_sn" || op == "bi_par_sisn") {
        Sys s; s.parse(t);
        if (s.P != g_np) return;
        ParCSRMatrix* A = s.parcsr();
        int ln = s.sizes[g_rank], f = s.first[g_rank];
        ParVector x(s.n, ln), b(s.n, ln);
        fill_parvec(x, f, s.x0); fill_parvec(b, f, s.b);
        std::vector<double> res; bool hist = cid[0] == 'h';
        if (hist) { res.push_back(0.25); res.push_back(0.125); res.push_back(0.0625); }
        if (op == "prebi_par") {
            // BiCGStab preconditioned with one AMG cycle per application (Pre_BiCGStab)
            mute();
            ParMultilevel* ml = new ParRugeStubenSolver(0.25, RS, Direct, Classical, Jacobi);
            ml->max_coarse = 3; ml->num_smooth_sweeps = 1; ml->relax_weight = 0.75; ml->track_times = false;
            ml->setup(A);
            Pre_BiCGStab(A, x, b, ml, res, s.tol, s.maxit);
            delete ml;
            unmute();
        } else if (op == "pcg_par") {
            mute();
            ParMultilevel* ml = new ParRugeStubenSolver(0.25, RS, Direct, Classical, Jacobi);
            ml->max_coarse = 3; ml->num_smooth_sweeps = 1; ml->relax_weight = 0.75; ml->track_times = false;
            if (cid[0] == 'w') {
                // deliberately weak (still symmetric positive definite) preconditioner: the hierarchy of A + 3 diag(A), so
                // that PCG on A needs many iterations (the oracle measures M from the hierarchy actually used)
                ParCSRMatrix* A2 = A->copy();
                for (int i = 0; i < A2->local_num_rows; i++) for (int k = A2->on_proc->idx1[i]; k < A2->on_proc->idx1[i + 1]; k++)
                    if (A2->on_proc_column_map[A2->on_proc->idx2[k]] == A2->local_row_map[i]) A2->on_proc->vals[k] *= 4.0;
                ml->setup(A2);
            } else
            ml->setup(A);
            // the preconditioner as a matrix: column j = cycle(0, e_j)
            std::vector<double> M(s.n * s.n, 0.0);   // row-major, gathered on every rank
            std::vector<int> cnt(g_np), dsp(g_np);
            for (int i = 0; i < g_np; i++) { cnt[i] = s.sizes[i]; dsp[i] = s.first[i]; }
            std::vector<double> col(s.n);
            for (int j = 0; j < s.n; j++) {
                ParVector e(s.n, ln), z(s.n, ln);
                e.set_const_value(0.0); if (j >= f && j < f + ln) e.local[j - f] = 1.0;
                z.set_const_value(0.0);
                ml->cycle(z, e);
                MPI_Allgatherv(z.local.data(), ln, MPI_DOUBLE, col.data(), cnt.data(), dsp.data(), MPI_DOUBLE, MPI_COMM_WORLD);
                for (int i = 0; i < s.n; i++) M[i * s.n + j] = col[i];
            }
            // linearity / statelessness probe: cycle(0, b) against M*b
            double dev = 0.0, mag = 0.0;
            { ParVector z(s.n, ln); z.set_const_value(0.0); ml->cycle(z, b);
              MPI_Allgatherv(z.local.data(), ln, MPI_DOUBLE, col.data(), cnt.data(), dsp.data(), MPI_DOUBLE, MPI_COMM_WORLD);
              for (int i = 0; i < s.n; i++) { double a = 0; for (int j = 0; j < s.n; j++) a += M[i * s.n + j] * s.b[j];
                  dev = std::max(dev, fabs(a - col[i])); mag = std::max(mag, fabs(col[i])); } }
            PCG(A, ml, x, b, res, s.tol, s.maxit);
            // the preconditioned residual of the returned iterate, recomputed: <r, M^{-1} r>, r = b - A x
            ParVector r(s.n, ln), z(s.n, ln); A->residual(x, b, r); z.set_const_value(0.0); ml->cycle(z, r);
            double rz = r.inner_product(z);
            int nlev = ml->num_levels;
            delete ml;
            unmute();
            emit0(cid, "M", nums_str(M));
            emit0(cid, "PL", num_str(dev) + " " + num_str(mag) + " " + std::to_string(nlev) + " " + num_str(rz));
        } else {
            mute();
            // bi_par_si / _sn / _sisn: the same method with the inner products and/or norms accumulated rank after rank
            if (op == "cg_par") CG(A, x, b, res, s.tol, s.maxit);
            else if (op == "bi_par_si") SeqInner_BiCGStab(A, x, b, res, s.tol, s.maxit);
            else if (op == "bi_par_sn") SeqNorm_BiCGStab(A, x, b, res, s.tol, s.maxit);
            else if (op == "bi_par_sisn") SeqInnerSeqNorm_BiCGStab(A, x, b, res, s.tol, s.maxit);
            else BiCGStab(A, x, b, res, s.tol, s.maxit);
            unmute();
        }
        if (hist) { bool kept = res.size() >= 3 && res[0] == 0.25 && res[1] == 0.125 && res[2] == 0.0625;
            emit_all(cid, "H", kept ? "1" : "0"); if (res.size() >= 3) res.erase(res.begin(), res.begin() + 3); }
        emit_all(cid, "R", nums_str(res));        // every rank's history (must be identical)
        emit_all(cid, "X", parvec_str(x));
        delete A;
    } else if (op == "xnorm" || op == "xinner") {
        int n = t.next_int(); std::vector<double> u(n), v(n);
        for (int i = 0; i < n; i++) u[i] = parse_x(t.next());
        if (op == "xinner") for (int i = 0; i < n; i++) v[i] = parse_x(t.next());
        int P; std::vector<int> sizes, first; read_parts(t, P, sizes, first);
        if (P == 0) {
            if (g_np != 1) return;
            Vector a(n), c(n); for (int i = 0; i < n; i++) { a[i] = u[i]; c[i] = v[i]; }
            double r = (op == "xnorm") ? a.norm(2) : a.inner_product(c);
            printf("%s N %s\n", cid.c_str(), num_str(r).c_str());
        } else {
            if (P != g_np) return;
            int ln = sizes[g_rank], f = first[g_rank];
            ParVector a(n, ln), c(n, ln); fill_parvec(a, f, u); fill_parvec(c, f, v);
            double r = (op == "xnorm") ? a.norm(2) : a.inner_product(c);
            emit_all(cid, "N", num_str(r));
        }
    } else throw std::runtime_error("unknown op " + op);
    fflush(stdout);
}

int main(int argc, char** argv) { return par_main(argc, argv, run_case); }
