// Correspondence driver, sequential matrix family (C07 sequential part, C02 sequential kernels, C06 sequential).
// usage: drv_matrix <casefile>     one result line per case:  <cid> <key> <tokens...>
#include "common.hpp"

static Matrix* apply_op(Matrix* A, const std::string& op) {
    if (op == "to_coo") return A->to_COO();
    if (op == "to_csr") return A->to_CSR();
    if (op == "to_csc") return A->to_CSC();
    if (op == "copy") return A->copy();
    if (op == "transpose") {
        switch (A->format()) { case COO: return ((COOMatrix*)A)->transpose(); case CSR: return ((CSRMatrix*)A)->transpose();
                               case CSC: return ((CSCMatrix*)A)->transpose(); default: throw std::runtime_error("fmt"); } }
    Matrix* B = A->copy();
    if (op == "sort") B->sort();
    else if (op == "move_diag") B->move_diag();
    else if (op == "remove_duplicates") B->remove_duplicates();
    else throw std::runtime_error("op " + op);
    return B;
}

// block matrices: <fmt> n_rows n_cols b_rows b_cols nnz I1 .. I2 .. V <block values, row-major per block>
static std::vector<double*>& blocks_of(Matrix* A) {
    switch (A->format()) { case BCOO: return ((BCOOMatrix*)A)->block_vals; case BSR: return ((BSRMatrix*)A)->block_vals;
                           case BSC: return ((BSCMatrix*)A)->block_vals; default: throw std::runtime_error("not a block matrix"); } }
static std::string bmat_str(Matrix* A) {
    std::ostringstream o;
    if (A->format() != BCOO && A->format() != BSR && A->format() != BSC) return mat_str(A);
    std::vector<double*>& bv = blocks_of(A);
    o << fmt_name(A) << " " << A->n_rows << " " << A->n_cols << " " << A->b_rows << " " << A->b_cols << " " << A->nnz << " I1 ";
    int n1 = (A->format() == BCOO) ? A->nnz : (int)A->idx1.size();
    o << ints_str(A->idx1, n1) << " I2 " << ints_str(A->idx2, A->nnz) << " V";
    int nb = std::min((int)bv.size(), A->nnz);
    for (int k = 0; k < nb; k++) o << " " << nums_str(bv[k], A->b_size);
    return o.str();
}
static Matrix* apply_bop(Matrix* A, const std::string& op) {
    if (op == "to_bcoo") return A->to_BCOO();
    if (op == "to_bsr") return A->to_BSR();
    if (op == "to_bsc") return A->to_BSC();
    if (op == "to_coo") return A->to_COO();
    if (op == "to_csr") return A->to_CSR();
    if (op == "to_csc") return A->to_CSC();
    if (op == "copy") return A->copy();
    if (op == "transpose") {
        switch (A->format()) { case BCOO: return ((BCOOMatrix*)A)->transpose(); case BSR: return ((BSRMatrix*)A)->transpose();
                               case BSC: return ((BSCMatrix*)A)->transpose(); case COO: return ((COOMatrix*)A)->transpose();
                               case CSR: return ((CSRMatrix*)A)->transpose(); case CSC: return ((CSCMatrix*)A)->transpose();
                               default: throw std::runtime_error("fmt"); } }
    Matrix* B = A->copy();
    if (op == "sort") B->sort();
    else if (op == "move_diag") B->move_diag();
    else if (op == "remove_duplicates") B->remove_duplicates();
    else throw std::runtime_error("op " + op);
    return B;
}

static void run_case(const std::string& cid, Toks& t) {
    std::string op = t.next();
    if (op == "bchain") {
        // cid bchain bfmt nbr nbc br bc nblk (I J v*(br*bc))* k op1..opk ; operands are deleted as soon as they are replaced
        // (a result that shared block storage with its operand would be a double free / use after free here)
        std::string bfmt = t.next(); int nbr = t.next_int(), nbc = t.next_int(), br = t.next_int(), bc = t.next_int(), nblk = t.next_int();
        BCOOMatrix* A0 = new BCOOMatrix(nbr, nbc, br, bc);
        for (int k = 0; k < nblk; k++) { int I = t.next_int(), J = t.next_int(); std::vector<double> v = t.nums(br * bc); A0->add_value(I, J, v.data()); }
        Matrix* A = A0;
        if (bfmt == "bsr") A = A0->to_BSR(); else if (bfmt == "bsc") A = A0->to_BSC();
        if (A != A0) delete A0;
        int k = t.next_int();
        for (int i = 0; i < k; i++) { Matrix* B = apply_bop(A, t.next()); if (B != A) delete A; A = B; }
        printf("%s R %s\n", cid.c_str(), bmat_str(A).c_str()); delete A;
        return;
    }
    if (op == "chain") {
        Matrix* A = parse_mat(t); int k = t.next_int();
        for (int i = 0; i < k; i++) { Matrix* B = apply_op(A, t.next()); if (B != A) delete A; A = B; }
        printf("%s R %s\n", cid.c_str(), mat_str(A).c_str()); delete A;
    } else if (op == "add" || op == "subtract" || op == "add_nodup") {
        // Matrix::add/subtract convert the receiver with to_CSR() and delete the result, which for a CSR
        // receiver is the receiver itself; call the CSR overloads directly in that case (as the library does).
        Matrix* A = parse_mat(t); Matrix* B0 = parse_mat(t); CSRMatrix* B = B0->to_CSR();
        Matrix* C;
        if (A->format() == CSR) { CSRMatrix* Ac = (CSRMatrix*)A;
            C = (op == "add") ? Ac->add(B) : (op == "add_nodup") ? Ac->add(B, false) : Ac->subtract(B); }
        else C = (op == "add") ? A->add(B) : (op == "add_nodup") ? A->add(B, false) : A->subtract(B);
        printf("%s R %s\n", cid.c_str(), mat_str(C).c_str());
    } else if (op == "spmv") {
        std::string kind = t.next(); Matrix* A = parse_mat(t);
        int nx = t.next_int(); std::vector<double> xv = t.nums(nx);
        int nb = t.next_int(); std::vector<double> bv = t.nums(nb);
        Vector x(nx), b(nb); for (int i = 0; i < nx; i++) x[i] = xv[i]; for (int i = 0; i < nb; i++) b[i] = bv[i];
        if (kind == "mult") { A->mult(x, b); }
        else if (kind == "mult_T") { A->mult_T(x, b); }
        else if (kind == "mult_append") { A->mult_append(x, b); }
        else if (kind == "mult_append_T") { A->mult_append_T(x, b); }
        else if (kind == "mult_append_neg") { A->mult_append_neg(x, b); }
        else if (kind == "mult_append_neg_T") { A->mult_append_neg_T(x, b); }
        else if (kind == "residual") { Vector r(A->n_rows); for (int i = 0; i < A->n_rows; i++) r[i] = 777.0; A->residual(x, b, r);
            printf("%s V %s\n", cid.c_str(), nums_str(r.data(), r.size()).c_str()); delete A; return; }
        else throw std::runtime_error("kind " + kind);
        printf("%s V %s\n", cid.c_str(), nums_str(b.data(), b.size()).c_str()); delete A;
    } else if (op == "spgemm" || op == "spgemm_T") {
        Matrix* A0 = parse_mat(t); Matrix* B0 = parse_mat(t);
        CSRMatrix* C;
        if (op == "spgemm") {
            if (B0->format() == CSR) C = A0->mult((CSRMatrix*)B0);
            else if (B0->format() == CSC) C = A0->mult((CSCMatrix*)B0);
            else C = A0->mult((COOMatrix*)B0);
        } else {
            // C = A0^T * B0 :  B0->mult_T(A0) with A0 given in CSC/CSR/COO
            if (A0->format() == CSC) C = B0->mult_T((CSCMatrix*)A0);
            else if (A0->format() == CSR) C = B0->mult_T((CSRMatrix*)A0);
            else C = B0->mult_T((COOMatrix*)A0);
        }
        printf("%s R %s\n", cid.c_str(), mat_str(C).c_str()); delete A0; delete B0; delete C;
    } else if (op == "bspmv" || op == "bconv") {
        // block literal: bfmt nbr nbc br bc nblk (I J v*(br*bc))*
        std::string kind = (op == "bspmv") ? t.next() : std::string("");
        std::string bfmt = t.next(); int nbr = t.next_int(), nbc = t.next_int(), br = t.next_int(), bc = t.next_int(), nblk = t.next_int();
        BCOOMatrix* A0 = new BCOOMatrix(nbr, nbc, br, bc);
        for (int k = 0; k < nblk; k++) { int I = t.next_int(), J = t.next_int(); std::vector<double> v = t.nums(br * bc); A0->add_value(I, J, v.data()); }
        Matrix* A = A0;
        if (bfmt == "bsr") A = A0->to_BSR(); else if (bfmt == "bsc") A = A0->to_BSC();
        if (op == "bconv") { CSRMatrix* C = A->to_CSR(); printf("%s R %s\n", cid.c_str(), mat_str(C).c_str()); return; }
        int nx = t.next_int(); std::vector<double> xv = t.nums(nx);
        int nb = t.next_int(); std::vector<double> bv = t.nums(nb);
        Vector x(nx), b(nb); for (int i = 0; i < nx; i++) x[i] = xv[i]; for (int i = 0; i < nb; i++) b[i] = bv[i];
        if (kind == "mult") A->mult(x, b);
        else if (kind == "mult_T") A->mult_T(x, b);
        else if (kind == "mult_append") A->mult_append(x, b);
        else if (kind == "mult_append_T") A->mult_append_T(x, b);
        else if (kind == "mult_append_neg") A->mult_append_neg(x, b);
        else if (kind == "mult_append_neg_T") A->mult_append_neg_T(x, b);
        else if (kind == "residual") { Vector r(nbr * br); for (int i = 0; i < nbr * br; i++) r[i] = 777.0; A->residual(x, b, r);
            printf("%s V %s\n", cid.c_str(), nums_str(r.data(), r.size()).c_str()); return; }
        else throw std::runtime_error("kind " + kind);
        printf("%s V %s\n", cid.c_str(), nums_str(b.data(), b.size()).c_str());
    } else throw std::runtime_error("unknown op " + op);
}

int main(int argc, char** argv) {
    MPI_Init(&argc, &argv);
    install_crash_handlers();
    std::ifstream in(argv[1]); std::string line;
    while (std::getline(in, line)) {
        if (line.empty() || line[0] == '#') continue;
        Toks t(line); std::string cid = t.next();
        verif_jmp_armed = 1;
        int sig = sigsetjmp(verif_jmp, 1);
        if (sig == 0) {
            try { run_case(cid, t); }
            catch (std::exception& e) { printf("%s ERR %s\n", cid.c_str(), e.what()); }
        } else printf("%s CRASH signal %d\n", cid.c_str(), sig);
        verif_jmp_armed = 0; fflush(stdout);
    }
    MPI_Finalize();
    return 0;
}
