// Correspondence driver, smoothed-aggregation family (C16): fit_candidates + jacobi_prolongation,
// sequential and distributed.   usage: drv_sa <casefile>      (sequential ops also run under mpirun -n 1)
//
//   <cid> sa   n n_aggs agg[n] B[n] tol  <A csr literal>  omega k
//        -> <cid> T <mat>   <cid> R <nums>   <cid> P <mat>                      (rank 0 only, sequential API)
//   <cid> fit  n n_aggs agg[n] B[n] tol          -> T, R                          (sequential, no smoothing)
//   <cid> jac  <A mat literal> <T mat literal> omega k  -> P                      (sequential, given T)
//   <cid> fitk n n_aggs k agg[n] B[k*n] tol      -> RSIZE <R.size()> <needed>     (num_candidates = k; experiment only)
//   <cid> psa  <ParLit A> agg[nr] B[nr] omega k tap
//        -> per rank (gathered):  NAGG n_aggs | TON on_proc_column_map | TOFF off_proc_column_map | R values |
//           T global triples | P global triples | PDIM global_num_rows global_num_cols local_num_rows on_proc_num_cols
//      agg: global root index of the vertex's aggregate, or -1 (isolated); n_aggs of a rank = number of its
//      vertices that are their own root (what raptor's aggregate() returns).
#include "common_par.hpp"
#include "raptor/aggregation/candidates.hpp"
#include "raptor/aggregation/prolongation.hpp"
#include "raptor/aggregation/par_candidates.hpp"
#include "raptor/aggregation/par_prolongation.hpp"

static CSRMatrix* as_csr(Matrix* M) { CSRMatrix* C = M->to_CSR(); if ((Matrix*)C != M) delete M; return C; }

static std::string triples_sorted(ParCSRMatrix* A) { return parmat_triples(A); }

static void run_case(const std::string& cid, Toks& t) {
    std::string op = t.next();
    if (op == "sa" || op == "fit") {
        int n = t.next_int(), na = t.next_int();
        std::vector<int> agg = t.ints(n); std::vector<double> B = t.nums(n); double tol = t.next_num();
        CSRMatrix* A = NULL; double omega = 0; int k = 0;
        if (op == "sa") { A = as_csr(parse_mat(t)); omega = t.next_num(); k = t.next_int(); }
        if (g_rank == 0) {
            std::vector<double> R;
            CSRMatrix* T = fit_candidates(na, agg, B, R, 1, tol);
            printf("%s T %s\n", cid.c_str(), mat_str(T).c_str());
            printf("%s R %s\n", cid.c_str(), nums_str(R).c_str());
            if (A) {
                CSRMatrix* P = jacobi_prolongation(A, T, omega, k);
                printf("%s P %s\n", cid.c_str(), mat_str(P).c_str());
                delete P;
            }
            delete T; fflush(stdout);
        }
        if (A) delete A;
    } else if (op == "jac") {
        CSRMatrix* A = as_csr(parse_mat(t)); CSRMatrix* T = as_csr(parse_mat(t));
        double omega = t.next_num(); int k = t.next_int();
        if (g_rank == 0) {
            CSRMatrix* P = jacobi_prolongation(A, T, omega, k);
            printf("%s P %s\n", cid.c_str(), mat_str(P).c_str()); fflush(stdout);
            delete P;
        }
        delete A; delete T;
    } else if (op == "fitk") {
        int n = t.next_int(), na = t.next_int(), k = t.next_int();
        std::vector<int> agg = t.ints(n); std::vector<double> B = t.nums(k * n); double tol = t.next_num();
        if (g_rank == 0) {
            std::vector<double> R; R.reserve(na * k * k + 8);   // keep the out-of-range writes inside the allocation
            CSRMatrix* T = fit_candidates(na, agg, B, R, k, tol);
            printf("%s RSIZE %d %d\n", cid.c_str(), (int)R.size(), na * k * k);
            printf("%s RRAW %s\n", cid.c_str(), nums_str(R.data(), na * k * k).c_str());
            printf("%s T %s\n", cid.c_str(), mat_str(T).c_str()); fflush(stdout);
            delete T;
        }
    } else if (op == "psa") {
        ParLit L; L.parse(t);
        std::vector<int> agg = t.ints(L.nr); std::vector<double> Bg = t.nums(L.nr);
        double omega = t.next_num(); int k = t.next_int(); int tap = t.next_int();
        if (!L.usable()) return;
        ParCSRMatrix* A = L.csr();
        int f = A->partition->first_local_row, ln = A->local_num_rows;
        std::vector<int> lagg(ln); std::vector<double> B(ln); int na = 0;
        for (int i = 0; i < ln; i++) { lagg[i] = agg[f + i]; B[i] = Bg[f + i]; if (lagg[i] == f + i) na++; }
        std::vector<double> R;
        ParCSRMatrix* T = fit_candidates(A, na, lagg, B, R, 1, tap != 0, 1e-10);
        std::ostringstream o;
        o << "NAGG " << na << " TON " << ints_str(T->on_proc_column_map) << " TOFF " << ints_str(T->off_proc_column_map)
          << " R " << nums_str(R) << " T " << parmat_triples(T);
        if (k >= 0) {
            ParCSRMatrix* P = jacobi_prolongation(A, T, tap != 0, omega, k);
            o << " P " << parmat_triples(P) << " PDIM " << P->global_num_rows << " " << P->global_num_cols << " "
              << P->local_num_rows << " " << P->on_proc_num_cols;
            delete P;
        }
        emit_all(cid, "PSA", o.str());
        delete T; delete A;
    } else throw std::runtime_error("unknown op " + op);
}

int main(int argc, char** argv) {
    setenv("PPN", "2", 0);
    return par_main(argc, argv, run_case);
}
