// C05 trace conformance: builds K standard packages back to back (they reuse tag 12345) between two marker barriers;
// the PMPI layer (VERIF_SCHED_TRACE) records every communication call of every rank.
//   cid trace P fc[P+1] K { {n cols}xP }xK
#include "common_par.hpp"
static void run_case(const std::string& cid, Toks& t) {
    std::string op = t.next(); if (op != "trace") throw std::runtime_error("op " + op);
    int P = t.next_int(); std::vector<int> fc = t.ints(P + 1); int K = t.next_int();
    std::vector<std::vector<std::vector<int> > > cols(K, std::vector<std::vector<int> >(P));
    for (int k = 0; k < K; k++) for (int p = 0; p < P; p++) { int n = t.next_int(); cols[k][p] = t.ints(n); }
    if (P != g_np) return;
    int N = fc[P], nloc = fc[g_rank + 1] - fc[g_rank], f0 = fc[g_rank];
    Partition* part = new Partition(N, N, nloc, nloc, f0, f0);
    MPI_Barrier(MPI_COMM_WORLD);                       // marker: start
    std::vector<ParComm*> pk;
    for (int k = 0; k < K; k++) pk.push_back(new ParComm(part, cols[k][g_rank]));
    MPI_Barrier(MPI_COMM_WORLD);                       // marker: end
    // use the packages so that a mismatch would also be visible in data
    std::ostringstream o;
    for (int k = 0; k < K; k++) { std::vector<int> x(nloc); for (int i = 0; i < nloc; i++) x[i] = f0 + i;
        std::vector<int>& r = pk[k]->communicate(x); o << " | " << ints_str(r, (int)cols[k][g_rank].size()); }
    emit_all(cid, "BUF", o.str()); emit0(cid, "DONE", "1");
}
int main(int argc, char** argv) { return par_main(argc, argv, run_case); }
