/* PMPI interposition layer (LD_PRELOAD) used by the C05 check.
   - wildcard (MPI_ANY_SOURCE) MPI_Probe / MPI_Recv are resolved by polling the sources and choosing, among the
     sources that have a matching message pending, one dictated by a seeded PRNG (after a short quiet period so that
     several candidates can accumulate): these are exactly the degrees of freedom a conforming MPI has.
   - seeded delays before sends and before entering collectives.
   - optional per-rank trace (VERIF_SCHED_TRACE=<prefix>): one line per communication call.
   - late receivers (VERIF_SCHED_LATE_US > 0): a seeded longer delay before a receive is posted, so that messages above
     the eager limit are still being read from the sender's buffer while the sender has moved on (a send buffer that is
     reused before the send was completed then delivers mixed data - legal MPI behaviour the suite's small messages hide).
   Environment: VERIF_SCHED_SEED (default 0 = no perturbation at all, pass-through), VERIF_SCHED_MAXDELAY_US (default 300),
   VERIF_SCHED_LATE_US (default 0). */
#define _GNU_SOURCE
#include <mpi.h>
#include <stdio.h>
#include <stdlib.h>
#include <string.h>
#include <unistd.h>

static unsigned long long rng_state = 0; static int sched_on = -1; static int maxdelay = 300; static FILE* trace = NULL;
static int wrank = -1; static int late_us = 0; static int defer_on = 0;
static unsigned long long rnd(void) { rng_state ^= rng_state << 13; rng_state ^= rng_state >> 7; rng_state ^= rng_state << 17; return rng_state; }
static void init_sched(void) {
    if (sched_on >= 0) return;
    const char* s = getenv("VERIF_SCHED_SEED"); const char* d = getenv("VERIF_SCHED_MAXDELAY_US"); const char* t = getenv("VERIF_SCHED_TRACE");
    long seed = s ? atol(s) : 0; sched_on = seed != 0;
    if (d) maxdelay = atoi(d);
    { const char* l = getenv("VERIF_SCHED_LATE_US"); if (l) late_us = atoi(l); }
    { const char* l = getenv("VERIF_SCHED_DEFER"); if (l && sched_on) defer_on = atoi(l); }
    PMPI_Comm_rank(MPI_COMM_WORLD, &wrank);
    rng_state = 0x9E3779B97F4A7C15ULL ^ ((unsigned long long)seed * 1000003ULL + (unsigned long long)(wrank + 1) * 7919ULL);
    for (int i = 0; i < 8; i++) rnd();
    if (t) { char fn[512]; snprintf(fn, sizeof fn, "%s.%d", t, wrank); trace = fopen(fn, "w"); }
}
/* deferred sends (VERIF_SCHED_DEFER=1, used by one scenario only): a nonblocking send may be buffered and put on the wire much
   later; a collective entered in between says nothing about its delivery.  Half of the Isends are copied and held back; they
   are issued at the rank's next point-to-point / wait call, or - after a pause - when the next collective has returned. */
typedef struct { void* copy; int count; MPI_Datatype dt; int dest, tag; MPI_Comm comm; } deferred_t;
static deferred_t* dq = NULL; static int dq_n = 0, dq_cap = 0;
static MPI_Request* dreq = NULL; static void** dbuf = NULL; static int dreq_n = 0, dreq_cap = 0;
static void flush_deferred(void) {
    for (int i = 0; i < dq_n; i++) {
        if (dreq_n == dreq_cap) { dreq_cap = dreq_cap ? 2 * dreq_cap : 64; dreq = (MPI_Request*)realloc(dreq, sizeof(MPI_Request) * (size_t)dreq_cap);
                                  dbuf = (void**)realloc(dbuf, sizeof(void*) * (size_t)dreq_cap); }
        dbuf[dreq_n] = dq[i].copy;
        PMPI_Isend(dq[i].copy, dq[i].count, dq[i].dt, dq[i].dest, dq[i].tag, dq[i].comm, &dreq[dreq_n++]);
    }
    dq_n = 0;
}
static void after_collective(void) { if (dq_n) { usleep((useconds_t)(late_us > 0 ? late_us : 20000)); flush_deferred(); } }

static void maybe_delay(void) { if (sched_on && maxdelay > 0 && (rnd() % 3) == 0) usleep((useconds_t)(rnd() % (unsigned)maxdelay)); }
static void tr(const char* op, int peer, int tag, MPI_Comm comm, int count) {
    if (!trace) return; int sz = 0; PMPI_Comm_size(comm, &sz);
    fprintf(trace, "%s %d %d %d %d\n", op, peer, tag, sz, count); fflush(trace);
}

/* choose a source with a pending matching message */
static int choose_source(int tag, MPI_Comm comm, MPI_Status* st) {
    int n; PMPI_Comm_size(comm, &n);
    int* cand = (int*)malloc(sizeof(int) * (size_t)n); int nc = 0, prev = -1, stable = 0;
    for (;;) {
        nc = 0;
        for (int s = 0; s < n; s++) { int flag = 0; MPI_Status tmp; PMPI_Iprobe(s, tag, comm, &flag, &tmp); if (flag) cand[nc++] = s; }
        if (nc > 0) { if (nc == prev) { if (++stable >= 2) break; } else { prev = nc; stable = 0; } usleep(150); }
        else usleep(20);
    }
    int src = cand[rnd() % (unsigned)nc]; free(cand);
    PMPI_Probe(src, tag, comm, st);
    return src;
}

int MPI_Probe(int source, int tag, MPI_Comm comm, MPI_Status* status) {
    init_sched(); flush_deferred();
    if (sched_on && source == MPI_ANY_SOURCE) { MPI_Status st; int src = choose_source(tag, comm, &st); if (status != MPI_STATUS_IGNORE) *status = st; tr("probe_any", src, tag, comm, 0); return MPI_SUCCESS; }
    int rc = PMPI_Probe(source, tag, comm, status); tr(source == MPI_ANY_SOURCE ? "probe_any" : "probe", status != MPI_STATUS_IGNORE ? status->MPI_SOURCE : source, tag, comm, 0); return rc;
}
int MPI_Recv(void* buf, int count, MPI_Datatype dt, int source, int tag, MPI_Comm comm, MPI_Status* status) {
    init_sched(); flush_deferred();
    if (sched_on && source == MPI_ANY_SOURCE) { MPI_Status st; int src = choose_source(tag, comm, &st); tr("recv_any", src, tag, comm, count); return PMPI_Recv(buf, count, dt, src, tag, comm, status); }
    int rc = PMPI_Recv(buf, count, dt, source, tag, comm, status); tr(source == MPI_ANY_SOURCE ? "recv_any" : "recv", source, tag, comm, count); return rc;
}
int MPI_Isend(const void* buf, int count, MPI_Datatype dt, int dest, int tag, MPI_Comm comm, MPI_Request* req) {
    init_sched();
    if (defer_on && (rnd() % 2) == 0) {
        int tsz = 0; PMPI_Type_size(dt, &tsz); size_t nb = (size_t)tsz * (size_t)(count > 0 ? count : 0);
        void* cp = malloc(nb ? nb : 1); if (nb) memcpy(cp, buf, nb);
        if (dq_n == dq_cap) { dq_cap = dq_cap ? 2 * dq_cap : 64; dq = (deferred_t*)realloc(dq, sizeof(deferred_t) * (size_t)dq_cap); }
        dq[dq_n].copy = cp; dq[dq_n].count = count; dq[dq_n].dt = dt; dq[dq_n].dest = dest; dq[dq_n].tag = tag; dq[dq_n].comm = comm; dq_n++;
        tr("isend_deferred", dest, tag, comm, count);
        *req = MPI_REQUEST_NULL; return MPI_SUCCESS;
    }
    flush_deferred(); maybe_delay();
    if (sched_on && late_us > 0 && (rnd() % 8) == 0) usleep((useconds_t)(rnd() % (unsigned)late_us));      /* a message that is sent much later than its neighbours */
    tr("isend", dest, tag, comm, count); return PMPI_Isend(buf, count, dt, dest, tag, comm, req);
}
int MPI_Send(const void* buf, int count, MPI_Datatype dt, int dest, int tag, MPI_Comm comm) {
    init_sched(); flush_deferred(); maybe_delay(); tr("send", dest, tag, comm, count); return PMPI_Send(buf, count, dt, dest, tag, comm);
}
int MPI_Irecv(void* buf, int count, MPI_Datatype dt, int source, int tag, MPI_Comm comm, MPI_Request* req) {
    init_sched();
    if (sched_on && late_us > 0 && (rnd() % 3) == 0) usleep((useconds_t)(rnd() % (unsigned)late_us));
    tr("irecv", source, tag, comm, count); return PMPI_Irecv(buf, count, dt, source, tag, comm, req);
}
int MPI_Allreduce(const void* s, void* r, int count, MPI_Datatype dt, MPI_Op op, MPI_Comm comm) {
    init_sched(); maybe_delay(); tr("allreduce", -1, -1, comm, count); { int rc_ = PMPI_Allreduce(s, r, count, dt, op, comm); after_collective(); return rc_; }
}
int MPI_Allgather(const void* s, int sc, MPI_Datatype st, void* r, int rc, MPI_Datatype rt, MPI_Comm comm) {
    init_sched(); maybe_delay(); tr("allgather", -1, -1, comm, sc); { int rc_ = PMPI_Allgather(s, sc, st, r, rc, rt, comm); after_collective(); return rc_; }
}
int MPI_Allgatherv(const void* s, int sc, MPI_Datatype st, void* r, const int* rc, const int* displs, MPI_Datatype rt, MPI_Comm comm) {
    init_sched(); maybe_delay(); tr("allgatherv", -1, -1, comm, sc); { int rc_ = PMPI_Allgatherv(s, sc, st, r, rc, displs, rt, comm); after_collective(); return rc_; }
}
int MPI_Barrier(MPI_Comm comm) { init_sched(); maybe_delay(); tr("barrier", -1, -1, comm, 0); { int rc_ = PMPI_Barrier(comm); after_collective(); return rc_; } }
int MPI_Bcast(void* b, int count, MPI_Datatype dt, int root, MPI_Comm comm) { init_sched(); maybe_delay(); tr("bcast", root, -1, comm, count); { int rc_ = PMPI_Bcast(b, count, dt, root, comm); after_collective(); return rc_; } }
int MPI_Gather(const void* s, int sc, MPI_Datatype st, void* r, int rc, MPI_Datatype rt, int root, MPI_Comm comm) {
    init_sched(); maybe_delay(); tr("gather", root, -1, comm, sc); { int rc_ = PMPI_Gather(s, sc, st, r, rc, rt, root, comm); after_collective(); return rc_; }
}
int MPI_Gatherv(const void* s, int sc, MPI_Datatype st, void* r, const int* rc, const int* displs, MPI_Datatype rt, int root, MPI_Comm comm) {
    init_sched(); maybe_delay(); tr("gatherv", root, -1, comm, sc); { int rc_ = PMPI_Gatherv(s, sc, st, r, rc, displs, rt, root, comm); after_collective(); return rc_; }
}
int MPI_Comm_split(MPI_Comm comm, int color, int key, MPI_Comm* newcomm) { init_sched(); maybe_delay(); tr("comm_split", -1, -1, comm, color); return PMPI_Comm_split(comm, color, key, newcomm); }
/* wait / test / probe calls put held-back sends on the wire first */
int MPI_Iprobe(int source, int tag, MPI_Comm comm, int* flag, MPI_Status* status) { init_sched(); flush_deferred(); return PMPI_Iprobe(source, tag, comm, flag, status); }
int MPI_Wait(MPI_Request* r, MPI_Status* st) { init_sched(); flush_deferred(); return PMPI_Wait(r, st); }
int MPI_Waitall(int n, MPI_Request* r, MPI_Status* st) { init_sched(); flush_deferred(); return PMPI_Waitall(n, r, st); }
int MPI_Waitany(int n, MPI_Request* r, int* idx, MPI_Status* st) { init_sched(); flush_deferred(); return PMPI_Waitany(n, r, idx, st); }
int MPI_Test(MPI_Request* r, int* flag, MPI_Status* st) { init_sched(); flush_deferred(); return PMPI_Test(r, flag, st); }
int MPI_Testall(int n, MPI_Request* r, int* flag, MPI_Status* st) { init_sched(); flush_deferred(); return PMPI_Testall(n, r, flag, st); }
int MPI_Finalize(void) {
    if (sched_on > 0) { flush_deferred(); if (dreq_n) PMPI_Waitall(dreq_n, dreq, MPI_STATUSES_IGNORE); for (int i = 0; i < dreq_n; i++) free(dbuf[i]); dreq_n = 0; }
    return PMPI_Finalize();
}
