/* PMPI interposition layer (LD_PRELOAD) used by the C05 check.
   - wildcard (MPI_ANY_SOURCE) MPI_Probe / MPI_Recv are resolved by polling the sources and choosing, among the
     sources that have a matching message pending, one dictated by a seeded PRNG (after a short quiet period so that
     several candidates can accumulate): these are exactly the degrees of freedom a conforming MPI has.
   - seeded delays before sends and before entering collectives.
   - optional per-rank trace (VERIF_SCHED_TRACE=<prefix>): one line per communication call.
   - late receivers (VERIF_SCHED_LATE_US > 0): a seeded longer delay before a receive is posted, so that messages above
     the eager limit are still being read from the sender's buffer while the sender has moved on (a send buffer that is
     reused before the send was completed then delivers mixed data - legal MPI behaviour the suite's small messages hide).
   Environment: VERIF_SCHED_SEED (default 0 = no perturbation at all, pass-through), VERIF_SCHED_MAXDELAY_US (default 300),
   VERIF_SCHED_LATE_US (default 0). */
#define _GNU_SOURCE
#include <mpi.h>
#include <stdio.h>
#include <stdlib.h>
#include <string.h>
#include <unistd.h>

static unsigned long long rng_state = 0; static int sched_on = -1; static int maxdelay = 300; static FILE* trace = NULL;
static int wrank = -1; static int late_us = 0;
static unsigned long long rnd(void) { rng_state ^= rng_state << 13; rng_state ^= rng_state >> 7; rng_state ^= rng_state << 17; return rng_state; }
static void init_sched(void) {
    if (sched_on >= 0) return;
    const char* s = getenv("VERIF_SCHED_SEED"); const char* d = getenv("VERIF_SCHED_MAXDELAY_US"); const char* t = getenv("VERIF_SCHED_TRACE");
    long seed = s ? atol(s) : 0; sched_on = seed != 0;
    if (d) maxdelay = atoi(d);
    { const char* l = getenv("VERIF_SCHED_LATE_US"); if (l) late_us = atoi(l); }
    PMPI_Comm_rank(MPI_COMM_WORLD, &wrank);
    rng_state = 0x9E3779B97F4A7C15ULL ^ ((unsigned long long)seed * 1000003ULL + (unsigned long long)(wrank + 1) * 7919ULL);
    for (int i = 0; i < 8; i++) rnd();
    if (t) { char fn[512]; snprintf(fn, sizeof fn, "%s.%d", t, wrank); trace = fopen(fn, "w"); }
}
static void maybe_delay(void) { if (sched_on && maxdelay > 0 && (rnd() % 3) == 0) usleep((useconds_t)(rnd() % (unsigned)maxdelay)); }
static void tr(const char* op, int peer, int tag, MPI_Comm comm, int count) {
    if (!trace) return; int sz = 0; PMPI_Comm_size(comm, &sz);
    fprintf(trace, "%s %d %d %d %d\n", op, peer, tag, sz, count); fflush(trace);
}

/* choose a source with a pending matching message */
static int choose_source(int tag, MPI_Comm comm, MPI_Status* st) {
    int n; PMPI_Comm_size(comm, &n);
    int* cand = (int*)malloc(sizeof(int) * (size_t)n); int nc = 0, prev = -1, stable = 0;
    for (;;) {
        nc = 0;
        for (int s = 0; s < n; s++) { int flag = 0; MPI_Status tmp; PMPI_Iprobe(s, tag, comm, &flag, &tmp); if (flag) cand[nc++] = s; }
        if (nc > 0) { if (nc == prev) { if (++stable >= 2) break; } else { prev = nc; stable = 0; } usleep(150); }
        else usleep(20);
    }
    int src = cand[rnd() % (unsigned)nc]; free(cand);
    PMPI_Probe(src, tag, comm, st);
    return src;
}

int MPI_Probe(int source, int tag, MPI_Comm comm, MPI_Status* status) {
    init_sched();
    if (sched_on && source == MPI_ANY_SOURCE) { MPI_Status st; int src = choose_source(tag, comm, &st); if (status != MPI_STATUS_IGNORE) *status = st; tr("probe_any", src, tag, comm, 0); return MPI_SUCCESS; }
    int rc = PMPI_Probe(source, tag, comm, status); tr(source == MPI_ANY_SOURCE ? "probe_any" : "probe", status != MPI_STATUS_IGNORE ? status->MPI_SOURCE : source, tag, comm, 0); return rc;
}
int MPI_Recv(void* buf, int count, MPI_Datatype dt, int source, int tag, MPI_Comm comm, MPI_Status* status) {
    init_sched();
    if (sched_on && source == MPI_ANY_SOURCE) { MPI_Status st; int src = choose_source(tag, comm, &st); tr("recv_any", src, tag, comm, count); return PMPI_Recv(buf, count, dt, src, tag, comm, status); }
    int rc = PMPI_Recv(buf, count, dt, source, tag, comm, status); tr(source == MPI_ANY_SOURCE ? "recv_any" : "recv", source, tag, comm, count); return rc;
}
int MPI_Isend(const void* buf, int count, MPI_Datatype dt, int dest, int tag, MPI_Comm comm, MPI_Request* req) {
    init_sched(); maybe_delay();
    if (sched_on && late_us > 0 && (rnd() % 8) == 0) usleep((useconds_t)(rnd() % (unsigned)late_us));      /* a message that is sent much later than its neighbours */
    tr("isend", dest, tag, comm, count); return PMPI_Isend(buf, count, dt, dest, tag, comm, req);
}
int MPI_Send(const void* buf, int count, MPI_Datatype dt, int dest, int tag, MPI_Comm comm) {
    init_sched(); maybe_delay(); tr("send", dest, tag, comm, count); return PMPI_Send(buf, count, dt, dest, tag, comm);
}
int MPI_Irecv(void* buf, int count, MPI_Datatype dt, int source, int tag, MPI_Comm comm, MPI_Request* req) {
    init_sched();
    if (sched_on && late_us > 0 && (rnd() % 3) == 0) usleep((useconds_t)(rnd() % (unsigned)late_us));
    tr("irecv", source, tag, comm, count); return PMPI_Irecv(buf, count, dt, source, tag, comm, req);
}
int MPI_Allreduce(const void* s, void* r, int count, MPI_Datatype dt, MPI_Op op, MPI_Comm comm) {
    init_sched(); maybe_delay(); tr("allreduce", -1, -1, comm, count); return PMPI_Allreduce(s, r, count, dt, op, comm);
}
int MPI_Allgather(const void* s, int sc, MPI_Datatype st, void* r, int rc, MPI_Datatype rt, MPI_Comm comm) {
    init_sched(); maybe_delay(); tr("allgather", -1, -1, comm, sc); return PMPI_Allgather(s, sc, st, r, rc, rt, comm);
}
int MPI_Allgatherv(const void* s, int sc, MPI_Datatype st, void* r, const int* rc, const int* displs, MPI_Datatype rt, MPI_Comm comm) {
    init_sched(); maybe_delay(); tr("allgatherv", -1, -1, comm, sc); return PMPI_Allgatherv(s, sc, st, r, rc, displs, rt, comm);
}
int MPI_Barrier(MPI_Comm comm) { init_sched(); maybe_delay(); tr("barrier", -1, -1, comm, 0); return PMPI_Barrier(comm); }
int MPI_Bcast(void* b, int count, MPI_Datatype dt, int root, MPI_Comm comm) { init_sched(); maybe_delay(); tr("bcast", root, -1, comm, count); return PMPI_Bcast(b, count, dt, root, comm); }
int MPI_Gather(const void* s, int sc, MPI_Datatype st, void* r, int rc, MPI_Datatype rt, int root, MPI_Comm comm) {
    init_sched(); maybe_delay(); tr("gather", root, -1, comm, sc); return PMPI_Gather(s, sc, st, r, rc, rt, root, comm);
}
int MPI_Gatherv(const void* s, int sc, MPI_Datatype st, void* r, const int* rc, const int* displs, MPI_Datatype rt, int root, MPI_Comm comm) {
    init_sched(); maybe_delay(); tr("gatherv", root, -1, comm, sc); return PMPI_Gatherv(s, sc, st, r, rc, displs, rt, root, comm);
}
int MPI_Comm_split(MPI_Comm comm, int color, int key, MPI_Comm* newcomm) { init_sched(); maybe_delay(); tr("comm_split", -1, -1, comm, color); return PMPI_Comm_split(comm, color, key, newcomm); }
