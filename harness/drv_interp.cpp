// Correspondence driver, family `interp`: C14 strength of connection (sequential + distributed),
// C12 classical interpolation (sequential + distributed).   usage: mpirun -n P drv_interp <casefile>
// One result line per case and key; distributed results are gathered rank by rank (emit_all).
#include "common_par.hpp"
#include <set>

// rows in storage order: "<k> (col val)*k" per row
static std::string csr_rows_str(CSRMatrix* S) {
    std::ostringstream o;
    for (int i = 0; i < S->n_rows; i++) {
        if (i) o << " ";
        o << (S->idx1[i + 1] - S->idx1[i]);
        for (int k = S->idx1[i]; k < S->idx1[i + 1]; k++) o << " " << S->idx2[k] << " " << num_str(S->vals[k]);
    }
    return o.str();
}
// local rows of a distributed CSR matrix with global columns: on_proc entries then off_proc entries, storage order
static std::string par_rows_str(ParCSRMatrix* S) {
    std::ostringstream o;
    for (int i = 0; i < S->local_num_rows; i++) {
        if (i) o << " ";
        int a0 = S->on_proc->idx1[i], a1 = S->on_proc->idx1[i + 1], b0 = S->off_proc->idx1[i], b1 = S->off_proc->idx1[i + 1];
        o << (a1 - a0) + (b1 - b0);
        for (int k = a0; k < a1; k++) o << " " << S->on_proc_column_map[S->on_proc->idx2[k]] << " " << num_str(S->on_proc->vals[k]);
        for (int k = b0; k < b1; k++) o << " " << S->off_proc_column_map[S->off_proc->idx2[k]] << " " << num_str(S->off_proc->vals[k]);
    }
    return o.str();
}
static CSRMatrix* seq_csr(ParLit& L) {
    COOMatrix* C = new COOMatrix(L.nr, L.nc, L.ti, L.tj, L.tv);
    CSRMatrix* A = C->to_CSR(); delete C; return A;
}

// strength matrix with a prescribed pattern, built the way classical_strength builds S: same partition and
// column maps as A, diagonal of every non-empty row first, communicators shared with A
static ParCSRMatrix* masked_strength(ParCSRMatrix* A, const std::set<std::pair<int,int> >& mask) {
    ParCSRMatrix* S = new ParCSRMatrix(A->partition, A->global_num_rows, A->global_num_cols,
            A->local_num_rows, A->on_proc_num_cols, A->off_proc_num_cols);
    A->sort(); A->on_proc->move_diag();
    S->on_proc->idx1[0] = 0; S->off_proc->idx1[0] = 0;
    for (int i = 0; i < A->local_num_rows; i++) {
        int gi = A->local_row_map[i];
        for (int k = A->on_proc->idx1[i]; k < A->on_proc->idx1[i + 1]; k++) {
            int gj = A->on_proc_column_map[A->on_proc->idx2[k]];
            if (gj == gi || mask.count(std::make_pair(gi, gj))) { S->on_proc->idx2.push_back(A->on_proc->idx2[k]); S->on_proc->vals.push_back(A->on_proc->vals[k]); }
        }
        for (int k = A->off_proc->idx1[i]; k < A->off_proc->idx1[i + 1]; k++) {
            int gj = A->off_proc_column_map[A->off_proc->idx2[k]];
            if (mask.count(std::make_pair(gi, gj))) { S->off_proc->idx2.push_back(A->off_proc->idx2[k]); S->off_proc->vals.push_back(A->off_proc->vals[k]); }
        }
        S->on_proc->idx1[i + 1] = S->on_proc->idx2.size(); S->off_proc->idx1[i + 1] = S->off_proc->idx2.size();
    }
    S->on_proc->nnz = S->on_proc->idx2.size(); S->off_proc->nnz = S->off_proc->idx2.size();
    S->local_nnz = S->on_proc->nnz + S->off_proc->nnz;
    S->on_proc_column_map = A->get_on_proc_column_map(); S->local_row_map = A->get_local_row_map();
    S->off_proc_column_map = A->get_off_proc_column_map();
    S->comm = A->comm; S->tap_comm = A->tap_comm; S->tap_mat_comm = A->tap_mat_comm;
    if (S->comm) S->comm->num_shared++;
    if (S->tap_comm) S->tap_comm->num_shared++;
    if (S->tap_mat_comm) S->tap_mat_comm->num_shared++;
    return S;
}
static CSRMatrix* masked_strength_seq(ParLit& L, const std::set<std::pair<int,int> >& mask) {
    std::vector<int> r, c; std::vector<double> v;
    for (int k = 0; k < L.nnz; k++)
        if (L.ti[k] == L.tj[k] || mask.count(std::make_pair(L.ti[k], L.tj[k]))) { r.push_back(L.ti[k]); c.push_back(L.tj[k]); v.push_back(L.tv[k]); }
    COOMatrix* C = new COOMatrix(L.nr, L.nc, r, c, v);
    CSRMatrix* S = C->to_CSR(); delete C; return S;
}
static std::string states_str(const std::vector<int>& st, int n) { std::vector<int> v(st.begin(), st.begin() + n); return ints_str(v); }

static void run_case(const std::string& cid, Toks& t) {
    std::string op = t.next();
    MPI_Barrier(MPI_COMM_WORLD);          // keep the ranks in the same case, so that a crash is attributed to it
    if (op == "strength") {
        int sym = t.next_int(); double theta = t.next_num(); int tap = t.next_int(); int ppn = t.next_int();
        // the tens digit of the ppn token selects the state the operand is in when strength() is called:
        // 0 as assembled, 1 after sort(), 2 after sort() + move_diag(), 3 after an earlier strength() call on the same object
        int prep = ppn / 10; ppn = ppn % 10;
        int nv = t.next_int(); int n = t.next_int(); std::vector<int> vars = t.ints(n);
        ParLit L; L.parse(t);
        if (!L.usable()) return;
        strength_t ty = sym ? Symmetric : Classical;
        std::string seq;                       // printed after the distributed result, so that a crash leaves the case without output
        if (g_rank == 0) {
            CSRMatrix* A = seq_csr(L);
            if (prep == 1) A->sort();
            else if (prep == 2) { A->sort(); A->move_diag(); }
            else if (prep == 3) { CSRMatrix* S0 = A->strength(ty == Classical ? Symmetric : Classical, 0.5, nv, nv > 1 ? vars.data() : NULL); delete S0; }
            CSRMatrix* S = A->strength(ty, theta, nv, nv > 1 ? vars.data() : NULL);
            seq = std::to_string(S->n_rows) + " " + csr_rows_str(S);
            delete S; delete A;
        }
        char buf[16]; snprintf(buf, sizeof buf, "%d", ppn); setenv("PPN", buf, 1);
        ParCSRMatrix* A = L.csr();
        if (tap) A->init_tap_communicators();
        int* lv = (nv > 1) ? vars.data() + A->partition->first_local_row : NULL;
        if (prep == 1) A->sort();
        else if (prep == 2) { A->sort(); A->on_proc->move_diag(); }
        else if (prep == 3) { ParCSRMatrix* S0 = A->strength(ty == Classical ? Symmetric : Classical, 0.5, tap != 0, nv, lv); delete S0; }
        ParCSRMatrix* S = A->strength(ty, theta, tap != 0, nv, lv);
        std::string par = par_rows_str(S);
        delete S; delete A;
        emit0(cid, "SEQ", seq);
        emit_all(cid, "PAR", par);
    } else if (op == "split") {
        // sequential library coarsenings on a prescribed strength pattern: cid split <rs|cljp|pmis> ParLit nmask (i j)*
        std::string method = t.next(); ParLit L; L.parse(t);
        int nm = t.next_int(); std::set<std::pair<int,int> > mask;
        for (int k = 0; k < nm; k++) { int i = t.next_int(), j = t.next_int(); mask.insert(std::make_pair(i, j)); }
        if (g_rank == 0) {
            CSRMatrix* S = masked_strength_seq(L, mask);
            std::vector<int> states;
            std::vector<double> w(L.nr); for (int i = 0; i < L.nr; i++) w[i] = ((i * 7919 + 13) % 1009) / 1009.0;
            if (method == "rs") split_rs(S, states);
            else if (method == "cljp") split_cljp(S, states, w.data());
            else split_pmis(S, states, w.data());
            emit0(cid, "STATES", states_str(states, L.nr));
            delete S;
        }
    } else if (op == "interp") {
        // cid interp <direct|modcls|extended> tap ppn nv n vars[n] states[n] ParLit nmask (i j)*
        std::string kind = t.next(); int tap = t.next_int(); int ppn = t.next_int();
        int nv = t.next_int(); int n = t.next_int(); std::vector<int> vars = t.ints(n); std::vector<int> states = t.ints(n);
        ParLit L; L.parse(t);
        int nm = t.next_int(); std::set<std::pair<int,int> > mask;
        for (int k = 0; k < nm; k++) { int i = t.next_int(), j = t.next_int(); mask.insert(std::make_pair(i, j)); }
        if (!L.usable()) return;
        std::string seq;
        if (g_rank == 0) {
            CSRMatrix* A = seq_csr(L); CSRMatrix* S = masked_strength_seq(L, mask); CSRMatrix* P;
            std::vector<int> st(states);
            if (kind == "direct") P = direct_interpolation(A, S, st);
            else if (kind == "modcls") P = mod_classical_interpolation(A, S, st, nv, nv > 1 ? vars.data() : NULL);
            else P = extended_interpolation(A, S, st, nv, nv > 1 ? vars.data() : NULL);
            seq = std::to_string(P->n_rows) + " " + std::to_string(P->n_cols) + " " + csr_rows_str(P);
            delete P; delete S; delete A;
        }
        char buf[16]; snprintf(buf, sizeof buf, "%d", ppn); setenv("PPN", buf, 1);
        ParCSRMatrix* A = L.csr();
        if (tap) A->init_tap_communicators();
        ParCSRMatrix* S = masked_strength(A, mask);
        int f = A->partition->first_local_row;
        std::vector<int> lst(states.begin() + f, states.begin() + f + A->local_num_rows);
        if (lst.empty()) lst.reserve(1);
        std::vector<int> off(S->comm->communicate(lst.data()));          // off_proc_states, as the library's callers obtain them
        int* lv = (nv > 1) ? vars.data() + f : NULL;
        ParCSRMatrix* P;
        if (kind == "direct") P = direct_interpolation(A, S, lst, off, tap != 0);
        else if (kind == "modcls") P = mod_classical_interpolation(A, S, lst, off, tap != 0, nv, lv);
        else P = extended_interpolation(A, S, lst, off, 0.0, tap != 0, nv, lv);   // filter_threshold 0: no truncation
        std::string par = par_rows_str(P) ;
        std::string dims = std::to_string(P->global_num_rows) + " " + std::to_string(P->global_num_cols) + " " + std::to_string(P->on_proc_num_cols);
        std::string fil;
        if (kind == "extended") {      // the same operator with the solver's default truncation threshold (filter_interp)
            ParCSRMatrix* Pf = extended_interpolation(A, S, lst, off, 0.3, tap != 0, nv, lv);
            fil = par_rows_str(Pf); delete Pf;
        }
        delete P; delete S; delete A;
        emit0(cid, "PSEQ", seq);
        emit_all(cid, "PDIM", dims);
        emit_all(cid, "PPAR", par);
        if (kind == "extended") emit_all(cid, "PFIL", fil);
    } else if (op == "seqinterp") {
        // sequential routines on an explicit matrix/strength/splitting: cid seqinterp kind nv n vars[n] states[n] nnzA (i j v)* nnzS (i j v)*
        std::string kind = t.next(); int nv = t.next_int(); int n = t.next_int();
        std::vector<int> vars = t.ints(n); std::vector<int> states = t.ints(n);
        CSRMatrix* M[2];
        for (int w = 0; w < 2; w++) {
            int nnz = t.next_int(); std::vector<int> r(nnz), c(nnz); std::vector<double> v(nnz);
            for (int k = 0; k < nnz; k++) { r[k] = t.next_int(); c[k] = t.next_int(); v[k] = t.next_num(); }
            COOMatrix* C = new COOMatrix(n, n, r, c, v); M[w] = C->to_CSR(); delete C;
        }
        if (g_rank == 0) {
            CSRMatrix* P;
            if (kind == "direct") P = direct_interpolation(M[0], M[1], states);
            else if (kind == "modcls") P = mod_classical_interpolation(M[0], M[1], states, nv, nv > 1 ? vars.data() : NULL);
            else P = extended_interpolation(M[0], M[1], states, nv, nv > 1 ? vars.data() : NULL);
            emit0(cid, "PSEQ", std::to_string(P->n_rows) + " " + std::to_string(P->n_cols) + " " + csr_rows_str(P));
            delete P;
        }
        delete M[0]; delete M[1];
    } else if (op == "level1") {
        // the library's own setup of level 1 (Ac = (A P)^T P from strength/splitting/direct interpolation on level 0),
        // then strength + splitting + the requested interpolation on Ac; everything printed with Ac's global ids
        // cid level1 kind tap ppn theta0 coarsen0 theta1 coarsen1 ParLit
        std::string kind = t.next(); int tap = t.next_int(); int ppn = t.next_int();
        double th0 = t.next_num(); std::string co0 = t.next(); double th1 = t.next_num(); std::string co1 = t.next();
        ParLit L; L.parse(t);
        if (!L.usable()) return;
        char buf[16]; snprintf(buf, sizeof buf, "%d", ppn); setenv("PPN", buf, 1);
        ParCSRMatrix* A0 = L.csr();
        if (tap) A0->init_tap_communicators();
        std::vector<double> w(L.nr + 1); for (int i = 0; i < L.nr; i++) w[i] = ((i * 7919 + 13) % 1009) / 1009.0;
        ParCSRMatrix* S0 = A0->strength(Classical, th0, tap != 0);
        std::vector<int> st0, off0;
        double* w0 = w.data() + A0->partition->first_local_row;
        if (co0 == "rs") split_rs(S0, st0, off0, tap != 0); else split_pmis(S0, st0, off0, tap != 0, w0);
        ParCSRMatrix* P0 = direct_interpolation(A0, S0, st0, off0, tap != 0);
        ParCSRMatrix* AP = A0->mult(P0, tap != 0);
        ParCSRMatrix* Ac = AP->mult_T(P0, tap != 0);
        Ac->sort(); Ac->on_proc->move_diag();
        Ac->comm = new ParComm(Ac->partition, Ac->off_proc_column_map, Ac->on_proc_column_map, A0->comm->key, A0->comm->mpi_comm);
        if (tap) Ac->init_tap_communicators(MPI_COMM_WORLD);
        ParCSRMatrix* S1 = Ac->strength(Classical, th1, tap != 0);
        std::vector<int> st1, off1;
        std::vector<double> w1(Ac->local_num_rows + 1);
        for (int i = 0; i < Ac->local_num_rows; i++) w1[i] = ((Ac->local_row_map[i] * 7919 + 13) % 1009) / 1009.0;
        if (co1 == "rs") split_rs(S1, st1, off1, tap != 0); else split_pmis(S1, st1, off1, tap != 0, w1.data());
        ParCSRMatrix* P1;
        if (kind == "direct") P1 = direct_interpolation(Ac, S1, st1, off1, tap != 0);
        else if (kind == "modcls") P1 = mod_classical_interpolation(Ac, S1, st1, off1, tap != 0, 1, NULL);
        else P1 = extended_interpolation(Ac, S1, st1, off1, 0.0, tap != 0, 1, NULL);
        std::ostringstream ids, sts;
        for (int i = 0; i < Ac->local_num_rows; i++) { ids << (i ? " " : "") << Ac->local_row_map[i]; sts << (i ? " " : "") << st1[i]; }
        std::string sa = par_rows_str(Ac), ss = par_rows_str(S1), sp = par_rows_str(P1);
        std::string dims = std::to_string(Ac->partition->first_local_row) + " " + std::to_string(Ac->partition->first_local_col) + " " +
                           std::to_string(Ac->local_num_rows) + " " + std::to_string(Ac->on_proc_num_cols);
        delete P1; delete S1; delete Ac; delete AP; delete P0; delete S0; delete A0;
        emit_all(cid, "IDS", ids.str()); emit_all(cid, "ST1", sts.str());
        emit_all(cid, "AC", sa); emit_all(cid, "S1", ss); emit_all(cid, "PART", dims); emit_all(cid, "PPAR", sp);
    } else throw std::runtime_error("unknown op " + op);
}

int main(int argc, char** argv) { return par_main(argc, argv, run_case); }
