// Correspondence driver, family `interp`: C14 strength of connection (sequential + distributed),
// C12 classical interpolation (sequential + distributed).   usage: mpirun -n P drv_interp <casefile>
// One result line per case and key; distributed results are gathered rank by rank (emit_all).
#include "common_par.hpp"

// rows in storage order: "<k> (col val)*k" per row
static std::string csr_rows_str(CSRMatrix* S) {
    std::ostringstream o;
    for (int i = 0; i < S->n_rows; i++) {
        if (i) o << " ";
        o << (S->idx1[i + 1] - S->idx1[i]);
        for (int k = S->idx1[i]; k < S->idx1[i + 1]; k++) o << " " << S->idx2[k] << " " << num_str(S->vals[k]);
    }
    return o.str();
}
// local rows of a distributed CSR matrix with global columns: on_proc entries then off_proc entries, storage order
static std::string par_rows_str(ParCSRMatrix* S) {
    std::ostringstream o;
    for (int i = 0; i < S->local_num_rows; i++) {
        if (i) o << " ";
        int a0 = S->on_proc->idx1[i], a1 = S->on_proc->idx1[i + 1], b0 = S->off_proc->idx1[i], b1 = S->off_proc->idx1[i + 1];
        o << (a1 - a0) + (b1 - b0);
        for (int k = a0; k < a1; k++) o << " " << S->on_proc_column_map[S->on_proc->idx2[k]] << " " << num_str(S->on_proc->vals[k]);
        for (int k = b0; k < b1; k++) o << " " << S->off_proc_column_map[S->off_proc->idx2[k]] << " " << num_str(S->off_proc->vals[k]);
    }
    return o.str();
}
static CSRMatrix* seq_csr(ParLit& L) {
    COOMatrix* C = new COOMatrix(L.nr, L.nc, L.ti, L.tj, L.tv);
    CSRMatrix* A = C->to_CSR(); delete C; return A;
}

static void run_case(const std::string& cid, Toks& t) {
    std::string op = t.next();
    MPI_Barrier(MPI_COMM_WORLD);          // keep the ranks in the same case, so that a crash is attributed to it
    if (op == "strength") {
        int sym = t.next_int(); double theta = t.next_num(); int tap = t.next_int(); int ppn = t.next_int();
        int nv = t.next_int(); int n = t.next_int(); std::vector<int> vars = t.ints(n);
        ParLit L; L.parse(t);
        if (!L.usable()) return;
        strength_t ty = sym ? Symmetric : Classical;
        std::string seq;                       // printed after the distributed result, so that a crash leaves the case without output
        if (g_rank == 0) {
            CSRMatrix* A = seq_csr(L);
            CSRMatrix* S = A->strength(ty, theta, nv, nv > 1 ? vars.data() : NULL);
            seq = std::to_string(S->n_rows) + " " + csr_rows_str(S);
            delete S; delete A;
        }
        char buf[16]; snprintf(buf, sizeof buf, "%d", ppn); setenv("PPN", buf, 1);
        ParCSRMatrix* A = L.csr();
        if (tap) A->init_tap_communicators();
        int* lv = (nv > 1) ? vars.data() + A->partition->first_local_row : NULL;
        ParCSRMatrix* S = A->strength(ty, theta, tap != 0, nv, lv);
        std::string par = par_rows_str(S);
        delete S; delete A;
        emit0(cid, "SEQ", seq);
        emit_all(cid, "PAR", par);
    } else throw std::runtime_error("unknown op " + op);
}

int main(int argc, char** argv) { return par_main(argc, argv, run_case); }
