// Correspondence driver for distributed matrices: products (C02), conversions / copy / transpose / add / subtract (C07).
//   cid pspmv <kind> <fmt> <tap> <ppn> <ParLit> nx X... nb B...        kind: mult mult_append mult_T residual
//   cid pconv <tap> <ParLit> k op1..opk                                 ops: to_coo to_csr to_csc copy transpose
//   cid padd  <add|subtract> <ParLit A> <ParLit B>
// Output: gathered per-rank local vectors / global triples of the local rows.
#include "common_par.hpp"

static ParMatrix* to_fmt(ParCOOMatrix* A, const std::string& f) {
    if (f == "coo") return A;
    if (f == "csr") return A->to_ParCSR();
    if (f == "csc") return A->to_ParCSC();
    throw std::runtime_error("fmt " + f);
}
static ParMatrix* papply(ParMatrix* A, const std::string& op) {
    if (op == "to_coo") return A->to_ParCOO();
    if (op == "to_csr") return A->to_ParCSR();
    if (op == "to_csc") return A->to_ParCSC();
    if (op == "copy") return A->copy();
    if (op == "transpose") return A->transpose();
    throw std::runtime_error("op " + op);
}
static std::string dims_str(ParMatrix* A) {
    std::ostringstream o;
    o << A->global_num_rows << " " << A->global_num_cols << " " << A->local_num_rows << " " << A->on_proc_num_cols << " "
      << A->off_proc_num_cols << " fr " << (A->local_row_map.size() ? A->local_row_map[0] : -1);
    return o.str();
}

static std::string block_rows_str(Matrix* M) {
    std::ostringstream o; o << M->n_rows;
    for (int i = 0; i < M->n_rows; i++) { o << " " << (M->idx1[i + 1] - M->idx1[i]);
        for (int k = M->idx1[i]; k < M->idx1[i + 1]; k++) o << " " << M->idx2[k] << " " << num_str(M->vals[k]); }
    return o.str();
}
// local state of a ParCSR matrix: fr nr fc nc ON <rows> OFF <rows> CM <cols>
static std::string struct_str(ParCSRMatrix* A) {
    std::ostringstream o;
    o << A->partition->first_local_row << " " << A->local_num_rows << " " << A->partition->first_local_col << " " << A->on_proc_num_cols
      << " ON " << block_rows_str(A->on_proc) << " OFF " << block_rows_str(A->off_proc) << " CM " << A->off_proc_column_map.size();
    for (size_t i = 0; i < A->off_proc_column_map.size(); i++) o << " " << A->off_proc_column_map[i];
    return o.str();
}

static void run_case(const std::string& cid, Toks& t) {
    std::string op = t.next();
    if (op == "pspmv") {
        std::string kind = t.next(), fmt = t.next(); int tap = t.next_int(), ppn = t.next_int();
        // tap: 0 off, 1 node-aware with rank ordering 1 (the default), 10 / 12: node-aware with rank ordering 0 / 2
        { char ob[8]; snprintf(ob, sizeof ob, "%d", tap >= 10 ? tap - 10 : 1); setenv("RAPtor_MPICH_RANK_REORDER_METHOD", ob, 1); if (tap >= 10) tap = 1; }
        ParLit L; L.parse(t);
        int nx = t.next_int(); std::vector<double> X = t.nums(nx);
        int nb = t.next_int(); std::vector<double> B = t.nums(nb);
        if (!L.usable()) return;
        char buf[32]; snprintf(buf, sizeof buf, "%d", ppn); setenv("PPN", buf, 1);
        ParCOOMatrix* A0 = L.coo(); ParMatrix* A; ParMatrix* sized = NULL;     // vector sizes are those of the scalar matrix
        if (fmt.compare(0, 3, "bsr") == 0) {       // bsr<r>x<c>: the scalar matrix regrouped into r x c blocks (ParCSRMatrix::to_ParBSR)
            int brs = atoi(fmt.c_str() + 3), bcs = atoi(fmt.c_str() + fmt.find('x') + 1);
            ParCSRMatrix* Ac = A0->to_ParCSR(); A = Ac->to_ParBSR(brs, bcs); sized = Ac;
        } else A = to_fmt(A0, fmt);
        if (tap) A->init_tap_communicators();
        if (!sized) sized = A;
        Partition* pt = sized->partition;
        bool T = (kind == "mult_T");
        // x lives on the column partition for A x, on the row partition for A^T x
        ParVector x(T ? L.nr : L.nc, T ? sized->local_num_rows : pt->local_num_cols);
        ParVector b(T ? L.nc : L.nr, T ? pt->local_num_cols : sized->local_num_rows);
        fill_parvec(x, T ? pt->first_local_row : pt->first_local_col, X);
        if (kind == "mult" || kind == "mult_T") { for (int i = 0; i < b.local_n; i++) b.local[i] = 777.0; }   // stale content
        else fill_parvec(b, pt->first_local_row, B);
        if (kind == "mult") A->mult(x, b, tap);
        else if (kind == "mult_append") A->mult_append(x, b, tap);
        else if (kind == "mult_T") A->mult_T(x, b, tap);
        else if (kind == "residual") { ParVector r(L.nr, sized->local_num_rows); for (int i = 0; i < r.local_n; i++) r.local[i] = 777.0;
            A->residual(x, b, r, tap); emit_all(cid, "V", parvec_str(r)); emit0(cid, "DONE", "1"); return; }
        else throw std::runtime_error("kind " + kind);
        emit_all(cid, "V", parvec_str(b)); emit0(cid, "DONE", "1");
    } else if (op == "pconv") {
        ParLit L; L.parse(t); int k = t.next_int();
        if (!L.usable()) return;
        ParMatrix* A = L.coo();
        for (int i = 0; i < k; i++) { ParMatrix* Bm = papply(A, t.next()); A = Bm; }
        emit_all(cid, "T", parmat_triples(A)); emit_all(cid, "D", dims_str(A)); emit0(cid, "DONE", "1");
    } else if (op == "pbconv") {
        // cid pbconv br bc <ParLit> k op1..opk    block chain on ParCSRMatrix::to_ParBSR(br, bc): to_bcoo to_bsr to_bsc copy
        int br = t.next_int(), bc = t.next_int(); ParLit L; L.parse(t); int k = t.next_int();
        if (!L.usable()) return;
        ParCSRMatrix* Ac = L.csr(); ParMatrix* A = Ac->to_ParBSR(br, bc);
        bool scalar = false;
        for (int i = 0; i < k; i++) { std::string o = t.next(); ParMatrix* Bm;
            if (o == "to_bcoo") Bm = A->to_ParBCOO(); else if (o == "to_bsr") Bm = A->to_ParBSR(); else if (o == "to_bsc") Bm = A->to_ParBSC();
            else if (o == "copy") Bm = A->copy();
            else if (o == "to_csr") { Bm = A->to_ParCSR(); scalar = (Bm->on_proc->format() == CSR); }   // ParBSR expands to scalars; ParBCOO / ParBSC return the block-row form
            else throw std::runtime_error("op " + o);
            A = Bm; }
        if (scalar) {
            emit_all(cid, "T", parmat_triples(A));
            std::ostringstream d; d << A->global_num_rows / br << " " << A->global_num_cols / bc << " " << A->local_num_rows << " " << A->on_proc_num_cols << " "
              << A->off_proc_num_cols << " fmt " << (int)A->on_proc->format() << " fc " << A->partition->first_local_col << " " << A->partition->local_num_cols;
            emit_all(cid, "D", d.str()); emit0(cid, "DONE", "1"); return;
        }
        // expanded global triples of the local block rows
        std::ostringstream o; bool first = true;
        for (int part = 0; part < 2; part++) {
            Matrix* M = part ? A->off_proc : A->on_proc;
            BCOOMatrix* C = (BCOOMatrix*) M->to_BCOO();
            std::vector<int>& cmap = part ? A->off_proc_column_map : A->on_proc_column_map;
            for (int q = 0; q < C->nnz; q++) for (int r = 0; r < C->b_rows; r++) for (int c = 0; c < C->b_cols; c++) {
                double v = C->block_vals[q][r * C->b_cols + c]; if (v == 0.0) continue;
                if (!first) o << " "; first = false;
                o << A->local_row_map[C->idx1[q]] * C->b_rows + r << " " << cmap[C->idx2[q]] * C->b_cols + c << " " << num_str(v); }
        }
        std::ostringstream d; d << A->global_num_rows << " " << A->global_num_cols << " " << A->local_num_rows << " " << A->on_proc_num_cols << " "
          << A->off_proc_num_cols << " fmt " << (int)A->on_proc->format();
        emit_all(cid, "T", o.str()); emit_all(cid, "D", d.str()); emit0(cid, "DONE", "1");
    } else if (op == "padd") {
        std::string which = t.next(); ParLit LA, LB; LA.parse(t); LB.parse(t);
        if (!LA.usable() || !LB.usable()) return;
        ParCSRMatrix* A = LA.csr(); ParCSRMatrix* Bm = LB.csr();
        ParCSRMatrix* C = (which == "add") ? A->add(Bm) : A->subtract(Bm);
        emit_all(cid, "T", parmat_triples(C)); emit_all(cid, "D", dims_str(C));
        // the result must be usable: off-process column map sorted, strictly increasing, and not owned locally
        std::ostringstream o; bool ok = true;
        for (size_t i = 0; i < C->off_proc_column_map.size(); i++) {
            int c = C->off_proc_column_map[i];
            if (i && c <= C->off_proc_column_map[i - 1]) ok = false;
            if (c >= C->partition->first_local_col && c <= C->partition->last_local_col) ok = false;
        }
        o << (ok ? 1 : 0); emit_all(cid, "M", o.str()); emit0(cid, "DONE", "1");
    } else if (op == "pstruct") {
        // cid pstruct what <ParLit A> [<ParLit B>]   what: transpose | add | subtract | conv k op..  -> local blocks of the ParCSR result
        std::string what = t.next(); std::vector<std::string> ops;
        if (what == "conv") { int k = t.next_int(); for (int i = 0; i < k; i++) ops.push_back(t.next()); }
        ParLit LA; LA.parse(t); ParLit LB; if (what == "add" || what == "subtract") LB.parse(t);
        if (!LA.usable()) return;
        ParCSRMatrix* A = LA.csr(); ParCSRMatrix* C = NULL;
        if (what == "transpose") C = A->transpose();
        else if (what == "add" || what == "subtract") { ParCSRMatrix* Bm = LB.csr(); C = (what == "add") ? A->add(Bm) : A->subtract(Bm); }
        else { ParMatrix* M = A; for (size_t i = 0; i < ops.size(); i++) M = papply(M, ops[i]); C = M->to_ParCSR(); }
        emit_all(cid, "S", struct_str(C)); emit_all(cid, "T", parmat_triples(C)); emit0(cid, "DONE", "1");
    } else if (op == "selftest_stray") {
        // harness self-test: one message per rank that nobody receives (VERIF_DRAIN=1 must report it)
        int v = 42; MPI_Send(&v, 1, MPI_INT, (g_rank + 1) % g_np, 4242, MPI_COMM_WORLD); emit0(cid, "DONE", "1");
    } else if (op == "pbig") {
        // cid pbig B tap ppn k op1..opk     ops: F (b = A x) / T (b = A^T x), operation q uses the vector x_q
        // A (formula, n = P*B): a_ii = 2; for rows of rank p < P-1: a_{i, (p+1)B + i%B} = 1 + i%3.  One-directional chain of
        // messages of B values (above the eager limit for B >= 1024); integer data, every product is exact.
        int B = t.next_int(), tap = t.next_int(), ppn = t.next_int(), k = t.next_int();
        bool both = B < 0; if (both) B = -B;       // B < 0: couplings in both directions (rows of rank p > 0 also reach into rank p-1)
        int P = g_np, n = P * B, p = g_rank;
        char buf[32]; snprintf(buf, sizeof buf, "%d", ppn); setenv("PPN", buf, 1);
        ParCOOMatrix* A0 = new ParCOOMatrix(n, n, B, B, p * B, p * B);
        for (int i = p * B; i < (p + 1) * B; i++) { A0->add_global_value(i, i, 2.0);
            if (p < P - 1) A0->add_global_value(i, (p + 1) * B + i % B, 1.0 + i % 3);
            if (both && p > 0) A0->add_global_value(i, (p - 1) * B + i % B, 2.0 + i % 2); }
        A0->finalize();
        ParCSRMatrix* A = A0->to_ParCSR();
        if (tap) A->init_tap_communicators();
        auto xval = [](int i, int q) { return (double)((i * 13 + q * 17) % 11 - 5); };
        std::ostringstream verdict; long bad_total = 0;
        ParVector x(n, B), b(n, B);
        for (int q = 0; q < k; q++) {
            std::string o = t.next();
            for (int i = 0; i < B; i++) { x.local[i] = xval(p * B + i, q); b.local[i] = 777.0; }
            if (o == "F") A->mult(x, b, tap); else A->mult_T(x, b, tap);
            long bad = 0; int first = -1; double got = 0, want = 0;
            for (int l = 0; l < B; l++) { int i = p * B + l; double e = 2.0 * xval(i, q);
                if (o == "F") { if (p < P - 1) e += (1.0 + i % 3) * xval((p + 1) * B + l, q);
                                if (both && p > 0) e += (2.0 + i % 2) * xval((p - 1) * B + l, q); }
                else { if (p > 0) { int src = (p - 1) * B + l; e += (1.0 + src % 3) * xval(src, q); }
                       if (both && p < P - 1) { int src = (p + 1) * B + l; e += (2.0 + src % 2) * xval(src, q); } }
                if (b.local[l] != e) { if (!bad) { first = i; got = b.local[l]; want = e; } bad++; } }
            verdict << " " << o << q << ":" << bad; if (bad) verdict << "@" << first << "=" << got << "!=" << want;
            bad_total += bad;
        }
        emit_all(cid, "BIG", verdict.str()); emit0(cid, "DONE", "1");
        delete A; delete A0;
    } else throw std::runtime_error("unknown op " + op);
}

int main(int argc, char** argv) { return par_main(argc, argv, run_case); }
