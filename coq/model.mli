
type nat =
| O
| S of nat

val fst : ('a1 * 'a2) -> 'a1

val snd : ('a1 * 'a2) -> 'a2

val length : 'a1 list -> nat

val app : 'a1 list -> 'a1 list -> 'a1 list

type comparison =
| Eq
| Lt
| Gt

val compOpp : comparison -> comparison

val add : nat -> nat -> nat

type positive =
| XI of positive
| XO of positive
| XH

type z =
| Z0
| Zpos of positive
| Zneg of positive

module Nat :
 sig
  val eqb : nat -> nat -> bool

  val leb : nat -> nat -> bool

  val ltb : nat -> nat -> bool
 end

module Pos :
 sig
  type mask =
  | IsNul
  | IsPos of positive
  | IsNeg
 end

module Coq_Pos :
 sig
  val succ : positive -> positive

  val add : positive -> positive -> positive

  val add_carry : positive -> positive -> positive

  val pred_double : positive -> positive

  type mask = Pos.mask =
  | IsNul
  | IsPos of positive
  | IsNeg

  val succ_double_mask : mask -> mask

  val double_mask : mask -> mask

  val double_pred_mask : positive -> mask

  val sub_mask : positive -> positive -> mask

  val sub_mask_carry : positive -> positive -> mask

  val sub : positive -> positive -> positive

  val mul : positive -> positive -> positive

  val size_nat : positive -> nat

  val compare_cont : comparison -> positive -> positive -> comparison

  val compare : positive -> positive -> comparison

  val ggcdn : nat -> positive -> positive -> positive * (positive * positive)

  val ggcd : positive -> positive -> positive * (positive * positive)
 end

module Z :
 sig
  val double : z -> z

  val succ_double : z -> z

  val pred_double : z -> z

  val pos_sub : positive -> positive -> z

  val add : z -> z -> z

  val opp : z -> z

  val mul : z -> z -> z

  val compare : z -> z -> comparison

  val sgn : z -> z

  val abs : z -> z

  val to_pos : z -> positive

  val ggcd : z -> z -> z * (z * z)
 end

val nth : nat -> 'a1 list -> 'a1 -> 'a1

val map : ('a1 -> 'a2) -> 'a1 list -> 'a2 list

val flat_map : ('a1 -> 'a2 list) -> 'a1 list -> 'a2 list

val fold_left : ('a1 -> 'a2 -> 'a1) -> 'a2 list -> 'a1 -> 'a1

val fold_right : ('a2 -> 'a1 -> 'a1) -> 'a1 -> 'a2 list -> 'a1

val forallb : ('a1 -> bool) -> 'a1 list -> bool

val filter : ('a1 -> bool) -> 'a1 list -> 'a1 list

val firstn : nat -> 'a1 list -> 'a1 list

val skipn : nat -> 'a1 list -> 'a1 list

val seq : nat -> nat -> nat list

val repeat : 'a1 -> nat -> 'a1 list

type q = { qnum : z; qden : positive }

val qcompare : q -> q -> comparison

val qplus : q -> q -> q

val qmult : q -> q -> q

val qopp : q -> q

val qinv : q -> q

val qred : q -> q

type qc = q
  (* singleton inductive, whose constructor was Qcmake *)

val this : qc -> q

val q2Qc : q -> qc

val qccompare : qc -> qc -> comparison

val qcplus : qc -> qc -> qc

val qcmult : qc -> qc -> qc

val qcopp : qc -> qc

val qcminus : qc -> qc -> qc

val qcinv : qc -> qc

val qcdiv : qc -> qc -> qc

val qabs : q -> q

val qcabs : qc -> qc

val sumf : 'a1 -> ('a1 -> 'a1 -> 'a1) -> 'a1 list -> 'a1

val indexed_from : nat -> 'a1 list -> (nat * 'a1) list

val indexed : 'a1 list -> (nat * 'a1) list

type 't ent = (nat * nat) * 't

val erow : 'a1 ent -> nat

val ecol : 'a1 ent -> nat

val eval : 'a1 ent -> 'a1

type 't coo = { coo_nr : nat; coo_nc : nat; coo_ents : 't ent list }

type 't csr = { csr_nr : nat; csr_nc : nat; csr_rows : (nat * 't) list list }

type 't csc = { csc_nr : nat; csc_nc : nat; csc_cols : (nat * 't) list list }

val coo_wfb : 'a1 coo -> bool

val csr_wfb : 'a1 csr -> bool

val csc_wfb : 'a1 csc -> bool

val bucket :
  ('a1 ent -> nat) -> ('a1 ent -> nat * 'a1) -> nat -> 'a1 ent list ->
  (nat * 'a1) list list

val coo_to_coo : 'a1 coo -> 'a1 coo

val csr_to_coo : 'a1 csr -> 'a1 coo

val csc_to_coo : 'a1 csc -> 'a1 coo

val coo_to_csr : 'a1 coo -> 'a1 csr

val coo_to_csc : 'a1 coo -> 'a1 csc

val csr_to_csr : 'a1 csr -> 'a1 csr

val csc_to_csc : 'a1 csc -> 'a1 csc

val csr_to_csc : 'a1 csr -> 'a1 csc

val csc_to_csr : 'a1 csc -> 'a1 csr

val coo_transpose : 'a1 coo -> 'a1 coo

val csr_transpose : 'a1 csr -> 'a1 csr

val csc_transpose : 'a1 csc -> 'a1 csc

val insert_by : ('a1 -> 'a1 -> bool) -> 'a1 -> 'a1 list -> 'a1 list

val isort_by : ('a1 -> 'a1 -> bool) -> 'a1 list -> 'a1 list

val le_fst : (nat * 'a1) -> (nat * 'a1) -> bool

val sort_line : (nat * 'a1) list -> (nat * 'a1) list

val csr_sort : 'a1 csr -> 'a1 csr

val csc_sort : 'a1 csc -> 'a1 csc

val le_ent : 'a1 ent -> 'a1 ent -> bool

val coo_sort : 'a1 coo -> 'a1 coo

val extract_first : ('a1 -> bool) -> 'a1 list -> ('a1 * 'a1 list) option

val move_diag_line : nat -> (nat * 'a1) list -> (nat * 'a1) list

val csr_move_diag : 'a1 csr -> 'a1 csr

val csc_move_diag : 'a1 csc -> 'a1 csc

val den_line : 'a1 -> ('a1 -> 'a1 -> 'a1) -> (nat * 'a1) list -> nat -> 'a1

val den_coo : 'a1 -> ('a1 -> 'a1 -> 'a1) -> 'a1 coo -> nat -> nat -> 'a1

val den_csr : 'a1 -> ('a1 -> 'a1 -> 'a1) -> 'a1 csr -> nat -> nat -> 'a1

val den_csc : 'a1 -> ('a1 -> 'a1 -> 'a1) -> 'a1 csc -> nat -> nat -> 'a1

val emit : ('a1 -> bool) -> nat -> 'a1 -> (nat * 'a1) list

val dedup_acc :
  ('a1 -> 'a1 -> 'a1) -> ('a1 -> bool) -> nat -> 'a1 -> (nat * 'a1) list ->
  (nat * 'a1) list

val dedup_line :
  ('a1 -> 'a1 -> 'a1) -> ('a1 -> bool) -> (nat * 'a1) list -> (nat * 'a1) list

val csr_remove_duplicates :
  ('a1 -> 'a1 -> 'a1) -> ('a1 -> bool) -> 'a1 csr -> 'a1 csr

val csc_remove_duplicates :
  ('a1 -> 'a1 -> 'a1) -> ('a1 -> bool) -> 'a1 csc -> 'a1 csc

val coo_dedup_acc :
  ('a1 -> 'a1 -> 'a1) -> nat -> nat -> 'a1 -> 'a1 ent list -> 'a1 ent list

val coo_remove_duplicates : ('a1 -> 'a1 -> 'a1) -> 'a1 coo -> 'a1 coo

val zip_rows :
  (nat * 'a1) list list -> (nat * 'a1) list list -> (nat * 'a1) list list

val csr_add :
  ('a1 -> 'a1 -> 'a1) -> ('a1 -> bool) -> 'a1 csr -> 'a1 csr -> bool -> 'a1
  csr

val neg_line : ('a1 -> 'a1) -> (nat * 'a1) list -> (nat * 'a1) list

val csr_subtract :
  ('a1 -> 'a1 -> 'a1) -> ('a1 -> 'a1) -> ('a1 -> bool) -> 'a1 csr -> 'a1 csr
  -> 'a1 csr

val upd : 'a1 list -> nat -> 'a1 -> 'a1 list

val xat : 'a1 -> 'a1 list -> nat -> 'a1

val k_append :
  'a1 -> ('a1 -> 'a1 -> 'a1) -> ('a1 -> 'a1 -> 'a1) -> 'a1 list -> 'a1 list
  -> 'a1 ent -> 'a1 list

val k_append_T :
  'a1 -> ('a1 -> 'a1 -> 'a1) -> ('a1 -> 'a1 -> 'a1) -> 'a1 list -> 'a1 list
  -> 'a1 ent -> 'a1 list

val k_append_neg :
  'a1 -> ('a1 -> 'a1 -> 'a1) -> ('a1 -> 'a1 -> 'a1) -> 'a1 list -> 'a1 list
  -> 'a1 ent -> 'a1 list

val k_append_neg_T :
  'a1 -> ('a1 -> 'a1 -> 'a1) -> ('a1 -> 'a1 -> 'a1) -> 'a1 list -> 'a1 list
  -> 'a1 ent -> 'a1 list

val run_kernel :
  ('a1 list -> 'a1 list -> 'a1 ent -> 'a1 list) -> 'a1 ent list -> 'a1 list
  -> 'a1 list -> 'a1 list

val zeros : 'a1 -> nat -> 'a1 list

val coo_spmv :
  'a1 -> ('a1 -> 'a1 -> 'a1) -> ('a1 -> 'a1 -> 'a1) -> 'a1 coo -> 'a1 list ->
  'a1 list

val coo_spmv_append :
  'a1 -> ('a1 -> 'a1 -> 'a1) -> ('a1 -> 'a1 -> 'a1) -> 'a1 coo -> 'a1 list ->
  'a1 list -> 'a1 list

val coo_spmv_append_T :
  'a1 -> ('a1 -> 'a1 -> 'a1) -> ('a1 -> 'a1 -> 'a1) -> 'a1 coo -> 'a1 list ->
  'a1 list -> 'a1 list

val coo_spmv_append_neg :
  'a1 -> ('a1 -> 'a1 -> 'a1) -> ('a1 -> 'a1 -> 'a1) -> 'a1 coo -> 'a1 list ->
  'a1 list -> 'a1 list

val coo_spmv_append_neg_T :
  'a1 -> ('a1 -> 'a1 -> 'a1) -> ('a1 -> 'a1 -> 'a1) -> 'a1 coo -> 'a1 list ->
  'a1 list -> 'a1 list

val coo_residual :
  'a1 -> ('a1 -> 'a1 -> 'a1) -> ('a1 -> 'a1 -> 'a1) -> 'a1 coo -> 'a1 list ->
  'a1 list -> 'a1 list

val csc_spmv :
  'a1 -> ('a1 -> 'a1 -> 'a1) -> ('a1 -> 'a1 -> 'a1) -> 'a1 csc -> 'a1 list ->
  'a1 list

val csc_spmv_append :
  'a1 -> ('a1 -> 'a1 -> 'a1) -> ('a1 -> 'a1 -> 'a1) -> 'a1 csc -> 'a1 list ->
  'a1 list -> 'a1 list

val csc_spmv_append_T :
  'a1 -> ('a1 -> 'a1 -> 'a1) -> ('a1 -> 'a1 -> 'a1) -> 'a1 csc -> 'a1 list ->
  'a1 list -> 'a1 list

val csc_spmv_append_neg :
  'a1 -> ('a1 -> 'a1 -> 'a1) -> ('a1 -> 'a1 -> 'a1) -> 'a1 csc -> 'a1 list ->
  'a1 list -> 'a1 list

val csc_spmv_append_neg_T :
  'a1 -> ('a1 -> 'a1 -> 'a1) -> ('a1 -> 'a1 -> 'a1) -> 'a1 csc -> 'a1 list ->
  'a1 list -> 'a1 list

val csc_residual :
  'a1 -> ('a1 -> 'a1 -> 'a1) -> ('a1 -> 'a1 -> 'a1) -> 'a1 csc -> 'a1 list ->
  'a1 list -> 'a1 list

val row_dot :
  'a1 -> ('a1 -> 'a1 -> 'a1) -> ('a1 -> 'a1 -> 'a1) -> (nat * 'a1) list ->
  'a1 list -> 'a1

val csr_spmv :
  'a1 -> ('a1 -> 'a1 -> 'a1) -> ('a1 -> 'a1 -> 'a1) -> 'a1 csr -> 'a1 list ->
  'a1 list

val csr_spmv_append :
  'a1 -> ('a1 -> 'a1 -> 'a1) -> ('a1 -> 'a1 -> 'a1) -> 'a1 csr -> 'a1 list ->
  'a1 list -> 'a1 list

val csr_residual :
  'a1 -> ('a1 -> 'a1 -> 'a1) -> ('a1 -> 'a1 -> 'a1) -> 'a1 csr -> 'a1 list ->
  'a1 list -> 'a1 list

val csr_spmv_append_T :
  'a1 -> ('a1 -> 'a1 -> 'a1) -> ('a1 -> 'a1 -> 'a1) -> 'a1 csr -> 'a1 list ->
  'a1 list -> 'a1 list

val csr_spmv_append_neg :
  'a1 -> ('a1 -> 'a1 -> 'a1) -> ('a1 -> 'a1 -> 'a1) -> 'a1 csr -> 'a1 list ->
  'a1 list -> 'a1 list

val csr_spmv_append_neg_T :
  'a1 -> ('a1 -> 'a1 -> 'a1) -> ('a1 -> 'a1 -> 'a1) -> 'a1 csr -> 'a1 list ->
  'a1 list -> 'a1 list

val coo_mult_T :
  'a1 -> ('a1 -> 'a1 -> 'a1) -> ('a1 -> 'a1 -> 'a1) -> 'a1 coo -> 'a1 list ->
  'a1 list

val csr_mult_T :
  'a1 -> ('a1 -> 'a1 -> 'a1) -> ('a1 -> 'a1 -> 'a1) -> 'a1 csr -> 'a1 list ->
  'a1 list

val csc_mult_T :
  'a1 -> ('a1 -> 'a1 -> 'a1) -> ('a1 -> 'a1 -> 'a1) -> 'a1 csc -> 'a1 list ->
  'a1 list

val zero_tol : qc

val qc_small : qc -> bool

val qc_ltb : qc -> qc -> bool

val qc_leb : qc -> qc -> bool

val qc_eqb : qc -> qc -> bool

val q_den_coo : qc coo -> nat -> nat -> qc

val q_den_csr : qc csr -> nat -> nat -> qc

val q_den_csc : qc csc -> nat -> nat -> qc

val q_csr_remove_duplicates : qc csr -> qc csr

val q_csc_remove_duplicates : qc csc -> qc csc

val q_coo_remove_duplicates : qc coo -> qc coo

val q_csr_add : qc csr -> qc csr -> bool -> qc csr

val q_csr_subtract : qc csr -> qc csr -> qc csr

val q_coo_spmv : qc coo -> qc list -> qc list

val q_coo_spmv_append : qc coo -> qc list -> qc list -> qc list

val q_coo_spmv_append_T : qc coo -> qc list -> qc list -> qc list

val q_coo_spmv_append_neg : qc coo -> qc list -> qc list -> qc list

val q_coo_spmv_append_neg_T : qc coo -> qc list -> qc list -> qc list

val q_coo_residual : qc coo -> qc list -> qc list -> qc list

val q_coo_mult_T : qc coo -> qc list -> qc list

val q_csr_spmv : qc csr -> qc list -> qc list

val q_csr_spmv_append : qc csr -> qc list -> qc list -> qc list

val q_csr_spmv_append_T : qc csr -> qc list -> qc list -> qc list

val q_csr_spmv_append_neg : qc csr -> qc list -> qc list -> qc list

val q_csr_spmv_append_neg_T : qc csr -> qc list -> qc list -> qc list

val q_csr_residual : qc csr -> qc list -> qc list -> qc list

val q_csr_mult_T : qc csr -> qc list -> qc list

val q_csc_spmv : qc csc -> qc list -> qc list

val q_csc_spmv_append : qc csc -> qc list -> qc list -> qc list

val q_csc_spmv_append_T : qc csc -> qc list -> qc list -> qc list

val q_csc_spmv_append_neg : qc csc -> qc list -> qc list -> qc list

val q_csc_spmv_append_neg_T : qc csc -> qc list -> qc list -> qc list

val q_csc_residual : qc csc -> qc list -> qc list -> qc list

val q_csc_mult_T : qc csc -> qc list -> qc list
