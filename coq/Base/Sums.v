(* Finite sums over an abstract commutative ring; list utilities used by every model. *)
From Coq Require Export List Arith Lia Ring Permutation Bool.
Export ListNotations.

Section Sums.
Variable F : Type.
Variables (zero one : F) (add mul sub : F -> F -> F) (opp : F -> F).
Variable Fth : ring_theory zero one add mul sub opp (@eq F).
Add Ring Fring : Fth.

Notation "0" := zero.
Infix "+" := add.
Infix "*" := mul.
Infix "-" := sub.

Definition sumf (l : list F) : F := fold_right add 0 l.

Lemma sumf_app l1 l2 : sumf (l1 ++ l2) = sumf l1 + sumf l2.
Proof. induction l1 as [|a l1 IH]; simpl; [ring|rewrite IH; ring]. Qed.

Lemma sumf_perm l1 l2 : Permutation l1 l2 -> sumf l1 = sumf l2.
Proof. induction 1; simpl; try congruence; ring. Qed.

Lemma sumf_map_add {A} (f g : A -> F) l :
  sumf (map (fun a => f a + g a) l) = sumf (map f l) + sumf (map g l).
Proof. induction l as [|a l IH]; simpl; [ring|rewrite IH; ring]. Qed.

Lemma sumf_map_mul_l {A} c (f : A -> F) l :
  sumf (map (fun a => c * f a) l) = c * sumf (map f l).
Proof. induction l as [|a l IH]; simpl; [ring|rewrite IH; ring]. Qed.

Lemma sumf_map_mul_r {A} c (f : A -> F) l :
  sumf (map (fun a => f a * c) l) = sumf (map f l) * c.
Proof. induction l as [|a l IH]; simpl; [ring|rewrite IH; ring]. Qed.

Lemma sumf_map_opp {A} (f : A -> F) l :
  sumf (map (fun a => opp (f a)) l) = opp (sumf (map f l)).
Proof. induction l as [|a l IH]; simpl; [ring|rewrite IH; ring]. Qed.

Lemma sumf_map_zero {A} (l : list A) : sumf (map (fun _ => 0) l) = 0.
Proof. induction l; simpl; [reflexivity|rewrite IHl; ring]. Qed.

Lemma sumf_map_ext {A} (f g : A -> F) l :
  (forall a, In a l -> f a = g a) -> sumf (map f l) = sumf (map g l).
Proof. intros H. f_equal. apply map_ext_in. exact H. Qed.

(* split a sum by a predicate *)
Lemma sumf_filter_split {A} (p : A -> bool) (f : A -> F) l :
  sumf (map f l) = sumf (map f (filter p l)) + sumf (map f (filter (fun a => negb (p a)) l)).
Proof.
  induction l as [|a l IH]; simpl; [ring|].
  destruct (p a); simpl; rewrite IH; ring.
Qed.

Lemma sumf_flat_map {A} (f : A -> list F) l :
  sumf (flat_map f l) = sumf (map (fun a => sumf (f a)) l).
Proof. induction l as [|a l IH]; simpl; [reflexivity|rewrite sumf_app, IH; reflexivity]. Qed.

(* Fubini for list-indexed double sums *)
Lemma sumf_swap {A B} (f : A -> B -> F) la lb :
  sumf (map (fun a => sumf (map (fun b => f a b) lb)) la) =
  sumf (map (fun b => sumf (map (fun a => f a b) la)) lb).
Proof.
  induction la as [|a la IH]; simpl.
  - rewrite sumf_map_zero. reflexivity.
  - rewrite IH. rewrite <- sumf_map_add. reflexivity.
Qed.

(* the sum of a function that is non-zero at one index only *)
Lemma sumf_single n k (f : nat -> F) :
  k < n -> (forall i, i < n -> i <> k -> f i = 0) ->
  sumf (map f (seq 0 n)) = f k.
Proof.
  intros Hk Hz.
  assert (G : forall s m, (forall i, s <= i < s + m -> i <> k -> f i = 0) ->
     sumf (map f (seq s m)) = if (s <=? k) && (k <? s + m) then f k else 0).
  { intros s m; revert s; induction m as [|m IH]; intros s H; simpl.
    - destruct (s <=? k) eqn:E1; destruct (k <? s + 0) eqn:E2; simpl; try reflexivity.
      apply Nat.leb_le in E1; apply Nat.ltb_lt in E2; lia.
    - rewrite IH by (intros i Hi; apply H; lia).
      destruct (Nat.eq_dec s k) as [->|Hne].
      + replace (S k <=? k) with false by (symmetry; apply Nat.leb_gt; lia).
        replace (k <=? k) with true by (symmetry; apply Nat.leb_le; lia).
        replace (k <? k + S m) with true by (symmetry; apply Nat.ltb_lt; lia).
        simpl. ring.
      + rewrite (H s) by lia.
        destruct (s <=? k) eqn:E1; destruct (S s <=? k) eqn:E2;
        destruct (k <? s + S m) eqn:E3; destruct (k <? S s + m) eqn:E4; simpl; try ring;
        repeat match goal with
        | H : (_ <=? _) = true |- _ => apply Nat.leb_le in H
        | H : (_ <=? _) = false |- _ => apply Nat.leb_gt in H
        | H : (_ <? _) = true |- _ => apply Nat.ltb_lt in H
        | H : (_ <? _) = false |- _ => apply Nat.ltb_ge in H
        end; lia. }
  rewrite G by (intros i Hi; apply Hz; lia).
  replace (0 <=? k) with true by (symmetry; apply Nat.leb_le; lia).
  replace (k <? 0 + n) with true by (symmetry; apply Nat.ltb_lt; lia).
  reflexivity.
Qed.

End Sums.

(* --- generic list helpers (no arithmetic on F) --- *)
Section ListHelpers.
Context {A B : Type}.

Lemma filter_map_comm (g : A -> B) (p : B -> bool) l :
  filter p (map g l) = map g (filter (fun a => p (g a)) l).
Proof. induction l as [|a l IH]; simpl; [reflexivity|]. destruct (p (g a)); simpl; rewrite IH; reflexivity. Qed.

Lemma filter_filter (p q : A -> bool) l :
  filter p (filter q l) = filter (fun a => q a && p a) l.
Proof. induction l as [|a l IH]; simpl; [reflexivity|]. destruct (q a); simpl; [destruct (p a)|]; rewrite IH; reflexivity. Qed.

Lemma filter_ext_in' (p q : A -> bool) l :
  (forall a, In a l -> p a = q a) -> filter p l = filter q l.
Proof. apply filter_ext_in. Qed.

Lemma nth_map_seq (f : nat -> A) n i d : i < n -> nth i (map f (seq 0 n)) d = f i.
Proof.
  intros H. rewrite nth_indep with (d' := f 0) by (rewrite map_length, seq_length; exact H).
  change (f 0) with (f (0 + 0)) at 1.
  rewrite map_nth. rewrite seq_nth by exact H. reflexivity.
Qed.

Lemma nth_overflow_map_seq (f : nat -> A) n i d : n <= i -> nth i (map f (seq 0 n)) d = d.
Proof. intros H. apply nth_overflow. rewrite map_length, seq_length. exact H. Qed.

End ListHelpers.

(* lists paired with their positions *)
Fixpoint indexed_from {A} (s : nat) (l : list A) : list (nat * A) :=
  match l with [] => [] | a :: l' => (s, a) :: indexed_from (S s) l' end.
Definition indexed {A} (l : list A) := indexed_from 0 l.

Lemma indexed_from_length {A} s (l : list A) : length (indexed_from s l) = length l.
Proof. revert s; induction l; simpl; intros; [reflexivity|rewrite IHl; reflexivity]. Qed.

Lemma indexed_from_in {A} s (l : list A) i a :
  In (i, a) (indexed_from s l) -> s <= i < s + length l /\ nth_error l (i - s) = Some a.
Proof.
  revert s; induction l as [|x l IH]; simpl; intros s H; [contradiction|].
  destruct H as [H|H].
  - inversion H; subst. split; [lia|]. replace (i - i) with 0 by lia. reflexivity.
  - apply IH in H. destruct H as [H1 H2]. split; [lia|].
    replace (i - s) with (S (i - S s)) by lia. exact H2.
Qed.

Lemma indexed_from_map_fst {A} s (l : list A) : map fst (indexed_from s l) = seq s (length l).
Proof. revert s; induction l; simpl; intros; [reflexivity|rewrite IHl; reflexivity]. Qed.

Lemma indexed_from_seq {A} s (l : list A) d :
  indexed_from s l = map (fun i => (i, nth (i - s) l d)) (seq s (length l)).
Proof.
  revert s; induction l as [|x l IH]; intros s; simpl; [reflexivity|].
  replace (s - s) with 0 by lia. f_equal.
  rewrite IH. apply map_ext_in. intros i Hi. apply in_seq in Hi.
  replace (i - s) with (S (i - S s)) by lia. reflexivity.
Qed.
