(* Executable model of raptor/gallery/stencil.cpp (stencil_grid), par_stencil.cpp (par_stencil_grid),
   diffusion.cpp (diffusion_stencil_2d) and laplacian27pt.cpp (laplace_stencil_27pt), as the code is now
   (boundary chunks use len = prod grid[k>j], step = len*grid[j]; the distributed end-of-line zeroing starts at
   step*((last_local_row/step)+1)).

   Conventions.  grid : list nat (extents, grid[0] first), stencil : list F of length 3^dim in C order
   (stencil index t has offset vector  indices[m] = (t / 3^(dim-1-m)) % 3 - 1).  Offsets and diagonals are
   integers (Z) because they are negative in the code; positions in the DIA-style `data` array are nat.
   `data` (N_s * N_v doubles in the code) is kept as N_s rows of N_v values: the write  data[i*N_v + x]  is a
   write into row i at x; that x < N_v for every write is proved (StencilProofs.seq_zero_pos_lt).
   `big v` stands for  fabs(v) > zero_tol.  *)
From Coq Require Import ZArith.
From Raptor Require Import Base.Sums Sparse.Defs.

Fixpoint nprod (l : list nat) : nat := match l with [] => 1 | x :: r => x * nprod r end.
Fixpoint nsum (l : list nat) : nat := match l with [] => 0 | x :: r => x + nsum r end.

(* mixed-radix digits of p, most significant first: digit m = (p / prod_{k>m} g_k) mod g_m.
   With g = grid these are the grid coordinates of point p (last dimension fastest);
   with g = [3;..;3] they are the digits the code extracts from the stencil index with  (i / pow(3,j)) % 3 . *)
Fixpoint coords (g : list nat) (p : nat) : list nat :=
  match g with [] => [] | g0 :: gs => (p / nprod gs) mod g0 :: coords gs p end.

(* the inverse: linear index of a coordinate vector *)
Fixpoint linear (g : list nat) (c : list nat) : nat :=
  match g, c with g0 :: gs, c0 :: cs => c0 * nprod gs + linear gs cs | _, _ => 0 end.

(* indices[ctr][0..dim-1] of stencil index t *)
Definition offs (d t : nat) : list Z := map (fun c => (Z.of_nat c - 1)%Z) (coords (repeat 3 d) t).

(* strides[0] = 1; strides[i+1] = grid[dim-i-1] * strides[i]   (dim entries) *)
Fixpoint scan_mul (l : list nat) (acc : nat) : list nat :=
  match l with [] => [] | x :: r => acc :: scan_mul r (acc * x) end.
Definition strides (grid : list nat) : list nat := scan_mul (rev grid) 1.

Fixpoint dotZ (s : list nat) (o : list Z) : Z :=
  match s, o with a :: s', b :: o' => (Z.of_nat a * b + dotZ s' o')%Z | _, _ => 0%Z end.
(* diags[j] = sum_i strides[i] * indices[j][dim-i-1] *)
Definition diag_of (grid : list nat) (o : list Z) : Z := dotZ (strides grid) (rev o).

(* ---- boundary zeroing, sequential:  positions of one row of `data` that are overwritten with 0 ---- *)
(* for (k = 0; k < N_v; k += step) for (l = 0; l < len; l++) { if (k+l > N_v) break; data[k+l] = 0; }
   (k+l grows with l, so the break is the filter  k+l <= N_v ; k = t*step < N_v forces t <= N_v/step) *)
Definition seq_begin_pos (N step len : nat) : list nat :=
  flat_map (fun t => let k := t * step in
     if k <? N then filter (fun p => p <=? N) (map (fun l => k + l) (seq 0 len)) else []) (seq 0 (N / step + 1)).
(* for (k = N_v; k > 0; k -= step) for (l = 0; l < len; l++) { if (k-l-1 < 0) break; data[k-l-1] = 0; } *)
Definition seq_end_pos (N step len : nat) : list nat :=
  flat_map (fun t => let k := N - t * step in
     if t * step <? N then map (fun l => k - l - 1) (filter (fun l => l <? k) (seq 0 len)) else []) (seq 0 (N / step + 1)).

(* for (j = 0; j < dim; j++) { idx = indices[i][j]; if (idx == 0) continue;
       len = prod_{k>j} grid[k]; step = len*grid[j]; if (idx > 0) <begin> else if (idx < 0) <end> }
   the recursion walks grid and the offset vector together: `gs` is grid[j+1..], so len = nprod gs *)
Fixpoint seq_zero_pos (N : nat) (g : list nat) (o : list Z) : list nat :=
  match g, o with
  | g0 :: gs, o0 :: os =>
      let len := nprod gs in let step := len * g0 in
      (if (0 <? o0)%Z then seq_begin_pos N step len
       else if (o0 <? 0)%Z then seq_end_pos N step len else [])
      ++ seq_zero_pos N gs os
  | _, _ => []
  end.

(* ---- the same on the row window [f, f+nv) of one process (last = f+nv-1); results are local indices ---- *)
(* current_step = step*(f/step);
   for (k = current_step; k < last+1; k += step) for (l < len) { if (k+l > last) break; if (k+l < f) continue;
        data[(k-f)+l] = 0; }                                   (step = 0 would trap in C; extents >= 1) *)
Definition par_begin_pos (f nv step len : nat) : list nat :=
  let cur := step * (f / step) in
  flat_map (fun t => let k := cur + t * step in
     if k <? f + nv
     then map (fun p => p - f) (filter (fun p => (p <? f + nv) && (f <=? p)) (map (fun l => k + l) (seq 0 len)))
     else []) (seq 0 ((f + nv) / step + 1)).
(* current_step = step*((last/step)+1)   with C integer division (truncation; last = -1 on a process
   without rows whose first row is 0) *)
Definition par_end_cur (f nv step : nat) : Z :=
  (Z.of_nat step * (Z.quot (Z.of_nat (f + nv) - 1) (Z.of_nat step) + 1))%Z.
(* for (k = current_step; k > f; k -= step) for (l < len) { if (k-l-1 < f) break; else if (k-l-1 > last) continue;
        data[(k-l-f)-1] = 0; } *)
Definition par_end_pos (f nv step len : nat) : list nat :=
  let cur := Z.to_nat (par_end_cur f nv step) in
  flat_map (fun t => let k := cur - t * step in
     if (t * step <? cur) && (f <? k)
     then map (fun p => p - f)
            (filter (fun p => (f <=? p) && (p <? f + nv)) (map (fun l => k - l - 1) (filter (fun l => l <? k) (seq 0 len))))
     else []) (seq 0 ((f + nv) / step + 1)).

Fixpoint par_zero_pos (f nv : nat) (g : list nat) (o : list Z) : list nat :=
  match g, o with
  | g0 :: gs, o0 :: os =>
      let len := nprod gs in let step := len * g0 in
      (if (0 <? o0)%Z then par_begin_pos f nv step len
       else if (o0 <? 0)%Z then par_end_pos f nv step len else [])
      ++ par_zero_pos f nv gs os
  | _, _ => []
  end.

Fixpoint windows (f : nat) (blocks : list nat) : list (nat * nat) :=
  match blocks with [] => [] | b :: r => (f, b) :: windows (f + b) r end.

Section Stencil.
Variable F : Type.
Variable zero : F.
Variable big : F -> bool.          (* fabs(v) > zero_tol *)

Definition zero_at (ps : list nat) (row : list F) : list F := fold_left (fun r p => upd F r p zero) ps row.

(* row i of the result:
   for (d = 0; d < N_s; d++) { col = diags[d] + i (+ first_local_row); value = data[(N_s-d-1)*N_v + i];
                               if (col >= 0 && col < N_v && fabs(value) > zero_tol) emit (col, value); } *)
Definition emit_row (N Ns : nat) (diags : list Z) (data : list (list F)) (first i : nat) : list (nat * F) :=
  flat_map (fun dd =>
      let col := (nth dd diags 0 + Z.of_nat i + Z.of_nat first)%Z in
      let value := nth i (nth (Ns - dd - 1) data []) zero in
      if (0 <=? col)%Z && (col <? Z.of_nat N)%Z && big value then [(Z.to_nat col, value)] else [])
    (seq 0 Ns).

(* stencil indices of the entries with fabs(stencil[i]) > zero_tol, in order (ctr = position in this list) *)
Definition nz_list (stencil : list F) (d : nat) : list nat :=
  filter (fun t => big (nth t stencil zero)) (seq 0 (3 ^ d)).

Definition stencil_grid (stencil : list F) (grid : list nat) : csr F :=
  let d := length grid in
  let N := nprod grid in
  let nz := nz_list stencil d in
  let Ns := length nz in
  let diags := map (fun t => diag_of grid (offs d t)) nz in
  let data := map (fun t => zero_at (seq_zero_pos N grid (offs d t)) (repeat (nth t stencil zero) N)) nz in
  mkCsr N N (map (emit_row N Ns diags data 0) (seq 0 N)).

(* one process of par_stencil_grid: its rows with GLOBAL column indices, in emission order, before
   finalize() sorts each row, sums duplicates and splits on/off-process columns *)
Definition par_stencil_rank (stencil : list F) (grid : list nat) (f nv : nat) : list (list (nat * F)) :=
  let d := length grid in
  let N := nprod grid in
  let nz := nz_list stencil d in
  let Ns := length nz in
  let diags := map (fun t => diag_of grid (offs d t)) nz in
  let data := map (fun t => zero_at (par_zero_pos f nv grid (offs d t)) (repeat (nth t stencil zero) nv)) nz in
  map (emit_row N Ns diags data f) (seq 0 nv).

(* all processes; the partition is the list of consecutive block sizes (empty blocks allowed) *)
Definition par_stencil_grid (stencil : list F) (grid : list nat) (blocks : list nat)
  : list (list (list (nat * F))) :=
  map (fun w => par_stencil_rank stencil grid (fst w) (snd w)) (windows 0 blocks).
Definition par_stencil_gathered (stencil : list F) (grid : list nat) (blocks : list nat) : csr F :=
  mkCsr (nprod grid) (nprod grid) (concat (par_stencil_grid stencil grid blocks)).

(* ---- what the result is supposed to be ---- *)
Definition zsub_coords (a b : list nat) : list Z :=      (* a - b, componentwise *)
  map (fun ab => (Z.of_nat (fst ab) - Z.of_nat (snd ab))%Z) (combine a b).
(* coord b - coord a *)
Definition offset_between (grid : list nat) (a b : nat) : list Z := zsub_coords (coords grid b) (coords grid a).
(* weight the stencil gives to an offset vector; zero outside {-1,0,1}^dim *)
Definition stencil_weight (stencil : list F) (o : list Z) : F :=
  if forallb (fun x => (-1 <=? x)%Z && (x <=? 1)%Z) o
  then nth (linear (repeat 3 (length o)) (map (fun x => Z.to_nat (x + 1)) o)) stencil zero
  else zero.
Definition dropw (v : F) : F := if big v then v else zero.

Definition pattern_symmetric (stencil : list F) (d : nat) : Prop :=
  forall t, t < 3 ^ d -> big (nth (3 ^ d - 1 - t) stencil zero) = big (nth t stencil zero).
Definition value_symmetric (stencil : list F) (d : nat) : Prop :=
  forall t, t < 3 ^ d -> nth (3 ^ d - 1 - t) stencil zero = nth t stencil zero.
Definition pattern_symmetricb (stencil : list F) (d : nat) : bool :=
  forallb (fun t => Bool.eqb (big (nth (3 ^ d - 1 - t) stencil zero)) (big (nth t stencil zero))) (seq 0 (3 ^ d)).

End Stencil.

(* ---- the two stencil makers ---- *)
Section Makers.
Variable F : Type.
Variables (zero one : F) (add mul sub : F -> F -> F) (opp : F -> F).
Variable of_nat : nat -> F.        (* integer constants of the code *)
Variable sixth : F -> F.           (* x / 6.0 *)
Notation "x + y" := (add x y). Notation "x * y" := (mul x y). Notation "x - y" := (sub x y).

(* diffusion_stencil_2d(eps, theta) with C = cos(theta), S = sin(theta) given *)
Definition diffusion_stencil_2d (eps C S : F) : list F :=
  let CS := C * S in let CC := C * C in let SS := S * S in
  let m1 := opp one in
  let val1 := sixth ((m1 * eps - one) * CC + (m1 * eps - one) * SS + (of_nat 3 * eps - of_nat 3) * CS) in
  let val2 := sixth ((of_nat 2 * eps - of_nat 4) * CC + (opp (of_nat 4) * eps + of_nat 2) * SS) in
  let val3 := sixth ((m1 * eps - one) * CC + (m1 * eps - one) * SS + (opp (of_nat 3) * eps + of_nat 3) * CS) in
  let val4 := sixth ((opp (of_nat 4) * eps + of_nat 2) * CC + (of_nat 2 * eps - of_nat 4) * SS) in
  let val5 := sixth ((of_nat 8 * eps + of_nat 8) * CC + (of_nat 8 * eps + of_nat 8) * SS) in
  [val1; val2; val3; val4; val5; val4; val3; val2; val1].

(* laplace_stencil_27pt: -1 everywhere, 26 at index 13 *)
Definition laplace_stencil_27pt : list F :=
  map (fun i => if i =? 13 then of_nat 26 else opp one) (seq 0 27).
End Makers.
