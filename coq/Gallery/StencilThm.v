(* The stencil theorem: what stencil_grid returns, and that par_stencil_grid returns the same rows. *)
From Coq Require Import ZArith ZifyNat.
From Raptor Require Import Base.Sums Sparse.Defs Sparse.ConvertProofs Gallery.Stencil Gallery.StencilProofs.

(* ------------------------------------------------------------------ list helpers *)
Lemma rev_seq0 n : rev (seq 0 n) = map (fun t => n - 1 - t) (seq 0 n).
Proof.
  induction n as [|n IH]; [reflexivity|].
  transitivity (n :: map (fun t => n - 1 - t) (seq 0 n)).
  - rewrite seq_S, rev_app_distr, IH. reflexivity.
  - assert (E : seq 0 (S n) = 0 :: map S (seq 0 n)) by (simpl; rewrite seq_shift; reflexivity).
    rewrite E. simpl map. rewrite map_map. f_equal; [lia|]. apply map_ext. intros a. lia.
Qed.

Lemma filter_rev' {X} (p : X -> bool) l : filter p (rev l) = rev (filter p l).
Proof.
  induction l as [|a l IH]; simpl; [reflexivity|].
  rewrite filter_app, IH. simpl. destruct (p a); simpl; [reflexivity|rewrite app_nil_r; reflexivity].
Qed.

Lemma map_nth_seq {X Y} (f : X -> Y) (l : list X) d :
  map (fun k => f (nth k l d)) (seq 0 (length l)) = map f l.
Proof.
  induction l as [|a l IH]; simpl; [reflexivity|]. f_equal.
  rewrite <- seq_shift, map_map. exact IH.
Qed.

Lemma nth_repeat_lt {X} (v d : X) n p : p < n -> nth p (repeat v n) d = v.
Proof. revert p; induction n as [|n IH]; intros [|p] H; simpl; try lia; try reflexivity. apply IH. lia. Qed.

(* reversing the list of non-zero stencil indices = mirroring each index, when the pattern is symmetric *)
Lemma nz_rev (p : nat -> bool) n :
  (forall t, t < n -> p (n - 1 - t) = p t) ->
  rev (filter p (seq 0 n)) = map (fun t => n - 1 - t) (filter p (seq 0 n)).
Proof.
  intros Hsym. rewrite <- filter_rev', rev_seq0, filter_map_comm. f_equal.
  apply filter_ext_in. intros t Ht. apply in_seq in Ht. apply Hsym. lia.
Qed.

Lemma nz_mirror (p : nat -> bool) n dd :
  (forall t, t < n -> p (n - 1 - t) = p t) ->
  let nz := filter p (seq 0 n) in
  dd < length nz -> nth (length nz - dd - 1) nz 0 = n - 1 - nth dd nz 0.
Proof.
  intros Hsym nz Hdd.
  replace (length nz - dd - 1) with (length nz - S dd) by lia.
  rewrite <- rev_nth by exact Hdd. unfold nz. rewrite nz_rev by exact Hsym. fold nz.
  rewrite nth_indep with (d' := n - 1 - 0) by (rewrite map_length; exact Hdd).
  rewrite (map_nth (fun t => n - 1 - t)). reflexivity.
Qed.

(* ------------------------------------------------------------------ offsets *)
Definition small3 (o : list Z) : Prop := Forall (fun x => (-1 <= x <= 1)%Z) o.

Fixpoint zlin (g : list nat) (o : list Z) : Z :=
  match g, o with g0 :: gs, o0 :: os => (Z.of_nat (nprod gs) * o0 + zlin gs os)%Z | _, _ => 0%Z end.
Fixpoint validb (g : list nat) (o : list Z) (c : list nat) : bool :=
  match g, o, c with
  | g0 :: gs, o0 :: os, c0 :: cs =>
      (0 <=? Z.of_nat c0 + o0)%Z && (Z.of_nat c0 + o0 <? Z.of_nat g0)%Z && validb gs os cs
  | _, _, _ => true
  end.
Fixpoint addo (c : list nat) (o : list Z) : list nat :=
  match c, o with c0 :: cs, o0 :: os => Z.to_nat (Z.of_nat c0 + o0) :: addo cs os | _, _ => [] end.

Lemma offs_length d t : length (offs d t) = d.
Proof. unfold offs. rewrite map_length, coords_length, repeat_length. reflexivity. Qed.

Lemma offs_small d t : small3 (offs d t).
Proof.
  unfold offs, small3. pose proof (coords_lt (repeat 3 d) t (allpos_repeat 3 d ltac:(lia))) as H.
  remember (coords (repeat 3 d) t) as c. remember (repeat 3 d) as g.
  assert (Hg : Forall (fun x => x = 3) g) by (subst g; clear; induction d; simpl; constructor; auto).
  clear Heqc Heqg. revert Hg. induction H as [|a b la lb Hab H IH]; intros Hg; simpl; constructor.
  - inversion Hg; subst. lia.
  - apply IH. inversion Hg; assumption.
Qed.

Lemma offs_rev d t : t < 3 ^ d -> offs d (3 ^ d - 1 - t) = map Z.opp (offs d t).
Proof.
  intros Ht. unfold offs.
  pose proof (allpos_repeat 3 d ltac:(lia)) as Hg.
  rewrite <- (nprod_repeat 3 d). rewrite coords_rev by (try exact Hg; rewrite nprod_repeat; exact Ht).
  pose proof (coords_lt (repeat 3 d) t Hg) as H.
  remember (coords (repeat 3 d) t) as c. remember (repeat 3 d) as g.
  assert (H3 : Forall (fun x => x = 3) g) by (subst g; clear; induction d; simpl; constructor; auto).
  clear Heqc Heqg Hg. revert H3. induction H as [|a b la lb Hab H IH]; intros H3; simpl; [reflexivity|].
  inversion H3; subst. f_equal; [lia|]. apply IH. assumption.
Qed.

Lemma scan_mul_app l x acc : scan_mul (l ++ [x]) acc = scan_mul l acc ++ [acc * nprod l].
Proof.
  revert acc; induction l as [|a l IH]; intros acc; simpl; [f_equal; lia|].
  rewrite IH. f_equal. f_equal. f_equal. nia.
Qed.

Fixpoint lens (g : list nat) : list nat := match g with [] => [] | _ :: gs => nprod gs :: lens gs end.

Lemma strides_rev g : rev (strides g) = lens g.
Proof.
  unfold strides. induction g as [|g0 gs IH]; [reflexivity|].
  simpl rev. rewrite scan_mul_app, rev_app_distr. simpl. rewrite IH, nprod_rev. f_equal. lia.
Qed.

Lemma dotZ_lens g o : dotZ (lens g) o = zlin g o.
Proof. revert o; induction g as [|g0 gs IH]; intros [|o0 os]; simpl; try reflexivity. rewrite IH. reflexivity. Qed.

Lemma dotZ_rev s o : length s = length o -> dotZ (rev s) (rev o) = dotZ s o.
Proof.
  revert o; induction s as [|a s IH]; intros [|b o] H; simpl in *; try reflexivity; try discriminate.
  assert (G : forall s1 o1 a1 b1, length s1 = length o1 ->
              dotZ (s1 ++ [a1]) (o1 ++ [b1]) = (dotZ s1 o1 + Z.of_nat a1 * b1)%Z).
  { clear. induction s1 as [|x s1 IH1]; intros [|y o1] a1 b1 H1; simpl in *; try discriminate; [lia|].
    rewrite IH1 by lia. lia. }
  rewrite G by (rewrite !rev_length; lia). rewrite IH by lia. lia.
Qed.

Lemma lens_length g : length (lens g) = length g.
Proof. induction g; simpl; [reflexivity|rewrite IHg; reflexivity]. Qed.

Lemma diag_of_zlin g o : length o = length g -> diag_of g o = zlin g o.
Proof.
  intros H. unfold diag_of. rewrite <- (rev_involutive (strides g)), strides_rev.
  rewrite dotZ_rev by (rewrite lens_length; lia). apply dotZ_lens.
Qed.

Ltac bool_cases :=
  repeat match goal with
  | |- context [Nat.eqb ?a ?b] => destruct (Nat.eqb_spec a b)
  | |- context [Z.leb ?a ?b] => destruct (Z.leb_spec a b)
  | |- context [Z.ltb ?a ?b] => destruct (Z.ltb_spec a b)
  | |- context [Nat.ltb ?a ?b] => destruct (Nat.ltb_spec a b)
  | |- context [Nat.leb ?a ?b] => destruct (Nat.leb_spec a b)
  end; simpl; try reflexivity; try lia.

Lemma all2_length {A B} (R : A -> B -> Prop) la lb : all2 R la lb -> length la = length lb.
Proof. induction 1; simpl; congruence. Qed.

Lemma all2_lt_allpos c g : all2 lt c g -> allpos g.
Proof. induction 1; constructor; [lia|assumption]. Qed.

(* the data row of the mirrored entry is zeroed at row i exactly when offset o leaves the grid from i *)
Lemma zeroedb_opp g o c : all2 lt c g -> small3 o -> length o = length g ->
  zeroedb g (map Z.opp o) c = negb (validb g o c).
Proof.
  intros H. revert o. induction H as [|c0 g0 cs gs Hc H IH]; intros o Ho Hl.
  - destruct o; reflexivity.
  - destruct o as [|o0 os]; [discriminate|]. inversion Ho as [|xx ll Ho0 Hos]; subst. simpl in Hl.
    cbn [map zeroedb validb]. rewrite IH by (try assumption; lia).
    destruct (validb gs os cs); simpl; rewrite ?orb_false_r, ?orb_true_r, ?andb_true_r, ?andb_false_r; try reflexivity.
    assert (E : o0 = (-1)%Z \/ o0 = 0%Z \/ o0 = 1%Z) by lia.
    destruct E as [ -> | [ -> | -> ] ]; simpl; bool_cases.
Qed.

Lemma valid_shift g o c : all2 lt c g -> length o = length g -> validb g o c = true ->
  (Z.of_nat (linear g c) + zlin g o = Z.of_nat (linear g (addo c o)))%Z /\ all2 lt (addo c o) g.
Proof.
  intros H. revert o. induction H as [|c0 g0 cs gs Hc H IH]; intros o Hl Hv.
  - destruct o; simpl; split; try reflexivity; constructor.
  - destruct o as [|o0 os]; [discriminate|]. simpl in Hl.
    cbn [validb] in Hv. apply andb_true_iff in Hv. destruct Hv as [Hv Hv3].
    apply andb_true_iff in Hv. destruct Hv as [Hv1 Hv2].
    apply Z.leb_le in Hv1. apply Z.ltb_lt in Hv2.
    destruct (IH os ltac:(lia) Hv3) as [E A].
    cbn [linear zlin addo]. split.
    + rewrite !Nat2Z.inj_add, !Nat2Z.inj_mul, Z2Nat.id by lia. rewrite <- E. ring.
    + constructor; [lia|exact A].
Qed.

Lemma addo_eq_iff g o c cj : all2 lt c g -> all2 lt cj g -> length o = length g ->
  (validb g o c = true /\ addo c o = cj <-> o = zsub_coords cj c).
Proof.
  intros H. revert o cj. induction H as [|c0 g0 cs gs Hc H IH]; intros o cj Hj Hl.
  - inversion Hj; subst. destruct o; [|discriminate]. simpl. split; auto.
  - inversion Hj as [|cj0 gg0 cjs ggs Hcj Hjs]; subst. destruct o as [|o0 os]; [discriminate|]. simpl in Hl.
    cbn [validb addo]. unfold zsub_coords. cbn [combine map fst snd]. fold (zsub_coords cjs cs).
    specialize (IH os cjs Hjs ltac:(lia)).
    split.
    + intros [Hv Ha]. apply andb_true_iff in Hv. destruct Hv as [Hv Hv3].
      apply andb_true_iff in Hv. destruct Hv as [Hv1 Hv2].
      apply Z.leb_le in Hv1. apply Z.ltb_lt in Hv2. inversion Ha as [[Ha0 Has]].
      f_equal; [lia|]. rewrite Has. apply IH. split; [exact Hv3|exact Has].
    + intros Ho. inversion Ho as [[Ho0 Hos]].
      destruct IH as [_ IH]. specialize (IH Hos). destruct IH as [Hv3 Has].
      rewrite <- Hos. split.
      * rewrite Hv3. replace (Z.of_nat c0 + (Z.of_nat cj0 - Z.of_nat c0))%Z with (Z.of_nat cj0) by lia.
        replace (0 <=? Z.of_nat cj0)%Z with true by (symmetry; apply Z.leb_le; lia).
        replace (Z.of_nat cj0 <? Z.of_nat g0)%Z with true by (symmetry; apply Z.ltb_lt; lia). reflexivity.
      * f_equal; [lia|exact Has].
Qed.

Definition nearb (o : list Z) : bool := forallb (fun x => (-1 <=? x)%Z && (x <=? 1)%Z) o.
Definition sidx (o : list Z) : nat := linear (repeat 3 (length o)) (map (fun x => Z.to_nat (x + 1)) o).

Lemma nearb_small o : nearb o = true <-> small3 o.
Proof.
  unfold nearb, small3. rewrite forallb_forall, Forall_forall. split; intros H x Hx; specialize (H x Hx).
  - apply andb_true_iff in H. destruct H as [H1 H2]. apply Z.leb_le in H1. apply Z.leb_le in H2. lia.
  - apply andb_true_iff. split; apply Z.leb_le; lia.
Qed.

Lemma digits_lt3 o : small3 o -> all2 lt (map (fun x => Z.to_nat (x + 1)) o) (repeat 3 (length o)).
Proof. induction 1; simpl; constructor; [lia|assumption]. Qed.

Lemma offs_eq_iff d u o : u < 3 ^ d -> length o = d -> (offs d u = o <-> nearb o = true /\ u = sidx o).
Proof.
  intros Hu Hl. pose proof (allpos_repeat 3 d ltac:(lia)) as Hg. split.
  - intros <-. split; [apply nearb_small, offs_small|].
    unfold sidx. rewrite offs_length. unfold offs. rewrite map_map.
    rewrite (map_ext _ (fun c => c)) by (intros a; lia). rewrite map_id.
    rewrite linear_coords by exact Hg. rewrite nprod_repeat. symmetry. apply Nat.mod_small. exact Hu.
  - intros [Hn ->]. apply nearb_small in Hn. unfold sidx, offs. rewrite <- Hl.
    rewrite coords_linear by (apply digits_lt3; exact Hn).
    rewrite map_map. rewrite <- (map_id o) at 2. apply map_ext_in. intros a Ha.
    unfold small3 in Hn. rewrite Forall_forall in Hn. specialize (Hn a Ha). lia.
Qed.

Lemma sidx_lt o : small3 o -> sidx o < 3 ^ length o.
Proof. intros H. unfold sidx. rewrite <- nprod_repeat. apply linear_lt. apply digits_lt3. exact H. Qed.

Lemma zsub_coords_length a b : length a = length b -> length (zsub_coords a b) = length a.
Proof. intros H. unfold zsub_coords. rewrite map_length, combine_length. lia. Qed.

Lemma zsub_coords_opp a b : map Z.opp (zsub_coords a b) = zsub_coords b a.
Proof.
  unfold zsub_coords. revert b; induction a as [|x a IH]; intros [|y b]; simpl; try reflexivity.
  f_equal; [lia|apply IH].
Qed.

Lemma map_opp_swap a b : map Z.opp a = b <-> a = map Z.opp b.
Proof.
  split; intros H; [rewrite <- H|rewrite H]; rewrite map_map;
  rewrite (map_ext _ (fun x => x)) by (intros; lia); rewrite map_id; reflexivity.
Qed.

Section StencilThm.
Variable F : Type.
Variables (zero one : F) (add mul sub : F -> F -> F) (opp : F -> F).
Variable Fth : ring_theory zero one add mul sub opp (@eq F).
Add Ring FringSt : Fth.
Variable big : F -> bool.
Hypothesis big_zero : big zero = false.

Notation sumF := (sumf F zero add).
Notation denL := (den_line F zero add).
Notation denCsr := (den_csr F zero add).
Notation sgrid := (stencil_grid F zero big).
Notation dropW := (dropw F zero big).
Notation weight := (stencil_weight F zero).

Lemma dropw_zero : dropW zero = zero.
Proof. unfold dropw. destruct (big zero); reflexivity. Qed.

Lemma den_flat_single {X} (c : X -> bool) (k : X -> nat) (v : X -> F) l j :
  denL (flat_map (fun x => if c x then [(k x, v x)] else []) l) j =
  sumF (map (fun x => if c x && (k x =? j) then v x else zero) l).
Proof.
  induction l as [|a l IH]; simpl; [reflexivity|].
  rewrite (den_line_app F zero one add mul sub opp Fth), IH.
  destruct (c a); simpl.
  - unfold den_line; simpl. destruct (k a =? j); simpl; ring.
  - unfold den_line; simpl. ring.
Qed.

Lemma sumf_filter_if {X} (p : X -> bool) (f : X -> F) l :
  sumF (map f (filter p l)) = sumF (map (fun x => if p x then f x else zero) l).
Proof. induction l as [|a l IH]; simpl; [reflexivity|]. destruct (p a); simpl; rewrite IH; ring. Qed.

Lemma sumf_all_zero {X} (f : X -> F) l : (forall x, In x l -> f x = zero) -> sumF (map f l) = zero.
Proof.
  intros H. rewrite (sumf_map_ext F zero add f (fun _ => zero) l H).
  apply (sumf_map_zero F zero one add mul sub opp Fth).
Qed.

(* the data array: position p of the row of offsets o keeps the stencil value unless it is zeroed *)
Lemma data_seq_nth g o v p : allpos g -> p < nprod g ->
  nth p (zero_at F zero (seq_zero_pos (nprod g) g o) (repeat v (nprod g))) zero =
  if zeroedb g o (coords g p) then zero else v.
Proof.
  intros Hg Hp. rewrite zero_at_nth by (rewrite repeat_length; exact Hp).
  rewrite nth_repeat_lt by exact Hp.
  pose proof (in_seq_zero_pos (nprod g) g o 1 p Hg ltac:(lia) Hp) as I.
  destruct (zeroedb g o (coords g p)) eqn:E.
  - destruct I as [_ I]. specialize (I eq_refl). apply existsb_eqb_in in I. rewrite I. reflexivity.
  - destruct (existsb (Nat.eqb p) (seq_zero_pos (nprod g) g o)) eqn:E2; [|reflexivity].
    apply existsb_eqb_in in E2. apply I in E2. discriminate.
Qed.

Lemma data_par_nth f nv g o v q : allpos g -> q < nv ->
  nth q (zero_at F zero (par_zero_pos f nv g o) (repeat v nv)) zero =
  if zeroedb g o (coords g (f + q)) then zero else v.
Proof.
  intros Hg Hq. rewrite zero_at_nth by (rewrite repeat_length; exact Hq).
  rewrite nth_repeat_lt by exact Hq.
  pose proof (in_par_zero_pos f nv g o q Hg) as I.
  destruct (zeroedb g o (coords g (f + q))) eqn:E.
  - destruct I as [_ I]. specialize (I (conj Hq eq_refl)). apply existsb_eqb_in in I. rewrite I. reflexivity.
  - destruct (existsb (Nat.eqb q) (par_zero_pos f nv g o)) eqn:E2; [|reflexivity].
    apply existsb_eqb_in in E2. apply I in E2. destruct E2; discriminate.
Qed.

Section Row.
Variables (st : list F) (g : list nat) (i j : nat).
Hypothesis Hg : allpos g.
Hypothesis Hi : i < nprod g.
Hypothesis Hj : j < nprod g.
Hypothesis Hsym : pattern_symmetric F zero big st (length g).

Let d := length g.
Let n := 3 ^ d.
Let N := nprod g.
Let osub := offset_between g j i.          (* coord i - coord j *)
Let sv (t : nat) : F := nth t st zero.

(* the term the emission loop contributes for the stencil entry with index t (value taken from its mirror) *)
Definition contrib (t : nat) : F :=
  let col := (diag_of g (offs d t) + Z.of_nat i + Z.of_nat 0)%Z in
  let value := nth i (zero_at F zero (seq_zero_pos N g (offs d (n - 1 - t))) (repeat (sv (n - 1 - t)) N)) zero in
  if (0 <=? col)%Z && (col <? Z.of_nat N)%Z && big value && (Z.to_nat col =? j) then value else zero.

Lemma contrib_cases t : t < n ->
  let u := n - 1 - t in
  (offs d u = osub -> (if big (sv t) then contrib t else zero) = dropW (sv u)) /\
  (offs d u <> osub -> (if big (sv t) then contrib t else zero) = zero).
Proof.
  intros Ht u.
  pose proof (coords_lt g i Hg) as Hc. pose proof (coords_lt g j Hg) as Hcj.
  assert (Hlo : length (offs d t) = length g) by apply offs_length.
  assert (Eu : offs d u = map Z.opp (offs d t)) by (apply offs_rev; exact Ht).
  assert (Ebig : big (sv t) = big (sv u)) by (symmetry; apply Hsym; exact Ht).
  assert (Eosub : osub = zsub_coords (coords g i) (coords g j)) by reflexivity.
  assert (Eq : offs d u = osub <-> offs d t = zsub_coords (coords g j) (coords g i)).
  { rewrite Eu, Eosub, map_opp_swap, zsub_coords_opp. reflexivity. }
  unfold contrib. fold u. rewrite Eu.
  unfold N. rewrite data_seq_nth by assumption.
  rewrite zeroedb_opp by (try assumption; apply offs_small).
  rewrite diag_of_zlin by exact Hlo.
  destruct (validb g (offs d t) (coords g i)) eqn:V; cbn [negb].
  - destruct (valid_shift g (offs d t) (coords g i) Hc Hlo V) as [E A].
    rewrite linear_coords, Nat.mod_small in E by assumption.
    pose proof (linear_lt g _ A) as Hlt.
    replace (zlin g (offs d t) + Z.of_nat i + Z.of_nat 0)%Z with (Z.of_nat (linear g (addo (coords g i) (offs d t)))) by lia.
    rewrite Nat2Z.id.
    replace (0 <=? Z.of_nat (linear g (addo (coords g i) (offs d t))))%Z with true by (symmetry; apply Z.leb_le; lia).
    replace (Z.of_nat (linear g (addo (coords g i) (offs d t))) <? Z.of_nat (nprod g))%Z with true
      by (symmetry; apply Z.ltb_lt; lia).
    cbn [andb].
    assert (Ej : linear g (addo (coords g i) (offs d t)) = j <-> offs d u = osub).
    { rewrite Eq. rewrite <- (addo_eq_iff g (offs d t) (coords g i) (coords g j) Hc Hcj Hlo). split.
      - intros <-. split; [exact V|]. symmetry. apply coords_linear. exact A.
      - intros [_ HH]. rewrite HH, linear_coords by exact Hg. apply Nat.mod_small. exact Hj. }
    split; intros Ho; rewrite <- Eu in Ho.
    + apply Ej in Ho. rewrite Ho, Nat.eqb_refl, andb_true_r, Ebig. unfold dropw. destruct (big (sv u)); reflexivity.
    + assert (Hne : linear g (addo (coords g i) (offs d t)) <> j) by (intros Hx; apply Ho, Ej, Hx).
      apply Nat.eqb_neq in Hne. rewrite Hne, andb_false_r. destruct (big (sv t)); reflexivity.
  - rewrite big_zero. cbn [andb]. rewrite andb_false_r. cbn [andb].
    split; intros Ho; rewrite <- Eu in Ho.
    + exfalso. apply Eq in Ho. apply (addo_eq_iff g _ _ _ Hc Hcj Hlo) in Ho. destruct Ho as [Hv _]. congruence.
    + destruct (big (sv t)); reflexivity.
Qed.

Lemma sum_contrib :
  sumF (map (fun t => if big (sv t) then contrib t else zero) (seq 0 n)) = dropW (weight st osub).
Proof.
  assert (Hlen : length osub = d).
  { unfold osub, offset_between. rewrite zsub_coords_length; rewrite !coords_length; reflexivity. }
  unfold stencil_weight. fold (nearb osub). fold (sidx osub).
  destruct (nearb osub) eqn:Hn.
  - pose proof (proj1 (nearb_small osub) Hn) as Hs.
    pose proof (sidx_lt osub Hs) as Hlt. rewrite Hlen in Hlt. fold n in Hlt.
    rewrite (sumf_single F zero one add mul sub opp Fth n (n - 1 - sidx osub)).
    + destruct (contrib_cases (n - 1 - sidx osub) ltac:(lia)) as [C1 _].
      replace (n - 1 - (n - 1 - sidx osub)) with (sidx osub) in C1 by lia.
      apply C1. apply (offs_eq_iff d (sidx osub) osub Hlt Hlen). split; [exact Hn|reflexivity].
    + lia.
    + intros t Ht Hne. destruct (contrib_cases t Ht) as [_ C2]. apply C2.
      intros Ho. apply (offs_eq_iff d (n - 1 - t) osub ltac:(unfold n in *; lia) Hlen) in Ho.
      destruct Ho as [_ Ho]. lia.
  - rewrite dropw_zero. apply sumf_all_zero. intros t Ht. apply in_seq in Ht.
    destruct (contrib_cases t ltac:(lia)) as [_ C2]. apply C2.
    intros Ho. apply (offs_eq_iff d (n - 1 - t) osub ltac:(unfold n in *; lia) Hlen) in Ho.
    destruct Ho as [Ho _]. congruence.
Qed.

Lemma stencil_row_den : denCsr (sgrid st g) i j = dropW (weight st osub).
Proof.
  rewrite <- sum_contrib.
  unfold den_csr, stencil_grid. cbn [csr_rows]. fold d N n.
  rewrite nth_map_seq by exact Hi.
  unfold emit_row. cbv zeta.
  set (nz := nz_list F zero big st d).
  rewrite (den_flat_single
             (fun dd => let col := (nth dd (map (fun t => diag_of g (offs d t)) nz) 0 + Z.of_nat i + Z.of_nat 0)%Z in
                        let value := nth i (nth (length nz - dd - 1)
                          (map (fun t => zero_at F zero (seq_zero_pos N g (offs d t)) (repeat (nth t st zero) N)) nz) []) zero in
                        (0 <=? col)%Z && (col <? Z.of_nat N)%Z && big value)
             (fun dd => Z.to_nat (nth dd (map (fun t => diag_of g (offs d t)) nz) 0 + Z.of_nat i + Z.of_nat 0)%Z)
             (fun dd => nth i (nth (length nz - dd - 1)
                          (map (fun t => zero_at F zero (seq_zero_pos N g (offs d t)) (repeat (nth t st zero) N)) nz) []) zero)).
  cbv zeta.
  rewrite (sumf_map_ext F zero add _ (fun dd => contrib (nth dd nz 0)) (seq 0 (length nz))).
  - rewrite (map_nth_seq contrib nz 0). unfold nz, nz_list. fold n.
    rewrite sumf_filter_if. reflexivity.
  - intros dd Hdd. apply in_seq in Hdd.
    assert (Em : nth (length nz - dd - 1) nz 0 = n - 1 - nth dd nz 0).
    { apply (nz_mirror (fun t => big (nth t st zero)) n dd); [|exact (proj2 Hdd)].
      intros t Ht. apply Hsym. exact Ht. }
    unfold contrib, sv.
    rewrite (nth_indep _ 0%Z (diag_of g (offs d 0))) by (rewrite map_length; lia).
    rewrite (map_nth (fun t => diag_of g (offs d t)) nz 0 dd).
    rewrite (nth_indep _ [] (zero_at F zero (seq_zero_pos N g (offs d 0)) (repeat (nth 0 st zero) N)))
      by (rewrite map_length; lia).
    rewrite (map_nth (fun t => zero_at F zero (seq_zero_pos N g (offs d t)) (repeat (nth t st zero) N)) nz 0).
    rewrite Em. reflexivity.
Qed.

End Row.
End StencilThm.

(* ------------------------------------------------------------------ list lemmas for the window argument *)
Lemma flat_map_ext_in {X Y} (f h : X -> list Y) l : (forall a, In a l -> f a = h a) -> flat_map f l = flat_map h l.
Proof. induction l as [|a l IH]; intros H; simpl; [reflexivity|]. rewrite H, IH; auto; [intros; apply H; right; assumption|left; reflexivity]. Qed.

Lemma firstn_add {X} a b (l : list X) : firstn (a + b) l = firstn a l ++ firstn b (skipn a l).
Proof. revert l; induction a as [|a IH]; intros l; simpl; [reflexivity|]. destruct l; simpl; [rewrite firstn_nil; reflexivity|rewrite IH; reflexivity]. Qed.

Lemma skipn_add {X} a b (l : list X) : skipn (a + b) l = skipn b (skipn a l).
Proof. revert l; induction a as [|a IH]; intros l; simpl; [reflexivity|]. destruct l; simpl; [rewrite skipn_nil; reflexivity|apply IH]. Qed.

Lemma concat_windows {X} (l : list X) blocks f :
  concat (map (fun w => firstn (snd w) (skipn (fst w) l)) (windows f blocks)) = firstn (nsum blocks) (skipn f l).
Proof.
  revert f; induction blocks as [|b r IH]; intros f; simpl; [reflexivity|].
  rewrite IH, firstn_add, skipn_add. reflexivity.
Qed.

Lemma windows_bound blocks f w : In w (windows f blocks) -> f <= fst w /\ fst w + snd w <= f + nsum blocks.
Proof.
  revert f; induction blocks as [|b r IH]; intros f H; simpl in *; [contradiction|].
  destruct H as [<-|H]; simpl; [lia|]. apply IH in H. lia.
Qed.

Lemma skipn_map_seq {Y} (h : nat -> Y) s N f : f <= N -> skipn f (map h (seq s N)) = map h (seq (s + f) (N - f)).
Proof.
  revert s N; induction f as [|f IH]; intros s N H.
  - rewrite Nat.add_0_r, Nat.sub_0_r. reflexivity.
  - destruct N as [|N]; [lia|]. simpl. rewrite IH by lia. rewrite Nat.add_succ_r. reflexivity.
Qed.

Lemma firstn_map_seq {Y} (h : nat -> Y) s N nv : nv <= N -> firstn nv (map h (seq s N)) = map h (seq s nv).
Proof.
  revert s N; induction nv as [|nv IH]; intros s N H; [reflexivity|].
  destruct N as [|N]; [lia|]. simpl. rewrite IH by lia. reflexivity.
Qed.

Lemma map_seq_shift {Y} (h : nat -> Y) f nv s : map (fun q => h (f + q)) (seq s nv) = map h (seq (f + s) nv).
Proof.
  revert s; induction nv as [|nv IH]; intros s; simpl; [reflexivity|].
  rewrite IH, Nat.add_succ_r. reflexivity.
Qed.

Lemma firstn_skipn_map_seq {Y} (h : nat -> Y) N f nv : f + nv <= N ->
  firstn nv (skipn f (map h (seq 0 N))) = map (fun q => h (f + q)) (seq 0 nv).
Proof.
  intros H. rewrite skipn_map_seq by lia. rewrite firstn_map_seq by lia.
  rewrite map_seq_shift. rewrite Nat.add_0_r. reflexivity.
Qed.

Lemma nearb_opp o : nearb (map Z.opp o) = nearb o.
Proof.
  unfold nearb. induction o as [|x o IH]; simpl; [reflexivity|]. rewrite IH. f_equal.
  destruct (Z.leb_spec (-1) x), (Z.leb_spec x 1), (Z.leb_spec (-1) (- x)), (Z.leb_spec (- x) 1); simpl; try reflexivity; lia.
Qed.

Lemma sidx_opp o : small3 o -> sidx (map Z.opp o) = 3 ^ length o - 1 - sidx o.
Proof.
  intros Hs. pose proof (sidx_lt o Hs) as Hlt.
  assert (E : offs (length o) (sidx o) = o).
  { apply (offs_eq_iff (length o) (sidx o) o Hlt eq_refl). split; [apply nearb_small; exact Hs|reflexivity]. }
  pose proof (offs_rev (length o) (sidx o) Hlt) as R. rewrite E in R.
  apply (offs_eq_iff (length o) (3 ^ length o - 1 - sidx o) (map Z.opp o)) in R; [|lia|apply map_length].
  destruct R as [_ R]. symmetry. exact R.
Qed.

Section Final.
Variable F : Type.
Variables (zero one : F) (add mul sub : F -> F -> F) (opp : F -> F).
Variable Fth : ring_theory zero one add mul sub opp (@eq F).
Variable big : F -> bool.
Hypothesis big_zero : big zero = false.

Notation denL := (den_line F zero add).
Notation denCsr := (den_csr F zero add).
Notation sgrid := (stencil_grid F zero big).
Notation dropW := (dropw F zero big).
Notation weight := (stencil_weight F zero).

Lemma emit_row_cols N Ns diags data first i p :
  In p (emit_row F zero big N Ns diags data first i) -> fst p < N.
Proof.
  unfold emit_row. intros H. apply in_flat_map in H. destruct H as [dd [_ H]]. cbv zeta in H.
  match type of H with In _ (if ?c then _ else _) => destruct c eqn:E end; [|contradiction].
  destruct H as [<-|[]]. simpl.
  apply andb_true_iff in E. destruct E as [E _]. apply andb_true_iff in E. destruct E as [E1 E2].
  apply Z.leb_le in E1. apply Z.ltb_lt in E2. lia.
Qed.

Theorem stencil_grid_wf st g : csr_wf (sgrid st g).
Proof.
  split; [unfold stencil_grid; simpl; rewrite map_length, seq_length; reflexivity|].
  intros r Hr p Hp. unfold stencil_grid in Hr. simpl in Hr. apply in_map_iff in Hr.
  destruct Hr as [i [<- _]]. simpl. eapply emit_row_cols. exact Hp.
Qed.

(* the headline: entry (i,j) is the (retained) weight of the offset  coord i - coord j , zero boundary *)
Theorem stencil_grid_entry st g i j :
  allpos g -> pattern_symmetric F zero big st (length g) ->
  denCsr (sgrid st g) i j =
  if (i <? nprod g) && (j <? nprod g) then dropW (weight st (offset_between g j i)) else zero.
Proof.
  intros Hg Hsym.
  destruct (Nat.ltb_spec i (nprod g)) as [Hi|Hi]; cbn [andb].
  - destruct (Nat.ltb_spec j (nprod g)) as [Hj|Hj].
    + apply (stencil_row_den F zero one add mul sub opp Fth big big_zero st g i j Hg Hi Hj Hsym).
    + unfold den_csr, den_line. rewrite filter_none; [reflexivity|].
      intros p Hp. apply Nat.eqb_neq.
      assert (Hin : In (nth i (csr_rows (sgrid st g)) []) (csr_rows (sgrid st g))).
      { apply nth_In. unfold stencil_grid; simpl. rewrite map_length, seq_length. exact Hi. }
      pose proof (proj2 (stencil_grid_wf st g) _ Hin p Hp) as Hc. unfold stencil_grid in Hc; simpl in Hc. lia.
  - unfold den_csr. rewrite nth_overflow; [reflexivity|].
    unfold stencil_grid; simpl. rewrite map_length, seq_length. exact Hi.
Qed.

(* with mirrored values equal the direction of the offset does not matter: A is symmetric *)
Lemma weight_opp st o : value_symmetric F zero st (length o) -> weight st (map Z.opp o) = weight st o.
Proof.
  intros Hv. unfold stencil_weight. fold (nearb (map Z.opp o)). fold (nearb o). rewrite nearb_opp.
  destruct (nearb o) eqn:Hn; [|reflexivity].
  apply nearb_small in Hn. fold (sidx (map Z.opp o)). fold (sidx o).
  rewrite sidx_opp by exact Hn. apply Hv. apply sidx_lt. exact Hn.
Qed.

Lemma offset_between_length g a b : length (offset_between g a b) = length g.
Proof. unfold offset_between. rewrite zsub_coords_length; rewrite !coords_length; reflexivity. Qed.

Lemma offset_between_opp g a b : map Z.opp (offset_between g a b) = offset_between g b a.
Proof. apply zsub_coords_opp. Qed.

Theorem stencil_grid_entry_symmetric st g i j :
  allpos g -> value_symmetric F zero st (length g) ->
  denCsr (sgrid st g) i j =
  if (i <? nprod g) && (j <? nprod g) then dropW (weight st (offset_between g i j)) else zero.
Proof.
  intros Hg Hv.
  rewrite stencil_grid_entry; [|exact Hg|intros t Ht; rewrite (Hv t Ht); reflexivity].
  rewrite <- (offset_between_opp g i j). rewrite weight_opp; [reflexivity|].
  rewrite offset_between_length. exact Hv.
Qed.

(* ---- the distributed generator computes the same rows ---- *)
Theorem par_stencil_rank_rows st g f nv : allpos g -> f + nv <= nprod g ->
  par_stencil_rank F zero big st g f nv = firstn nv (skipn f (csr_rows (sgrid st g))).
Proof.
  intros Hg Hw. unfold par_stencil_rank, stencil_grid. cbn [csr_rows].
  rewrite firstn_skipn_map_seq by exact Hw.
  apply map_ext_in. intros q Hq. apply in_seq in Hq.
  unfold emit_row. apply flat_map_ext_in. intros dd Hdd. apply in_seq in Hdd. cbv zeta.
  set (nz := nz_list F zero big st (length g)) in *.
  assert (Hk : length nz - dd - 1 < length nz) by lia.
  rewrite (nth_indep _ [] (zero_at F zero (par_zero_pos f nv g (offs (length g) 0)) (repeat (nth 0 st zero) nv)))
    by (rewrite map_length; exact Hk).
  rewrite (map_nth (fun t => zero_at F zero (par_zero_pos f nv g (offs (length g) t)) (repeat (nth t st zero) nv)) nz 0).
  rewrite (nth_indep _ [] (zero_at F zero (seq_zero_pos (nprod g) g (offs (length g) 0)) (repeat (nth 0 st zero) (nprod g))))
    by (rewrite map_length; exact Hk).
  rewrite (map_nth (fun t => zero_at F zero (seq_zero_pos (nprod g) g (offs (length g) t)) (repeat (nth t st zero) (nprod g))) nz 0).
  rewrite data_par_nth by (try exact Hg; lia).
  rewrite data_seq_nth by (try exact Hg; lia).
  replace (nth dd (map (fun t => diag_of g (offs (length g) t)) nz) 0 + Z.of_nat q + Z.of_nat f)%Z
    with (nth dd (map (fun t => diag_of g (offs (length g) t)) nz) 0 + Z.of_nat (f + q) + Z.of_nat 0)%Z by lia.
  reflexivity.
Qed.

Theorem par_stencil_gathered_eq st g blocks : allpos g -> nsum blocks = nprod g ->
  par_stencil_gathered F zero big st g blocks = sgrid st g.
Proof.
  intros Hg Hb. unfold par_stencil_gathered, par_stencil_grid.
  assert (E : concat (map (fun w => par_stencil_rank F zero big st g (fst w) (snd w)) (windows 0 blocks))
              = csr_rows (sgrid st g)).
  { rewrite (map_ext_in _ (fun w => firstn (snd w) (skipn (fst w) (csr_rows (sgrid st g))))).
    - rewrite concat_windows. simpl skipn. rewrite Hb. apply firstn_all2.
      unfold stencil_grid; simpl. rewrite map_length, seq_length. lia.
    - intros w Hw. apply windows_bound in Hw. apply par_stencil_rank_rows; [exact Hg|lia]. }
  rewrite E. reflexivity.
Qed.

End Final.

(* ------------------------------------------------------------------ no position is stored twice *)
Lemma NoDup_flat_single {X Y} (c : X -> bool) (k : X -> Y) l :
  NoDup l -> (forall a b, In a l -> In b l -> c a = true -> c b = true -> k a = k b -> a = b) ->
  NoDup (flat_map (fun x => if c x then [k x] else []) l).
Proof.
  induction 1 as [|a l Ha Hl IH]; intros Hinj; simpl; [constructor|].
  assert (IH' : NoDup (flat_map (fun x => if c x then [k x] else []) l)).
  { apply IH. intros x y Hx Hy. apply Hinj; right; assumption. }
  destruct (c a) eqn:Ca; simpl; [|exact IH'].
  constructor; [|exact IH'].
  intros Hin. apply in_flat_map in Hin. destruct Hin as [b [Hb Hin]].
  destruct (c b) eqn:Cb; [|contradiction]. destruct Hin as [E|[]].
  assert (a = b) by (apply Hinj; [left; reflexivity|right; exact Hb|exact Ca|exact Cb|symmetry; exact E]).
  subst b. contradiction.
Qed.

Lemma addo_inj g o1 o2 c : all2 lt c g -> length o1 = length g -> length o2 = length g ->
  validb g o1 c = true -> validb g o2 c = true -> addo c o1 = addo c o2 -> o1 = o2.
Proof.
  intros H. revert o1 o2. induction H as [|c0 g0 cs gs Hc H IH]; intros o1 o2 H1 H2 V1 V2 E.
  - destruct o1; destruct o2; try discriminate; reflexivity.
  - destruct o1 as [|a o1]; destruct o2 as [|b o2]; try discriminate.
    cbn [validb addo] in *. apply andb_true_iff in V1. destruct V1 as [V1 V1'].
    apply andb_true_iff in V1. destruct V1 as [A1 A2].
    apply andb_true_iff in V2. destruct V2 as [V2 V2'].
    apply andb_true_iff in V2. destruct V2 as [B1 B2].
    apply Z.leb_le in A1. apply Z.leb_le in B1. inversion E as [[E0 Es]].
    f_equal; [lia|]. apply IH; simpl in *; try lia; assumption.
Qed.

Section NoDupRows.
Variable F : Type.
Variable zero : F.
Variable big : F -> bool.
Hypothesis big_zero : big zero = false.
Variables (st : list F) (g : list nat).
Hypothesis Hg : allpos g.
Hypothesis Hsym : pattern_symmetric F zero big st (length g).

Theorem stencil_rows_nodup r : In r (csr_rows (stencil_grid F zero big st g)) -> NoDup (map fst r).
Proof.
  unfold stencil_grid. cbn [csr_rows]. intros Hr. apply in_map_iff in Hr. destruct Hr as [i [<- Hi]].
  apply in_seq in Hi. destruct Hi as [_ Hi]. simpl in Hi.
  set (d := length g) in *. set (n := 3 ^ d). set (N := nprod g) in *.
  set (nz := nz_list F zero big st d).
  unfold emit_row. cbv zeta.
  rewrite map_flat_map.
  rewrite (flat_map_ext_in _ (fun dd =>
     if (let col := (nth dd (map (fun t => diag_of g (offs d t)) nz) 0 + Z.of_nat i + Z.of_nat 0)%Z in
         let value := nth i (nth (length nz - dd - 1)
              (map (fun t => zero_at F zero (seq_zero_pos N g (offs d t)) (repeat (nth t st zero) N)) nz) []) zero in
         (0 <=? col)%Z && (col <? Z.of_nat N)%Z && big value)
     then [Z.to_nat (nth dd (map (fun t => diag_of g (offs d t)) nz) 0 + Z.of_nat i + Z.of_nat 0)%Z] else []))
    by (intros dd _; cbv zeta; match goal with |- context [if ?c then _ else _] => destruct c end; reflexivity).
  assert (Hnz : NoDup nz) by (apply NoDup_filter, seq_NoDup).
  apply NoDup_flat_single; [apply seq_NoDup|].
  intros a b Ha Hb Ca Cb E. apply in_seq in Ha. apply in_seq in Hb. cbv zeta in Ca, Cb.
  (* both guards hold: the mirrored rows are not zeroed at i, so both offsets are valid from i *)
  assert (G : forall dd, dd < length nz ->
     (let col := (nth dd (map (fun t => diag_of g (offs d t)) nz) 0 + Z.of_nat i + Z.of_nat 0)%Z in
      let value := nth i (nth (length nz - dd - 1)
              (map (fun t => zero_at F zero (seq_zero_pos N g (offs d t)) (repeat (nth t st zero) N)) nz) []) zero in
      (0 <=? col)%Z && (col <? Z.of_nat N)%Z && big value) = true ->
     nth dd nz 0 < n /\ validb g (offs d (nth dd nz 0)) (coords g i) = true /\
     Z.to_nat (nth dd (map (fun t => diag_of g (offs d t)) nz) 0 + Z.of_nat i + Z.of_nat 0)%Z
       = linear g (addo (coords g i) (offs d (nth dd nz 0)))).
  { intros dd Hdd C. cbv zeta in C.
    assert (Ht : nth dd nz 0 < n).
    { assert (Hin : In (nth dd nz 0) nz) by (apply nth_In; exact Hdd).
      unfold nz, nz_list in Hin. apply filter_In in Hin. destruct Hin as [Hin _]. apply in_seq in Hin. exact (proj2 Hin). }
    assert (Em : nth (length nz - dd - 1) nz 0 = n - 1 - nth dd nz 0).
    { apply (nz_mirror (fun t => big (nth t st zero)) n dd); [|exact Hdd]. intros t Ht'. apply Hsym. exact Ht'. }
    rewrite (nth_indep _ 0%Z (diag_of g (offs d 0))) in * by (rewrite map_length; lia).
    rewrite (map_nth (fun t => diag_of g (offs d t)) nz 0 dd) in *.
    rewrite (nth_indep _ [] (zero_at F zero (seq_zero_pos N g (offs d 0)) (repeat (nth 0 st zero) N))) in C
      by (rewrite map_length; lia).
    rewrite (map_nth (fun t => zero_at F zero (seq_zero_pos N g (offs d t)) (repeat (nth t st zero) N)) nz 0) in C.
    rewrite Em in C. unfold N in C. rewrite data_seq_nth in C by assumption.
    rewrite offs_rev in C by exact Ht.
    pose proof (coords_lt g i Hg) as Hc.
    rewrite zeroedb_opp in C by (try assumption; try apply offs_small; apply offs_length).
    destruct (validb g (offs d (nth dd nz 0)) (coords g i)) eqn:V.
    - split; [exact Ht|]. split; [reflexivity|].
      destruct (valid_shift g (offs d (nth dd nz 0)) (coords g i) Hc (offs_length d _) V) as [E' A].
      rewrite linear_coords, Nat.mod_small in E' by assumption.
      rewrite diag_of_zlin by apply offs_length.
      replace (zlin g (offs d (nth dd nz 0%nat)) + Z.of_nat i + Z.of_nat 0)%Z
        with (Z.of_nat (linear g (addo (coords g i) (offs d (nth dd nz 0))))) by lia.
      apply Nat2Z.id.
    - cbn [negb] in C. rewrite big_zero, andb_false_r in C. discriminate. }
  destruct (G a ltac:(lia) Ca) as [Hta [Va Ka]]. destruct (G b ltac:(lia) Cb) as [Htb [Vb Kb]].
  rewrite Ka, Kb in E.
  pose proof (coords_lt g i Hg) as Hc.
  destruct (valid_shift g _ _ Hc (offs_length d _) Va) as [_ Aa].
  destruct (valid_shift g _ _ Hc (offs_length d _) Vb) as [_ Ab].
  assert (Eadd : addo (coords g i) (offs d (nth a nz 0)) = addo (coords g i) (offs d (nth b nz 0))).
  { rewrite <- (coords_linear g _ Aa), <- (coords_linear g _ Ab), E. reflexivity. }
  apply (addo_inj g _ _ _ Hc (offs_length d _) (offs_length d _) Va Vb) in Eadd.
  assert (Et : nth a nz 0 = nth b nz 0).
  { destruct (proj1 (offs_eq_iff d (nth a nz 0) (offs d (nth b nz 0)) Hta (offs_length d _)) Eadd) as [_ Ea].
    destruct (proj1 (offs_eq_iff d (nth b nz 0) (offs d (nth b nz 0)) Htb (offs_length d _)) eq_refl) as [_ Eb].
    congruence. }
  apply (proj1 (NoDup_nth nz 0) Hnz a b); [lia|lia|exact Et].
Qed.
End NoDupRows.

(* ------------------------------------------------------------------ the library's own stencils are centrally symmetric *)
Section MakersSym.
Variable F : Type.
Variables (zero one : F) (add mul sub : F -> F -> F) (opp : F -> F).
Variable of_nat : nat -> F.
Variable sixth : F -> F.

Lemma diffusion_stencil_symmetric eps C S :
  value_symmetric F zero (diffusion_stencil_2d F one add mul sub opp of_nat sixth eps C S) 2 /\
  length (diffusion_stencil_2d F one add mul sub opp of_nat sixth eps C S) = 3 ^ 2.
Proof.
  split; [|reflexivity]. intros t Ht. simpl in Ht.
  do 9 (destruct t as [|t]; [reflexivity|]). lia.
Qed.

Lemma laplace27_symmetric :
  value_symmetric F zero (laplace_stencil_27pt F one opp of_nat) 3 /\
  length (laplace_stencil_27pt F one opp of_nat) = 3 ^ 3.
Proof.
  split; [|reflexivity]. intros t Ht. simpl in Ht.
  do 27 (destruct t as [|t]; [reflexivity|]). lia.
Qed.
End MakersSym.
