(* Proofs about Gallery/MMFormat.v: Matrix Market round trip, distributed reader = sequential reader for every
   partition (general and symmetric banner), PETSc-binary distributed reader = sequential reader. *)
From Raptor Require Import Base.Sums Sparse.Defs Sparse.ConvertProofs Gallery.Stencil Gallery.MMFormat.

Section MMProofs.
Variable F : Type.
Variables (zero one : F) (add mul sub : F -> F -> F) (opp : F -> F).
Variable Fth : ring_theory zero one add mul sub opp (@eq F).
Add Ring FringMM : Fth.
Variable big : F -> bool.
Variables show parse : F -> F.

Notation sumF := (sumf F zero add).
Notation denCoo := (den_coo F zero add).
Notation denCsr := (den_csr F zero add).
Notation dropW := (dropw F zero big).

(* the operator represented by a list of triples *)
Definition den_ents (es : list (ent F)) (i j : nat) : F :=
  sumF (map eval (filter (fun e => (erow e =? i) && (ecol e =? j)) es)).

Lemma den_coo_ents (A : coo F) i j : denCoo A i j = den_ents (coo_ents A) i j.
Proof. reflexivity. Qed.

Lemma den_ents_app a b i j : den_ents (a ++ b) i j = add (den_ents a i j) (den_ents b i j).
Proof. unfold den_ents. rewrite filter_app, map_app. apply (sumf_app F zero one add mul sub opp Fth). Qed.

Lemma den_ents_nil i j : den_ents [] i j = zero.
Proof. reflexivity. Qed.

Lemma den_ents_flat_map {X} (f : X -> list (ent F)) l i j :
  den_ents (flat_map f l) i j = sumF (map (fun x => den_ents (f x) i j) l).
Proof. induction l as [|a l IH]; simpl; [reflexivity|]. rewrite den_ents_app, IH. reflexivity. Qed.

Definition at_pos (r c i j : nat) (v : F) : F := if (r =? i) && (c =? j) then v else zero.

Lemma den_ents_addv r c v i j : den_ents (addv F big r c v) i j = at_pos r c i j (dropW v).
Proof.
  unfold addv, dropw, at_pos, den_ents. destruct (big v); simpl.
  - unfold erow, ecol; simpl. destruct ((r =? i) && (c =? j)); simpl; [ring|reflexivity].
  - destruct ((r =? i) && (c =? j)); reflexivity.
Qed.

Lemma den_ents_single r c v i j : den_ents [(r, c, v)] i j = at_pos r c i j v.
Proof.
  unfold at_pos, den_ents. simpl. unfold erow, ecol; simpl.
  destruct ((r =? i) && (c =? j)); simpl; [ring|reflexivity].
Qed.

Lemma den_ents_map_global {X} (g : X -> ent F) (es : list X) i j :
  den_ents (map g es) i j = sumF (map (fun e => den_ents [g e] i j) es).
Proof.
  induction es as [|e es IH]; simpl; [reflexivity|].
  change (g e :: map g es) with ([g e] ++ map g es). rewrite den_ents_app, IH. reflexivity.
Qed.

Lemma flat_map_flat_map {X Y Z} (f : Y -> list Z) (g : X -> list Y) l :
  flat_map f (flat_map g l) = flat_map (fun x => flat_map f (g x)) l.
Proof. induction l as [|a l IH]; simpl; [reflexivity|]. rewrite flat_map_app, IH. reflexivity. Qed.

Lemma flat_map_map {X Y Z} (f : Y -> list Z) (g : X -> Y) l : flat_map f (map g l) = flat_map (fun x => f (g x)) l.
Proof. induction l as [|a l IH]; simpl; [reflexivity|]. rewrite IH. reflexivity. Qed.

Lemma sumf_ext_in {X} (f h : X -> F) l : (forall x, In x l -> f x = h x) -> sumF (map f l) = sumF (map h l).
Proof. apply (sumf_map_ext F zero add). Qed.

(* ------------------------------------------------------------------ write_mm ; read_mm *)
Definition rt (v : F) : F := parse (show v).        (* what a value becomes through "%2.15e" and "%lg" *)
Definition csr_mapv (h : F -> F) (A : csr F) : csr F :=
  mkCsr (csr_nr A) (csr_nc A) (map (map (fun p => (fst p, h (snd p)))) (csr_rows A)).

Lemma indexed_from_map {X Y} (f : X -> Y) s l :
  indexed_from s (map f l) = map (fun ir => (fst ir, f (snd ir))) (indexed_from s l).
Proof. revert s; induction l as [|a l IH]; intros s; simpl; [reflexivity|]. rewrite IH. reflexivity. Qed.

Definition ssum (rows : list (list (nat * F))) (h : F -> F) (i j : nat) : F :=
  sumF (map (fun ir => sumF (map (fun p => at_pos (fst ir) (fst p) i j (h (snd p))) (snd ir))) (indexed rows)).

Lemma den_csr_mapv_ssum (A : csr F) h i j : denCsr (csr_mapv h A) i j = ssum (csr_rows A) h i j.
Proof.
  rewrite <- den_csr_to_coo. rewrite den_coo_ents.
  unfold csr_to_coo, csr_mapv, ssum, indexed. cbn [coo_ents csr_rows].
  rewrite den_ents_flat_map, indexed_from_map, map_map. apply sumf_ext_in. intros [r row] _. cbn [fst snd].
  rewrite map_map, den_ents_map_global. apply sumf_ext_in. intros [c v] _. cbn [fst snd].
  apply den_ents_single.
Qed.

Lemma write_mm_ents (A : csr F) :
  mm_ents (write_mm F show A) =
  flat_map (fun ir => map (fun p => (S (fst ir), S (fst p), show (snd p))) (snd ir)) (indexed (csr_rows A)).
Proof. reflexivity. Qed.

Lemma read_write_mm_coo (A : csr F) :
  read_mm_coo F big parse (write_mm F show A) =
  Some (mkCoo (csr_nr A) (csr_nc A)
          (flat_map (fun ir => flat_map (fun p => addv F big (fst ir) (fst p) (rt (snd p))) (snd ir))
                    (indexed (csr_rows A)))).
Proof.
  unfold read_mm_coo. cbn [mm_ents mm_nz mm_nr mm_nc mm_sym write_mm].
  rewrite Nat.ltb_irrefl, firstn_all. f_equal. f_equal.
  rewrite flat_map_flat_map. apply flat_map_ext. intros [r row]. cbn [fst snd].
  rewrite flat_map_map. apply flat_map_ext. intros [c v]. cbn [fst snd].
  unfold read_mm_entry. cbn [fst snd andb]. rewrite app_nil_r. simpl. rewrite !Nat.sub_0_r. reflexivity.
Qed.

Theorem read_write_mm (A : csr F) : csr_wf A ->
  exists B, read_mm F big parse (write_mm F show A) = Some B /\
            csr_nr B = csr_nr A /\ csr_nc B = csr_nc A /\
            forall i j, denCsr B i j = denCsr (csr_mapv (fun v => dropW (rt v)) A) i j.
Proof.
  intros [Hlen Hcols]. unfold read_mm. rewrite read_write_mm_coo. eexists. split; [reflexivity|].
  split; [reflexivity|]. split; [reflexivity|]. intros i j.
  rewrite den_coo_to_csr.
  - rewrite den_coo_ents, den_csr_mapv_ssum. cbn [coo_ents]. unfold ssum.
    rewrite den_ents_flat_map. apply sumf_ext_in. intros [r row] _. cbn [fst snd].
    rewrite den_ents_flat_map. apply sumf_ext_in. intros [c v] _. cbn [fst snd]. apply den_ents_addv.
  - intros e He. cbn [coo_ents coo_nr coo_nc] in *. apply in_flat_map in He. destruct He as [[r row] [Hr He]].
    apply in_flat_map in He. destruct He as [[c v] [Hc He]]. cbn [fst snd] in He.
    unfold addv in He. destruct (big (rt v)); [|contradiction]. destruct He as [<-|[]]. unfold erow, ecol; simpl.
    apply indexed_from_in in Hr. destruct Hr as [Hr1 Hr2]. rewrite Nat.sub_0_r in Hr2.
    split; [lia|]. apply (Hcols row (nth_error_In _ _ Hr2) (c, v)). exact Hc.
Qed.

Lemma read_mm_entry_den0 r c v i j :
  den_ents (read_mm_entry F big parse false (S r, S c, show v)) i j = at_pos r c i j (dropW (rt v)).
Proof.
  unfold read_mm_entry. cbn [fst snd andb]. rewrite app_nil_r. simpl. rewrite !Nat.sub_0_r. apply den_ents_addv.
Qed.

(* ------------------------------------------------------------------ write_par_mm ; read_mm *)
(* the operator of one block of rows held by a process (global column indices, first = its first global row) *)
Definition block_den (first : nat) (rows : list (list (nat * F))) (h : F -> F) (i j : nat) : F :=
  sumF (map (fun ir => sumF (map (fun p => at_pos (first + fst ir) (fst p) i j (h (snd p))) (snd ir))) (indexed rows)).
Definition par_den (ranks : list (nat * list (list (nat * F)) * list (list (nat * F)))) (h : F -> F) (i j : nat) : F :=
  sumF (map (fun r => add (block_den (fst (fst r)) (snd (fst r)) h i j) (block_den (fst (fst r)) (snd r) h i j)) ranks).

Theorem read_write_par_mm nr nc ranks :
  exists A, read_mm_coo F big parse (write_par_mm F show nr nc ranks) = Some A /\
            coo_nr A = nr /\ coo_nc A = nc /\
            forall i j, denCoo A i j = par_den ranks (fun v => dropW (rt v)) i j.
Proof.
  unfold read_mm_coo. cbn [mm_ents mm_nz mm_nr mm_nc mm_sym write_par_mm].
  rewrite Nat.ltb_irrefl, firstn_all. eexists. split; [reflexivity|]. split; [reflexivity|]. split; [reflexivity|].
  intros i j. rewrite den_coo_ents. cbn [coo_ents]. unfold par_den.
  rewrite flat_map_flat_map, den_ents_flat_map. apply sumf_ext_in. intros [[first on] off] _. cbn [fst snd].
  rewrite flat_map_app, den_ents_app.
  assert (B : forall rows, den_ents (flat_map (read_mm_entry F big parse false)
                 (flat_map (fun ir => map (fun p => (S (first + fst ir), S (fst p), show (snd p))) (snd ir)) (indexed rows))) i j
              = block_den first rows (fun v => dropW (rt v)) i j).
  { intros rows. unfold block_den. rewrite flat_map_flat_map, den_ents_flat_map.
    apply sumf_ext_in. intros [r row] _. cbn [fst snd]. rewrite flat_map_map, den_ents_flat_map.
    apply sumf_ext_in. intros [c v] _. cbn [fst snd]. rewrite read_mm_entry_den0. reflexivity. }
  rewrite !B. reflexivity.
Qed.

(* ------------------------------------------------------------------ partitions *)
Definition row_win (w : nat * nat * nat * nat) : nat * nat := (fst (fst (fst w)), snd (fst (fst w))).
Definition col_win (w : nat * nat * nat * nat) : nat * nat := (snd (fst w), snd w).
(* the row windows of the processes are consecutive blocks covering [0, M) (empty blocks allowed) *)
Definition rows_tile (parts : list (nat * nat * nat * nat)) (M : nat) : Prop :=
  exists blocks, map row_win parts = windows 0 blocks /\ nsum blocks = M.
Definition square_parts (parts : list (nat * nat * nat * nat)) : Prop :=
  forall w, In w parts -> col_win w = row_win w.

Lemma windows_lower blocks f w : In w (windows f blocks) -> f <= fst w.
Proof.
  revert f; induction blocks as [|b r IH]; intros f H; simpl in *; [contradiction|].
  destruct H as [<-|H]; simpl; [lia|]. apply IH in H. lia.
Qed.

Lemma sum_windows_indicator blocks f x (X : F) : f <= x < f + nsum blocks ->
  sumF (map (fun w => if in_win (fst w) (snd w) x then X else zero) (windows f blocks)) = X.
Proof.
  revert f; induction blocks as [|b r IH]; intros f H; simpl in *; [lia|].
  unfold in_win at 1. cbn [fst snd].
  destruct (Nat.ltb_spec x (f + b)) as [Hlt|Hge].
  - replace (f <=? x) with true by (symmetry; apply Nat.leb_le; lia). cbn [andb].
    rewrite (sumf_ext_in _ (fun _ => zero)).
    + rewrite (sumf_map_zero F zero one add mul sub opp Fth). ring.
    + intros w Hw. apply windows_lower in Hw. unfold in_win.
      replace (fst w <=? x) with false by (symmetry; apply Nat.leb_gt; lia). reflexivity.
  - rewrite andb_false_r. rewrite IH by lia. ring.
Qed.

Lemma sum_parts_indicator parts M x (X : F) : rows_tile parts M -> x < M ->
  sumF (map (fun w => if in_win (fst (row_win w)) (snd (row_win w)) x then X else zero) parts) = X.
Proof.
  intros [blocks [Hw Hs]] Hx.
  rewrite <- (map_map row_win (fun rw => if in_win (fst rw) (snd rw) x then X else zero)).
  rewrite Hw. apply sum_windows_indicator. lia.
Qed.

(* ------------------------------------------------------------------ read_par_mm, one line of the file on one process *)
Definition g_on (fr fc : nat) (e : ent F) : ent F := (fr + erow e, fc + ecol e, eval e).
Definition g_off (fr : nat) (e : ent F) : ent F := (fr + erow e, ecol e, eval e).

Lemma den_map_on_addv fr fc r c v i j :
  den_ents (map (g_on fr fc) (addv F big r c v)) i j = at_pos (fr + r) (fc + c) i j (dropW v).
Proof.
  unfold addv, dropw. destruct (big v); simpl.
  - apply den_ents_single.
  - unfold at_pos. destruct ((fr + r =? i) && (fc + c =? j)); reflexivity.
Qed.
Lemma den_map_off_addv fr r c v i j :
  den_ents (map (g_off fr) (addv F big r c v)) i j = at_pos (fr + r) c i j (dropW v).
Proof.
  unfold addv, dropw. destruct (big v); simpl.
  - apply den_ents_single.
  - unfold at_pos. destruct ((fr + r =? i) && (c =? j)); reflexivity.
Qed.

Lemma in_win_lower f n x : in_win f n x = true -> f <= x.
Proof. unfold in_win. intros H. apply andb_true_iff in H. destruct H as [H _]. apply Nat.leb_le in H. exact H. Qed.

Lemma rank_entry_den sym fr nr fc nc (e : nat * nat * F) i j :
  let row := fst (fst e) - 1 in let col := snd (fst e) - 1 in let v := parse (snd e) in
  let pe := par_mm_entry F big parse sym fr nr fc nc e in
  add (den_ents (map (g_on fr fc) (fst pe)) i j) (den_ents (map (g_off fr) (snd pe)) i j) =
  add (if in_win fr nr row then at_pos row col i j (dropW v) else zero)
      (if sym && negb (row =? col) && in_win fc nc col
       then at_pos (fr + (col - fc)) (if in_win fr nr row then fc + (row - fr) else row) i j (dropW v) else zero).
Proof.
  intros row col v pe. unfold pe, par_mm_entry. fold row col v.
  destruct (in_win fr nr row) eqn:Er; destruct (in_win fc nc col) eqn:Ec;
  destruct sym; destruct (row =? col) eqn:Ed; cbn [negb andb fst snd app map];
  rewrite ?app_nil_r, ?map_app, ?den_ents_app, ?den_map_on_addv, ?den_map_off_addv, ?den_ents_nil;
  try (apply in_win_lower in Er); try (apply in_win_lower in Ec);
  repeat match goal with
  | |- context [fr + (row - fr)] => replace (fr + (row - fr)) with row by lia
  | |- context [fc + (col - fc)] => replace (fc + (col - fc)) with col by lia
  end; try ring.
Qed.

(* one process: the operator its on_proc / off_proc additions represent *)
Lemma rank_global_den (f : mmfile F) fr nr fc nc i j :
  den_ents (par_mm_rank_global F big parse f (fr, nr, fc, nc)) i j =
  sumF (map (fun e =>
         let row := fst (fst e) - 1 in let col := snd (fst e) - 1 in let v := parse (snd e) in
         add (if in_win fr nr row then at_pos row col i j (dropW v) else zero)
             (if mm_sym f && negb (row =? col) && in_win fc nc col
              then at_pos (fr + (col - fc)) (if in_win fr nr row then fc + (row - fr) else row) i j (dropW v) else zero))
       (firstn (mm_nz f) (mm_ents f))).
Proof.
  unfold par_mm_rank_global, par_mm_rank. cbn [fst snd].
  change (fun e : ent F => (fr + erow e, fc + ecol e, eval e)) with (g_on fr fc).
  change (fun e : ent F => (fr + erow e, ecol e, eval e)) with (g_off fr).
  rewrite den_ents_app. rewrite !map_flat_map, !flat_map_map, !den_ents_flat_map.
  rewrite <- (sumf_map_add F zero one add mul sub opp Fth).
  apply sumf_ext_in. intros e _. apply rank_entry_den.
Qed.

(* what the sequential reader makes of one line *)
Lemma read_mm_entry_den sym (e : nat * nat * F) i j :
  den_ents (read_mm_entry F big parse sym e) i j =
  let row := fst (fst e) - 1 in let col := snd (fst e) - 1 in let v := parse (snd e) in
  add (at_pos row col i j (dropW v))
      (if sym && negb (fst (fst e) =? snd (fst e)) then at_pos col row i j (dropW v) else zero).
Proof.
  unfold read_mm_entry. rewrite den_ents_app, den_ents_addv.
  destruct (sym && negb (fst (fst e) =? snd (fst e))); [rewrite den_ents_addv|rewrite den_ents_nil]; reflexivity.
Qed.

Definition mm_wf (f : mmfile F) : Prop :=
  forall e, In e (firstn (mm_nz f) (mm_ents f)) ->
    1 <= fst (fst e) <= mm_nr f /\ 1 <= snd (fst e) <= mm_nc f.

(* distributed reader = sequential reader, for every process count and every partition whose row blocks tile the
   rows; for a symmetric banner the matrix is square and the column blocks are the row blocks *)
Theorem read_par_mm_eq_read_mm (f : mmfile F) parts A :
  mm_wf f -> rows_tile parts (mm_nr f) ->
  (mm_sym f = true -> mm_nc f = mm_nr f /\ square_parts parts) ->
  read_mm_coo F big parse f = Some A ->
  forall i j, denCoo (read_par_mm F big parse f parts) i j = denCoo A i j.
Proof.
  intros Hwf Htile Hsq HA i j. unfold read_mm_coo in HA.
  destruct (length (mm_ents f) <? mm_nz f); [discriminate|]. inversion HA; subst A; clear HA.
  rewrite !den_coo_ents. unfold read_par_mm. cbn [coo_ents].
  rewrite !den_ents_flat_map.
  rewrite (sumf_ext_in _ (fun w => sumF (map (fun e =>
         let row := fst (fst e) - 1 in let col := snd (fst e) - 1 in let v := parse (snd e) in
         add (if in_win (fst (row_win w)) (snd (row_win w)) row then at_pos row col i j (dropW v) else zero)
             (if in_win (fst (row_win w)) (snd (row_win w)) col
              then (if mm_sym f && negb (fst (fst e) =? snd (fst e)) then at_pos col row i j (dropW v) else zero) else zero))
       (firstn (mm_nz f) (mm_ents f))))).
  - rewrite (sumf_swap F zero one add mul sub opp Fth).
    apply sumf_ext_in. intros e He. rewrite read_mm_entry_den. cbv zeta.
    destruct (Hwf e He) as [[Hr1 Hr2] [Hc1 Hc2]].
    rewrite (sumf_map_add F zero one add mul sub opp Fth). f_equal.
    + apply (sum_parts_indicator parts (mm_nr f)); [exact Htile|lia].
    + destruct (mm_sym f) eqn:Es.
      * destruct (Hsq eq_refl) as [Hn _].
        apply (sum_parts_indicator parts (mm_nr f)); [exact Htile|lia].
      * cbn [andb]. rewrite (sumf_ext_in _ (fun _ => zero)).
        -- apply (sumf_map_zero F zero one add mul sub opp Fth).
        -- intros w _. destruct (in_win _ _ _); reflexivity.
  - intros [[[fr nr] fc] nc] Hw. rewrite rank_global_den. cbn [row_win fst snd].
    apply sumf_ext_in. intros e He. cbv zeta.
    destruct (Hwf e He) as [[Hr1 Hr2] [Hc1 Hc2]]. f_equal.
    destruct (mm_sym f) eqn:Es; [|cbn [andb]; destruct (in_win fr nr (snd (fst e) - 1)); reflexivity].
    destruct (Hsq eq_refl) as [_ Hq]. specialize (Hq _ Hw). unfold col_win, row_win in Hq. cbn [fst snd] in Hq.
    inversion Hq; subst fc nc. cbn [andb].
    replace (fst (fst e) - 1 =? snd (fst e) - 1) with (fst (fst e) =? snd (fst e))
      by (destruct (Nat.eqb_spec (fst (fst e)) (snd (fst e))), (Nat.eqb_spec (fst (fst e) - 1) (snd (fst e) - 1)); try reflexivity; lia).
    destruct (negb (fst (fst e) =? snd (fst e))); cbn [andb]; [|destruct (in_win fr nr (snd (fst e) - 1)); reflexivity].
    destruct (in_win fr nr (snd (fst e) - 1)) eqn:Ec; [|reflexivity].
    apply in_win_lower in Ec.
    replace (fr + (snd (fst e) - 1 - fr)) with (snd (fst e) - 1) by lia.
    destruct (in_win fr nr (fst (fst e) - 1)) eqn:Er; [|reflexivity].
    apply in_win_lower in Er. replace (fr + (fst (fst e) - 1 - fr)) with (fst (fst e) - 1) by lia. reflexivity.
Qed.

(* the readers honour the banner: the matrix read is the stored triangle expanded (general: as listed) *)
Theorem read_mm_expands (f : mmfile F) A : mm_wf f ->
  read_mm_coo F big parse f = Some A ->
  coo_nr A = mm_nr f /\ coo_nc A = mm_nc f /\
  forall i j, denCoo A i j = den_ents (mm_expand F big parse f) i j.
Proof.
  intros Hwf HA. unfold read_mm_coo in HA.
  destruct (length (mm_ents f) <? mm_nz f); [discriminate|]. inversion HA; subst A; clear HA.
  split; [reflexivity|]. split; [reflexivity|]. intros i j.
  rewrite den_coo_ents. cbn [coo_ents]. unfold mm_expand. rewrite !den_ents_flat_map.
  apply sumf_ext_in. intros e He. destruct (Hwf e He) as [[Hr1 Hr2] [Hc1 Hc2]].
  rewrite read_mm_entry_den. cbv zeta.
  replace (fst (fst e) - 1 =? snd (fst e) - 1) with (fst (fst e) =? snd (fst e))
    by (destruct (Nat.eqb_spec (fst (fst e)) (snd (fst e))), (Nat.eqb_spec (fst (fst e) - 1) (snd (fst e) - 1)); try reflexivity; lia).
  unfold dropw. destruct (big (parse (snd e))).
  - destruct (mm_sym f && negb (fst (fst e) =? snd (fst e))).
    + change ([(fst (fst e) - 1, snd (fst e) - 1, parse (snd e)); (snd (fst e) - 1, fst (fst e) - 1, parse (snd e))])
        with ([(fst (fst e) - 1, snd (fst e) - 1, parse (snd e))] ++ [(snd (fst e) - 1, fst (fst e) - 1, parse (snd e))]).
      rewrite den_ents_app, !den_ents_single. reflexivity.
    + rewrite den_ents_single. ring.
  - rewrite den_ents_nil. unfold at_pos.
    destruct ((fst (fst e) - 1 =? i) && (snd (fst e) - 1 =? j)); destruct (mm_sym f && negb (fst (fst e) =? snd (fst e)));
    destruct ((snd (fst e) - 1 =? i) && (fst (fst e) - 1 =? j)); ring.
Qed.

Lemma read_mm_coo_wf (f : mmfile F) A : mm_wf f -> (mm_sym f = true -> mm_nc f = mm_nr f) ->
  read_mm_coo F big parse f = Some A -> coo_wf A.
Proof.
  intros Hwf Hsq HA. unfold read_mm_coo in HA.
  destruct (length (mm_ents f) <? mm_nz f); [discriminate|]. inversion HA; subst A; clear HA.
  intros x Hx. cbn [coo_ents coo_nr coo_nc] in *. apply in_flat_map in Hx. destruct Hx as [e [He Hx]].
  destruct (Hwf e He) as [[Hr1 Hr2] [Hc1 Hc2]].
  unfold read_mm_entry in Hx. apply in_app_iff in Hx. destruct Hx as [Hx|Hx].
  - unfold addv in Hx. destruct (big _); [|contradiction]. destruct Hx as [<-|[]]. unfold erow, ecol; simpl. lia.
  - destruct (mm_sym f) eqn:Es; [|contradiction]. specialize (Hsq eq_refl).
    destruct (negb _); [|contradiction]. cbn [andb] in Hx.
    unfold addv in Hx. destruct (big _); [|contradiction]. destruct Hx as [<-|[]]. unfold erow, ecol; simpl. lia.
Qed.

(* at the level of what read_mm returns (CSR) *)
Theorem read_par_mm_eq_read_mm_csr (f : mmfile F) parts :
  mm_wf f -> rows_tile parts (mm_nr f) ->
  (mm_sym f = true -> mm_nc f = mm_nr f /\ square_parts parts) ->
  length (mm_ents f) >= mm_nz f ->
  exists B, read_mm F big parse f = Some B /\ csr_nr B = mm_nr f /\ csr_nc B = mm_nc f /\
    forall i j, denCoo (read_par_mm F big parse f parts) i j = denCsr B i j /\
                denCsr B i j = den_ents (mm_expand F big parse f) i j.
Proof.
  intros Hwf Htile Hsq Hlen.
  destruct (read_mm_coo F big parse f) as [A|] eqn:EA.
  - exists (coo_to_csr A). unfold read_mm. rewrite EA. split; [reflexivity|].
    destruct (read_mm_expands f A Hwf EA) as [Hr [Hc Hd]].
    split; [exact Hr|]. split; [exact Hc|]. intros i j.
    assert (W : coo_wf A) by (apply (read_mm_coo_wf f A Hwf); [intros Hs; apply (Hsq Hs)|exact EA]).
    rewrite den_coo_to_csr by exact W. split; [|apply Hd].
    apply (read_par_mm_eq_read_mm f parts A); assumption.
  - unfold read_mm_coo in EA. replace (length (mm_ents f) <? mm_nz f) with false in EA; [discriminate|].
    symmetry. apply Nat.ltb_ge. exact Hlen.
Qed.

(* ------------------------------------------------------------------ PETSc binary *)
Lemma nsum_app a b : nsum (a ++ b) = nsum a + nsum b.
Proof. induction a; simpl; [reflexivity|rewrite IHa; lia]. Qed.

Lemma firstn_add' {X} a b (l : list X) : firstn (a + b) l = firstn a l ++ firstn b (skipn a l).
Proof. revert l; induction a as [|a IH]; intros l; simpl; [reflexivity|]. destruct l; simpl; [rewrite firstn_nil; reflexivity|rewrite IH; reflexivity]. Qed.
Lemma skipn_add' {X} a b (l : list X) : skipn (a + b) l = skipn b (skipn a l).
Proof. revert l; induction a as [|a IH]; intros l; simpl; [reflexivity|]. destruct l; simpl; [rewrite skipn_nil; reflexivity|apply IH]. Qed.

Lemma skipn_firstn_add {X} s k (l : list X) : skipn s (firstn (s + k) l) = firstn k (skipn s l).
Proof.
  revert l; induction s as [|s IH]; intros l; simpl; [reflexivity|].
  destruct l; simpl; [rewrite firstn_nil; reflexivity|apply IH].
Qed.
Lemma firstn_firstn_add {X} s k (l : list X) : firstn s (firstn (s + k) l) = firstn s l.
Proof.
  revert l; induction s as [|s IH]; intros l; simpl; [reflexivity|].
  destruct l; simpl; [reflexivity|rewrite IH; reflexivity].
Qed.

Lemma split_rows_prefix {X} sz (l : list X) n :
  split_rows (firstn n sz) (firstn (nsum (firstn n sz)) l) = firstn n (split_rows sz l).
Proof.
  revert sz l; induction n as [|n IH]; intros sz l; [reflexivity|].
  destruct sz as [|s sz]; [reflexivity|]. cbn [firstn nsum split_rows].
  rewrite firstn_firstn_add, skipn_firstn_add, IH. reflexivity.
Qed.

Lemma split_rows_window {X} sz (l : list X) f n :
  split_rows (firstn n (skipn f sz)) (firstn (nsum (firstn n (skipn f sz))) (skipn (nsum (firstn f sz)) l))
  = firstn n (skipn f (split_rows sz l)).
Proof.
  revert sz l; induction f as [|f IH]; intros sz l.
  - simpl. apply split_rows_prefix.
  - destruct sz as [|s sz]; [simpl; rewrite !firstn_nil; reflexivity|].
    cbn [firstn skipn nsum split_rows]. rewrite skipn_add'. apply IH.
Qed.

Lemma combine_skipn {X Y} n (a : list X) (b : list Y) : skipn n (combine a b) = combine (skipn n a) (skipn n b).
Proof.
  revert a b; induction n as [|n IH]; intros a b; [reflexivity|].
  destruct a; destruct b; simpl; try reflexivity; [destruct (skipn n a); reflexivity|apply IH].
Qed.

Section Petsc.
Variable f : petsc F.
Hypothesis Hwf : petsc_wf F f.

Let h (w : nat * nat) : nat := nsum (par_row_sizes F f w).

Lemma prefix_nnz blocks start k w :
  nth_error (windows start blocks) k = Some w ->
  nsum (firstn k (map h (windows start blocks))) + nsum (firstn start (p_rowsz f)) = nsum (firstn (fst w) (p_rowsz f)).
Proof.
  revert start k; induction blocks as [|b r IH]; intros start k H; [destruct k; discriminate|].
  destruct k as [|k]; simpl in H.
  - inversion H; subst. reflexivity.
  - cbn [windows map firstn nsum]. rewrite <- (IH (start + b) k H).
    rewrite (firstn_add' start b), nsum_app. unfold h, par_row_sizes. cbn [fst snd]. lia.
Qed.

Lemma total_nnz blocks : nsum blocks = p_nr f -> nsum (map h (windows 0 blocks)) = p_nnz f.
Proof.
  intros Hb. destruct Hwf as [Hl [Hs _]].
  assert (G : forall bl start, nsum (map h (windows start bl)) = nsum (firstn (nsum bl) (skipn start (p_rowsz f)))).
  { induction bl as [|b r IH]; intros start; [reflexivity|].
    cbn [windows map nsum]. rewrite IH, firstn_add', nsum_app, <- skipn_add'. unfold h, par_row_sizes. reflexivity. }
  rewrite G. simpl skipn. rewrite firstn_all2 by lia. exact Hs.
Qed.

Lemma readPar_rank_rows blocks k w : nsum blocks = p_nr f ->
  nth_error (windows 0 blocks) k = Some w ->
  readPar_rank F f (map h (windows 0 blocks)) k w = Some (firstn (snd w) (skipn (fst w) (csr_rows (readMatrix F f)))).
Proof.
  intros Hb Hk. unfold readPar_rank. fold h. rewrite total_nnz by exact Hb. rewrite Nat.eqb_refl. f_equal.
  pose proof (prefix_nnz blocks 0 k w Hk) as P. simpl firstn in P. simpl nsum in P. rewrite Nat.add_0_r in P.
  rewrite P. destruct Hwf as [Hl [Hs [Hc Hv]]].
  unfold readMatrix. cbn [csr_rows].
  rewrite (@firstn_all2 _ (p_nr f) (p_rowsz f)) by lia. rewrite (@firstn_all2 _ (p_nnz f) (p_cols f)) by lia.
  rewrite (@firstn_all2 _ (p_nnz f) (p_vals f)) by lia.
  rewrite <- combine_firstn, <- combine_skipn. unfold par_row_sizes. apply split_rows_window.
Qed.
End Petsc.

Lemma concat_opt_some {X Y} (g : Y -> list X) (l : list Y) :
  concat_opt (map (fun y => Some (g y)) l) = Some (concat (map g l)).
Proof. induction l as [|a l IH]; simpl; [reflexivity|]. rewrite IH. reflexivity. Qed.

Lemma concat_windows' {X} (l : list X) blocks s :
  concat (map (fun w => firstn (snd w) (skipn (fst w) l)) (windows s blocks)) = firstn (nsum blocks) (skipn s l).
Proof.
  revert s; induction blocks as [|b r IH]; intros s; simpl; [reflexivity|].
  rewrite IH, firstn_add', skipn_add'. reflexivity.
Qed.

Lemma split_rows_length {X} sz (l : list X) : length (split_rows sz l) = length sz.
Proof. revert l; induction sz; intros l; simpl; [reflexivity|rewrite IHsz; reflexivity]. Qed.

(* distributed binary reader = sequential binary reader for every process count and contiguous row partition *)
Theorem readParMatrix_eq_readMatrix (f : petsc F) blocks :
  petsc_wf F f -> nsum blocks = p_nr f ->
  readParMatrix_gathered F f (windows 0 blocks) = Some (readMatrix F f).
Proof.
  intros Hwf Hb. unfold readParMatrix_gathered, readParMatrix.
  rewrite (map_ext_in _ (fun rw => Some (firstn (snd (snd rw)) (skipn (fst (snd rw)) (csr_rows (readMatrix F f)))))).
  - rewrite (concat_opt_some (fun rw : nat * (nat * nat) => firstn (snd (snd rw)) (skipn (fst (snd rw)) (csr_rows (readMatrix F f))))).
    f_equal.
    assert (R : concat (map (fun rw : nat * (nat * nat) => firstn (snd (snd rw)) (skipn (fst (snd rw)) (csr_rows (readMatrix F f))))
                            (indexed (windows 0 blocks))) = csr_rows (readMatrix F f)).
    { rewrite <- (map_map snd (fun w => firstn (snd w) (skipn (fst w) (csr_rows (readMatrix F f))))).
      assert (E : map snd (indexed (windows 0 blocks)) = windows 0 blocks).
      { unfold indexed. generalize 0 at 1. induction (windows 0 blocks) as [|a l IH]; intros s; simpl; [reflexivity|]. rewrite IH. reflexivity. }
      rewrite E, concat_windows'. simpl skipn. apply firstn_all2.
      unfold readMatrix. cbn [csr_rows]. rewrite split_rows_length, firstn_length. destruct Hwf as [Hl _]. lia. }
    rewrite R. reflexivity.
  - intros [k w] Hin. cbn [fst snd]. apply indexed_from_in in Hin. destruct Hin as [_ Hn]. rewrite Nat.sub_0_r in Hn.
    apply readPar_rank_rows; assumption.
Qed.

End MMProofs.
