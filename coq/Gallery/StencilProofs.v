(* Proofs about Gallery/Stencil.v: mixed-radix arithmetic, the boundary-zeroing loops, emission, and the
   equality of the distributed generator with the sequential one. *)
From Coq Require Import ZArith ZifyNat.
From Raptor Require Import Base.Sums Sparse.Defs Sparse.ConvertProofs Gallery.Stencil.
Ltac Zify.zify_post_hook ::= Z.div_mod_to_equations.

(* ------------------------------------------------------------------ mixed radix *)
Definition allpos (g : list nat) : Prop := Forall (fun x => 0 < x) g.

Lemma nprod_pos g : allpos g -> 0 < nprod g.
Proof. induction 1; simpl; nia. Qed.

Lemma nprod_app a b : nprod (a ++ b) = nprod a * nprod b.
Proof. induction a; simpl; [lia|rewrite IHa; lia]. Qed.

Lemma nprod_rev a : nprod (rev a) = nprod a.
Proof. induction a; simpl; [reflexivity|rewrite nprod_app, IHa; simpl; lia]. Qed.

Lemma nprod_repeat x k : nprod (repeat x k) = x ^ k.
Proof. induction k; simpl; [reflexivity|rewrite IHk; reflexivity]. Qed.

Lemma allpos_repeat x k : 0 < x -> allpos (repeat x k).
Proof. intros H. induction k; simpl; constructor; assumption. Qed.

Lemma coords_length g p : length (coords g p) = length g.
Proof. induction g; simpl; [reflexivity|rewrite IHg; reflexivity]. Qed.

(* coordinates are below the extents *)
Inductive all2 {A B} (R : A -> B -> Prop) : list A -> list B -> Prop :=
| all2_nil : all2 R [] []
| all2_cons a b la lb : R a b -> all2 R la lb -> all2 R (a :: la) (b :: lb).

Lemma coords_lt g p : allpos g -> all2 lt (coords g p) g.
Proof.
  induction 1 as [|g0 gs H0 Hs IH]; simpl; constructor; [|exact IH].
  apply Nat.mod_upper_bound. lia.
Qed.

Lemma coords_add g x k : allpos g -> coords g (x + k * nprod g) = coords g x.
Proof.
  intros Hg. revert k. induction Hg as [|g0 gs H0 Hs IH]; intros k; simpl; [reflexivity|].
  pose proof (nprod_pos gs Hs) as HP.
  f_equal.
  - replace (x + k * (g0 * nprod gs)) with (x + (k * g0) * nprod gs) by lia.
    rewrite Nat.div_add by lia. rewrite Nat.mod_add by lia. reflexivity.
  - replace (x + k * (g0 * nprod gs)) with (x + (k * g0) * nprod gs) by lia. apply IH.
Qed.

Lemma coords_mod g p : allpos g -> coords g (p mod nprod g) = coords g p.
Proof.
  intros Hg. pose proof (nprod_pos g Hg) as HP.
  rewrite (Nat.div_mod p (nprod g)) at 2 by lia.
  replace (nprod g * (p / nprod g) + p mod nprod g) with (p mod nprod g + (p / nprod g) * nprod g) by lia.
  symmetry. apply coords_add. exact Hg.
Qed.

Lemma linear_coords g p : allpos g -> linear g (coords g p) = p mod nprod g.
Proof.
  intros Hg. induction Hg as [|g0 gs H0 Hs IH]; cbn [linear coords nprod].
  - symmetry. apply Nat.mod_1_r.
  - pose proof (nprod_pos gs Hs) as HP. rewrite IH.
    replace (g0 * nprod gs) with (nprod gs * g0) by lia.
    rewrite Nat.mod_mul_r by lia. lia.
Qed.

Lemma linear_lt g c : all2 lt c g -> linear g c < nprod g.
Proof. induction 1 as [|c0 g0 cs gs H0 Hs IH]; simpl; [lia|nia]. Qed.

Lemma coords_linear g c : all2 lt c g -> coords g (linear g c) = c.
Proof.
  induction 1 as [|c0 g0 cs gs H0 Hs IH]; simpl; [reflexivity|].
  assert (Hg : allpos gs).
  { clear -Hs. induction Hs; constructor; [lia|assumption]. }
  pose proof (nprod_pos gs Hg) as HP. pose proof (linear_lt gs cs Hs) as HL.
  f_equal.
  - replace (c0 * nprod gs + linear gs cs) with (linear gs cs + c0 * nprod gs) by lia.
    rewrite Nat.div_add by lia. rewrite Nat.div_small by lia. simpl. apply Nat.mod_small. lia.
  - replace (c0 * nprod gs + linear gs cs) with (linear gs cs + c0 * nprod gs) by lia.
    rewrite coords_add by exact Hg. exact IH.
Qed.

Lemma div_lt_ub P g0 p : 0 < P -> p < g0 * P -> p / P < g0.
Proof. intros HP Hp. apply Nat.div_lt_upper_bound; [lia|rewrite Nat.mul_comm; exact Hp]. Qed.
Lemma div_rev P g0 p : 0 < P -> p < g0 * P -> (g0 * P - 1 - p) / P = g0 - 1 - p / P.
Proof. intros; nia. Qed.
Lemma mod_rev P g0 p : 0 < P -> p < g0 * P ->
  g0 * P - 1 - p = (P - 1 - p mod P) + (g0 - 1 - p / P) * P.
Proof.
  intros HP Hp.
  assert (Hq : p / P < g0) by (apply div_lt_ub; assumption).
  pose proof (Nat.div_mod p P ltac:(lia)) as D. pose proof (Nat.mod_upper_bound p P ltac:(lia)) as R.
  remember (p / P) as q. remember (p mod P) as r.
  assert (E : g0 = q + 1 + (g0 - 1 - q)) by lia.
  remember (g0 - 1 - q) as e. rewrite E. subst p. nia.
Qed.

(* reversal of the index negates the offsets: digits of N-1-p are g-1-digit *)
Lemma coords_rev g p : allpos g -> p < nprod g ->
  coords g (nprod g - 1 - p) = map (fun gc => fst gc - 1 - snd gc) (combine g (coords g p)).
Proof.
  intros Hg. revert p. induction Hg as [|g0 gs H0 Hs IH]; intros p Hp; simpl; [reflexivity|].
  pose proof (nprod_pos gs Hs) as HP. simpl in Hp.
  f_equal.
  - rewrite (div_rev (nprod gs) g0 p HP Hp). pose proof (div_lt_ub (nprod gs) g0 p HP Hp) as Hq.
    rewrite (Nat.mod_small (p / nprod gs)) by exact Hq. apply Nat.mod_small.
    remember (p / nprod gs) as q. clear -H0. lia.
  - (* same digits as  nprod gs - 1 - (p mod nprod gs) *)
    rewrite (mod_rev (nprod gs) g0 p HP Hp), coords_add by exact Hs.
    rewrite IH by (apply Nat.mod_upper_bound; lia).
    rewrite coords_mod by exact Hs. reflexivity.
Qed.

(* ------------------------------------------------------------------ writing zeros *)
Section ZeroAt.
Variable F : Type.
Variable zero : F.

Lemma upd_length (l : list F) i v : length (upd F l i v) = length l.
Proof. revert i; induction l as [|a l IH]; intros [|i]; simpl; try reflexivity; rewrite IH; reflexivity. Qed.

Lemma upd_nth (l : list F) i v p d :
  nth p (upd F l i v) d = if (p =? i) && (i <? length l) then v else nth p l d.
Proof.
  revert i p; induction l as [|a l IH]; intros i p.
  - destruct i; simpl; rewrite andb_false_r; reflexivity.
  - destruct i as [|i]; destruct p as [|p]; simpl; try reflexivity.
    rewrite IH. reflexivity.
Qed.

Lemma zero_at_length ps (row : list F) : length (zero_at F zero ps row) = length row.
Proof.
  unfold zero_at. revert row; induction ps as [|q ps IH]; intros row; simpl; [reflexivity|].
  rewrite IH, upd_length. reflexivity.
Qed.

Lemma zero_at_nth ps (row : list F) p : p < length row ->
  nth p (zero_at F zero ps row) zero = if existsb (Nat.eqb p) ps then zero else nth p row zero.
Proof.
  unfold zero_at. revert row; induction ps as [|q ps IH]; intros row Hp; simpl; [reflexivity|].
  rewrite IH by (rewrite upd_length; exact Hp).
  rewrite upd_nth.
  destruct (p =? q) eqn:E; simpl.
  - apply Nat.eqb_eq in E. subst q. replace (p <? length row) with true by (symmetry; apply Nat.ltb_lt; exact Hp).
    destruct (existsb (Nat.eqb p) ps); reflexivity.
  - reflexivity.
Qed.

Lemma existsb_eqb_in p ps : existsb (Nat.eqb p) ps = true <-> In p ps.
Proof.
  rewrite existsb_exists. split.
  - intros [x [H1 H2]]. apply Nat.eqb_eq in H2. subst. exact H1.
  - intros H. exists p. split; [exact H|apply Nat.eqb_refl].
Qed.
End ZeroAt.

(* the two chunk loops of the sequential generator *)
Lemma in_seq_begin N step len x p : 0 < len -> len <= step -> N = x * step -> p < N ->
  (In p (seq_begin_pos N step len) <-> p mod step < len).
Proof.
  intros Hlen Hstep HN Hp. unfold seq_begin_pos. rewrite in_flat_map. split.
  - intros [t [Ht Hin]]. destruct (t * step <? N) eqn:E; [|contradiction].
    apply filter_In in Hin. destruct Hin as [Hin _]. apply in_map_iff in Hin.
    destruct Hin as [l [Hl Hl2]]. apply in_seq in Hl2. subst p.
    rewrite Nat.add_comm, Nat.mod_add by lia. rewrite Nat.mod_small by lia. lia.
  - intros Hm. exists (p / step).
    assert (Hs : 0 < step) by lia.
    pose proof (Nat.div_mod p step ltac:(lia)) as D.
    assert (Hle : p / step * step <= p) by (rewrite Nat.mul_comm; lia).
    split.
    + apply in_seq. split; [apply Nat.le_0_l|]. simpl. assert (p / step <= N / step) by (apply Nat.div_le_mono; lia).
      remember (p / step) as q. remember (N / step) as qq. lia.
    + remember (p / step) as q. remember (p mod step) as r.
      replace (q * step <? N) with true by (symmetry; apply Nat.ltb_lt; lia).
      apply filter_In. split; [|apply Nat.leb_le; lia].
      apply in_map_iff. exists r. split; [rewrite Nat.mul_comm; lia|]. apply in_seq. lia.
Qed.

Lemma in_seq_end N step len x p : 0 < len -> len <= step -> N = x * step -> p < N ->
  (In p (seq_end_pos N step len) <-> step - len <= p mod step).
Proof.
  intros Hlen Hstep HN Hp. unfold seq_end_pos. rewrite in_flat_map.
  assert (Hs : 0 < step) by lia.
  split.
  - intros [t [Ht Hin]]. destruct (t * step <? N) eqn:E; [|contradiction].
    apply Nat.ltb_lt in E.
    apply in_map_iff in Hin. destruct Hin as [l [Hl Hl2]]. apply filter_In in Hl2.
    destruct Hl2 as [Hl2 Hl3]. apply in_seq in Hl2. apply Nat.ltb_lt in Hl3.
    assert (Ht2 : t < x) by nia.
    assert (Ep : p = (step - 1 - l) + (x - t - 1) * step) by nia.
    rewrite Ep, Nat.mod_add by lia. rewrite Nat.mod_small by lia. lia.
  - intros Hm.
    pose proof (Nat.div_mod p step ltac:(lia)) as D.
    pose proof (Nat.mod_upper_bound p step ltac:(lia)) as R.
    assert (Hq : p / step < x) by (apply div_lt_ub; lia).
    exists (x - 1 - p / step).
    remember (p / step) as q. remember (p mod step) as r.
    assert (Hx : x = q + 1 + (x - 1 - q)) by lia. remember (x - 1 - q) as e.
    assert (Ek : N - e * step = (q + 1) * step) by (subst N; rewrite Hx; nia).
    assert (HNs : N / step = x) by (subst N; apply Nat.div_mul; lia).
    split.
    + apply in_seq. split; [lia|]. simpl. rewrite HNs. lia.
    + replace (e * step <? N) with true by (symmetry; apply Nat.ltb_lt; nia).
      rewrite Ek. apply in_map_iff. exists (step - 1 - r). split; [nia|].
      apply filter_In. split; [apply in_seq; lia|apply Nat.ltb_lt; nia].
Qed.

(* in terms of the coordinate of the dimension *)
Lemma mod_lt_coord p len g0 : 0 < len -> 0 < g0 ->
  (p mod (len * g0) < len <-> (p / len) mod g0 = 0).
Proof. intros. rewrite Nat.mod_mul_r by lia. split; intros; nia. Qed.

Lemma mod_ge_coord p len g0 : 0 < len -> 0 < g0 ->
  (len * g0 - len <= p mod (len * g0) <-> (p / len) mod g0 = g0 - 1).
Proof.
  intros. rewrite Nat.mod_mul_r by lia.
  pose proof (Nat.mod_upper_bound p len ltac:(lia)). pose proof (Nat.mod_upper_bound (p / len) g0 ltac:(lia)).
  remember (p mod len) as r. remember ((p / len) mod g0) as c. split; intros; nia.
Qed.

(* position p of the data row of a stencil entry with offsets o is overwritten with zero iff, in some
   dimension, the offset is positive and the coordinate 0, or negative and the coordinate the last one *)
Fixpoint zeroedb (g : list nat) (o : list Z) (c : list nat) : bool :=
  match g, o, c with
  | g0 :: gs, o0 :: os, c0 :: cs =>
      ((0 <? o0)%Z && (c0 =? 0)) || ((o0 <? 0)%Z && (c0 =? g0 - 1)) || zeroedb gs os cs
  | _, _, _ => false
  end.

Lemma in_seq_zero_pos N g o x p : allpos g -> N = x * nprod g -> p < N ->
  (In p (seq_zero_pos N g o) <-> zeroedb g o (coords g p) = true).
Proof.
  intros Hg. revert o x. induction Hg as [|g0 gs H0 Hs IH]; intros o x HN Hp.
  - simpl. split; [contradiction|discriminate].
  - destruct o as [|o0 os]; [simpl; split; [contradiction|discriminate]|].
    pose proof (nprod_pos gs Hs) as HP.
    cbn [seq_zero_pos coords zeroedb]. rewrite in_app_iff.
    rewrite (IH os (x * g0)) by (simpl in HN; try lia; exact Hp).
    assert (HN' : N = x * (nprod gs * g0)) by (simpl in HN; lia).
    assert (Hle : nprod gs <= nprod gs * g0) by nia.
    rewrite !orb_true_iff, !andb_true_iff, !Nat.eqb_eq.
    destruct (0 <? o0)%Z eqn:E1.
    + assert (E2 : (o0 <? 0)%Z = false) by (apply Z.ltb_lt in E1; apply Z.ltb_ge; lia).
      rewrite E2. rewrite (in_seq_begin N _ _ x p HP Hle HN' Hp).
      rewrite mod_lt_coord by lia. intuition congruence.
    + destruct (o0 <? 0)%Z eqn:E2.
      * rewrite (in_seq_end N _ _ x p HP Hle HN' Hp).
        rewrite mod_ge_coord by lia. intuition congruence.
      * simpl. intuition congruence.
Qed.

Lemma seq_begin_pos_lt N step len x p : 0 < len -> len <= step -> N = x * step ->
  In p (seq_begin_pos N step len) -> p < N.
Proof.
  intros Hlen Hstep HN Hin. unfold seq_begin_pos in Hin. apply in_flat_map in Hin.
  destruct Hin as [t [Ht Hin]]. destruct (t * step <? N) eqn:E; [|contradiction].
  apply Nat.ltb_lt in E. apply filter_In in Hin. destruct Hin as [Hin _]. apply in_map_iff in Hin.
  destruct Hin as [l [Hl Hl2]]. apply in_seq in Hl2. subst p N.
  assert (t < x) by nia. nia.
Qed.

Lemma seq_end_pos_lt N step len p : In p (seq_end_pos N step len) -> p < N.
Proof.
  intros Hin. unfold seq_end_pos in Hin. apply in_flat_map in Hin.
  destruct Hin as [t [Ht Hin]]. destruct (t * step <? N) eqn:E; [|contradiction].
  apply Nat.ltb_lt in E. apply in_map_iff in Hin. destruct Hin as [l [Hl Hl2]].
  apply filter_In in Hl2. destruct Hl2 as [_ Hl3]. apply Nat.ltb_lt in Hl3. lia.
Qed.

(* every write of the boundary loops stays inside its own row of `data` *)
Lemma seq_zero_pos_lt N g o x p : allpos g -> N = x * nprod g -> In p (seq_zero_pos N g o) -> p < N.
Proof.
  intros Hg. revert o x. induction Hg as [|g0 gs H0 Hs IH]; intros o x HN Hin; [contradiction|].
  destruct o as [|o0 os]; [contradiction|].
  pose proof (nprod_pos gs Hs) as HP.
  cbn [seq_zero_pos] in Hin. apply in_app_iff in Hin. destruct Hin as [Hin|Hin].
  - assert (HN' : N = x * (nprod gs * g0)) by (simpl in HN; lia).
    assert (Hle : nprod gs <= nprod gs * g0) by nia.
    destruct (0 <? o0)%Z; [eapply seq_begin_pos_lt; eassumption|].
    destruct (o0 <? 0)%Z; [eapply seq_end_pos_lt; eassumption|contradiction].
  - apply (IH os (x * g0)); [simpl in HN; lia|exact Hin].
Qed.

(* ---- the window versions ---- *)
Lemma in_par_begin f nv step len q : 0 < len -> len <= step ->
  (In q (par_begin_pos f nv step len) <-> q < nv /\ (f + q) mod step < len).
Proof.
  intros Hlen Hstep. assert (Hs : 0 < step) by lia.
  unfold par_begin_pos. rewrite in_flat_map. split.
  - intros [t [Ht Hin]]. destruct (step * (f / step) + t * step <? f + nv) eqn:E; [|contradiction].
    apply in_map_iff in Hin. destruct Hin as [p [Hq Hin]]. apply filter_In in Hin.
    destruct Hin as [Hin Hc]. apply andb_true_iff in Hc. destruct Hc as [Hc1 Hc2].
    apply Nat.ltb_lt in Hc1. apply Nat.leb_le in Hc2.
    apply in_map_iff in Hin. destruct Hin as [l [Hl Hl2]]. apply in_seq in Hl2.
    split; [lia|]. replace (f + q) with p by lia. subst p.
    replace (step * (f / step) + t * step + l) with (l + (f / step + t) * step) by lia.
    rewrite Nat.mod_add by lia. rewrite Nat.mod_small by lia. lia.
  - intros [Hq Hm]. remember (f + q) as p.
    pose proof (Nat.div_mod p step ltac:(lia)) as D.
    pose proof (Nat.div_mod f step ltac:(lia)) as Df.
    assert (Hmono : f / step <= p / step) by (apply Nat.div_le_mono; lia).
    assert (Hpp : p / step <= (f + nv) / step) by (apply Nat.div_le_mono; lia).
    exists (p / step - f / step).
    remember (p / step) as a. remember (f / step) as b. remember (p mod step) as r. remember ((f + nv) / step) as fuel.
    assert (Ek : step * b + (a - b) * step = step * a) by nia.
    split; [apply in_seq; lia|].
    rewrite Ek. replace (step * a <? f + nv) with true by (symmetry; apply Nat.ltb_lt; lia).
    apply in_map_iff. exists p. split; [lia|]. apply filter_In. split.
    + apply in_map_iff. exists r. split; [lia|apply in_seq; lia].
    + apply andb_true_iff. split; [apply Nat.ltb_lt; lia|apply Nat.leb_le; lia].
Qed.

Lemma par_end_cur_nat f nv step : 0 < step -> 1 <= f + nv ->
  Z.to_nat (par_end_cur f nv step) = step * ((f + nv - 1) / step + 1).
Proof.
  intros Hs Hn. unfold par_end_cur.
  replace (Z.of_nat (f + nv) - 1)%Z with (Z.of_nat (f + nv - 1)) by lia.
  rewrite Z.quot_div_nonneg by lia.
  rewrite <- Nat2Z.inj_div.
  replace (Z.of_nat ((f + nv - 1) / step) + 1)%Z with (Z.of_nat ((f + nv - 1) / step + 1)) by lia.
  rewrite <- Nat2Z.inj_mul. apply Nat2Z.id.
Qed.

Lemma in_par_end f nv step len q : 0 < len -> len <= step ->
  (In q (par_end_pos f nv step len) <-> q < nv /\ step - len <= (f + q) mod step).
Proof.
  intros Hlen Hstep. assert (Hs : 0 < step) by lia.
  unfold par_end_pos. rewrite in_flat_map. split.
  - intros [t [Ht Hin]].
    destruct ((t * step <? Z.to_nat (par_end_cur f nv step)) && (f <? Z.to_nat (par_end_cur f nv step) - t * step)) eqn:E;
      [|contradiction].
    apply andb_true_iff in E. destruct E as [E1 E2]. apply Nat.ltb_lt in E1. apply Nat.ltb_lt in E2.
    apply in_map_iff in Hin. destruct Hin as [p [Hq Hin]]. apply filter_In in Hin.
    destruct Hin as [Hin Hc]. apply andb_true_iff in Hc. destruct Hc as [Hc1 Hc2].
    apply Nat.leb_le in Hc1. apply Nat.ltb_lt in Hc2.
    apply in_map_iff in Hin. destruct Hin as [l [Hl Hl2]]. apply filter_In in Hl2.
    destruct Hl2 as [Hl2 Hl3]. apply in_seq in Hl2. apply Nat.ltb_lt in Hl3.
    rewrite par_end_cur_nat in * by lia.
    remember ((f + nv - 1) / step + 1) as m.
    split; [lia|]. replace (f + q) with p by lia.
    assert (Ht2 : t < m) by nia.
    assert (Ep : p = (step - 1 - l) + (m - t - 1) * step) by nia.
    rewrite Ep, Nat.mod_add by lia. rewrite Nat.mod_small by lia. lia.
  - intros [Hq Hm]. remember (f + q) as p.
    rewrite par_end_cur_nat by lia.
    pose proof (Nat.div_mod p step ltac:(lia)) as D.
    pose proof (Nat.mod_upper_bound p step ltac:(lia)) as R.
    assert (Hmono : p / step <= (f + nv - 1) / step) by (apply Nat.div_le_mono; lia).
    assert (Hll : (f + nv - 1) / step <= (f + nv) / step) by (apply Nat.div_le_mono; lia).
    exists ((f + nv - 1) / step - p / step).
    remember (p / step) as a. remember ((f + nv - 1) / step) as b. remember (p mod step) as r. remember ((f + nv) / step) as fuel.
    assert (Ek : step * (b + 1) - (b - a) * step = step * (a + 1)) by nia.
    split; [apply in_seq; lia|].
    rewrite Ek.
    replace ((b - a) * step <? step * (b + 1)) with true by (symmetry; apply Nat.ltb_lt; nia).
    replace (f <? step * (a + 1)) with true by (symmetry; apply Nat.ltb_lt; nia).
    cbn [andb]. apply in_map_iff. exists p. split; [lia|]. apply filter_In. split.
    + apply in_map_iff. exists (step - 1 - r). split; [nia|].
      apply filter_In. split; [apply in_seq; lia|apply Nat.ltb_lt; nia].
    + apply andb_true_iff. split; [apply Nat.leb_le; lia|apply Nat.ltb_lt; lia].
Qed.

Lemma in_par_zero_pos f nv g o q : allpos g ->
  (In q (par_zero_pos f nv g o) <-> q < nv /\ zeroedb g o (coords g (f + q)) = true).
Proof.
  intros Hg. revert o. induction Hg as [|g0 gs H0 Hs IH]; intros o.
  - simpl. split; [contradiction|intros [_ H]; discriminate].
  - destruct o as [|o0 os]; [simpl; split; [contradiction|intros [_ H]; discriminate]|].
    pose proof (nprod_pos gs Hs) as HP.
    cbn [par_zero_pos coords zeroedb]. rewrite in_app_iff. rewrite IH.
    assert (Hle : nprod gs <= nprod gs * g0) by nia.
    rewrite !orb_true_iff, !andb_true_iff, !Nat.eqb_eq.
    destruct (0 <? o0)%Z eqn:E1.
    + assert (E2 : (o0 <? 0)%Z = false) by (apply Z.ltb_lt in E1; apply Z.ltb_ge; lia).
      rewrite E2. rewrite (in_par_begin f nv _ _ q HP Hle).
      rewrite mod_lt_coord by lia. intuition congruence.
    + destruct (o0 <? 0)%Z eqn:E2.
      * rewrite (in_par_end f nv _ _ q HP Hle).
        rewrite mod_ge_coord by lia. intuition congruence.
      * simpl. intuition congruence.
Qed.
