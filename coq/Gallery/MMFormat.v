(* Token-level model of raptor/gallery/matrix_market.cpp (write_mm, read_mm), par_matrix_market.cpp
   (read_par_mm, write_par_mm), matrix_IO.cpp (readMatrix) and par_matrix_IO.cpp (readParMatrix).

   A Matrix Market coordinate file is its banner flag (general / symmetric), the size line and the list of
   1-based triples; a PETSc binary file is its header and its three arrays.  libc (fprintf "%2.15e",
   fscanf "%lg", fread, byte order) is NOT modelled: `show v` is the decimal printed for v and `parse x` the
   double read from the decimal x, both abstract.  `big v` is fabs(v) > zero_tol (COOMatrix::add_value drops
   the rest).  A distributed reader is a pure function of the file and of one process' window
   (first_local_row, local_num_rows, first_local_col, local_num_cols); its result is the list of entries the
   process hands to on_proc / off_proc BEFORE ParMatrix::finalize (sort, sum duplicates, renumber columns),
   given back with global indices (local_row_map / on_proc_column_map are  i + first_local_row/col). *)
From Raptor Require Import Base.Sums Sparse.Defs Gallery.Stencil.

Section MM.
Variable F : Type.
Variable big : F -> bool.
Variables show parse : F -> F.

Record mmfile := mkMM {
  mm_sym : bool;                       (* banner says "symmetric" *)
  mm_nr : nat; mm_nc : nat; mm_nz : nat;
  mm_ents : list (nat * nat * F)       (* row col value, 1-based, in file order *)
}.

(* write_mm: banner "matrix coordinate real general", sizes n_rows n_cols nnz, then row by row
   "i+1 idx2[j]+1 vals[j]" *)
Definition write_mm (A : csr F) : mmfile :=
  let ents := flat_map (fun ir => map (fun p => (S (fst ir), S (fst p), show (snd p))) (snd ir))
                       (indexed (csr_rows A)) in
  mkMM false (csr_nr A) (csr_nc A) (length ents) ents.

(* read_mm: nz times { fscanf; add_value(row-1, col-1, val);
                      if (mm_is_symmetric(matcode) && row != col) add_value(col-1, row-1, val); }
   a short file makes the function return NULL *)
Definition addv (r c : nat) (v : F) : list (ent F) := if big v then [(r, c, v)] else [].
Definition read_mm_entry (sym : bool) (e : nat * nat * F) : list (ent F) :=
  let row := fst (fst e) in let col := snd (fst e) in let v := parse (snd e) in
  addv (row - 1) (col - 1) v ++ (if sym && negb (row =? col) then addv (col - 1) (row - 1) v else []).
Definition read_mm_coo (f : mmfile) : option (coo F) :=
  if length (mm_ents f) <? mm_nz f then None
  else Some (mkCoo (mm_nr f) (mm_nc f) (flat_map (read_mm_entry (mm_sym f)) (firstn (mm_nz f) (mm_ents f)))).
Definition read_mm (f : mmfile) : option (csr F) :=
  match read_mm_coo f with Some A => Some (coo_to_csr A) | None => None end.

(* what a reader that honours the banner is expected to return for a symmetric file:
   every stored off-diagonal entry also at the mirrored position, diagonal entries once *)
Definition mm_expand (f : mmfile) : list (ent F) :=
  flat_map (fun e => let r := fst (fst e) - 1 in let c := snd (fst e) - 1 in let v := parse (snd e) in
                     if big v then (if mm_sym f && negb (r =? c) then [(r, c, v); (c, r, v)] else [(r, c, v)]) else [])
           (firstn (mm_nz f) (mm_ents f)).

(* read_par_mm on one process. The C variables row / col are made local in place when they are in range;
   is_diag = (row == col) is taken from the global 0-based indices before that. *)
Definition in_win (first n x : nat) : bool := (first <=? x) && (x <? first + n).
(* returns (on_proc additions, off_proc additions) of one file line *)
Definition par_mm_entry (sym : bool) (fr nr fc nc : nat) (e : nat * nat * F) : list (ent F) * list (ent F) :=
  let row := fst (fst e) - 1 in let col := snd (fst e) - 1 in let v := parse (snd e) in
  let is_diag := row =? col in
  let row_local := in_win fr nr row in
  let col_local := in_win fc nc col in
  if negb row_local && negb sym then ([], [])
  else if negb col_local && negb row_local then ([], [])
  else
    let row' := if row_local then row - fr else row in
    let col' := if col_local then col - fc else col in
    let on1 := if row_local && col_local then addv row' col' v else [] in
    let off1 := if row_local && negb col_local then addv row' col' v else [] in
    let on2 := if sym && negb is_diag && col_local && row_local then addv col' row' v else [] in
    let off2 := if sym && negb is_diag && col_local && negb row_local then addv col' row' v else [] in
    (on1 ++ on2, off1 ++ off2).

Definition par_mm_rank (f : mmfile) (w : nat * nat * nat * nat) : list (ent F) * list (ent F) :=
  let '(fr, nr, fc, nc) := w in
  let rs := map (par_mm_entry (mm_sym f) fr nr fc nc) (firstn (mm_nz f) (mm_ents f)) in
  (flat_map fst rs, flat_map snd rs).

(* the entries of one process with global indices *)
Definition par_mm_rank_global (f : mmfile) (w : nat * nat * nat * nat) : list (ent F) :=
  let '(fr, nr, fc, nc) := w in
  let oo := par_mm_rank f w in
  map (fun e => (fr + erow e, fc + ecol e, eval e)) (fst oo) ++
  map (fun e => (fr + erow e, ecol e, eval e)) (snd oo).

Definition read_par_mm (f : mmfile) (parts : list (nat * nat * nat * nat)) : coo F :=
  mkCoo (mm_nr f) (mm_nc f) (flat_map (par_mm_rank_global f) parts).

(* write_par_mm: process 0 writes, process by process, first the on_proc block then the off_proc block of
   that process (each row by row) with global indices; nz = sum of the local_nnz *)
Definition write_par_mm (nr nc : nat) (ranks : list (nat * list (list (nat * F)) * list (list (nat * F)))) : mmfile :=
  (* a rank = (first_local_row, on_proc rows with global columns, off_proc rows with global columns) *)
  let blk (first : nat) (rows : list (list (nat * F))) :=
      flat_map (fun ir => map (fun p => (S (first + fst ir), S (fst p), show (snd p))) (snd ir)) (indexed rows) in
  let ents := flat_map (fun r => blk (fst (fst r)) (snd (fst r)) ++ blk (fst (fst r)) (snd r)) ranks in
  mkMM false nr nc (length ents) ents.

(* ---- PETSc binary ---- *)
Record petsc := mkPetsc {
  p_nr : nat; p_nc : nat; p_nnz : nat;
  p_rowsz : list nat; p_cols : list nat; p_vals : list F }.

Definition petsc_wf (f : petsc) : Prop :=
  length (p_rowsz f) = p_nr f /\ nsum (p_rowsz f) = p_nnz f /\
  length (p_cols f) = p_nnz f /\ length (p_vals f) = p_nnz f.

Fixpoint split_rows {X} (sz : list nat) (l : list X) : list (list X) :=
  match sz with [] => [] | s :: r => firstn s l :: split_rows r (skipn s l) end.

(* readMatrix: idx1 = running sums of the n_rows row sizes, then nnz column indices, then nnz values *)
Definition readMatrix (f : petsc) : csr F :=
  mkCsr (p_nr f) (p_nc f)
        (split_rows (firstn (p_nr f) (p_rowsz f)) (combine (firstn (p_nnz f) (p_cols f)) (firstn (p_nnz f) (p_vals f)))).

(* readParMatrix on one process: its row sizes are read at offset first_local_row; the Allgather of the local
   nnz gives first_nnz (sum over lower ranks) and total_nnz; column indices are read at first_nnz, values at
   (total_nnz ints) + first_nnz doubles, which is the value array only when total_nnz is the file's nnz
   (otherwise the bytes read are not values: None) *)
Definition par_row_sizes (f : petsc) (w : nat * nat) : list nat := firstn (snd w) (skipn (fst w) (p_rowsz f)).
Definition readPar_rank (f : petsc) (proc_nnz : list nat) (rank : nat) (w : nat * nat)
  : option (list (list (nat * F))) :=
  let rs := par_row_sizes f w in
  let nnz := nsum rs in
  let first_nnz := nsum (firstn rank proc_nnz) in
  let total := nsum proc_nnz in
  if total =? p_nnz f
  then Some (split_rows rs (combine (firstn nnz (skipn first_nnz (p_cols f))) (firstn nnz (skipn first_nnz (p_vals f)))))
  else None.
Definition readParMatrix (f : petsc) (ws : list (nat * nat)) : list (option (list (list (nat * F)))) :=
  let proc_nnz := map (fun w => nsum (par_row_sizes f w)) ws in
  map (fun rw => readPar_rank f proc_nnz (fst rw) (snd rw)) (indexed ws).
Fixpoint concat_opt {X} (l : list (option (list X))) : option (list X) :=
  match l with
  | [] => Some []
  | None :: _ => None
  | Some x :: r => match concat_opt r with Some y => Some (x ++ y) | None => None end
  end.
Definition readParMatrix_gathered (f : petsc) (ws : list (nat * nat)) : option (csr F) :=
  match concat_opt (readParMatrix f ws) with
  | Some rows => Some (mkCsr (p_nr f) (p_nc f) rows)
  | None => None
  end.

End MM.

Arguments mkMM {F}. Arguments mm_sym {F}. Arguments mm_nr {F}. Arguments mm_nc {F}. Arguments mm_nz {F}. Arguments mm_ents {F}.
Arguments mkPetsc {F}. Arguments p_nr {F}. Arguments p_nc {F}. Arguments p_nnz {F}.
Arguments p_rowsz {F}. Arguments p_cols {F}. Arguments p_vals {F}.
