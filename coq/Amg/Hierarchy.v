(* Executable model of the AMG setup phase at the composition level
   (raptor/multilevel/multilevel.hpp  Multilevel::setup_helper / form_dense_coarse,
    raptor/multilevel/par_multilevel.hpp  ParMultilevel::setup_helper / duplicate_coarse,
    and the tail of extend_hierarchy in {par_,}ruge_stuben_solver.hpp / {par_,}smoothed_aggregation_solver.hpp),
   and the verified checker  hier_ok  that is run on the levels dumped by the implementation.

   A distributed hierarchy is modelled through the GLOBAL operators plus, per level, the list of the
   local sizes of the ranks (possibly 0); the sequential classes are the one-block instance.
   What extend_hierarchy does before the Galerkin product (strength o split o interpolate, resp.
   strength o mis2 o aggregate o fit_candidates o jacobi_prolongation) is the Section variable `coarsen`;
   the two products  AP = A->mult(P)  and  Ac = AP->mult_T(P)  are the Section variables spgemm / spgemm_T
   (their den-specifications are hypotheses of the theorems, see HierarchyProofs.v).  Definitions only. *)
From Raptor Require Import Base.Sums Sparse.Defs.

Section HierModel.
Variable F : Type.
Notation csrF := (csr F).

(* a work vector: ParVector::resize(global_n, local_n) on every rank / Vector::resize(n) *)
Record vsize := mkV { v_global : nat; v_local : list nat }.

(* Level / ParLevel: A, P (NULL on the coarsest level), x, b, tmp; lv_part = local_num_rows of every rank *)
Record level := mkLevel { lv_A : csrF; lv_P : option csrF; lv_part : list nat;
                          lv_x : vsize; lv_b : vsize; lv_tmp : vsize }.

Variable spgemm : csrF -> csrF -> csrF.          (* spgemm A P    =  A->mult(P)          = A * P      *)
Variable spgemm_T : csrF -> csrF -> csrF.        (* spgemm_T P B  =  B->mult_T(P)        = P^T * B    *)
Variable prep : csrF -> csrF.                    (* level 0:  Af->copy(); sort(); [on_proc->move_diag()]   *)
Variable finish : csrF -> csrF.                  (* RS classes: A->sort(); A->move_diag();  SA classes: nothing *)
(* coarsen l A part = (P, on_proc_num_cols of P on every rank); depends on the level index
   (ParRugeStubenSolver: RS for level < 3 else Falgout; tap_level; SA: the candidate vector of that level) *)
Variable coarsen : nat -> csrF -> list nat -> option (csrF * list nat).
Variable max_coarse : nat.
Variable max_levels : option nat.     (* None = -1 (no limit); Some m = m (0 and 1 behave alike) *)

(* levels.emplace_back(new Level()); ... x.resize(A->n_rows) / x.resize(A->global_num_rows, A->local_num_rows) *)
Definition new_level (A : csrF) (part : list nat) : level :=
  mkLevel A None part (mkV (csr_nr A) part) (mkV (csr_nr A) part) (mkV (csr_nr A) part).

(* extend_hierarchy on levels[l] = cur:  P stored in cur, new level with  finish (P^T (A P)) *)
Definition extend (l : nat) (cur : level) : option (level * level) :=
  match coarsen l (lv_A cur) (lv_part cur) with
  | None => None
  | Some (P, pc) =>
    let AP := spgemm (lv_A cur) P in
    let Ac := finish (spgemm_T P AP) in
    Some (mkLevel (lv_A cur) (Some P) (lv_part cur) (lv_x cur) (lv_b cur) (lv_tmp cur), new_level Ac pc)
  end.

(* while (levels[last]->A->n_rows > max_coarse && (max_levels == -1 || (int) levels.size() < max_levels)) *)
Definition continue_cond (n size : nat) : bool :=
  (max_coarse <? n) && (match max_levels with None => true | Some m => size <? m end).

(* the loop from levels[l] = cur on (levels.size() = l + 1); None = out of fuel or coarsen undefined *)
Fixpoint setup_from (fuel l : nat) (cur : level) : option (list level) :=
  if continue_cond (csr_nr (lv_A cur)) (S l) then
    match fuel with
    | O => None
    | S f =>
      match extend l cur with
      | None => None
      | Some (cur', nxt) =>
        match setup_from f (S l) nxt with
        | None => None
        | Some ls => Some (cur' :: ls)
        end
      end
    end
  else Some [cur].

Definition setup (fuel : nat) (Af : csrF) (part : list nat) : option (list level) :=
  setup_from fuel 0 (new_level (prep Af) part).

(* num_levels, coarse_n *)
Definition num_levels (ls : list level) : nat := length ls.
Definition coarse_n (ls : list level) : nat :=
  match rev ls with [] => 0 | L :: _ => csr_nr (lv_A L) end.

(* duplicate_coarse: the ranks owning rows of the coarsest operator, their sizes and displacements *)
Fixpoint prefix_from (s : nat) (l : list nat) : list nat :=
  match l with [] => [s] | x :: l' => s :: prefix_from (s + x) l' end.
Definition active_sizes (part : list nat) : list nat := filter (fun s => negb (s =? 0)) part.
Definition coarse_sizes (ls : list level) : list nat :=
  match rev ls with [] => [] | L :: _ => active_sizes (lv_part L) end.
Definition coarse_displs (ls : list level) : list nat := prefix_from 0 (coarse_sizes ls).

End HierModel.

Arguments mkLevel {F}. Arguments lv_A {F}. Arguments lv_P {F}. Arguments lv_part {F}.
Arguments lv_x {F}. Arguments lv_b {F}. Arguments lv_tmp {F}.
Arguments new_level {F}. Arguments extend {F}. Arguments setup_from {F}.
Arguments setup {F}. Arguments num_levels {F}. Arguments coarse_n {F}.
Arguments coarse_sizes {F}. Arguments coarse_displs {F}.

(* ------------------------------------------------------------------------------------------ *)
(* exact products (no drop) used by the checker, the dense coarse matrix, and the checker itself *)
Section HierCheck.
Variable F : Type.
Variables (zero : F) (add mul sub : F -> F -> F).
Variable leb : F -> F -> bool.      (* x <= y *)
Variable absF : F -> F.
Notation csrF := (csr F).
Notation denL := (den_line F zero add).
Notation denC := (den_csr F zero add).

(* accumulate (j, v) into a line: add to the stored entry of column j, or append a new entry *)
Fixpoint add_entry (j : nat) (v : F) (r : list (nat * F)) : list (nat * F) :=
  match r with
  | [] => [(j, v)]
  | p :: r' => if fst p =? j then (j, add (snd p) v) :: r' else p :: add_entry j v r'
  end.
Definition compress (r : list (nat * F)) : list (nat * F) :=
  fold_left (fun acc p => add_entry (fst p) (snd p) acc) r [].
(* row i of A*B: for every stored (k, a) of row i of A, row k of B scaled by a; equal columns summed *)
Definition mm_line (Brows : list (list (nat * F))) (ra : list (nat * F)) : list (nat * F) :=
  compress (flat_map (fun pa => map (fun pb => (fst pb, mul (snd pa) (snd pb))) (nth (fst pa) Brows [])) ra).
Definition mm (A B : csrF) : csrF :=
  mkCsr (csr_nr A) (csr_nc B) (map (mm_line (csr_rows B)) (csr_rows A)).
(* P^T (A P), exactly *)
Definition ptap (A P : csrF) : csrF := mm (csr_transpose P) (mm A P).

(* form_dense_coarse:  A_coarse[i*n + idx2[j]] = vals[j]  (assignment: the last stored entry of a position wins) *)
Fixpoint last_at (r : list (nat * F)) (j : nat) (d : F) : F :=
  match r with [] => d | p :: r' => last_at r' j (if fst p =? j then snd p else d) end.
Definition dense_coarse (A : csrF) : list (list F) :=
  map (fun i => map (fun j => last_at (nth i (csr_rows A) []) j zero) (seq 0 (csr_nr A))) (seq 0 (csr_nr A)).

(* |den r1 j - den r2 j| <= tol on the union of the two supports *)
Definition close_line (tol : F) (r1 r2 : list (nat * F)) : bool :=
  forallb (fun j => leb (absF (sub (denL r1 j) (denL r2 j))) tol) (map fst r1 ++ map fst r2).
Fixpoint close_rows (tol : F) (R1 R2 : list (list (nat * F))) : bool :=
  match R1, R2 with
  | r1 :: t1, r2 :: t2 => close_line tol r1 r2 && close_rows tol t1 t2
  | [], [] => true
  | _, _ => false
  end.
Definition galerkin_ok (tol : F) (A P A' : csrF) : bool :=
  leb (absF (sub zero zero)) tol && close_rows tol (csr_rows A') (csr_rows (ptap A P)).

(* ---- what the driver dumps of one level ---- *)
Record vdump := mkVd { vd_global : nat; vd_local : nat; vd_store : nat }.   (* global_n, local_n, local.size() *)
(* the P stored on a rank *)
Record pdump := mkPd { pd_grows : nat; pd_gcols : nat; pd_lrows : nat; pd_lcols : nat;
                       pd_rowmap : list nat; pd_onmap : list nat; pd_offmap : list nat }.
(* one rank's view of a level; maps hold global names of unknowns (raptor names a coarse unknown by the
   global index of its C point / root node on the finest level; names are not contiguous) *)
Record rdump := mkRd { rd_grows : nat; rd_gcols : nat; rd_lrows : nat; rd_lcols : nat;
                       rd_rowmap : list nat; rd_onmap : list nat; rd_offmap : list nat;
                       rd_x : vdump; rd_b : vdump; rd_tmp : vdump; rd_P : option pdump }.
(* ld_A, ld_P: the global operators, rows/columns numbered by position in  level_names *)
Record ldump := mkLd { ld_A : csrF; ld_P : option csrF; ld_ranks : list rdump; ld_edge : bool; ld_tol : F }.

Definition level_names (L : ldump) : list nat := concat (map rd_rowmap (ld_ranks L)).

Definition memb (x : nat) (l : list nat) : bool := existsb (Nat.eqb x) l.
Fixpoint nodupb (l : list nat) : bool :=
  match l with [] => true | x :: l' => negb (memb x l') && nodupb l' end.
Fixpoint list_eqb (l1 l2 : list nat) : bool :=
  match l1, l2 with
  | [], [] => true
  | x :: t1, y :: t2 => (x =? y) && list_eqb t1 t2
  | _, _ => false
  end.

(* sizes: A_l square and well formed, global sizes = sums of the local sizes, maps as long as the sizes say *)
Definition sizes_ok (L : ldump) : bool :=
  let n := csr_nr (ld_A L) in
  (csr_nc (ld_A L) =? n) && csr_wfb (ld_A L) &&
  (list_sum (map rd_lrows (ld_ranks L)) =? n) && (list_sum (map rd_lcols (ld_ranks L)) =? n) &&
  forallb (fun r => (rd_grows r =? n) && (rd_gcols r =? n) &&
                    (length (rd_rowmap r) =? rd_lrows r) && (length (rd_onmap r) =? rd_lcols r)) (ld_ranks L).

Definition vd_ok (n lr : nat) (v : vdump) : bool :=
  (vd_global v =? n) && (vd_local v =? lr) && (vd_store v =? lr).
Definition vectors_ok (L : ldump) : bool :=
  let n := csr_nr (ld_A L) in
  forallb (fun r => vd_ok n (rd_lrows r) (rd_x r) && vd_ok n (rd_lrows r) (rd_b r) && vd_ok n (rd_lrows r) (rd_tmp r))
          (ld_ranks L).

(* names are distinct; the diagonal block's columns are the rank's own unknowns; every off-process
   column is an unknown of this level owned by another rank *)
Definition maps_ok (L : ldump) : bool :=
  let names := level_names L in
  nodupb names &&
  forallb (fun r => list_eqb (rd_onmap r) (rd_rowmap r) &&
                    forallb (fun c => memb c names && negb (memb c (rd_rowmap r))) (rd_offmap r)) (ld_ranks L).

(* P_l of level L against the next level L' *)
Fixpoint p_ranks_ok (n n' : nat) (names' : list nat) (rs rs' : list rdump) : bool :=
  match rs, rs' with
  | r :: t, r' :: t' =>
    match rd_P r with
    | None => false
    | Some p =>
      (pd_grows p =? n) && (pd_gcols p =? n') && (pd_lrows p =? rd_lrows r) && (pd_lcols p =? rd_lrows r') &&
      list_eqb (pd_rowmap p) (rd_rowmap r) && list_eqb (pd_onmap p) (rd_rowmap r') &&
      forallb (fun c => memb c names' && negb (memb c (rd_rowmap r'))) (pd_offmap p)
    end && p_ranks_ok n n' names' t t'
  | [], [] => true
  | _, _ => false
  end.
Definition prolong_ok (L L' : ldump) : bool :=
  match ld_P L with
  | None => false
  | Some P =>
    (csr_nr P =? csr_nr (ld_A L)) && (csr_nc P =? csr_nr (ld_A L')) && csr_wfb P &&
    p_ranks_ok (csr_nr (ld_A L)) (csr_nr (ld_A L')) (level_names L') (ld_ranks L) (ld_ranks L') &&
    galerkin_ok (ld_tol L) (ld_A L) P (ld_A L')
  end.

Definition coarsening_ok (L L' : ldump) : bool :=
  (csr_nr (ld_A L') <=? csr_nr (ld_A L)) &&
  (if ld_edge L then csr_nr (ld_A L') <? csr_nr (ld_A L) else true).

(* the level's own clauses *)
Definition level_ok (L : ldump) : bool := sizes_ok L && vectors_ok L && maps_ok L.

(* levels from index l on; a level that has a successor must satisfy the loop condition, the last one must not *)
Fixpoint hier_from (max_coarse : nat) (max_levels : option nat) (l : nat) (ls : list ldump) : bool :=
  match ls with
  | [] => true
  | L :: tl =>
    level_ok L &&
    match tl with
    | [] => negb (continue_cond max_coarse max_levels (csr_nr (ld_A L)) (S l)) &&
            match ld_P L with None => true | Some _ => false end
    | L' :: _ => continue_cond max_coarse max_levels (csr_nr (ld_A L)) (S l) &&
                 prolong_ok L L' && coarsening_ok L L' && hier_from max_coarse max_levels (S l) tl
    end
  end.

Definition hier_ok (max_coarse : nat) (max_levels : option nat) (ls : list ldump) : bool :=
  negb (length ls =? 0) && hier_from max_coarse max_levels 0 ls.

End HierCheck.

Arguments mkLd {F}. Arguments ld_A {F}. Arguments ld_P {F}. Arguments ld_ranks {F}.
Arguments ld_edge {F}. Arguments ld_tol {F}. Arguments level_names {F}.
Arguments sizes_ok {F}. Arguments vectors_ok {F}. Arguments maps_ok {F}. Arguments level_ok {F}.
Arguments coarsening_ok {F}.
