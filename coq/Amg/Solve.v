(* Executable model of the AMG solve wrappers
     raptor/multilevel/multilevel.hpp      Multilevel::solve(sol, rhs, num_iterations)   (tolerance hard-coded 1e-07)
     raptor/multilevel/par_multilevel.hpp  ParMultilevel::solve(sol, rhs)                (solve_tol, max_iterations)
   and of what they are built on: CSR residual (spmv_residual / ParMatrix::residual), Vector::norm / ParVector::norm.

   Values are EXTENDED: xval = Fin q | NaNv.  NaNv absorbs in + - * /, a finite number divided by zero is NaNv
   (inf and NaN are merged: only "is it finite" matters), every comparison with NaNv is false.
   `cycle` is ABSTRACT: any function of (x, b) -- including functions that return NaNv.
   No sqrt: a norm is carried as its square.  r_norm = sqrt(rsq)/sqrt(bsq) is carried as rsq/bsq; the test
   `r_norm <= tol` (r_norm >= 0) is `0 <= tol && rsq/bsq <= tol^2`; `fabs(b_norm) > zero_tol` is `bsq > zero_tol^2`.
   The variants the code went through are modelled: three norms (see `nmode`) and two loop tests, `r_norm > tol`
   (before) and `!(r_norm <= tol)` (now).  The current code is (NPlain, new test). *)
From Raptor Require Import Base.Sums.

Section Solve.
Variable F : Type.
Variables (zero one : F) (add mul sub : F -> F -> F) (opp : F -> F) (inv : F -> F).
Variable leb : F -> F -> bool.        (* a <= b *)
Variable eqb0 : F -> bool.            (* a == 0 *)
Variable tiny : F -> bool.            (* fabs(a) <= zero_tol *)

Notation "0" := zero.
Infix "+" := add.
Infix "*" := mul.
Infix "-" := sub.

Inductive xval : Type := Fin (q : F) | NaNv.

Definition xadd (a b : xval) : xval := match a, b with Fin p, Fin q => Fin (p + q) | _, _ => NaNv end.
Definition xsub (a b : xval) : xval := match a, b with Fin p, Fin q => Fin (p - q) | _, _ => NaNv end.
Definition xmul (a b : xval) : xval := match a, b with Fin p, Fin q => Fin (p * q) | _, _ => NaNv end.
Definition xdiv (a b : xval) : xval :=
  match a, b with Fin p, Fin q => if eqb0 q then NaNv else Fin (p * inv q) | _, _ => NaNv end.
Definition xleb (a b : xval) : bool := match a, b with Fin p, Fin q => leb p q | _, _ => false end.       (* a <= b *)
Definition xgtb (a b : xval) : bool := match a, b with Fin p, Fin q => negb (leb p q) | _, _ => false end. (* a > b *)
Definition is_fin (a : xval) : bool := match a with Fin _ => true | NaNv => false end.
Definition all_fin (v : list xval) : bool := forallb is_fin v.

Notation xvec := (list xval).
Definition xat (x : xvec) (i : nat) : xval := nth i x NaNv.       (* reading outside the vector is not a finite value *)

(* sparse rows: (column, value) in storage order; the matrix itself is finite *)
Notation smat := (list (list (nat * F))).

(* r[i] = b[i]; for every stored entry: r[i] -= a_ij * x[j] *)
Definition xrow_resid (row : list (nat * F)) (x : xvec) (bi : xval) : xval :=
  fold_left (fun acc ja => xsub acc (xmul (Fin (snd ja)) (xat x (fst ja)))) row bi.
Definition xresid (A : smat) (x b : xvec) : xvec :=
  map (fun ir => xrow_resid (snd ir) x (xat b (fst ir))) (indexed A).

(* Vector::norm(2) squared, the three versions the code went through:
     NSkipNaN  `if (fabs(val) > zero_tol) result += val*val`      a NaN (and every entry <= 1e-16) is skipped
     NCutoff   `if (!(fabs(val) <= zero_tol)) result += val*val`  entries <= 1e-16 are skipped, a NaN is added
     NPlain    `result += val*val`                                  the current code *)
Inductive nmode := NSkipNaN | NCutoff | NPlain.
Definition skipped (m : nmode) (v : xval) : bool :=
  match m, v with
  | NPlain, _ => false
  | NSkipNaN, NaNv => true
  | NCutoff, NaNv => false
  | _, Fin q => tiny q
  end.
Definition xnorm2 (m : nmode) (v : xvec) : xval :=
  fold_left (fun acc x => if skipped m x then acc else xadd acc (xmul x x)) v (Fin 0).
(* the plain sum of squares of a finite vector *)
Definition sumsq (l : list F) : F := fold_left (fun acc q => acc + q * q) l 0.
Definition fin_vals (v : xvec) : list F := map (fun a => match a with Fin q => q | NaNv => 0 end) v.

(* r_norm (squared): relative to b_norm when fabs(b_norm) > zero_tol, absolute otherwise *)
Definition rel_norm2 (ztol2 : F) (bn2 rn2 : xval) : xval :=
  if xgtb bn2 (Fin ztol2) then xdiv rn2 bn2 else rn2.
Definition measure (skip_nan : nmode) (ztol2 : F) (A : smat) (b : xvec) (x : xvec) : xval :=
  rel_norm2 ztol2 (xnorm2 skip_nan b) (xnorm2 skip_nan (xresid A x b)).

(* "stop": old_test = true: the loop runs while `r_norm > tol`; false: while `!(r_norm <= tol)` *)
Definition converged (old_test : bool) (tol : F) (rn2 : xval) : bool :=
  if old_test then negb (leb 0 tol && xgtb rn2 (Fin (tol * tol)) || negb (leb 0 tol) && is_fin rn2)
  else leb 0 tol && xleb rn2 (Fin (tol * tol)).
(* old test, in squares: r_norm > tol  <=>  tol < 0 (r_norm is >= 0 and finite)  or  r_norm^2 > tol^2;  NaN > tol is false *)

Record result := mkResult { r_x : xvec; r_iter : nat; r_res : list xval }.

Section Loop.
Variable skip_nan : nmode.
Variable old_test : bool.
Variables (ztol2 tol : F).
Variable cyc : xvec -> xvec -> xvec.
Variables (A : smat) (b : xvec).

(* while (<not converged> && iter < max) { cycle(sol, rhs); iter++; r_norm = ...; residuals[iter] = r_norm; } *)
Fixpoint solve_loop (rem : nat) (x : xvec) (rn2 : xval) (iter : nat) (res : list xval) : result :=
  match rem with
  | O => mkResult x iter res
  | S rem' =>
    if converged old_test tol rn2 then mkResult x iter res
    else let x' := cyc x b in
         let rn2' := measure skip_nan ztol2 A b x' in
         solve_loop rem' x' rn2' (S iter) (res ++ [rn2'])
  end.
Definition solve (x : xvec) (maxit : nat) : result :=
  let rn2 := measure skip_nan ztol2 A b x in
  solve_loop maxit x rn2 O [rn2].

(* the k-th iterate, whatever the stopping test says *)
Fixpoint iterate (k : nat) (x : xvec) : xvec :=
  match k with O => x | S k' => cyc (iterate k' x) b end.
End Loop.

(* every row i < n stores its diagonal entry, every stored column is < n *)
Definition stored_diag (A : smat) : Prop :=
  forall i row, nth_error A i = Some row -> exists a, In (i, a) row.

(* lifting an exact cycle (on finite vectors) to extended values: a non-finite input gives a non-finite output *)
Fixpoint unfin (v : xvec) : option (list F) :=
  match v with
  | [] => Some []
  | Fin q :: v' => match unfin v' with Some l => Some (q :: l) | None => None end
  | NaNv :: _ => None
  end.
Definition lift_cycle (f : list F -> list F -> list F) (x b : xvec) : xvec :=
  match unfin x, unfin b with
  | Some xf, Some bf => map Fin (f xf bf)
  | _, _ => map (fun _ => NaNv) x
  end.

End Solve.

Arguments Fin {F}. Arguments NaNv {F}.
Arguments mkResult {F}. Arguments r_x {F}. Arguments r_iter {F}. Arguments r_res {F}.
Arguments fin_vals {F}. Arguments is_fin {F}. Arguments all_fin {F}. Arguments xat {F}. Arguments unfin {F}. Arguments lift_cycle {F}.
