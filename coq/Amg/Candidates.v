(* Executable model of raptor's tentative prolongator
     raptor/aggregation/candidates.cpp      fit_candidates (sequential), num_candidates = 1
     raptor/aggregation/par_candidates.cpp  fit_candidates (distributed)
   Definitions only; proofs are in CandidatesProofs.v.

   Sequential code, as written (k = num_candidates = 1, so idx_B = row, idx_R = i, the
   orthogonalisation loop `for k < j` is empty):
     AggOp   = CSR n x n_aggs, row i = [(aggregates[i], 1.0)]          -> to_CSC
     T_csc   : column a = [(row, B[row]) | row in column a of AggOp_csc]
     per column: norm = sqrt(sum val^2); threshold = norm*tol; norm recomputed (unchanged);
                 if (norm > threshold) { scale = 1/norm; R[a] = norm } else { scale = 0; R[a] = 0 }
                 vals *= scale
     T = T_csc->to_CSR()
   Aggregate ids must lie in [0, n_aggs): a negative id makes CSR_to_CSC index idx1[-1]/ctr[-1]
   (undefined behaviour), so the sequential model takes `list nat` and the theorems assume ids < n_aggs.

   Distributed code: aggregate ids are GLOBAL COLUMN indices of the root vertex (what par aggregate()
   returns), negative = not aggregated (row of T empty).  Columns of T keep these global ids
   (on_proc_column_map / off_proc_column_map of T list root ids).  Squared norms of the local parts are
   summed at the owner of the root (communicate_T with sum), R = sqrt, sent back (communicate), every rank
   scales by 1/R.  There is NO threshold branch in the distributed routine (1.0/0.0 for a zero column). *)
From Raptor Require Import Base.Sums Sparse.Defs.

Section Cand.
Variable F : Type.
Variables (zero one : F) (add mul sub : F -> F -> F) (opp : F -> F) (div : F -> F -> F).
Variable sqrt : F -> F.
Variable ltb : F -> F -> bool.

Definition bat (B : list F) (i : nat) : F := nth i B zero.

(* ---------------- sequential ---------------- *)
Definition aggop (n_aggs : nat) (aggs : list nat) : csr F :=
  mkCsr (length aggs) n_aggs (map (fun a => [(a, one)]) aggs).

(* T_csc before normalisation *)
Definition tent_cols (n_aggs : nat) (aggs : list nat) (B : list F) : list (list (nat * F)) :=
  map (fun col => map (fun p => (fst p, bat B (fst p))) col)
      (csc_cols (csr_to_csc (aggop n_aggs aggs))).

(* norm_j += val*val, left to right *)
Definition sumsq (col : list (nat * F)) : F :=
  fold_left (fun acc p => add acc (mul (snd p) (snd p))) col zero.

(* one column: (scaled column, R entry) *)
Definition fit_col (tol : F) (col : list (nat * F)) : list (nat * F) * F :=
  let nrm := sqrt (sumsq col) in
  let threshold := mul nrm tol in
  let nrm2 := sqrt (sumsq col) in
  if ltb threshold nrm2
  then (map (fun p => (fst p, mul (snd p) (div one nrm2))) col, nrm2)
  else (map (fun p => (fst p, mul (snd p) zero)) col, zero).

Definition fit_candidates (n_aggs : nat) (aggs : list nat) (B : list F) (tol : F) : csr F * list F :=
  let cols := map (fit_col tol) (tent_cols n_aggs aggs B) in
  (csc_to_csr (mkCsc (length aggs) n_aggs (map fst cols)), map snd cols).

(* ---------------- distributed: function of the global data and the partition ---------------- *)
(* contiguous blocks *)
Fixpoint split_by {X} (sizes : list nat) (l : list X) : list (list X) :=
  match sizes with
  | [] => []
  | m :: s' => firstn m l :: split_by s' (skipn m l)
  end.
(* a global row: (global index, (aggregate id or None, candidate value)) *)
Definition grow := (nat * (option nat * F))%type.
Definition g_idx (e : grow) : nat := fst e.
Definition g_agg (e : grow) : option nat := fst (snd e).
Definition g_b (e : grow) : F := snd (snd e).
Definition grows (aggs : list (option nat)) (B : list F) : list grow :=
  map (fun ia => (fst ia, (snd ia, bat B (fst ia)))) (indexed aggs).

Definition has_agg (c : nat) (e : grow) : bool :=
  match g_agg e with Some a => a =? c | None => false end.
Definition in_range (f m c : nat) : bool := (f <=? c) && (c <? f + m).

(* R[i] += val*val / off_proc_norms[i] += val*val : the rank's own rows of aggregate c *)
Definition local_sumsq (slice : list grow) (c : nat) : F :=
  fold_left (fun acc e => add acc (mul (g_b e) (g_b e))) (filter (has_agg c) slice) zero.

(* on_proc_column_map of T: the on-process columns flagged by a local row, ascending;
   off_proc_column_map of T: the std::set of ids outside the local range, ascending *)
Definition on_ids (f m : nat) (slice : list grow) : list nat :=
  filter (fun c => existsb (has_agg c) slice) (seq f m).
Definition off_ids (N f m : nat) (slice : list grow) : list nat :=
  filter (fun c => negb (in_range f m c) && existsb (has_agg c) slice) (seq 0 N).

Record rank_in := mkRankIn { ri_first : nat; ri_size : nat; ri_rows : list grow }.
(* rank r owns the contiguous block of sizes[r] rows starting at sizes[0]+...+sizes[r-1] *)
Fixpoint rank_inputs_from (s : nat) (sizes : list nat) (l : list grow) : list rank_in :=
  match sizes with
  | [] => []
  | m :: s' => mkRankIn s m (firstn m l) :: rank_inputs_from (s + m) s' (skipn m l)
  end.
Definition rank_inputs (sizes : list nat) (aggs : list (option nat)) (B : list F) : list rank_in :=
  rank_inputs_from 0 sizes (grows aggs B).

(* what the owner holds after communicate_T(off_proc_norms, R, sum): its own partial sum plus the partial
   sums of every other rank that lists c among its off-process columns *)
Definition total_sumsq (N : nat) (ranks : list rank_in) (r : nat) (c : nat) : F :=
  fold_left (fun acc qr =>
      if fst qr =? r then acc
      else if existsb (Nat.eqb c) (off_ids N (ri_first (snd qr)) (ri_size (snd qr)) (ri_rows (snd qr)))
           then add acc (local_sumsq (ri_rows (snd qr)) c) else acc)
    (indexed ranks)
    (local_sumsq (ri_rows (nth r ranks (mkRankIn 0 0 []))) c).

(* owner of a global column *)
Definition owner_of (ranks : list rank_in) (c : nat) : nat :=
  match filter (fun qr => in_range (ri_first (snd qr)) (ri_size (snd qr)) c) (indexed ranks) with
  | qr :: _ => fst qr
  | [] => 0
  end.
Definition r_of (N : nat) (ranks : list rank_in) (c : nat) : F :=
  sqrt (total_sumsq N ranks (owner_of ranks c) c).

Record rank_out := mkRankOut {
  ro_on : list nat;                   (* T->on_proc_column_map *)
  ro_off : list nat;                  (* T->off_proc_column_map *)
  ro_R : list F;                      (* R (one per local aggregate) *)
  ro_rows : list (nat * list (nat * F))   (* (global row, [(global column, value)]) *)
}.

Definition par_fit_rank (N : nat) (ranks : list rank_in) (r : nat) (ri : rank_in) : rank_out :=
  let on := on_ids (ri_first ri) (ri_size ri) (ri_rows ri) in
  mkRankOut on (off_ids N (ri_first ri) (ri_size ri) (ri_rows ri))
    (map (fun c => sqrt (total_sumsq N ranks r c)) on)
    (map (fun e => (g_idx e,
                    match g_agg e with
                    | Some c => [(c, mul (g_b e) (div one (r_of N ranks c)))]
                    | None => []
                    end)) (ri_rows ri)).

Definition par_fit_candidates (sizes : list nat) (aggs : list (option nat)) (B : list F) : list rank_out :=
  let ranks := rank_inputs sizes aggs B in
  map (fun qr => par_fit_rank (length aggs) ranks (fst qr) (snd qr)) (indexed ranks).

(* the gathered tentative prolongator: all ranks' rows, in rank order, as one CSR with global column ids *)
Definition gather_rows (outs : list rank_out) : list (list (nat * F)) :=
  map snd (flat_map ro_rows outs).
Definition par_fit_T (sizes : list nat) (aggs : list (option nat)) (B : list F) : csr F :=
  mkCsr (length aggs) (length aggs) (gather_rows (par_fit_candidates sizes aggs B)).

End Cand.
