(* Ruge-Stuben (Amg/Split.v): at least one coarse and one fine point when the pattern has an edge.
   The first vertex visited by the first pass has maximal weight (number of points depending on it), so it has
   dependents, which all become fine; fine is final in the first pass; in the second pass the last row that
   is fine when it is visited stays fine. *)
From Coq Require Import List Arith Lia Bool.
Import ListNotations.
From Raptor Require Import Amg.Split Amg.SplitProofs Amg.SplitMisProofs.

(* ---------- only unassigned points change in the first pass ---------- *)
Definition mono (st st' : list label) : Prop :=
  length st' = length st /\ forall v, nth v st LU <> LU -> nth v st' LU = nth v st LU.

Lemma mono_refl st : mono st st.
Proof. split; auto. Qed.
Lemma mono_trans a b c : mono a b -> mono b c -> mono a c.
Proof.
  intros [L1 H1] [L2 H2]. split; [congruence|]. intros v Hv. rewrite H2; [apply H1; exact Hv|].
  rewrite H1; exact Hv.
Qed.
Lemma mono_upd st v l : nth v st LU = LU -> mono st (upd st v l).
Proof.
  intros H. split; [apply upd_length|]. intros u Hu. apply nth_upd_other. intros ->. contradiction.
Qed.

Lemma fold_mono {A B} (f : A -> B -> A) (g : A -> list label) l a :
  (forall a x, mono (g a) (g (f a x))) -> mono (g a) (g (fold_left f l a)).
Proof.
  intros H. revert a. induction l as [|x l IH]; intros a; simpl; [apply mono_refl|].
  eapply mono_trans; [apply H|apply IH].
Qed.

Lemma fp_mark_dep_mono n R s idx : mono (rst s) (rst (fp_mark_dep n R s idx)).
Proof.
  rewrite fp_mark_dep_rst. destruct (label_eqb (nth idx (rst s) LU) LU) eqn:E; [|apply mono_refl].
  apply mono_upd. apply label_eqb_eq. exact E.
Qed.

Lemma fp_step_mono n R CL s i : mono (rst s) (rst (fp_step n R CL s i)).
Proof.
  unfold fp_step. cbn [rst rw rptr rsz ri2c rc2i].
  set (col := nth i (ri2c s) 0).
  destruct (label_eqb (nth col (rst s) LU) LU) eqn:E; [|apply mono_refl].
  rewrite fold_dec_rst.
  eapply mono_trans; [|apply (fold_mono (fp_mark_dep n R) rst); intros; apply fp_mark_dep_mono].
  cbn [set_st rst]. apply mono_upd. apply label_eqb_eq. exact E.
Qed.

(* ---------- the initial bucket order ends with a vertex of maximal weight ---------- *)
Lemma filter_map_key (f : nat -> nat) k l :
  map snd (filter (fun p : nat * nat => fst p =? k) (map (fun c => (f c, c)) l)) = filter (fun c => f c =? k) l.
Proof. induction l as [|x l IH]; simpl; [reflexivity|]. destruct (f x =? k); simpl; rewrite IH; reflexivity. Qed.

Definition wbucket (f : nat -> nat) (n k : nat) : list nat := filter (fun c => f c =? k) (seq 0 n).

Lemma buckets_eq (f : nat -> nat) n :
  group_by n (map (fun c => (f c, c)) (seq 0 n)) = map (wbucket f n) (seq 0 n).
Proof.
  apply (nth_ext _ _ [] []).
  - rewrite group_by_length, map_length, seq_length. reflexivity.
  - intros k Hk. rewrite group_by_length in Hk. rewrite group_by_nth by exact Hk.
    rewrite filter_map_key.
    rewrite (nth_indep _ [] (wbucket f n 0)) by (rewrite map_length, seq_length; exact Hk).
    rewrite map_nth, seq_nth by exact Hk. reflexivity.
Qed.

Lemma concat_buckets_nil (f : nat -> nat) n a len :
  (forall c, c < n -> f c < a) -> concat (map (wbucket f n) (seq a len)) = [].
Proof.
  revert a. induction len as [|len IH]; intros a H; simpl; [reflexivity|].
  rewrite IH by (intros c Hc; specialize (H c Hc); lia). rewrite app_nil_r.
  unfold wbucket. destruct (filter (fun c => f c =? a) (seq 0 n)) as [|x l] eqn:E; [reflexivity|].
  exfalso. assert (Hx : In x (filter (fun c => f c =? a) (seq 0 n))) by (rewrite E; left; reflexivity).
  apply filter_In in Hx. destruct Hx as [H1 H2]. apply in_seq in H1. apply Nat.eqb_eq in H2.
  specialize (H x). lia.
Qed.

Lemma filter_split_len (f : nat -> nat) m (l : list nat) :
  length (filter (fun c => f c <? m) l) + length (filter (fun c => f c =? m) l) =
  length (filter (fun c => f c <? S m) l).
Proof.
  induction l as [|x l IH]; [reflexivity|]. cbn [filter].
  destruct (Nat.ltb_spec (f x) m); destruct (Nat.eqb_spec (f x) m); destruct (Nat.ltb_spec (f x) (S m));
    cbn [length]; lia.
Qed.

Lemma concat_buckets_length (f : nat -> nat) (l : list nat) m :
  length (concat (map (fun k => filter (fun c => f c =? k) l) (seq 0 m))) = length (filter (fun c => f c <? m) l).
Proof.
  induction m as [|m IH].
  - simpl. induction l as [|x l IHl]; simpl; [reflexivity|exact IHl].
  - rewrite seq_S, map_app, concat_app, app_length, IH. simpl. rewrite app_nil_r. apply filter_split_len.
Qed.

Lemma filter_all {A} (p : A -> bool) l : (forall x, In x l -> p x = true) -> filter p l = l.
Proof.
  induction l as [|x l IH]; intros H; simpl; [reflexivity|].
  rewrite (H x (or_introl eq_refl)). f_equal. apply IH. intros y Hy. apply H. right; exact Hy.
Qed.

Lemma max_weight (f : nat -> nat) n : 0 < n -> exists c, c < n /\ forall d, d < n -> f d <= f c.
Proof.
  induction n as [|n IH]; [lia|]. intros _. destruct n as [|n].
  - exists 0. split; [lia|]. intros d Hd. replace d with 0 by lia. lia.
  - destruct IH as [c [Hc Hm]]; [lia|].
    destruct (le_lt_dec (f (S n)) (f c)) as [H|H].
    + exists c. split; [lia|]. intros d Hd. destruct (Nat.eq_dec d (S n)); [subst; exact H|apply Hm; lia].
    + exists (S n). split; [lia|]. intros d Hd. destruct (Nat.eq_dec d (S n)); [subst; lia|]. specialize (Hm d). lia.
Qed.

(* the column at the last position of the initial order is in range and has maximal weight *)
Lemma init_order_last (f : nat -> nat) n : 0 < n -> (forall c, c < n -> f c < n) ->
  let i2c := concat (group_by n (map (fun c => (f c, c)) (seq 0 n))) in
  length i2c = n /\ nth (n - 1) i2c 0 < n /\ forall d, d < n -> f d <= f (nth (n - 1) i2c 0).
Proof.
  intros Hn Hf i2c. unfold i2c. rewrite buckets_eq.
  assert (HL : length (concat (map (wbucket f n) (seq 0 n))) = n).
  { unfold wbucket. rewrite concat_buckets_length. rewrite filter_all; [apply seq_length|].
    intros x Hx. apply in_seq in Hx. apply Nat.ltb_lt. apply Hf. lia. }
  split; [exact HL|].
  destruct (max_weight f n Hn) as [c [Hc Hm]].
  set (M := f c). assert (HM : M < n) by (apply Hf; exact Hc).
  assert (Hsplit : seq 0 n = seq 0 M ++ M :: seq (S M) (n - S M)).
  { replace n with (M + S (n - S M)) at 1 by lia. rewrite seq_app. simpl. reflexivity. }
  assert (Hc2 : concat (map (wbucket f n) (seq 0 n)) = concat (map (wbucket f n) (seq 0 M)) ++ wbucket f n M).
  { rewrite Hsplit at 1. rewrite map_app, concat_app. simpl.
    rewrite (concat_buckets_nil f n (S M)) by (intros d Hd; specialize (Hm d Hd); unfold M; lia).
    rewrite app_nil_r. reflexivity. }
  assert (HB : In c (wbucket f n M)).
  { unfold wbucket. apply filter_In. split; [apply in_seq; lia|]. apply Nat.eqb_refl. }
  destruct (exists_last (l := wbucket f n M)) as [l' [z Hz]]; [intros E; rewrite E in HB; destruct HB|].
  assert (Hzin : In z (wbucket f n M)) by (rewrite Hz; apply in_or_app; right; left; reflexivity).
  unfold wbucket in Hzin. apply filter_In in Hzin. destruct Hzin as [Z1 Z2]. apply in_seq in Z1. apply Nat.eqb_eq in Z2.
  assert (Hnth : nth (n - 1) (concat (map (wbucket f n) (seq 0 n))) 0 = z).
  { rewrite <- HL at 1. rewrite Hc2, Hz, app_assoc. rewrite app_length. simpl.
    replace (length (concat (map (wbucket f n) (seq 0 M)) ++ l') + 1 - 1) with
            (length (concat (map (wbucket f n) (seq 0 M)) ++ l')) by lia.
    rewrite app_nth2 by lia. rewrite Nat.sub_diag. reflexivity. }
  rewrite Hnth. split; [lia|]. intros d Hd. rewrite Z2. apply Hm. exact Hd.
Qed.

(* ---------- first pass: the first visited vertex becomes coarse, its first dependent fine ---------- *)
Lemma rev_seq_S m : rev (seq 0 (S m)) = m :: rev (seq 0 m).
Proof. rewrite seq_S, rev_app_distr. reflexivity. Qed.

Lemma first_pass_coarse_fine (G : graph) :
  graph_wfb G = true ->
  (forall c, c < length G -> length (nth c (col_lists (off_rows G)) []) < length G) ->
  (forall i, ~ In i (nth i (off_rows G) [])) ->
  (exists u t, In t (nth u (off_rows G) [])) ->
  let st := split_rs_gen G None false in
  length st = length G /\
  exists c f, c < length G /\ f < length G /\ nth c st LU = LC /\ nth f st LU = LF.
Proof.
  intros Hwf Hdeg Hself [u [t Hut]] st.
  set (R := off_rows G) in *. set (CL := col_lists R) in *. remember (length G) as n eqn:En.
  assert (HLR : length R = n) by (unfold R; rewrite En; apply off_rows_length).
  assert (Hu : u < n).
  { destruct (Nat.lt_ge_cases u n) as [H|H]; [exact H|].
    rewrite nth_overflow in Hut by (rewrite HLR; exact H). destruct Hut. }
  assert (Ht : t < n) by (rewrite <- HLR; apply (off_rows_wf G Hwf u t Hut)).
  assert (HutC : In u (nth t CL [])) by (apply In_col_lists; rewrite HLR; auto).
  destruct n as [|m]; [lia|]. change (S m) with (1+m) in *.
  set (w0 := map (@length nat) CL).
  set (f := fun c => nth c w0 0).
  assert (Hf : forall c, f c = length (nth c CL [])).
  { intros c. unfold f, w0. change 0 with (length (@nil nat)). apply map_nth. }
  destruct (init_order_last f ((1+m))) as [HL [Hcol Hmax]]; [lia| |].
  { intros c Hc. rewrite Hf. apply Hdeg. exact Hc. }
  set (col := nth ((1+m) - 1) (concat (group_by ((1+m)) (map (fun c => (f c, c)) (seq 0 ((1+m)))))) 0) in *.
  (* the column list of col is not empty *)
  assert (Hne : 1 <= length (nth col CL [])).
  { rewrite <- Hf. specialize (Hmax t Ht). rewrite (Hf t) in Hmax.
    destruct (nth t CL []); [destruct HutC|]. simpl in Hmax. lia. }
  destruct (nth col CL []) as [|x l] eqn:ECL; [simpl in Hne; lia|].
  assert (Hx : x < (1+m) /\ In col (nth x R [])).
  { assert (H : In x (nth col CL [])) by (rewrite ECL; left; reflexivity).
    apply In_col_lists in H. rewrite HLR in H. tauto. }
  assert (Hxc : x <> col) by (intros ->; apply (Hself col); tauto).
  (* unfold the pass: first step, then the rest *)
  assert (Est : st = rst (rs_first_pass ((1+m)) R CL w0 (repeat LU ((1+m))))).
  { unfold st, split_rs_gen. fold R. fold CL. fold w0. rewrite <- En. reflexivity. }
  unfold rs_first_pass in Est. rewrite rev_seq_S in Est. cbn [fold_left] in Est.
  set (s0 := rs_init ((1+m)) w0 (repeat LU ((1+m)))) in Est.
  set (s1 := fp_step ((1+m)) R CL s0 m) in Est.
  assert (H1 : length (rst s1) = (1+m) /\ nth col (rst s1) LU = LC /\ nth x (rst s1) LU = LF).
  { unfold s1, fp_step. cbn [rst rw rptr rsz ri2c rc2i].
    assert (Ecol : nth m (ri2c s0) 0 = col).
    { unfold s0, rs_init. cbn [ri2c]. unfold col. replace ((1+m) - 1) with m by lia. reflexivity. }
    rewrite Ecol. assert (Est0 : rst s0 = repeat LU ((1+m))) by reflexivity. rewrite Est0.
    rewrite nth_repeat. cbn [label_eqb]. rewrite fold_dec_rst. rewrite ECL. cbn [fold_left].
    match goal with |- context [fp_mark_dep _ _ ?t0 x] => set (sA := t0) end.
    assert (EA : rst sA = upd (repeat LU ((1+m))) col LC) by reflexivity.
    set (sB := fp_mark_dep ((1+m)) R sA x).
    assert (EB : rst sB = upd (rst sA) x LF).
    { unfold sB. rewrite fp_mark_dep_rst. rewrite EA. rewrite nth_upd_other by (intros E; apply Hxc; auto).
      rewrite nth_repeat. reflexivity. }
    assert (HB : length (rst sB) = (1+m) /\ nth col (rst sB) LU = LC /\ nth x (rst sB) LU = LF).
    { rewrite EB, EA. rewrite !upd_length, repeat_length. split; [reflexivity|]. split.
      - rewrite nth_upd_other by exact Hxc. apply nth_upd_same. rewrite repeat_length. exact Hcol.
      - apply nth_upd_same. rewrite upd_length, repeat_length. tauto. }
    destruct HB as [B1 [B2 B3]].
    destruct (fold_mono (fp_mark_dep ((1+m)) R) rst l sB) as [M1 M2]; [intros; apply fp_mark_dep_mono|].
    split; [congruence|]. split; (rewrite M2; [assumption|congruence]). }
  destruct H1 as [A1 [A2 A3]].
  destruct (fold_mono (fp_step ((1+m)) R CL) rst (rev (seq 0 m)) s1) as [M1 M2]; [intros; apply fp_step_mono|].
  rewrite Est. split; [congruence|]. exists col, x. split; [exact Hcol|]. split; [tauto|].
  split; (rewrite M2; [assumption|congruence]).
Qed.

(* ---------- states stay in {unassigned, coarse, fine} when the pass starts from all-unassigned ---------- *)
Definition tri (st : list label) : Prop := forall v, nth v st LU = LU \/ nth v st LU = LC \/ nth v st LU = LF.

Lemma tri_upd st v l : tri st -> l = LC \/ l = LF -> tri (upd st v l).
Proof.
  intros H Hl u. rewrite nth_upd. destruct ((v =? u) && (v <? length st)); [|apply H].
  destruct Hl; subst; auto.
Qed.

Lemma fp_step_tri n R CL s i : tri (rst s) -> tri (rst (fp_step n R CL s i)).
Proof.
  intros H. unfold fp_step. cbn [rst rw rptr rsz ri2c rc2i].
  set (col := nth i (ri2c s) 0).
  destruct (label_eqb (nth col (rst s) LU) LU); [|exact H].
  rewrite fold_dec_rst.
  apply (fold_left_inv (fun s' => tri (rst s'))).
  - cbn [set_st rst]. apply tri_upd; auto.
  - intros a x _ Ha. rewrite fp_mark_dep_rst. destruct (label_eqb (nth x (rst a) LU) LU); [|exact Ha].
    apply tri_upd; auto.
Qed.

Lemma first_pass_tri n R CL w : tri (rst (rs_first_pass n R CL w (repeat LU n))).
Proof.
  unfold rs_first_pass. apply (fold_left_inv (fun s => tri (rst s))).
  - unfold rs_init. cbn [rst]. intros v. left. apply nth_repeat.
  - intros a x _ Ha. apply fp_step_tri. exact Ha.
Qed.

(* ---------- second pass ---------- *)
Definition rel2 (st st' : list label) : Prop :=
  length st' = length st /\ forall v, nth v st' LU = nth v st LU \/ (nth v st LU = LF /\ nth v st' LU = LC).

Lemma rel2_refl st : rel2 st st.
Proof. split; auto. Qed.
Lemma rel2_trans a b c : rel2 a b -> rel2 b c -> rel2 a c.
Proof.
  intros [L1 H1] [L2 H2]. split; [congruence|]. intros v.
  destruct (H1 v) as [A|[A1 A2]]; destruct (H2 v) as [B|[B1 B2]].
  - left; congruence.
  - right; split; congruence.
  - right; split; congruence.
  - congruence.
Qed.

Lemma fold_rel2 {A B} (f : A -> B -> A) (g : A -> list label) l a :
  (forall a x, rel2 (g a) (g (f a x))) -> rel2 (g a) (g (fold_left f l a)).
Proof.
  intros H. revert a. induction l as [|x l IH]; intros a; simpl; [apply rel2_refl|].
  eapply rel2_trans; [apply H|apply IH].
Qed.

Lemma sp_check_rel2 FR i p col : rel2 (snd p) (snd (sp_check FR i p col)).
Proof.
  destruct p as [rc st]. unfold sp_check. cbn [snd].
  destruct (label_eqb (nth col st LU) LF) eqn:E; [|apply rel2_refl].
  destruct (nth col FR []); [apply rel2_refl|]. destruct (existsb _ _); [apply rel2_refl|]. cbn [snd].
  apply label_eqb_eq in E. split; [apply upd_length|]. intros v. rewrite nth_upd.
  destruct ((col =? v) && (col <? length st)) eqn:E2; [|auto].
  apply andb_true_iff in E2. destruct E2 as [E2 _]. apply Nat.eqb_eq in E2. subst v. right. auto.
Qed.

Lemma sp_row_rel2 FR p i : rel2 (snd p) (snd (sp_row FR p i)).
Proof.
  destruct p as [rc st]. unfold sp_row. destruct (label_eqb (nth i st LU) LC); [apply rel2_refl|].
  match goal with |- rel2 _ (snd (fold_left ?f ?l ?a)) => change (snd (rc, st)) with (snd a); apply (fold_rel2 f snd l a) end.
  intros a x. apply sp_check_rel2.
Qed.

Lemma second_pass_rel2 FR st : rel2 st (rs_second_pass FR st).
Proof.
  unfold rs_second_pass.
  match goal with |- rel2 _ (snd (fold_left ?f ?l ?a)) => change st with (snd a) at 1; apply (fold_rel2 f snd l a) end.
  intros a x. apply sp_row_rel2.
Qed.

Lemma sp_check_fst_length FR i p col : length (fst (sp_check FR i p col)) = length (fst p).
Proof.
  destruct p as [rc st]. unfold sp_check. cbn [fst].
  destruct (label_eqb (nth col st LU) LF); [|reflexivity].
  destruct (nth col FR []); [reflexivity|]. destruct (existsb _ _); [reflexivity|]. cbn [fst]. apply upd_length.
Qed.

(* a fine row with a coarse neighbour is not promoted while it is being processed *)
Lemma sp_row_keeps_fine FR rc st k c :
  k < length st -> c < length rc -> In c (nth k FR []) ->
  nth k st LU = LF -> nth c st LU = LC ->
  nth k (snd (sp_row FR (rc, st) k)) LU = LF.
Proof.
  intros Hk Hc Hin HF HC. unfold sp_row. rewrite HF. cbn [label_eqb].
  set (row := nth k FR []) in *.
  set (f1 := fun rc col => if label_eqb (nth col st LU) LC then upd rc col (Some k) else rc).
  assert (H1 : forall l rc0, nth c rc0 None = Some k -> nth c (fold_left f1 l rc0) None = Some k).
  { intros l rc0 H0. apply (fold_left_inv (fun r => nth c r None = Some k)); [exact H0|].
    intros r x _ Hr. unfold f1. destruct (label_eqb (nth x st LU) LC); [|exact Hr].
    rewrite nth_upd. destruct ((x =? c) && (x <? length r)); [reflexivity|exact Hr]. }
  assert (H2 : forall l rc0, In c l -> c < length rc0 -> nth c (fold_left f1 l rc0) None = Some k).
  { induction l as [|x l IH]; intros rc0 Hi Hl; [destruct Hi|]. simpl. destruct Hi as [E|Hi].
    - subst x. apply H1. unfold f1. rewrite HC. cbn [label_eqb]. apply nth_upd_same. exact Hl.
    - apply IH; [exact Hi|]. unfold f1. destruct (label_eqb (nth x st LU) LC); [rewrite upd_length|]; exact Hl. }
  set (rc1 := fold_left f1 row rc).
  assert (R1 : nth c rc1 None = Some k) by (apply H2; assumption).
  apply (fold_left_inv (fun p => nth c (fst p) None = Some k /\ nth c (snd p) LU = LC /\ nth k (snd p) LU = LF)
                       (sp_check FR k) row (rc1, st)); [cbn; auto|].
  intros [rc' st'] col _ [J1 [J2 J3]]. cbn [fst snd] in *. unfold sp_check.
  destruct (label_eqb (nth col st' LU) LF) eqn:E; [|cbn; auto].
  destruct (nth col FR []) as [|y ys] eqn:ER; [cbn; auto|].
  destruct (existsb (fun ck => opt_is (nth ck rc' None) k) (y :: ys)) eqn:EX; [cbn; auto|].
  apply label_eqb_eq in E. cbn [fst snd].
  assert (Hck : col <> k).
  { intros ->. fold row in ER. rewrite ER in Hin.
    assert (HX : existsb (fun ck => opt_is (nth ck rc' None) k) (y :: ys) = true).
    { apply existsb_exists. exists c. split; [exact Hin|]. rewrite J1. simpl. apply Nat.eqb_refl. }
    congruence. }
  assert (Hcc : col <> c) by (intros ->; congruence).
  rewrite !nth_upd_other by assumption. auto.
Qed.

Lemma second_pass_keeps_a_fine (G : graph) st :
  graph_wfb G = true -> length st = length G ->
  fhc (off_rows G) (repeat LU (length G)) st ->
  (forall v, v < length G -> nth v st LU = LC \/ nth v st LU = LF) ->
  (exists f, f < length G /\ nth f st LU = LF) ->
  exists f, f < length G /\ nth f (rs_second_pass (full_rows G) st) LU = LF.
Proof.
  intros Hwf HL Hfhc Htot Hex. unfold rs_second_pass. rewrite full_rows_length.
  set (n := length G) in *. set (FR := full_rows G). set (R := off_rows G) in *.
  assert (K : let p := fold_left (sp_row FR) (seq 0 n) (repeat None n, st) in
              length (fst p) = n /\ length (snd p) = n /\ fhc R (repeat LU n) (snd p) /\
              (forall v, v < n -> nth v (snd p) LU = LC \/ nth v (snd p) LU = LF) /\
              exists f, f < n /\ nth f (snd p) LU = LF).
  { apply (fold_left_inv (fun p => length (fst p) = n /\ length (snd p) = n /\ fhc R (repeat LU n) (snd p) /\
              (forall v, v < n -> nth v (snd p) LU = LC \/ nth v (snd p) LU = LF) /\
              exists f, f < n /\ nth f (snd p) LU = LF)).
    - cbn [fst snd]. rewrite repeat_length. auto.
    - intros [rc st'] k Hk [A [B [C [D E]]]]. cbn [fst snd] in *. apply in_seq in Hk.
      pose proof (sp_row_rel2 FR (rc, st') k) as [RL RV]. cbn [snd] in RL, RV.
      pose proof (sp_row_fhc R (repeat LU n) FR (rc, st') k C) as C'.
      assert (A' : length (fst (sp_row FR (rc, st') k)) = n).
      { unfold sp_row. destruct (label_eqb (nth k st' LU) LC); [exact A|].
        apply (fold_left_inv (fun p => length (fst p) = n)).
        - cbn [fst]. apply (fold_left_inv (fun r => length r = n)); [exact A|].
          intros r x _ Hr. destruct (label_eqb (nth x st' LU) LC); [rewrite upd_length|]; exact Hr.
        - intros p x _ Hp. rewrite sp_check_fst_length. exact Hp. }
      split; [exact A'|]. split; [congruence|]. split; [exact C'|]. split.
      + intros v Hv. destruct (RV v) as [H|[_ H]]; [rewrite H; apply D; exact Hv|left; exact H].
      + destruct (D k) as [HC|HF]; [lia| |].
        * (* coarse row: skipped *)
          destruct E as [f [Hf1 Hf2]]. exists f. split; [exact Hf1|].
          unfold sp_row. rewrite HC. cbn [label_eqb snd]. exact Hf2.
        * (* fine row: stays fine *)
          exists k. split; [lia|].
          destruct (C k HF) as [Hi|[c [Hc1 Hc2]]]; [rewrite nth_repeat in Hi; discriminate|].
          apply (sp_row_keeps_fine FR rc st' k c); try assumption; try lia.
          -- rewrite A. unfold n. rewrite <- (off_rows_length G). apply (off_rows_wf G Hwf k c Hc1).
          -- unfold FR. rewrite nth_full_rows by lia. unfold R in Hc1. rewrite nth_off_rows in Hc1 by lia.
             apply In_offd in Hc1. exact Hc1. }
  destruct K as [_ [_ [_ [_ E]]]]. exact E.
Qed.

(* Ruge-Stuben on a pattern with an edge: at least one coarse point; at least one fine point provided the first
   pass leaves no point unassigned *)
Theorem rs_coarse_and_fine (G : graph) :
  graph_wfb G = true ->
  (forall c, c < length G -> length (nth c (col_lists (off_rows G)) []) < length G) ->
  (forall i, ~ In i (nth i (off_rows G) [])) ->
  (exists u t, In t (nth u (off_rows G) [])) ->
  (exists c, c < length G /\ nth c (split_rs G) LU = LC) /\
  ((forall v, v < length G -> nth v (split_rs_gen G None false) LU <> LU) ->
   exists f, f < length G /\ nth f (split_rs G) LU = LF).
Proof.
  intros Hwf Hdeg Hself Hedge.
  destruct (first_pass_coarse_fine G Hwf Hdeg Hself Hedge) as [HL [c [f [Hc [Hf [HC HF]]]]]].
  set (st1 := split_rs_gen G None false) in *.
  assert (E : split_rs G = rs_second_pass (full_rows G) st1) by reflexivity.
  rewrite E. split.
  - exists c. split; [exact Hc|]. destruct (second_pass_rel2 (full_rows G) st1) as [_ RV].
    destruct (RV c) as [H|[H _]]; congruence.
  - intros Htot. apply second_pass_keeps_a_fine; try assumption.
    + (* fine has coarse after the first pass *)
      intros v Hv. destruct (rs_fine_has_coarse G None false v I Hv) as [[]|H]. right. exact H.
    + intros v Hv. specialize (Htot v Hv).
      assert (T : tri st1) by (unfold st1, split_rs_gen; apply first_pass_tri).
      destruct (T v) as [H|H]; [contradiction|exact H].
    + exists f. auto.
Qed.
