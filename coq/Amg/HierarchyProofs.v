(* Proofs about the setup-loop model of Amg/Hierarchy.v (part A) and soundness of the hierarchy
   checker hier_ok (part B). *)
From Raptor Require Import Base.Sums Sparse.Defs Sparse.ConvertProofs Amg.Hierarchy.

(* ------------------------------------------------------------------------------------------ *)
(* Part A: the loop *)
Section LoopProofs.
Variable F : Type.
Variables (zero one : F) (add mul sub : F -> F -> F) (opp : F -> F).
Variable Fth : ring_theory zero one add mul sub opp (@eq F).
Variable small : F -> bool.
Add Ring FringH : Fth.

Notation csrF := (csr F).
Notation sumF := (sumf F zero add).
Notation den := (den_csr F zero add).
Notation dropF := (drop F zero small).

Variable spgemm : csrF -> csrF -> csrF.
Variable spgemm_T : csrF -> csrF -> csrF.
Variable prep finish : csrF -> csrF.
Variable coarsen : nat -> csrF -> list nat -> option (csrF * list nat).
Variable max_coarse : nat.
Variable max_levels : option nat.

Notation extendM := (extend spgemm spgemm_T finish coarsen).
Notation setup_fromM := (setup_from spgemm spgemm_T finish coarsen max_coarse max_levels).
Notation contM := (continue_cond max_coarse max_levels).

(* den-specifications of the two products (C06), of the format passes (C07), and the dimension contract of
   the coarsening stage (C12 / C13 / C15 / C16) *)
Definition spgemm_spec : Prop := forall A B, csr_wf A -> csr_wf B -> csr_nc A = csr_nr B ->
  csr_wf (spgemm A B) /\ csr_nr (spgemm A B) = csr_nr A /\ csr_nc (spgemm A B) = csr_nc B /\
  forall i j, den (spgemm A B) i j =
              dropF (sumF (map (fun k => mul (den A i k) (den B k j)) (seq 0 (csr_nr B)))).
Definition spgemm_T_spec : Prop := forall P B, csr_wf P -> csr_wf B -> csr_nr P = csr_nr B ->
  csr_wf (spgemm_T P B) /\ csr_nr (spgemm_T P B) = csr_nc P /\ csr_nc (spgemm_T P B) = csr_nc B /\
  forall i j, den (spgemm_T P B) i j =
              dropF (sumF (map (fun k => mul (den P k i) (den B k j)) (seq 0 (csr_nr P)))).
Definition pass_spec (f : csrF -> csrF) : Prop := forall A, csr_wf A ->
  csr_wf (f A) /\ csr_nr (f A) = csr_nr A /\ csr_nc (f A) = csr_nc A /\ forall i j, den (f A) i j = den A i j.
Definition coarsen_spec : Prop := forall l A part P pc, coarsen l A part = Some (P, pc) ->
  csr_wf A -> csr_nr A = csr_nc A -> list_sum part = csr_nr A ->
  csr_wf P /\ csr_nr P = csr_nr A /\ list_sum pc = csr_nc P /\ length pc = length part.

(* invariants of a level *)
Definition lvl_wf (L : level F) : Prop :=
  csr_wf (lv_A L) /\ csr_nr (lv_A L) = csr_nc (lv_A L) /\ list_sum (lv_part L) = csr_nr (lv_A L).
Definition vec_ok (L : level F) : Prop :=
  lv_x L = mkV (csr_nr (lv_A L)) (lv_part L) /\ lv_b L = mkV (csr_nr (lv_A L)) (lv_part L) /\
  lv_tmp L = mkV (csr_nr (lv_A L)) (lv_part L).

(* what one pass of the while loop does to levels[l] = L, giving levels[l+1] = L' *)
Definition step_rel (l : nat) (L L' : level F) : Prop :=
  exists P pc, coarsen l (lv_A L) (lv_part L) = Some (P, pc) /\ lv_P L = Some P /\
    lv_A L' = finish (spgemm_T P (spgemm (lv_A L) P)) /\ lv_part L' = pc /\
    contM (csr_nr (lv_A L)) (S l) = true.

Inductive chain : nat -> level F -> list (level F) -> Prop :=
| chain_last l cur : contM (csr_nr (lv_A cur)) (S l) = false -> chain l cur [cur]
| chain_step l cur cur' nxt ls : contM (csr_nr (lv_A cur)) (S l) = true ->
    extendM l cur = Some (cur', nxt) -> chain (S l) nxt ls -> chain l cur (cur' :: ls).

Lemma chain_of_setup fuel : forall l cur ls, setup_fromM fuel l cur = Some ls -> chain l cur ls.
Proof.
  induction fuel as [|f IH]; intros l cur ls H; cbn [setup_from] in H.
  - destruct (contM (csr_nr (lv_A cur)) (S l)) eqn:E; [discriminate|].
    inversion H; subst. apply chain_last; exact E.
  - destruct (contM (csr_nr (lv_A cur)) (S l)) eqn:E.
    + destruct (extendM l cur) as [[cur' nxt]|] eqn:Ex; [|discriminate].
      destruct (setup_fromM f (S l) nxt) as [ls'|] eqn:Er; [|discriminate].
      inversion H; subst. eapply chain_step; eauto.
    + inversion H; subst. apply chain_last; exact E.
Qed.

Lemma extend_inv l cur cur' nxt : extendM l cur = Some (cur', nxt) ->
  exists P pc, coarsen l (lv_A cur) (lv_part cur) = Some (P, pc) /\
    cur' = mkLevel (lv_A cur) (Some P) (lv_part cur) (lv_x cur) (lv_b cur) (lv_tmp cur) /\
    nxt = new_level (finish (spgemm_T P (spgemm (lv_A cur) P))) pc.
Proof.
  unfold extend. destruct (coarsen l (lv_A cur) (lv_part cur)) as [[P pc]|] eqn:E; [|discriminate].
  intros H; inversion H; subst. exists P, pc. repeat split.
Qed.

(* the head of the chain is cur, possibly with its P filled in *)
Lemma chain_head l cur ls : chain l cur ls ->
  exists hd tl, ls = hd :: tl /\ lv_A hd = lv_A cur /\ lv_part hd = lv_part cur /\
    lv_x hd = lv_x cur /\ lv_b hd = lv_b cur /\ lv_tmp hd = lv_tmp cur.
Proof.
  intros H; inversion H; subst.
  - exists cur, []. repeat split.
  - apply extend_inv in H1. destruct H1 as (P & pc & _ & -> & _). eexists _, _. repeat split.
Qed.

Lemma chain_nth_step l cur ls : chain l cur ls -> forall k L L',
  nth_error ls k = Some L -> nth_error ls (S k) = Some L' -> step_rel (l + k) L L'.
Proof.
  induction 1 as [l cur E|l cur cur' nxt ls E Ex Hc IH]; intros k L L' H1 H2.
  - destruct k; simpl in H2; [discriminate|]. destruct k; discriminate.
  - destruct k as [|k].
    + simpl in H1, H2. inversion H1; subst L. clear H1.
      apply extend_inv in Ex. destruct Ex as (P & pc & Hco & -> & ->).
      destruct (chain_head _ _ _ Hc) as (hd & tl & -> & HA & Hp & _).
      simpl in H2. inversion H2; subst L'.
      exists P, pc. rewrite Nat.add_0_r. cbn [lv_A lv_part lv_P]. rewrite HA, Hp.
      repeat split; try assumption.
    + simpl in H1, H2. replace (l + S k) with (S l + k) by lia. eapply IH; eauto.
Qed.

Lemma chain_nth_last l cur ls : chain l cur ls -> lv_P cur = None -> forall k L,
  nth_error ls k = Some L -> nth_error ls (S k) = None ->
  contM (csr_nr (lv_A L)) (S (l + k)) = false /\ lv_P L = None.
Proof.
  induction 1 as [l cur E|l cur cur' nxt ls E Ex Hc IH]; intros HP k L H1 H2.
  - destruct k; simpl in H1; [|destruct k; discriminate].
    inversion H1; subst. rewrite Nat.add_0_r. split; assumption.
  - destruct k as [|k].
    + destruct (chain_head _ _ _ Hc) as (hd & tl & -> & _). simpl in H2. discriminate.
    + simpl in H1, H2. replace (l + S k) with (S l + k) by lia.
      apply extend_inv in Ex. destruct Ex as (P & pc & _ & _ & ->).
      eapply IH; eauto.
Qed.

(* number of levels *)
Lemma chain_length l cur ls : chain l cur ls ->
  1 <= length ls /\ forall m, max_levels = Some m -> l + length ls <= Nat.max (S l) m.
Proof.
  induction 1 as [l cur E|l cur cur' nxt ls E Ex Hc IH]; cbn [length].
  - split; [lia|]. intros m _. lia.
  - split; [lia|]. intros m Hm. destruct IH as [_ IH]. specialize (IH m Hm).
    unfold continue_cond in E. rewrite Hm in E. apply andb_prop in E. destruct E as [_ E].
    apply Nat.ltb_lt in E. lia.
Qed.

(* invariants along the chain *)
Hypothesis Hmm : spgemm_spec.
Hypothesis HmmT : spgemm_T_spec.
Hypothesis Hfinish : pass_spec finish.
Hypothesis Hcoarsen : coarsen_spec.

Lemma new_level_ok A part : csr_wf A -> csr_nr A = csr_nc A -> list_sum part = csr_nr A ->
  lvl_wf (new_level A part) /\ vec_ok (new_level A part) /\ lv_P (new_level A part) = None.
Proof.
  intros H1 H2 H3. unfold lvl_wf, vec_ok, new_level. cbn [lv_A lv_part lv_x lv_b lv_tmp lv_P].
  split; [split; [exact H1|split; [exact H2|exact H3]]|].
  split; [split; [reflexivity|split; reflexivity]|reflexivity].
Qed.

Lemma extend_ok l cur cur' nxt : extendM l cur = Some (cur', nxt) -> lvl_wf cur -> vec_ok cur ->
  lvl_wf cur' /\ vec_ok cur' /\ lvl_wf nxt /\ vec_ok nxt /\ lv_P nxt = None /\
  csr_nr (lv_A nxt) = match lv_P cur' with Some P => csr_nc P | None => 0 end.
Proof.
  intros Ex (Hwf & Hsq & Hsum) Hv.
  apply extend_inv in Ex. destruct Ex as (P & pc & Hco & -> & ->).
  destruct (Hcoarsen _ _ _ _ _ Hco Hwf Hsq Hsum) as (HwP & HrP & HsP & _).
  destruct (Hmm (lv_A cur) P Hwf HwP) as (HwAP & HrAP & HcAP & _); [congruence|].
  destruct (HmmT P (spgemm (lv_A cur) P) HwP HwAP) as (HwT & HrT & HcT & _); [congruence|].
  destruct (Hfinish _ HwT) as (HwF & HrF & HcF & _).
  split; [split; [exact Hwf|split; [exact Hsq|exact Hsum]]|]. split; [exact Hv|].
  assert (Hnl : lvl_wf (new_level (finish (spgemm_T P (spgemm (lv_A cur) P))) pc) /\
                vec_ok (new_level (finish (spgemm_T P (spgemm (lv_A cur) P))) pc) /\
                lv_P (new_level (finish (spgemm_T P (spgemm (lv_A cur) P))) pc) = None).
  { apply new_level_ok; congruence. }
  destruct Hnl as (H1 & H2 & H3).
  split; [exact H1|]. split; [exact H2|]. split; [exact H3|].
  cbn [new_level lv_A lv_P]. congruence.
Qed.

Lemma chain_invariants l cur ls : chain l cur ls -> lvl_wf cur -> vec_ok cur ->
  Forall (fun L => lvl_wf L /\ vec_ok L) ls.
Proof.
  induction 1 as [l cur E|l cur cur' nxt ls E Ex Hc IH]; intros Hw Hv.
  - constructor; [split; assumption|constructor].
  - destruct (extend_ok _ _ _ _ Ex Hw Hv) as (H1 & H2 & H3 & H4 & _).
    constructor; [split; assumption|]. apply IH; assumption.
Qed.

(* the Galerkin identity of one step, in the two-drop form *)
Lemma step_galerkin l L L' : step_rel l L L' -> lvl_wf L ->
  exists P, lv_P L = Some P /\ csr_wf P /\ csr_nr P = csr_nr (lv_A L) /\ csr_nc P = csr_nr (lv_A L') /\
    csr_nc P = csr_nc (lv_A L') /\ csr_wf (lv_A L') /\
    forall i j, den (lv_A L') i j =
      dropF (sumF (map (fun k => mul (den P k i)
               (dropF (sumF (map (fun m => mul (den (lv_A L) k m) (den P m j)) (seq 0 (csr_nr (lv_A L)))))))
               (seq 0 (csr_nr (lv_A L))))).
Proof.
  intros (P & pc & Hco & HP & HA' & _ & _) (Hwf & Hsq & Hsum).
  destruct (Hcoarsen _ _ _ _ _ Hco Hwf Hsq Hsum) as (HwP & HrP & _ & _).
  destruct (Hmm (lv_A L) P Hwf HwP) as (HwAP & HrAP & HcAP & HdAP); [congruence|].
  destruct (HmmT P (spgemm (lv_A L) P) HwP HwAP) as (HwT & HrT & HcT & HdT); [congruence|].
  destruct (Hfinish _ HwT) as (HwF & HrF & HcF & HdF).
  exists P. rewrite HA'.
  split; [exact HP|]. split; [exact HwP|]. split; [exact HrP|]. split; [congruence|]. split; [congruence|].
  split; [exact HwF|].
  intros i j. rewrite HdF, HdT. f_equal. rewrite HrP. f_equal. apply map_ext. intros k.
  rewrite HdAP, HrP. reflexivity.
Qed.

(* fuel: with a depth limit m, m passes always suffice when the coarsening stage is defined *)
Definition coarsen_total : Prop := forall l A part, csr_wf A -> csr_nr A = csr_nc A ->
  list_sum part = csr_nr A -> coarsen l A part <> None.
Hypothesis Htotal : coarsen_total.

Lemma fuel_limit m : max_levels = Some m -> forall fuel l cur, lvl_wf cur -> vec_ok cur ->
  m <= S l + fuel -> exists ls, setup_fromM fuel l cur = Some ls.
Proof.
  intros Hm. induction fuel as [|f IH]; intros l cur Hw Hv Hle; cbn [setup_from].
  - destruct (contM (csr_nr (lv_A cur)) (S l)) eqn:E; [|eexists; reflexivity].
    unfold continue_cond in E. rewrite Hm in E. apply andb_prop in E. destruct E as [_ E].
    apply Nat.ltb_lt in E. lia.
  - destruct (contM (csr_nr (lv_A cur)) (S l)) eqn:E; [|eexists; reflexivity].
    destruct (extendM l cur) as [[cur' nxt]|] eqn:Ex.
    + destruct (extend_ok _ _ _ _ Ex Hw Hv) as (_ & _ & H3 & H4 & _).
      destruct (IH (S l) nxt H3 H4) as [ls Hls]; [lia|]. rewrite Hls. eexists; reflexivity.
    + exfalso. unfold extend in Ex. destruct Hw as (Hwf & Hsq & Hsum).
      destruct (coarsen l (lv_A cur) (lv_part cur)) as [[P pc]|] eqn:Hc; [discriminate|].
      exact (Htotal _ _ _ Hwf Hsq Hsum Hc).
Qed.

(* without a depth limit: the loop stops if coarsening strictly reduces every level that still
   needs coarsening; n passes suffice for n unknowns *)
Definition coarsen_reduces : Prop := forall l A part P pc, coarsen l A part = Some (P, pc) ->
  max_coarse < csr_nr A -> csr_nc P < csr_nr A.

Lemma fuel_unlimited : coarsen_reduces -> forall fuel l cur, lvl_wf cur -> vec_ok cur ->
  csr_nr (lv_A cur) <= max_coarse + fuel -> exists ls, setup_fromM fuel l cur = Some ls.
Proof.
  intros Hred. induction fuel as [|f IH]; intros l cur Hw Hv Hle; cbn [setup_from].
  - destruct (contM (csr_nr (lv_A cur)) (S l)) eqn:E; [|eexists; reflexivity].
    unfold continue_cond in E. apply andb_prop in E. destruct E as [E _]. apply Nat.ltb_lt in E. lia.
  - destruct (contM (csr_nr (lv_A cur)) (S l)) eqn:E; [|eexists; reflexivity].
    destruct (extendM l cur) as [[cur' nxt]|] eqn:Ex.
    + destruct (extend_ok _ _ _ _ Ex Hw Hv) as (_ & _ & H3 & H4 & _ & Hn).
      apply extend_inv in Ex. destruct Ex as (P & pc & Hco & -> & ->).
      cbn [lv_P] in Hn.
      unfold continue_cond in E. apply andb_prop in E. destruct E as [E _]. apply Nat.ltb_lt in E.
      pose proof (Hred _ _ _ _ _ Hco E) as Hlt.
      destruct (IH (S l) _ H3 H4) as [ls Hls]; [rewrite Hn; lia|]. rewrite Hls. eexists; reflexivity.
    + exfalso. unfold extend in Ex. destruct Hw as (Hwf & Hsq & Hsum).
      destruct (coarsen l (lv_A cur) (lv_part cur)) as [[P pc]|] eqn:Hc; [discriminate|].
      exact (Htotal _ _ _ Hwf Hsq Hsum Hc).
Qed.

(* duplicate_coarse: displacements are the prefix sums of the sizes of the active ranks and end at coarse_n *)
Lemma prefix_from_last s l : last (prefix_from s l) 0 = s + list_sum l.
Proof.
  revert s; induction l as [|x l IH]; intros s; [simpl; lia|].
  change (prefix_from s (x :: l)) with (s :: prefix_from (s + x) l).
  assert (Hne : prefix_from (s + x) l <> []) by (destruct l; discriminate).
  destruct (prefix_from (s + x) l) as [|y t] eqn:E; [congruence|].
  change (last (s :: y :: t) 0) with (last (y :: t) 0). rewrite <- E, IH. simpl. lia.
Qed.
Lemma prefix_from_length s l : length (prefix_from s l) = S (length l).
Proof. revert s; induction l; intros; simpl; [reflexivity|rewrite IHl; reflexivity]. Qed.
Lemma active_sizes_sum part : list_sum (active_sizes part) = list_sum part.
Proof.
  induction part as [|x l IH]; [reflexivity|]. unfold active_sizes in *. simpl.
  destruct (x =? 0) eqn:E; simpl; rewrite IH; [apply Nat.eqb_eq in E; lia|reflexivity].
Qed.
Lemma active_sizes_pos part : Forall (fun s => 0 < s) (active_sizes part).
Proof.
  unfold active_sizes. apply Forall_forall. intros s Hs. apply filter_In in Hs. destruct Hs as [_ Hs].
  destruct (s =? 0) eqn:E; [discriminate|]. apply Nat.eqb_neq in E. lia.
Qed.

(* ---- the statements about  setup  itself ---- *)
Notation setupM := (setup spgemm spgemm_T prep finish coarsen max_coarse max_levels).
Hypothesis Hprep : pass_spec prep.

Definition input_ok (Af : csrF) (part : list nat) : Prop :=
  csr_wf Af /\ csr_nr Af = csr_nc Af /\ list_sum part = csr_nr Af.

Lemma level0_ok Af part : input_ok Af part ->
  lvl_wf (new_level (prep Af) part) /\ vec_ok (new_level (prep Af) part) /\
  lv_P (new_level (prep Af) part) = None /\ csr_nr (lv_A (new_level (prep Af) part)) = csr_nr Af.
Proof.
  intros (Hw & Hsq & Hs). destruct (Hprep _ Hw) as (H1 & H2 & H3 & _).
  destruct (new_level_ok (prep Af) part H1) as (A1 & A2 & A3); [congruence|congruence|].
  split; [exact A1|]. split; [exact A2|]. split; [exact A3|]. exact H2.
Qed.

Lemma setup_chain fuel Af part ls : setupM fuel Af part = Some ls -> chain 0 (new_level (prep Af) part) ls.
Proof. apply chain_of_setup. Qed.

(* every level: operator square and well formed, local sizes sum to the global size, vectors of that size *)
Theorem setup_levels fuel Af part ls : input_ok Af part -> setupM fuel Af part = Some ls ->
  forall k L, nth_error ls k = Some L ->
    csr_wf (lv_A L) /\ csr_nr (lv_A L) = csr_nc (lv_A L) /\ list_sum (lv_part L) = csr_nr (lv_A L) /\
    lv_x L = mkV (csr_nr (lv_A L)) (lv_part L) /\ lv_b L = mkV (csr_nr (lv_A L)) (lv_part L) /\
    lv_tmp L = mkV (csr_nr (lv_A L)) (lv_part L).
Proof.
  intros Hin Hs k L Hk. destruct (level0_ok _ _ Hin) as (H1 & H2 & _).
  pose proof (chain_invariants _ _ _ (setup_chain _ _ _ _ Hs) H1 H2) as Hall.
  rewrite Forall_forall in Hall. apply nth_error_In in Hk. destruct (Hall _ Hk) as ((A1 & A2 & A3) & (B1 & B2 & B3)).
  repeat (split; [assumption|]). assumption.
Qed.

(* Galerkin (two-drop form) and conformal dimensions between consecutive levels *)
Theorem setup_galerkin fuel Af part ls : input_ok Af part -> setupM fuel Af part = Some ls ->
  forall k L L', nth_error ls k = Some L -> nth_error ls (S k) = Some L' ->
    exists P, lv_P L = Some P /\ csr_wf P /\ csr_nr P = csr_nr (lv_A L) /\ csr_nc P = csr_nr (lv_A L') /\
      forall i j, den (lv_A L') i j =
        dropF (sumF (map (fun k => mul (den P k i)
                 (dropF (sumF (map (fun m => mul (den (lv_A L) k m) (den P m j)) (seq 0 (csr_nr (lv_A L)))))))
                 (seq 0 (csr_nr (lv_A L))))).
Proof.
  intros Hin Hs k L L' Hk Hk'. destruct (level0_ok _ _ Hin) as (H1 & H2 & _).
  pose proof (setup_chain _ _ _ _ Hs) as Hc.
  pose proof (chain_nth_step _ _ _ Hc _ _ _ Hk Hk') as Hstep.
  pose proof (chain_invariants _ _ _ Hc H1 H2) as Hall. rewrite Forall_forall in Hall.
  destruct (Hall _ (nth_error_In _ _ Hk)) as (HwL & _).
  destruct (step_galerkin _ _ _ Hstep HwL) as (P & A1 & A2 & A3 & A4 & _ & _ & A7).
  exists P. repeat (split; [assumption|]). exact A7.
Qed.

(* the loop ran exactly as long as its condition held *)
Theorem setup_stops fuel Af part ls : input_ok Af part -> setupM fuel Af part = Some ls ->
  1 <= length ls /\ (forall m, max_levels = Some m -> length ls <= Nat.max 1 m) /\
  forall k L, nth_error ls k = Some L ->
    (forall L', nth_error ls (S k) = Some L' ->
        max_coarse < csr_nr (lv_A L) /\ (forall m, max_levels = Some m -> S k < m)) /\
    (nth_error ls (S k) = None ->
        (csr_nr (lv_A L) <= max_coarse \/ exists m, max_levels = Some m /\ m <= S k) /\ lv_P L = None).
Proof.
  intros Hin Hs. destruct (level0_ok _ _ Hin) as (H1 & H2 & H3 & _).
  pose proof (setup_chain _ _ _ _ Hs) as Hc.
  destruct (chain_length _ _ _ Hc) as [Hl1 Hl2].
  split; [exact Hl1|]. split; [intros m Hm; specialize (Hl2 m Hm); simpl in Hl2; exact Hl2|].
  intros k L Hk. split.
  - intros L' Hk'. destruct (chain_nth_step _ _ _ Hc _ _ _ Hk Hk') as (P & pc & _ & _ & _ & _ & Hcont).
    simpl in Hcont. unfold continue_cond in Hcont. apply andb_prop in Hcont. destruct Hcont as [C1 C2].
    apply Nat.ltb_lt in C1. split; [exact C1|]. intros m Hm. rewrite Hm in C2. apply Nat.ltb_lt in C2. exact C2.
  - intros Hk'. destruct (chain_nth_last _ _ _ Hc H3 _ _ Hk Hk') as [Hcont HP]. split; [|exact HP].
    simpl in Hcont. unfold continue_cond in Hcont. apply andb_false_iff in Hcont. destruct Hcont as [C|C].
    + left. apply Nat.ltb_ge in C. exact C.
    + right. destruct max_levels as [m|]; [|discriminate]. exists m. split; [reflexivity|].
      apply Nat.ltb_ge in C. exact C.
Qed.

(* termination: with a depth limit m, fuel m suffices; without one, n passes suffice if coarsening
   strictly reduces every level that is still larger than max_coarse *)
Theorem setup_terminates_limit m Af part : max_levels = Some m -> input_ok Af part ->
  exists ls, setupM m Af part = Some ls.
Proof.
  intros Hm Hin. destruct (level0_ok _ _ Hin) as (H1 & H2 & _).
  apply (fuel_limit m Hm m 0 _ H1 H2). lia.
Qed.

Theorem setup_terminates_unlimited Af part : coarsen_reduces -> input_ok Af part ->
  exists ls, setupM (csr_nr Af) Af part = Some ls.
Proof.
  intros Hred Hin. destruct (level0_ok _ _ Hin) as (H1 & H2 & _ & H4).
  apply (fuel_unlimited Hred (csr_nr Af) 0 _ H1 H2). rewrite H4. lia.
Qed.

(* sizes: never increasing when coarsen never adds unknowns, strictly decreasing where the strength graph
   of the level has an edge and the splitting / aggregation contract (C13 / C15: at least one F point,
   resp. one aggregate with two nodes) holds *)
Variable has_edge : nat -> csrF -> bool.
Definition coarsen_mono : Prop := forall l A part P pc, coarsen l A part = Some (P, pc) -> csr_nc P <= csr_nr A.
Definition coarsen_strict : Prop := forall l A part P pc, coarsen l A part = Some (P, pc) ->
  has_edge l A = true -> csr_nc P < csr_nr A.

Theorem setup_sizes fuel Af part ls : input_ok Af part -> setupM fuel Af part = Some ls ->
  forall k L L', nth_error ls k = Some L -> nth_error ls (S k) = Some L' ->
    (coarsen_mono -> csr_nr (lv_A L') <= csr_nr (lv_A L)) /\
    (coarsen_strict -> has_edge k (lv_A L) = true -> csr_nr (lv_A L') < csr_nr (lv_A L)).
Proof.
  intros Hin Hs k L L' Hk Hk'. destruct (level0_ok _ _ Hin) as (H1 & H2 & _).
  pose proof (setup_chain _ _ _ _ Hs) as Hc.
  pose proof (chain_nth_step _ _ _ Hc _ _ _ Hk Hk') as Hstep.
  pose proof (chain_invariants _ _ _ Hc H1 H2) as Hall. rewrite Forall_forall in Hall.
  destruct (Hall _ (nth_error_In _ _ Hk)) as (HwL & _).
  destruct (step_galerkin _ _ _ Hstep HwL) as (P & A1 & A2 & A3 & A4 & _).
  destruct Hstep as (P' & pc & Hco & HP' & _). simpl in Hco.
  assert (P' = P) by congruence. subst P'. rewrite <- A4. split.
  - intros Hm. exact (Hm _ _ _ _ _ Hco).
  - intros Hst He. exact (Hst _ _ _ _ _ Hco He).
Qed.

(* duplicate_coarse *)
Theorem coarse_duplicate fuel Af part ls : input_ok Af part -> setupM fuel Af part = Some ls ->
  list_sum (coarse_sizes ls) = coarse_n ls /\ last (coarse_displs ls) 0 = coarse_n ls /\
  length (coarse_displs ls) = S (length (coarse_sizes ls)) /\ Forall (fun s => 0 < s) (coarse_sizes ls).
Proof.
  intros Hin Hs. unfold coarse_displs, coarse_sizes, coarse_n.
  destruct (rev ls) as [|L t] eqn:E.
  - simpl. repeat split; constructor.
  - assert (HL : In L ls) by (apply in_rev; rewrite E; left; reflexivity).
    destruct (In_nth_error _ _ HL) as [k Hk].
    destruct (setup_levels _ _ _ _ Hin Hs _ _ Hk) as (_ & _ & Hsum & _).
    rewrite prefix_from_last, prefix_from_length, active_sizes_sum, Hsum.
    split; [reflexivity|]. split; [reflexivity|]. split; [reflexivity|apply active_sizes_pos].
Qed.

End LoopProofs.

(* ------------------------------------------------------------------------------------------ *)
(* Part B: the exact triple product and soundness of the checker *)
Section CheckProofs.
Variable F : Type.
Variables (zero one : F) (add mul sub : F -> F -> F) (opp : F -> F).
Variable Fth : ring_theory zero one add mul sub opp (@eq F).
Variable leb : F -> F -> bool.
Variable absF : F -> F.
Add Ring FringC : Fth.

Notation csrF := (csr F).
Notation sumF := (sumf F zero add).
Notation denL := (den_line F zero add).
Notation den := (den_csr F zero add).
Notation mmF := (mm F add mul).
Notation ptapF := (ptap F add mul).
Notation mm_lineF := (mm_line F add mul).
Notation compressF := (compress F add).
Notation add_entryF := (add_entry F add).

Lemma denL_cons p r j : denL (p :: r) j = add (if fst p =? j then snd p else zero) (denL r j).
Proof. unfold den_line. simpl. destruct (fst p =? j); simpl; ring. Qed.

Lemma denL_app r1 r2 j : denL (r1 ++ r2) j = add (denL r1 j) (denL r2 j).
Proof. apply (den_line_app F zero one add mul sub opp Fth). Qed.

Lemma denL_notin r j : ~ In j (map fst r) -> denL r j = zero.
Proof.
  induction r as [|p r IH]; intros H; [reflexivity|].
  rewrite denL_cons. simpl in H. destruct (fst p =? j) eqn:E.
  - apply Nat.eqb_eq in E. exfalso. apply H. left; exact E.
  - rewrite IH by (intros H'; apply H; right; exact H'). ring.
Qed.

Lemma denL_add_entry j v r k :
  denL (add_entryF j v r) k = add (denL r k) (if j =? k then v else zero).
Proof.
  induction r as [|p r IH]; cbn [add_entry].
  - rewrite denL_cons. cbn [fst snd]. unfold den_line; simpl. ring.
  - destruct (fst p =? j) eqn:E.
    + apply Nat.eqb_eq in E. rewrite !denL_cons. cbn [fst snd]. rewrite E.
      destruct (j =? k); ring.
    + rewrite !denL_cons, IH. ring.
Qed.

Lemma denL_compress r k : denL (compressF r) k = denL r k.
Proof.
  unfold compress.
  assert (G : forall acc, denL (fold_left (fun acc p => add_entryF (fst p) (snd p) acc) r acc) k
                          = add (denL acc k) (denL r k)).
  { induction r as [|p r IH]; intros acc; cbn [fold_left].
    - change (denL [] k) with zero. ring.
    - rewrite IH, denL_add_entry, denL_cons. ring. }
  rewrite G. change (denL [] k) with zero. ring.
Qed.

Lemma denL_scale a r j : denL (map (fun pb => (fst pb, mul a (snd pb))) r) j = mul a (denL r j).
Proof.
  induction r as [|p r IH]; [unfold den_line; simpl; ring|].
  simpl map. rewrite !denL_cons, IH. cbn [fst snd]. destruct (fst p =? j); ring.
Qed.

(* a sum with one selected index *)
Lemma sum_select n k0 a (X : nat -> F) : k0 < n ->
  sumF (map (fun k => mul (if k0 =? k then a else zero) (X k)) (seq 0 n)) = mul a (X k0).
Proof.
  intros H.
  rewrite (sumf_single F zero one add mul sub opp Fth n k0) by
    (first [exact H | intros i _ Hne; destruct (k0 =? i) eqn:E; [apply Nat.eqb_eq in E; congruence|ring]]).
  rewrite Nat.eqb_refl. reflexivity.
Qed.

Lemma denL_mm_line Brows ra n j : (forall p, In p ra -> fst p < n) ->
  denL (mm_lineF Brows ra) j =
  sumF (map (fun k => mul (denL ra k) (denL (nth k Brows []) j)) (seq 0 n)).
Proof.
  intros H. unfold mm_line. rewrite denL_compress.
  induction ra as [|p ra IH].
  - simpl flat_map. unfold den_line at 1. simpl.
    rewrite (sumf_map_ext F zero add _ (fun _ => zero)).
    + symmetry. apply (sumf_map_zero F zero one add mul sub opp Fth).
    + intros k _. unfold den_line at 1. simpl. ring.
  - simpl flat_map. rewrite denL_app, denL_scale, IH by (intros q Hq; apply H; right; exact Hq).
    rewrite <- (sum_select n (fst p) (snd p) (fun k => denL (nth k Brows []) j)) by (apply H; left; reflexivity).
    rewrite <- (sumf_map_add F zero one add mul sub opp Fth).
    apply sumf_map_ext. intros k _. rewrite denL_cons. ring.
Qed.

Lemma nth_map_line (f : list (nat * F) -> list (nat * F)) rows i : f [] = [] ->
  nth i (map f rows) [] = f (nth i rows []).
Proof. intros H. rewrite <- H at 1. apply map_nth. Qed.

Lemma mm_line_nil Brows : mm_lineF Brows [] = [].
Proof. reflexivity. Qed.

Theorem den_mm (A B : csrF) i j : csr_wf A ->
  den (mmF A B) i j = sumF (map (fun k => mul (den A i k) (den B k j)) (seq 0 (csr_nc A))).
Proof.
  intros [Hl Hc]. unfold den_csr, mm. cbn [csr_rows].
  rewrite (nth_map_line (mm_lineF (csr_rows B)) (csr_rows A) i (mm_line_nil _)).
  apply denL_mm_line. intros p Hp.
  destruct (Nat.lt_ge_cases i (length (csr_rows A))) as [Hi|Hi].
  - apply (Hc (nth i (csr_rows A) [])); [apply nth_In; exact Hi|exact Hp].
  - rewrite nth_overflow in Hp by exact Hi. destruct Hp.
Qed.

Lemma csr_transpose_wf (P : csrF) : csr_wf P -> csr_wf (csr_transpose P).
Proof.
  intros [Hl Hc]. unfold csr_transpose. apply (csc_to_csr_wf F). split; [exact Hl|exact Hc].
Qed.

Lemma mm_wf_len (A B : csrF) : length (csr_rows (mmF A B)) = length (csr_rows A).
Proof. unfold mm. cbn [csr_rows]. apply map_length. Qed.

(* P^T A P exactly *)
Theorem den_ptap (A P : csrF) i j : csr_wf A -> csr_wf P -> csr_nr P = csr_nc A ->
  den (ptapF A P) i j =
  sumF (map (fun k => mul (den P k i)
                          (sumF (map (fun m => mul (den A k m) (den P m j)) (seq 0 (csr_nc A)))))
            (seq 0 (csr_nr P))).
Proof.
  intros HA HP Hn. unfold ptap. rewrite den_mm by (apply csr_transpose_wf; exact HP).
  change (csr_nc (csr_transpose P)) with (csr_nr P).
  apply sumf_map_ext. intros k _.
  rewrite den_csr_transpose by exact HP.
  rewrite den_mm by exact HA. reflexivity.
Qed.

Lemma ptap_rows_length (A P : csrF) : length (csr_rows (ptapF A P)) = csr_nc P.
Proof.
  unfold ptap. rewrite mm_wf_len. unfold csr_transpose, csc_to_csr, coo_to_csr. cbn [csr_rows].
  apply (bucket_length F).
Qed.

(* ---- the entrywise comparison ---- *)
Notation closeF tol x y := (leb (absF (sub x y)) tol = true).

Lemma close_line_sound tol r1 r2 : leb (absF (sub zero zero)) tol = true ->
  close_line F zero add sub leb absF tol r1 r2 = true -> forall j, closeF tol (denL r1 j) (denL r2 j).
Proof.
  intros H0 H j. unfold close_line in H. rewrite forallb_forall in H.
  destruct (in_dec Nat.eq_dec j (map fst r1 ++ map fst r2)) as [Hin|Hnin].
  - apply H; exact Hin.
  - rewrite (denL_notin r1), (denL_notin r2); [exact H0| |];
      intros Hx; apply Hnin; apply in_or_app; [right|left]; exact Hx.
Qed.

Lemma close_rows_sound tol : leb (absF (sub zero zero)) tol = true -> forall R1 R2,
  close_rows F zero add sub leb absF tol R1 R2 = true ->
  length R1 = length R2 /\ forall i j, closeF tol (denL (nth i R1 []) j) (denL (nth i R2 []) j).
Proof.
  intros H0. induction R1 as [|r1 t1 IH]; intros R2 H; destruct R2 as [|r2 t2]; simpl in H; try discriminate.
  - split; [reflexivity|]. intros i j. destruct i; simpl; exact H0.
  - apply andb_prop in H. destruct H as [Hl Hr]. destruct (IH _ Hr) as [Hlen Hall].
    split; [simpl; congruence|]. intros i j. destruct i as [|i]; simpl.
    + apply close_line_sound; assumption.
    + apply Hall.
Qed.

Definition galerkin_close (tol : F) (A P A' : csrF) : Prop := forall i j,
  closeF tol (den A' i j)
    (sumF (map (fun k => mul (den P k i)
                             (sumF (map (fun m => mul (den A k m) (den P m j)) (seq 0 (csr_nr A)))))
               (seq 0 (csr_nr A)))).

Theorem galerkin_ok_sound tol (A P A' : csrF) : csr_wf A -> csr_wf P -> csr_nr A = csr_nc A ->
  csr_nr P = csr_nr A ->
  galerkin_ok F zero add mul sub leb absF tol A P A' = true -> galerkin_close tol A P A'.
Proof.
  intros HA HP Hsq Hn H. unfold galerkin_ok in H. apply andb_prop in H. destruct H as [H0 H].
  destruct (close_rows_sound tol H0 _ _ H) as [_ Hall]. intros i j.
  specialize (Hall i j). fold (den A' i j) in Hall. fold (den (ptapF A P) i j) in Hall.
  rewrite den_ptap in Hall by (first [assumption|congruence]).
  rewrite Hn, <- Hsq in Hall. exact Hall.
Qed.

(* ---- boolean reflections ---- *)
Lemma memb_In x l : memb x l = true <-> In x l.
Proof.
  unfold memb. rewrite existsb_exists. split.
  - intros (y & Hy & E). apply Nat.eqb_eq in E. subst; exact Hy.
  - intros H. exists x. split; [exact H|apply Nat.eqb_refl].
Qed.
Lemma memb_false x l : memb x l = false <-> ~ In x l.
Proof.
  split; intros H.
  - intros Hin. apply memb_In in Hin. congruence.
  - destruct (memb x l) eqn:E; [|reflexivity]. apply memb_In in E. contradiction.
Qed.
Lemma nodupb_NoDup l : nodupb l = true -> NoDup l.
Proof.
  induction l as [|x l IH]; intros H; [constructor|].
  simpl in H. apply andb_prop in H. destruct H as [H1 H2]. constructor; [|apply IH; exact H2].
  apply memb_false. destruct (memb x l); [discriminate|reflexivity].
Qed.
Lemma list_eqb_eq l1 l2 : list_eqb l1 l2 = true -> l1 = l2.
Proof.
  revert l2; induction l1 as [|x t IH]; intros [|y t2] H; simpl in H; try discriminate; [reflexivity|].
  apply andb_prop in H. destruct H as [H1 H2]. apply Nat.eqb_eq in H1. f_equal; [exact H1|apply IH; exact H2].
Qed.
Lemma csr_wfb_wf (A : csrF) : csr_wfb A = true -> csr_wf A.
Proof.
  unfold csr_wfb, csr_wf. intros H. apply andb_prop in H. destruct H as [H1 H2].
  apply Nat.eqb_eq in H1. split; [exact H1|].
  rewrite forallb_forall in H2. intros r Hr p Hp. specialize (H2 r Hr).
  rewrite forallb_forall in H2. apply Nat.ltb_lt. apply H2; exact Hp.
Qed.
Lemma off_names_ok names own l :
  forallb (fun c => memb c names && negb (memb c own)) l = true ->
  forall c, In c l -> In c names /\ ~ In c own.
Proof.
  intros H c Hc. rewrite forallb_forall in H. specialize (H c Hc). apply andb_prop in H.
  destruct H as [H1 H2]. split; [apply memb_In; exact H1|].
  apply memb_false. destruct (memb c own); [discriminate|reflexivity].
Qed.

(* ---- the exact products satisfy the den-specifications assumed of spgemm / spgemm_T (with no drop):
        the hypotheses of part A are satisfiable by executable functions ---- *)
Lemma add_entry_cols j v r p : In p (add_entryF j v r) -> fst p = j \/ In (fst p) (map fst r).
Proof.
  induction r as [|q r IH]; cbn [add_entry]; intros H.
  - destruct H as [<-|[]]. left; reflexivity.
  - destruct (fst q =? j) eqn:E.
    + destruct H as [<-|H]; [left; reflexivity|]. right. simpl. right. apply in_map; exact H.
    + destruct H as [<-|H]; [right; simpl; left; reflexivity|].
      destruct (IH H) as [H'|H']; [left; exact H'|right; simpl; right; exact H'].
Qed.

Lemma compress_cols r p : In p (compressF r) -> In (fst p) (map fst r).
Proof.
  unfold compress.
  assert (G : forall acc, In p (fold_left (fun acc q => add_entryF (fst q) (snd q) acc) r acc) ->
                          In (fst p) (map fst acc) \/ In (fst p) (map fst r)).
  { induction r as [|q r IH]; intros acc H; cbn [fold_left] in H.
    - left. apply in_map; exact H.
    - destruct (IH _ H) as [H'|H'].
      + apply in_map_iff in H'. destruct H' as (x & Hx & Hin). destruct (add_entry_cols _ _ _ _ Hin) as [E|E].
        * right. simpl. left. congruence.
        * left. rewrite <- Hx. exact E.
      + right. simpl. right. exact H'. }
  intros H. destruct (G [] H) as [[]|H']. exact H'.
Qed.

Lemma mm_wf (A B : csrF) : csr_wf A -> csr_wf B -> csr_wf (mmF A B).
Proof.
  intros [HlA HcA] [HlB HcB]. split.
  - unfold mm. cbn [csr_rows csr_nr]. rewrite map_length. exact HlA.
  - unfold mm. cbn [csr_rows csr_nc]. intros r Hr p Hp.
    apply in_map_iff in Hr. destruct Hr as (ra & <- & Hra).
    unfold mm_line in Hp. apply compress_cols in Hp.
    apply in_map_iff in Hp. destruct Hp as (q & Hq & Hin). rewrite <- Hq.
    apply in_flat_map in Hin. destruct Hin as (pa & _ & Hin).
    apply in_map_iff in Hin. destruct Hin as (pb & <- & Hpb). cbn [fst].
    destruct (Nat.lt_ge_cases (fst pa) (length (csr_rows B))) as [Hi|Hi].
    + apply (HcB (nth (fst pa) (csr_rows B) [])); [apply nth_In; exact Hi|exact Hpb].
    + rewrite nth_overflow in Hpb by exact Hi. destruct Hpb.
Qed.

Notation dropN := (drop F zero (fun _ => false)).

Theorem mm_spgemm_spec : spgemm_spec F zero add mul (fun _ => false) mmF.
Proof.
  intros A B HA HB Hn. split; [apply mm_wf; assumption|]. split; [reflexivity|]. split; [reflexivity|].
  intros i j. unfold drop. rewrite den_mm by exact HA. rewrite Hn. reflexivity.
Qed.

Theorem mm_spgemm_T_spec :
  spgemm_T_spec F zero add mul (fun _ => false) (fun P B => mmF (csr_transpose P) B).
Proof.
  intros P B HP HB Hn. split; [apply mm_wf; [apply csr_transpose_wf; exact HP|exact HB]|].
  split; [reflexivity|]. split; [reflexivity|].
  intros i j. unfold drop. rewrite den_mm by (apply csr_transpose_wf; exact HP).
  change (csr_nc (csr_transpose P)) with (csr_nr P).
  apply sumf_map_ext. intros k _. rewrite den_csr_transpose by exact HP. reflexivity.
Qed.

Lemma id_pass_spec : pass_spec F zero add (fun A => A).
Proof. intros A H. split; [exact H|]. split; [reflexivity|]. split; reflexivity. Qed.

(* ---- form_dense_coarse ---- *)
Lemma last_at_notin r j d : ~ In j (map fst r) -> last_at F r j d = d.
Proof.
  revert d; induction r as [|p r IH]; intros d H; [reflexivity|].
  cbn [last_at]. simpl in H. destruct (fst p =? j) eqn:E.
  - apply Nat.eqb_eq in E. exfalso. apply H. left; exact E.
  - apply IH. intros H'; apply H; right; exact H'.
Qed.

Lemma last_at_den r j : NoDup (map fst r) -> forall d,
  last_at F r j d = if memb j (map fst r) then denL r j else d.
Proof.
  induction r as [|p r IH]; intros Hnd d; [reflexivity|].
  simpl in Hnd. inversion Hnd as [|x l Hx Hnd']; subst.
  cbn [last_at]. rewrite denL_cons. cbn [map]. unfold memb. cbn [existsb]. fold (memb j (map fst r)).
  destruct (fst p =? j) eqn:E.
  - apply Nat.eqb_eq in E. subst j. rewrite Nat.eqb_refl. cbn [orb].
    rewrite last_at_notin by exact Hx. rewrite (denL_notin r) by exact Hx. ring.
  - rewrite (Nat.eqb_sym j (fst p)), E. cbn [orb]. rewrite IH by exact Hnd'.
    destruct (memb j (map fst r)); [ring|reflexivity].
Qed.

Theorem dense_coarse_den (A : csrF) i j : i < csr_nr A -> j < csr_nr A ->
  NoDup (map fst (nth i (csr_rows A) [])) ->
  nth j (nth i (dense_coarse F zero A) []) zero = den A i j.
Proof.
  intros Hi Hj Hnd. unfold dense_coarse.
  rewrite (nth_map_seq (fun i => map (fun j => last_at F (nth i (csr_rows A) []) j zero) (seq 0 (csr_nr A)))) by exact Hi.
  rewrite (nth_map_seq (fun j => last_at F (nth i (csr_rows A) []) j zero)) by exact Hj.
  rewrite last_at_den by exact Hnd. unfold den_csr.
  destruct (memb j (map fst (nth i (csr_rows A) []))) eqn:E; [reflexivity|].
  symmetry. apply denL_notin. apply memb_false. exact E.
Qed.

Lemma dense_coarse_shape (A : csrF) :
  length (dense_coarse F zero A) = csr_nr A /\
  forall r, In r (dense_coarse F zero A) -> length r = csr_nr A.
Proof.
  unfold dense_coarse. split; [rewrite map_length, seq_length; reflexivity|].
  intros r Hr. apply in_map_iff in Hr. destruct Hr as (i & <- & _). rewrite map_length, seq_length. reflexivity.
Qed.

(* ---- what hier_ok establishes ---- *)
Definition vd_spec (n lr : nat) (v : vdump) : Prop := vd_global v = n /\ vd_local v = lr /\ vd_store v = lr.
Definition rank_spec (n : nat) (names : list nat) (r : rdump) : Prop :=
  rd_grows r = n /\ rd_gcols r = n /\ length (rd_rowmap r) = rd_lrows r /\ length (rd_onmap r) = rd_lcols r /\
  rd_onmap r = rd_rowmap r /\
  vd_spec n (rd_lrows r) (rd_x r) /\ vd_spec n (rd_lrows r) (rd_b r) /\ vd_spec n (rd_lrows r) (rd_tmp r) /\
  forall c, In c (rd_offmap r) -> In c names /\ ~ In c (rd_rowmap r).
Definition level_spec (L : ldump F) : Prop :=
  let n := csr_nr (ld_A L) in
  csr_wf (ld_A L) /\ csr_nc (ld_A L) = n /\
  list_sum (map rd_lrows (ld_ranks L)) = n /\ list_sum (map rd_lcols (ld_ranks L)) = n /\
  NoDup (level_names L) /\ Forall (rank_spec n (level_names L)) (ld_ranks L).
Definition prank_spec (n n' : nat) (names' : list nat) (r r' : rdump) : Prop :=
  exists p, rd_P r = Some p /\ pd_grows p = n /\ pd_gcols p = n' /\ pd_lrows p = rd_lrows r /\
    pd_lcols p = rd_lrows r' /\ pd_rowmap p = rd_rowmap r /\ pd_onmap p = rd_rowmap r' /\
    forall c, In c (pd_offmap p) -> In c names' /\ ~ In c (rd_rowmap r').
Definition pair_spec (L L' : ldump F) : Prop :=
  let n := csr_nr (ld_A L) in let n' := csr_nr (ld_A L') in
  exists P, ld_P L = Some P /\ csr_wf P /\ csr_nr P = n /\ csr_nc P = n' /\
    Forall2 (prank_spec n n' (level_names L')) (ld_ranks L) (ld_ranks L') /\
    galerkin_close (ld_tol L) (ld_A L) P (ld_A L') /\
    n' <= n /\ (ld_edge L = true -> n' < n).

Lemma vd_ok_spec n lr v : vd_ok n lr v = true -> vd_spec n lr v.
Proof.
  unfold vd_ok, vd_spec. intros H. apply andb_prop in H. destruct H as [H H3].
  apply andb_prop in H. destruct H as [H1 H2]. apply Nat.eqb_eq in H1, H2, H3. auto.
Qed.

Lemma level_ok_spec (L : ldump F) : level_ok L = true -> level_spec L.
Proof.
  unfold level_ok, level_spec. intros H.
  apply andb_prop in H. destruct H as [H Hm]. apply andb_prop in H. destruct H as [Hs Hv].
  unfold sizes_ok in Hs.
  apply andb_prop in Hs. destruct Hs as [Hs Hr]. apply andb_prop in Hs. destruct Hs as [Hs Hlc].
  apply andb_prop in Hs. destruct Hs as [Hs Hlr]. apply andb_prop in Hs. destruct Hs as [Hsq Hwf].
  apply Nat.eqb_eq in Hsq, Hlr, Hlc.
  unfold maps_ok in Hm. apply andb_prop in Hm. destruct Hm as [Hnd Hm].
  split; [apply csr_wfb_wf; exact Hwf|]. split; [exact Hsq|]. split; [exact Hlr|]. split; [exact Hlc|].
  split; [apply nodupb_NoDup; exact Hnd|].
  apply Forall_forall. intros r Hin.
  rewrite forallb_forall in Hr, Hm. unfold vectors_ok in Hv. rewrite forallb_forall in Hv.
  specialize (Hr r Hin). specialize (Hm r Hin). specialize (Hv r Hin).
  apply andb_prop in Hr. destruct Hr as [Hr H4]. apply andb_prop in Hr. destruct Hr as [Hr H3].
  apply andb_prop in Hr. destruct Hr as [H1 H2]. apply Nat.eqb_eq in H1, H2, H3, H4.
  apply andb_prop in Hm. destruct Hm as [Hon Hoff].
  apply andb_prop in Hv. destruct Hv as [Hv Ht]. apply andb_prop in Hv. destruct Hv as [Hx Hb].
  unfold rank_spec. split; [exact H1|]. split; [exact H2|]. split; [exact H3|]. split; [exact H4|].
  split; [apply list_eqb_eq; exact Hon|].
  split; [apply vd_ok_spec; exact Hx|]. split; [apply vd_ok_spec; exact Hb|]. split; [apply vd_ok_spec; exact Ht|].
  apply off_names_ok; exact Hoff.
Qed.

Lemma p_ranks_ok_spec n n' names' : forall rs rs', p_ranks_ok n n' names' rs rs' = true ->
  Forall2 (prank_spec n n' names') rs rs'.
Proof.
  induction rs as [|r t IH]; intros [|r' t'] H; simpl in H; try discriminate; [constructor|].
  apply andb_prop in H. destruct H as [H Ht]. constructor; [|apply IH; exact Ht].
  destruct (rd_P r) as [p|] eqn:EP; [|discriminate].
  apply andb_prop in H. destruct H as [H Hoff]. apply andb_prop in H. destruct H as [H Hon].
  apply andb_prop in H. destruct H as [H Hrow]. apply andb_prop in H. destruct H as [H H4].
  apply andb_prop in H. destruct H as [H H3]. apply andb_prop in H. destruct H as [H1 H2].
  apply Nat.eqb_eq in H1, H2, H3, H4.
  exists p. split; [exact EP|]. split; [exact H1|]. split; [exact H2|]. split; [exact H3|]. split; [exact H4|].
  split; [apply list_eqb_eq; exact Hrow|]. split; [apply list_eqb_eq; exact Hon|].
  apply off_names_ok; exact Hoff.
Qed.

Lemma pair_ok_spec (L L' : ldump F) : level_spec L ->
  prolong_ok F zero add mul sub leb absF L L' = true -> coarsening_ok L L' = true -> pair_spec L L'.
Proof.
  intros (HwA & Hsq & _) Hp Hc. unfold prolong_ok in Hp.
  destruct (ld_P L) as [P|] eqn:EP; [|discriminate].
  apply andb_prop in Hp. destruct Hp as [Hp Hg]. apply andb_prop in Hp. destruct Hp as [Hp Hr].
  apply andb_prop in Hp. destruct Hp as [Hp Hw]. apply andb_prop in Hp. destruct Hp as [H1 H2].
  apply Nat.eqb_eq in H1, H2. pose proof (csr_wfb_wf _ Hw) as HwP.
  unfold coarsening_ok in Hc. apply andb_prop in Hc. destruct Hc as [Hle Hlt]. apply Nat.leb_le in Hle.
  exists P. split; [exact EP|]. split; [exact HwP|]. split; [exact H1|]. split; [exact H2|].
  split; [apply p_ranks_ok_spec; exact Hr|].
  split; [apply galerkin_ok_sound; [exact HwA|exact HwP|symmetry; exact Hsq|exact H1|exact Hg]|].
  split; [exact Hle|]. intros He. rewrite He in Hlt. apply Nat.ltb_lt. exact Hlt.
Qed.

Theorem hier_from_sound mc ml : forall ls l, hier_from F zero add mul sub leb absF mc ml l ls = true ->
  forall k L, nth_error ls k = Some L ->
    level_spec L /\
    (forall L', nth_error ls (S k) = Some L' ->
        continue_cond mc ml (csr_nr (ld_A L)) (S (l + k)) = true /\ pair_spec L L') /\
    (nth_error ls (S k) = None ->
        continue_cond mc ml (csr_nr (ld_A L)) (S (l + k)) = false /\ ld_P L = None).
Proof.
  induction ls as [|L0 tl IH]; intros l H k L Hk; [destruct k; discriminate|].
  cbn [hier_from] in H. apply andb_prop in H. destruct H as [Hlv H].
  pose proof (level_ok_spec _ Hlv) as Hspec.
  destruct k as [|k].
  - simpl in Hk. inversion Hk; subst L. clear Hk. rewrite Nat.add_0_r. split; [exact Hspec|].
    destruct tl as [|L1 tl'].
    + split; [intros L' HL'; discriminate|]. intros _.
      apply andb_prop in H. destruct H as [Hc HP]. split.
      * destruct (continue_cond mc ml (csr_nr (ld_A L0)) (S l)); [discriminate|reflexivity].
      * destruct (ld_P L0); [discriminate|reflexivity].
    + split; [|intros HN; discriminate]. intros L' HL'. simpl in HL'. inversion HL'; subst L'.
      apply andb_prop in H. destruct H as [H _]. apply andb_prop in H. destruct H as [H Hco].
      apply andb_prop in H. destruct H as [Hc Hp]. split; [exact Hc|].
      apply pair_ok_spec; assumption.
  - simpl in Hk. destruct tl as [|L1 tl']; [destruct k; discriminate|].
    apply andb_prop in H. destruct H as [_ Hrest].
    replace (l + S k) with (S l + k) by lia.
    change (nth_error (L0 :: L1 :: tl') (S (S k))) with (nth_error (L1 :: tl') (S k)).
    apply (IH (S l) Hrest k L Hk).
Qed.

End CheckProofs.
