(* Concrete instances used by the non-vacuity statements of Props/Properties_C08.v: exact products over Z,
   pairwise aggregation as the coarsening stage, a 1-D Laplacian on two ranks, and a dumped two-level hierarchy. *)
From Coq Require Import ZArith.
From Raptor Require Import Base.Sums Sparse.Defs Sparse.ConvertProofs Amg.Hierarchy Amg.HierarchyProofs.

Local Open Scope Z_scope.
Definition zmm := mm Z Z.add Z.mul.
Definition zmmT (P B : csr Z) := zmm (csr_transpose P) B.
Definition zid (A : csr Z) := A.
(* pairwise aggregation: unknown i goes to aggregate i/2; all coarse unknowns on the first rank *)
Definition pairP (n : nat) : csr Z := mkCsr n (Nat.div (S n) 2) (map (fun i => [(Nat.div i 2, 1)]) (seq 0 n)).
Definition pair_coarsen (l : nat) (A : csr Z) (part : list nat) : option (csr Z * list nat) :=
  Some (pairP (csr_nr A), match part with [] => [] | _ :: t => Nat.div (S (csr_nr A)) 2 :: map (fun _ => O) t end).
Definition z_has_edge (l : nat) (A : csr Z) : bool := Nat.leb 2 (csr_nr A).

Lemma half_facts n : (S n = 2 * (S n / 2) + S n mod 2 /\ S n mod 2 < 2)%nat.
Proof. split; [apply Nat.div_mod; lia|apply Nat.mod_upper_bound; lia]. Qed.
Lemma half_le n : (S n / 2 <= n)%nat.
Proof. destruct (half_facts n) as [E1 E2]. generalize dependent (S n / 2)%nat. generalize dependent (S n mod 2)%nat. intros. lia. Qed.
Lemma half_lt n : (2 <= n -> S n / 2 < n)%nat.
Proof. destruct (half_facts n) as [E1 E2]. generalize dependent (S n / 2)%nat. generalize dependent (S n mod 2)%nat. intros. lia. Qed.

Lemma pairP_wf n : csr_wf (pairP n).
Proof.
  split; [unfold pairP; cbn [csr_rows csr_nr]; rewrite map_length, seq_length; reflexivity|].
  unfold pairP. cbn [csr_rows csr_nc]. intros r Hr p Hp.
  apply in_map_iff in Hr. destruct Hr as (i & <- & Hi). apply in_seq in Hi.
  destruct Hp as [<-|[]]. cbn [fst].
  apply Nat.div_lt_upper_bound; [lia|]. destruct (half_facts n) as [E1 E2].
  generalize dependent (S n / 2)%nat. generalize dependent (S n mod 2)%nat. intros. lia.
Qed.

Lemma list_sum_zeros {X} (t : list X) : list_sum (map (fun _ => O) t) = O.
Proof. induction t; simpl; [reflexivity|exact IHt]. Qed.
Lemma list_sum_cons_zeros {X} a (t : list X) : list_sum (a :: map (fun _ => O) t) = a.
Proof. simpl. rewrite list_sum_zeros. apply Nat.add_0_r. Qed.

Lemma pair_coarsen_spec : coarsen_spec Z pair_coarsen.
Proof.
  intros l A part P pc H Hw Hsq Hs. unfold pair_coarsen in H. inversion H; subst. clear H.
  split; [apply pairP_wf|]. split; [reflexivity|]. cbn [pairP csr_nc]. destruct part as [|x t].
  - simpl in Hs. rewrite <- Hs. split; reflexivity.
  - split; [apply list_sum_cons_zeros|simpl; rewrite map_length; reflexivity].
Qed.
Lemma pair_coarsen_total : coarsen_total Z pair_coarsen.
Proof. intros l A part _ _ _. discriminate. Qed.
Lemma pair_coarsen_mono : coarsen_mono Z pair_coarsen.
Proof.
  intros l A part P pc H. inversion H; subst. cbn [pairP csr_nc]. apply half_le.
Qed.
Lemma pair_coarsen_strict : coarsen_strict Z pair_coarsen z_has_edge.
Proof.
  intros l A part P pc H He. inversion H; subst. cbn [pairP csr_nc]. unfold z_has_edge in He.
  apply Nat.leb_le in He. apply half_lt; exact He.
Qed.
Lemma pair_coarsen_reduces mc : (1 <= mc)%nat -> coarsen_reduces Z pair_coarsen mc.
Proof.
  intros Hmc l A part P pc H Hn. inversion H; subst. cbn [pairP csr_nc]. apply half_lt. lia.
Qed.

(* 1-D Laplacian on 8 unknowns, two ranks with 5 + 3 rows *)
Definition lap8 : csr Z :=
  mkCsr 8 8 (map (fun i => (if Nat.eqb i 0 then [] else [(Nat.pred i, -1)]) ++ [(i, 2)] ++
                           (if Nat.eqb i 7 then [] else [(S i, -1)])) (seq 0 8)).
Lemma lap8_input : input_ok Z lap8 [5; 3]%nat.
Proof.
  split; [|split; reflexivity]. split; [reflexivity|].
  intros r Hr p Hp. unfold lap8 in Hr. cbn [csr_rows csr_nc] in *.
  simpl in Hr. repeat (destruct Hr as [<-|Hr]; [simpl in Hp; repeat (destruct Hp as [<-|Hp]; [simpl; lia|]); destruct Hp|]).
  destruct Hr.
Qed.

(* the checker accepts the dump of that Galerkin hierarchy's first two levels and rejects it when one entry of
   the coarse operator is changed, when a work vector has the wrong size, when an off-process column does not
   exist on the coarser level, and when the loop condition is violated *)
Definition zleb (a b : Z) := Z.leb a b.
Definition z_hier_ok := hier_ok Z 0 Z.add Z.mul Z.sub zleb Z.abs.
Definition vd (n l : nat) := mkVd n l l.
Definition rk (n lr : nat) (rows off : list nat) (p : option pdump) : rdump :=
  mkRd n n lr lr rows rows off (vd n lr) (vd n lr) (vd n lr) p.
Definition A4 : csr Z := zmmT (pairP 8) (zmm lap8 (pairP 8)).
(* names of the coarse unknowns: 0 2 4 6 (fine index of the aggregate's first node), owners 3 + 1 *)
Definition dump_ok (a00 : Z) (xsize : nat) (offcol : nat) : list (ldump Z) :=
  [ mkLd lap8 (Some (pairP 8))
      [ rk 8 5 [0;1;2;3;4] [5] (Some (mkPd 8 4 5 3 [0;1;2;3;4] [0;2;4] []));
        rk 8 3 [5;6;7] [4] (Some (mkPd 8 4 3 1 [5;6;7] [6] [offcol])) ]%nat true 0;
    mkLd (mkCsr 4 4 (match csr_rows A4 with r :: t => ((O, a00) :: r) :: t | [] => [] end)) None
      [ mkRd 4 4 3 3 [0;2;4] [0;2;4] [6] (mkVd 4 3 xsize) (vd 4 3) (vd 4 3) None;
        rk 4 1 [6] [4] None ]%nat true 0 ].
