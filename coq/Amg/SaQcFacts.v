(* Qc is a totally ordered field in the sense used by the C16 development; facts about the executed
   instance (Extract/Inst.v, Extract/Inst_sa.v) used by the non-vacuity examples of Properties_C16.v. *)
From Coq Require Import QArith Qcanon Qcabs Field Lia.
From Raptor Require Import Base.Sums Sparse.Defs Extract.Inst Amg.Candidates Amg.Prolong Extract.Inst_sa.

Local Open Scope Qc_scope.

Lemma Qc_le_total (a b : Qc) : a <= b \/ b <= a.
Proof. destruct (Qclt_le_dec a b) as [H|H]; [left; apply Qclt_le_weak; exact H|right; exact H]. Qed.

Lemma Qc_le_add_r (a b c : Qc) : a <= b -> a + c <= b + c.
Proof. intros H. apply Qcplus_le_compat; [exact H|apply Qcle_refl]. Qed.

Lemma Qc_le_mul_nn (a b : Qc) : 0 <= a -> 0 <= b -> 0 <= a * b.
Proof.
  intros Ha Hb. replace 0 with (0 * b) by ring. apply Qcmult_le_compat_r; assumption.
Qed.

Lemma Qc_ltb_spec (a b : Qc) : Qc_ltb a b = true <-> (a <= b /\ a <> b).
Proof.
  unfold Qc_ltb. split.
  - remember (Qccompare a b) as cmp eqn:E. symmetry in E. destruct cmp; try discriminate. intros _.
    assert (H : a < b) by (apply (proj2 (Qclt_alt a b)); exact E).
    split; [apply Qclt_le_weak; exact H|apply Qclt_not_eq; exact H].
  - intros [H1 H2]. destruct (Qcle_lt_or_eq _ _ H1) as [H|H]; [|contradiction].
    apply (proj1 (Qclt_alt a b)) in H. fold (Qccompare a b). rewrite H. reflexivity.
Qed.

Lemma Qc_eqb_spec (a b : Qc) : Qc_eqb a b = true <-> a = b.
Proof.
  unfold Qc_eqb. split.
  - remember (Qccompare a b) as cmp eqn:E. symmetry in E. destruct cmp; try discriminate. intros _. apply (proj2 (Qceq_alt a b)). exact E.
  - intros ->. assert (H : Qccompare b b = Eq) by (apply (proj1 (Qceq_alt b b)); reflexivity). fold (Qccompare b b). rewrite H. reflexivity.
Qed.

Lemma Qc_small_zero : Qc_small 0 = true.
Proof. reflexivity. Qed.
Lemma Qc_small_le_zero : Qc_small_le 0 = true.
Proof. reflexivity. Qed.

(* the executed square root is exact on squares of rationals *)
Example Qc_sqrt_25 : Qc_sqrt (Q2Qc 25) = Q2Qc 5.
Proof. apply Qc_is_canon. vm_compute. reflexivity. Qed.
