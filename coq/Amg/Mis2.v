(* Executable model of raptor/aggregation/mis.cpp  `mis2(CSRMatrix* A, states, double* rand_vals)`
   and the verified checker `mis_ok` for distance-two maximal independent sets (property C15).

   A graph is the CSR pattern of the strength matrix: row v = the column indices of row v in
   storage order (values are not read by mis2).  Keys (`rand_vals`, copied into `r`) are taken from an
   abstract type with the comparison `gtb a b` standing for the C++ `a > b` on doubles; the
   property is about caller-supplied keys (the NULL branch draws rand() and is not modelled).

   The C++ main loop works in place on `states` through the work list V[0..remaining).  Each of its
   loops is a `fold_left` over V here, in the same order, updating the state list in place:
     phase 1  (tentative)   v gets TmpSelection unless a D-neighbour (= neighbour with smaller key,
                            D holds col with r[v] > r[col]) is Unassigned or > Selected;
     phase 2  (confirm)     a TmpSelection v becomes NewSelection unless some u two steps away
                            (u in row w, w in row v) has state > Selected and r[u] > r[v];
     phase 3a (mark)        C[w] = 1 for every w in column v of A (rows w containing v), v NewSelection;
                            the linked list head/next only serves to reset C afterwards, so the model
                            rebuilds C from all-zero every round;
     phase 3b (exclude)     v not NewSelection gets NewUnselection when a w in row v is NewSelection or has C[w];
     phase 4  (finalize)    NewSelection -> Selected, NewUnselection -> Unselected, the others stay in V.
   `while (remaining)` takes fuel; `mis2` gives fuel n = number of rows and returns None when it
   runs out (the theorem says it never does on well-formed input). *)
From Coq Require Import List Arith Bool ZArith Lia.
Import ListNotations.

Definition graph := list (list nat).
Definition row (G : graph) (v : nat) : list nat := nth v G [].
Definition memb (x : nat) (l : list nat) : bool := existsb (Nat.eqb x) l.

Fixpoint upd {A : Type} (l : list A) (i : nat) (x : A) : list A :=
  match l, i with
  | [], _ => []
  | _ :: t, 0 => x :: t
  | h :: t, S j => h :: upd t j x
  end.

(* what the array accesses of mis2 need: every column index is a row index *)
Definition graph_wfb (G : graph) : bool :=
  forallb (fun r => forallb (fun c => c <? length G) r) G.
Definition symmetricb (G : graph) : bool :=
  forallb (fun v => forallb (fun w => memb v (row G w)) (row G v)) (seq 0 (length G)).
Definition reflexiveb (G : graph) : bool :=
  forallb (fun v => memb v (row G v)) (seq 0 (length G)).

(* raptor/core/types.hpp *)
Inductive st : Type :=
  | Unassigned | Unselected | Selected | NewUnselection | NewSelection | TmpSelection.
Definition st_code (s : st) : Z :=
  match s with
  | Unassigned => (-1)%Z | Unselected => 0%Z | Selected => 1%Z
  | NewUnselection => 2%Z | NewSelection => 3%Z | TmpSelection => 4%Z
  end.
(* states[w] > Selected *)
Definition gt_selected (s : st) : bool :=
  match s with NewUnselection | NewSelection | TmpSelection => true | _ => false end.
(* states[w] == Unassigned || states[w] > Selected *)
Definition active (s : st) : bool :=
  match s with Unassigned => true | _ => gt_selected s end.
Definition is_tmp (s : st) : bool := match s with TmpSelection => true | _ => false end.
Definition is_newsel (s : st) : bool := match s with NewSelection => true | _ => false end.

Definition getS (s : list st) (v : nat) : st := nth v s Unassigned.

(* column v of A_csc = A->to_CSC(): the rows w whose row contains v, ascending, once per stored entry *)
Definition colrows (G : graph) (v : nat) : list nat :=
  flat_map (fun w => map (fun _ => w) (filter (Nat.eqb v) (row G w))) (seq 0 (length G)).

Section Mis2.
Variable K : Type.
Variable gtb : K -> K -> bool.          (* gtb a b  <->  a > b *)
Variable kd : K.                        (* default of out-of-range reads; never used on well-formed input *)

Section Run.
Variable G : graph.
Variable r : list K.
Definition key (v : nat) : K := nth v r kd.

(* row v of D *)
Definition Drow (v : nat) : list nat := filter (fun col => gtb (key v) (key col)) (row G v).

Definition has_active (s : list st) (v : nat) : bool :=
  existsb (fun w => active (getS s w)) (Drow v).
Definition phase1 (s : list st) (V : list nat) : list st :=
  fold_left (fun s v => if has_active s v then s else upd s v TmpSelection) V s.

Definition conflict (s : list st) (v : nat) : bool :=
  existsb (fun w => existsb (fun u => gt_selected (getS s u) && gtb (key u) (key v)) (row G w)) (row G v).
Definition phase2 (s : list st) (V : list nat) : list st :=
  fold_left (fun s v => if is_tmp (getS s v) then (if conflict s v then s else upd s v NewSelection) else s) V s.

Definition markC (s : list st) (V : list nat) : list bool :=
  fold_left (fun C v => if is_newsel (getS s v)
                        then fold_left (fun C w => upd C w true) (colrows G v) C else C)
            V (repeat false (length G)).
Definition near_new (s : list st) (C : list bool) (v : nat) : bool :=
  existsb (fun w => is_newsel (getS s w) || nth w C false) (row G v).
Definition phase3 (s : list st) (C : list bool) (V : list nat) : list st :=
  fold_left (fun s v => if is_newsel (getS s v) then s
                        else if near_new s C v then upd s v NewUnselection else s) V s.

Definition finalize (s : list st) (V : list nat) : list st * list nat :=
  fold_left (fun (p : list st * list nat) v =>
               match getS (fst p) v with
               | NewSelection => (upd (fst p) v Selected, snd p)
               | NewUnselection => (upd (fst p) v Unselected, snd p)
               | _ => (fst p, snd p ++ [v])
               end) V (s, []).

Definition round (s : list st) (V : list nat) : list st * list nat :=
  let s1 := phase1 s V in
  let s2 := phase2 s1 V in
  let C := markC s2 V in
  let s3 := phase3 s2 C V in
  finalize s3 V.

Fixpoint mis2_loop (fuel : nat) (s : list st) (V : list nat) : option (list st) :=
  match V with
  | [] => Some s
  | _ :: _ =>
    match fuel with
    | 0 => None
    | S f => let p := round s V in mis2_loop f (fst p) (snd p)
    end
  end.

Definition mis2_fuel (fuel : nat) : option (list st) :=
  if graph_wfb G && (length r =? length G)
  then mis2_loop fuel (repeat Unassigned (length G)) (seq 0 (length G))
  else None.
Definition mis2 : option (list st) := mis2_fuel (length G).
End Run.
End Mis2.

(* ---------------------------------------------------------------------------------------------- *)
(* The property's clauses and their checker (run on the implementation's gathered output).        *)

Definition is_root (states : list Z) (v : nat) : bool := Z.eqb (nth v states 0%Z) 1%Z.

(* v and s are at most two edges apart *)
Definition within2 (G : graph) (v s : nat) : Prop :=
  v = s \/ In s (row G v) \/ exists w, In w (row G v) /\ In s (row G w).
Definition within2b (G : graph) (v s : nat) : bool :=
  Nat.eqb v s || memb s (row G v) || existsb (fun w => memb s (row G w)) (row G v).

(* no two roots adjacent or sharing a neighbour *)
Definition indep2 (G : graph) (states : list Z) : Prop :=
  forall u v, u < length G -> v < length G -> is_root states u = true -> is_root states v = true -> u <> v ->
    ~ In v (row G u) /\ ~ (exists w, In w (row G u) /\ In w (row G v)).
(* every vertex within two edges of a root *)
Definition maximal2 (G : graph) (states : list Z) : Prop :=
  forall v, v < length G -> exists s, s < length G /\ is_root states s = true /\ within2 G v s.
(* the routine has decided every vertex: Selected (1) or Unselected (0) *)
Definition decided (G : graph) (states : list Z) : Prop :=
  length states = length G /\ forall z, In z states -> z = 0%Z \/ z = 1%Z.

Definition indep2b (G : graph) (states : list Z) : bool :=
  forallb (fun u => negb (is_root states u) ||
     forallb (fun v => negb (is_root states v) || Nat.eqb u v ||
                       (negb (memb v (row G u)) && negb (existsb (fun w => memb w (row G v)) (row G u))))
             (seq 0 (length G)))
          (seq 0 (length G)).
Definition maximal2b (G : graph) (states : list Z) : bool :=
  forallb (fun v => existsb (fun s => is_root states s && within2b G v s) (seq 0 (length G)))
          (seq 0 (length G)).
Definition decidedb (G : graph) (states : list Z) : bool :=
  (length states =? length G) && forallb (fun z => Z.eqb z 0 || Z.eqb z 1) states.

Definition mis_ok (G : graph) (states : list Z) : bool :=
  decidedb G states && indep2b G states && maximal2b G states.
