(* Pure index facts about the visiting orders of the relaxation sweeps (no arithmetic on F). *)
From Raptor Require Import Base.Sums Sparse.Defs Amg.Relax.

Definition fwd_order (BL : list (nat * nat)) : list nat := flat_map (fun bl => seq (fst bl) (snd bl)) BL.
Definition bwd_order (BL : list (nat * nat)) : list nat := flat_map (fun bl => rev (seq (fst bl) (snd bl))) BL.

Lemma seq_split lo sz i :
  lo <= i < lo + sz -> seq lo sz = seq lo (i - lo) ++ i :: seq (S i) (lo + sz - S i).
Proof.
  intros H. replace sz with ((i - lo) + S (lo + sz - S i)) at 1 by lia.
  rewrite seq_app. f_equal. replace (lo + (i - lo)) with i by lia. reflexivity.
Qed.

Lemma blocks_lo_ge s parts lo sz : In (lo, sz) (blocks_from s parts) -> s <= lo /\ lo + sz <= s + list_sum parts.
Proof.
  revert s; induction parts as [|p ps IH]; intros s H; simpl in *; [contradiction|].
  destruct H as [H|H]; [inversion H; subst; lia|apply IH in H; lia].
Qed.

Lemma fwd_order_seq s parts : fwd_order (blocks_from s parts) = seq s (list_sum parts).
Proof.
  unfold fwd_order. revert s; induction parts as [|p ps IH]; intros s; simpl; [reflexivity|].
  rewrite IH. symmetry. apply seq_app.
Qed.

Lemma bwd_order_perm s parts : Permutation (seq s (list_sum parts)) (bwd_order (blocks_from s parts)).
Proof.
  unfold bwd_order. revert s; induction parts as [|p ps IH]; intros s; simpl; [constructor|].
  rewrite seq_app. apply Permutation_app; [apply Permutation_rev|apply IH].
Qed.

Lemma bwd_order_nodup s parts : NoDup (bwd_order (blocks_from s parts)).
Proof. eapply Permutation_NoDup; [apply bwd_order_perm|apply seq_NoDup]. Qed.

Lemma bwd_order_in s parts c : In c (bwd_order (blocks_from s parts)) -> s <= c < s + list_sum parts.
Proof.
  intros H. apply (Permutation_in _ (Permutation_sym (bwd_order_perm s parts))) in H.
  apply in_seq in H. exact H.
Qed.

(* inside its own block, the indices visited before i by the backward sweep are those above i *)
Lemma bwd_order_split s parts lo sz i :
  In (lo, sz) (blocks_from s parts) -> lo <= i < lo + sz ->
  exists pre post, bwd_order (blocks_from s parts) = pre ++ i :: post /\
                   forall c, lo <= c < lo + sz -> (In c pre <-> i < c).
Proof.
  unfold bwd_order. revert s; induction parts as [|p ps IH]; intros s H Hi; simpl in *; [contradiction|].
  destruct H as [H|H].
  - inversion H; subst lo sz; clear H.
    exists (rev (seq (S i) (s + p - S i))),
           (rev (seq s (i - s)) ++ flat_map (fun bl => rev (seq (fst bl) (snd bl))) (blocks_from (s + p) ps)).
    split.
    + rewrite (seq_split s p i Hi). rewrite rev_app_distr. simpl. rewrite <- !app_assoc. reflexivity.
    + intros c Hc. rewrite <- in_rev, in_seq. lia.
  - pose proof (blocks_lo_ge _ _ _ _ H) as Hb.
    destruct (IH (s + p) H Hi) as [pre [post [E Hpre]]].
    exists (rev (seq s p) ++ pre), post. split.
    + rewrite E. rewrite <- app_assoc. reflexivity.
    + intros c Hc. rewrite in_app_iff, <- in_rev, in_seq. rewrite (Hpre c Hc). split; [intros [?|?]; [lia|assumption]|auto].
Qed.

Lemma in_blk_spec lo sz c : in_blk lo sz c = true <-> lo <= c < lo + sz.
Proof. unfold in_blk. rewrite andb_true_iff, Nat.leb_le, Nat.ltb_lt. tauto. Qed.
