(* C16, distributed tentative prolongator: the gathered result of the rank-structured model of
   par_candidates.cpp does not depend on the partition and agrees with the sequential routine. *)
From Raptor Require Import Base.Sums Sparse.Defs Sparse.ConvertProofs Amg.Candidates Amg.CandidatesProofs.
From Coq Require Import Field.

(* ---------- indexed lists ---------- *)
Lemma indexed_from_nth_error {A} s (l : list A) q a :
  nth_error l q = Some a -> In (s + q, a) (indexed_from s l).
Proof.
  revert s q; induction l as [|x l IH]; intros s q H; [destruct q; discriminate|].
  destruct q; simpl in *.
  - inversion H; subst. left. f_equal. lia.
  - right. replace (s + S q) with (S s + q) by lia. apply IH. exact H.
Qed.

Lemma indexed_In_nth_error {A} (l : list A) q a : In (q, a) (indexed l) -> nth_error l q = Some a.
Proof. intros H. apply indexed_from_in in H. destruct H as [_ H]. rewrite Nat.sub_0_r in H. exact H. Qed.

Lemma nth_error_nth' {A} (l : list A) q a d : nth_error l q = Some a -> nth q l d = a.
Proof. revert q; induction l; intros [|q] H; simpl in *; try discriminate; [congruence|apply IHl; exact H]. Qed.

Lemma nth_error_indexed_from {A} (l : list A) s k q y :
  nth_error (indexed_from s l) k = Some (q, y) -> q = s + k /\ nth_error l k = Some y.
Proof.
  revert s k; induction l as [|z l IH]; intros s k H; [destruct k; discriminate|].
  destruct k; simpl in H.
  - inversion H; subst. split; [lia|reflexivity].
  - apply IH in H. destruct H as [H1 H2]. split; [lia|exact H2].
Qed.

Section ParCand.
Variable F : Type.
Variables (zero one : F) (add mul sub : F -> F -> F) (opp : F -> F) (div : F -> F -> F) (inv : F -> F).
Variable Fth : field_theory zero one add mul sub opp div inv (@eq F).
Let Rth := F_R Fth.
Add Field FfieldPC : Fth.
Variable sqrt : F -> F.

Notation "0" := zero.
Notation "1" := one.
Infix "+" := add.
Infix "*" := mul.
Infix "/" := div.
Notation sumF := (sumf F zero add).
Notation denL := (den_line F zero add).
Notation denCsr := (den_csr F zero add).
Notation batF := (bat F zero).
Notation growF := (grow F).
Notation lsq := (local_sumsq F zero add mul).
Notation growsF := (grows F zero).
Notation rank_inF := (rank_in F).

(* squared norm of the restriction of B to the aggregate with (global) id c *)
Definition pgsumsq (aggs : list (option nat)) (B : list F) (c : nat) : F :=
  sumF (map (fun i => match nth i aggs None with
                      | Some a => if a =? c then batF B i * batF B i else 0
                      | None => 0 end) (seq 0 (length aggs))).

(* ---------- local sums add up over any splitting of the rows ---------- *)
Lemma lsq_sumf (l : list growF) c :
  lsq l c = sumF (map (fun e => if has_agg F c e then g_b F e * g_b F e else 0) l).
Proof.
  unfold local_sumsq.
  rewrite (fold_left_add_sumf F zero one add mul sub opp div inv Fth).
  rewrite (sumf_filter_ind F zero one add mul sub opp div inv Fth). ring.
Qed.

Lemma lsq_app (l1 l2 : list growF) c : lsq (l1 ++ l2) c = lsq l1 c + lsq l2 c.
Proof. rewrite !lsq_sumf, map_app. apply (sumf_app F zero one add mul sub opp Rth). Qed.

Lemma lsq_concat (l : list rank_inF) c :
  sumF (map (fun ri => lsq (ri_rows F ri) c) l) = lsq (concat (map (ri_rows F) l)) c.
Proof. induction l as [|ri l IH]; simpl; [reflexivity|]. rewrite lsq_app, IH. reflexivity. Qed.

Lemma lsq_no_agg (l : list growF) c : existsb (has_agg F c) l = false -> lsq l c = 0.
Proof.
  intros H. rewrite lsq_sumf.
  rewrite (sumf_map_ext F zero add _ (fun _ => 0)); [apply (sumf_map_zero F zero one add mul sub opp Rth)|].
  intros e He. destruct (has_agg F c e) eqn:E; [|reflexivity].
  exfalso. assert (existsb (has_agg F c) l = true) by (apply existsb_exists; exists e; tauto). congruence.
Qed.

Lemma lsq_grows aggs B c : lsq (growsF aggs B) c = pgsumsq aggs B c.
Proof.
  rewrite lsq_sumf. unfold grows, pgsumsq. rewrite (indexed_seq aggs None), !map_map.
  apply sumf_map_ext. intros i _. unfold has_agg, g_agg, g_b. simpl.
  destruct (nth i aggs None); reflexivity.
Qed.

(* ---------- the chain of ranks ---------- *)
Fixpoint chain (s : nat) (l : list rank_inF) : Prop :=
  match l with [] => True | ri :: l' => ri_first F ri = s /\ chain (s + ri_size F ri) l' end.

Lemma rank_inputs_chain s sizes (l : list growF) : chain s (rank_inputs_from F s sizes l).
Proof. revert s l; induction sizes as [|m sz IH]; intros s l; simpl; [exact I|split; [reflexivity|apply IH]]. Qed.

Lemma rank_inputs_rows s sizes (l : list growF) :
  fold_right Nat.add O sizes = length l ->
  concat (map (ri_rows F) (rank_inputs_from F s sizes l)) = l.
Proof.
  revert s l; induction sizes as [|m sz IH]; intros s l H; simpl in *.
  - destruct l; [reflexivity|discriminate].
  - rewrite IH; [apply firstn_skipn|]. rewrite skipn_length. lia.
Qed.

Lemma chain_lower s l q rq : chain s l -> nth_error l q = Some rq -> s <= ri_first F rq.
Proof.
  revert s q; induction l as [|ri l IH]; intros s q Hc H; [destruct q; discriminate|].
  destruct Hc as [H1 H2]. destruct q; simpl in H.
  - inversion H; subst. lia.
  - apply IH with (s := (s + ri_size F ri)%nat) in H; [lia|exact H2].
Qed.

Lemma chain_sep s l q r rq rr :
  chain s l -> q < r -> nth_error l q = Some rq -> nth_error l r = Some rr ->
  ri_first F rq + ri_size F rq <= ri_first F rr.
Proof.
  revert s q r; induction l as [|ri l IH]; intros s q r Hc Hqr Hq Hr; [destruct q; discriminate|].
  destruct Hc as [H1 H2]. destruct r; [lia|]. simpl in Hr. destruct q; simpl in Hq.
  - inversion Hq; subst. apply (chain_lower _ _ _ _ H2 Hr).
  - apply (IH (s + ri_size F ri)%nat q r); try assumption. lia.
Qed.

Lemma chain_disjoint s l q r rq rr c :
  chain s l -> nth_error l q = Some rq -> nth_error l r = Some rr -> q <> r ->
  in_range (ri_first F rr) (ri_size F rr) c = true -> in_range (ri_first F rq) (ri_size F rq) c = false.
Proof.
  intros Hc Hq Hr Hne Hin. unfold in_range in *.
  apply andb_true_iff in Hin. destruct Hin as [H1 H2]. apply Nat.leb_le in H1. apply Nat.ltb_lt in H2.
  destruct (Nat.lt_ge_cases q r) as [Hlt|Hge].
  - assert (H := chain_sep _ _ _ _ _ _ Hc Hlt Hq Hr).
    apply andb_false_iff. right. apply Nat.ltb_ge. lia.
  - assert (Hlt : r < q) by lia. assert (H := chain_sep _ _ _ _ _ _ Hc Hlt Hr Hq).
    apply andb_false_iff. left. apply Nat.leb_gt. lia.
Qed.

Lemma chain_upper s sizes (l : list growF) r rr :
  nth_error (rank_inputs_from F s sizes l) r = Some rr ->
  ri_first F rr + ri_size F rr <= s + fold_right Nat.add O sizes.
Proof.
  revert s l r; induction sizes as [|m sz IH]; intros s l r H; simpl in *; [destruct r; discriminate|].
  destruct r; simpl in H.
  - inversion H; subst; simpl. lia.
  - apply IH in H. lia.
Qed.

Lemma chain_cover s sizes (l : list growF) c :
  s <= c < s + fold_right Nat.add O sizes ->
  exists r rr, nth_error (rank_inputs_from F s sizes l) r = Some rr /\
               in_range (ri_first F rr) (ri_size F rr) c = true.
Proof.
  revert s l; induction sizes as [|m sz IH]; intros s l H; simpl in *; [lia|].
  destruct (Nat.lt_ge_cases c (s + m)%nat) as [Hlt|Hge].
  - exists O, (mkRankIn F s m (firstn m l)). split; [reflexivity|]. unfold in_range; simpl.
    apply andb_true_iff. split; [apply Nat.leb_le; lia|apply Nat.ltb_lt; lia].
  - destruct (IH (s + m)%nat (skipn m l)) as [r [rr [H1 H2]]]; [lia|].
    exists (S r), rr. split; assumption.
Qed.

(* ---------- what the owner holds after the reverse communication ---------- *)
Lemma fold_skip (N r c : nat) (l : list (nat * rank_inF)) acc :
  (forall qr, In qr l -> fst qr <> r ->
     existsb (Nat.eqb c) (off_ids F N (ri_first F (snd qr)) (ri_size F (snd qr)) (ri_rows F (snd qr))) = false ->
     lsq (ri_rows F (snd qr)) c = 0) ->
  fold_left (fun acc qr =>
      if fst qr =? r then acc
      else if existsb (Nat.eqb c) (off_ids F N (ri_first F (snd qr)) (ri_size F (snd qr)) (ri_rows F (snd qr)))
           then acc + lsq (ri_rows F (snd qr)) c else acc) l acc
  = acc + sumF (map (fun qr => if fst qr =? r then 0 else lsq (ri_rows F (snd qr)) c) l).
Proof.
  revert acc; induction l as [|qr l IH]; intros acc H; simpl; [ring|].
  rewrite IH by (intros; apply H; try right; assumption).
  destruct (fst qr =? r) eqn:E; [ring|].
  destruct (existsb _ _) eqn:E2; [ring|].
  rewrite (H qr) by (try (left; reflexivity); try (apply Nat.eqb_neq; exact E); exact E2). ring.
Qed.

Lemma sum_skip_index (g : rank_inF -> F) (l : list rank_inF) s r rr :
  nth_error l r = Some rr ->
  g rr + sumF (map (fun qr => if fst qr =? s + r then 0 else g (snd qr)) (indexed_from s l)) = sumF (map g l).
Proof.
  revert s r; induction l as [|x l IH]; intros s r H; [destruct r; discriminate|].
  destruct r; simpl in *.
  - inversion H; subst. replace (s =? (s + 0)%nat) with true by (symmetry; apply Nat.eqb_eq; lia).
    rewrite (sumf_map_ext F zero add _ (fun qr => g (snd qr))).
    + rewrite <- (map_map snd g). replace (map snd (indexed_from (S s) l)) with l; [ring|].
      clear. revert s. induction l as [|y l IH]; intros s; simpl; [reflexivity|rewrite <- IH; reflexivity].
    + intros [q y] Hq. apply indexed_from_in in Hq. simpl.
      replace (q =? (s + 0)%nat) with false by (symmetry; apply Nat.eqb_neq; lia). reflexivity.
  - replace (s =? (s + S r)%nat) with false by (symmetry; apply Nat.eqb_neq; lia).
    replace (s + S r)%nat with (S s + r)%nat by lia. rewrite <- (IH (S s) r H). ring.
Qed.

Lemma sum_skip_index0 (g : rank_inF -> F) (l : list rank_inF) r rr :
  nth_error l r = Some rr ->
  g rr + sumF (map (fun qr => if fst qr =? r then 0 else g (snd qr)) (indexed l)) = sumF (map g l).
Proof. intros H. exact (sum_skip_index g l O r rr H). Qed.

Definition paggs_wf (aggs : list (option nat)) : Prop :=
  forall a, In (Some a) aggs -> a < length aggs.

Lemma off_ids_complete N f m (rows : list growF) c :
  c < N -> in_range f m c = false -> existsb (Nat.eqb c) (off_ids F N f m rows) = false ->
  existsb (has_agg F c) rows = false.
Proof.
  intros Hc Hr H. destruct (existsb (has_agg F c) rows) eqn:E; [|reflexivity].
  exfalso. assert (existsb (Nat.eqb c) (off_ids F N f m rows) = true); [|congruence].
  apply existsb_exists. exists c. split; [|apply Nat.eqb_refl].
  unfold off_ids. apply filter_In. split; [apply in_seq; lia|]. rewrite Hr, E. reflexivity.
Qed.

Theorem total_sumsq_global sizes aggs B r rr c :
  fold_right Nat.add O sizes = length aggs ->
  nth_error (rank_inputs F zero sizes aggs B) r = Some rr ->
  in_range (ri_first F rr) (ri_size F rr) c = true ->
  total_sumsq F zero add mul (length aggs) (rank_inputs F zero sizes aggs B) r c = pgsumsq aggs B c.
Proof.
  intros Hs Hr Hin. unfold total_sumsq.
  set (ranks := rank_inputs F zero sizes aggs B) in *.
  assert (Hlen : length (growsF aggs B) = length aggs).
  { unfold grows, indexed. rewrite map_length, indexed_from_length. reflexivity. }
  assert (HcN : c < length aggs).
  { assert (H := chain_upper O sizes (growsF aggs B) r rr Hr). rewrite Hs in H.
    unfold in_range in Hin. apply andb_true_iff in Hin. destruct Hin as [_ H2]. apply Nat.ltb_lt in H2. lia. }
  rewrite fold_skip.
  - rewrite (nth_error_nth' ranks r rr _ Hr).
    rewrite (sum_skip_index0 (fun ri => lsq (ri_rows F ri) c) ranks r rr Hr).
    rewrite <- lsq_grows.
    rewrite <- (rank_inputs_rows O sizes (growsF aggs B)) at 1 by (rewrite Hlen; exact Hs).
    apply lsq_concat.
  - intros [q rq] Hq Hne Hoff. simpl in *. apply lsq_no_agg.
    apply (off_ids_complete (length aggs) (ri_first F rq) (ri_size F rq) (ri_rows F rq) c HcN); [|exact Hoff].
    apply indexed_In_nth_error in Hq.
    apply (chain_disjoint O ranks q r rq rr c); try assumption.
    apply rank_inputs_chain.
Qed.

(* the owner search finds the rank whose range contains c *)
Lemma owner_of_spec sizes aggs B c :
  fold_right Nat.add O sizes = length aggs -> c < length aggs ->
  exists rr, nth_error (rank_inputs F zero sizes aggs B) (owner_of F (rank_inputs F zero sizes aggs B) c) = Some rr /\
             in_range (ri_first F rr) (ri_size F rr) c = true.
Proof.
  intros Hs Hc. unfold owner_of. set (ranks := rank_inputs F zero sizes aggs B).
  destruct (chain_cover O sizes (growsF aggs B) c) as [r [rr [H1 H2]]]; [lia|].
  destruct (filter _ (indexed ranks)) as [|[q rq] tl] eqn:E.
  - exfalso. assert (Hin : In (r, rr) (filter (fun qr : nat * rank_inF => in_range (ri_first F (snd qr)) (ri_size F (snd qr)) c) (indexed ranks))).
    { apply filter_In. split; [|exact H2]. apply (indexed_from_nth_error O ranks r rr H1). }
    rewrite E in Hin. contradiction.
  - assert (Hin : In (q, rq) (filter (fun qr : nat * rank_inF => in_range (ri_first F (snd qr)) (ri_size F (snd qr)) c) (indexed ranks)))
      by (rewrite E; left; reflexivity).
    apply filter_In in Hin. destruct Hin as [Hi Hp]. simpl in *.
    exists rq. split; [apply indexed_In_nth_error; exact Hi|exact Hp].
Qed.

Theorem r_of_global sizes aggs B c :
  fold_right Nat.add O sizes = length aggs -> c < length aggs ->
  r_of F zero add mul sqrt (length aggs) (rank_inputs F zero sizes aggs B) c = sqrt (pgsumsq aggs B c).
Proof.
  intros Hs Hc. unfold r_of. destruct (owner_of_spec sizes aggs B c Hs Hc) as [rr [H1 H2]].
  rewrite (total_sumsq_global sizes aggs B _ rr c Hs H1 H2). reflexivity.
Qed.

(* ---------- the gathered tentative prolongator ---------- *)
Notation par_T := (par_fit_T F zero one add mul div sqrt).
Notation par_fit := (par_fit_candidates F zero one add mul div sqrt).

Definition prow (aggs : list (option nat)) (B : list F) (e : growF) : list (nat * F) :=
  match g_agg F e with
  | Some c => [(c, g_b F e * (1 / sqrt (pgsumsq aggs B c)))]
  | None => []
  end.

Lemma gather_rows_aux N (ranksAll l : list rank_inF) s :
  map snd (flat_map (ro_rows F)
             (map (fun qr => par_fit_rank F zero one add mul div sqrt N ranksAll (fst qr) (snd qr)) (indexed_from s l)))
  = map (fun e => match g_agg F e with
                  | Some c => [(c, g_b F e * (1 / r_of F zero add mul sqrt N ranksAll c))]
                  | None => [] end) (concat (map (ri_rows F) l)).
Proof.
  revert s; induction l as [|ri l IH]; intros s; simpl; [reflexivity|].
  rewrite !map_app, IH. f_equal. rewrite map_map. reflexivity.
Qed.

Lemma gather_rows_eq sizes aggs B :
  fold_right Nat.add O sizes = length aggs -> paggs_wf aggs ->
  gather_rows F (par_fit sizes aggs B) = map (prow aggs B) (growsF aggs B).
Proof.
  intros Hs Hwf. unfold gather_rows, par_fit_candidates, indexed.
  rewrite gather_rows_aux.
  assert (Hlen : length (growsF aggs B) = length aggs).
  { unfold grows, indexed. rewrite map_length, indexed_from_length. reflexivity. }
  unfold rank_inputs at 2. rewrite rank_inputs_rows by (rewrite Hlen; exact Hs).
  apply map_ext_in. intros e He. unfold prow. destruct (g_agg F e) as [c|] eqn:E; [|reflexivity].
  rewrite r_of_global; [reflexivity|exact Hs|].
  apply Hwf. unfold grows in He. apply in_map_iff in He. destruct He as [[i a] [<- Hia]].
  unfold g_agg in E. simpl in E. subst a. apply indexed_from_in in Hia. destruct Hia as [_ Hn].
  apply nth_error_In in Hn. exact Hn.
Qed.

(* entries of the gathered distributed T: independent of the partition *)
Theorem den_par_T sizes aggs B i c :
  fold_right Nat.add O sizes = length aggs -> paggs_wf aggs ->
  denCsr (par_T sizes aggs B) i c =
  match nth i aggs None with
  | Some a => if a =? c then batF B i * (1 / sqrt (pgsumsq aggs B a)) else 0
  | None => 0
  end.
Proof.
  intros Hs Hwf. unfold par_fit_T, den_csr. cbn [csr_rows].
  rewrite gather_rows_eq by assumption.
  unfold grows. rewrite map_map, (indexed_seq aggs None), map_map.
  destruct (Nat.lt_ge_cases i (length aggs)) as [Hi|Hi].
  - rewrite nth_map_seq by exact Hi. unfold prow, g_agg, g_b. simpl.
    destruct (nth i aggs None) as [a|]; [|reflexivity].
    unfold den_line. simpl. destruct (a =? c); simpl; ring.
  - rewrite nth_overflow_map_seq by exact Hi. rewrite (nth_overflow aggs) by exact Hi. reflexivity.
Qed.

(* R on every rank: the norms of its own aggregates *)
Theorem par_R sizes aggs B r ro :
  fold_right Nat.add O sizes = length aggs ->
  nth_error (par_fit sizes aggs B) r = Some ro ->
  ro_R F ro = map (fun c => sqrt (pgsumsq aggs B c)) (ro_on F ro) /\
  (forall c, In c (ro_on F ro) -> exists rr, nth_error (rank_inputs F zero sizes aggs B) r = Some rr /\
                                   in_range (ri_first F rr) (ri_size F rr) c = true).
Proof.
  intros Hs Hr. unfold par_fit_candidates in Hr.
  set (ranks := rank_inputs F zero sizes aggs B) in *.
  rewrite nth_error_map in Hr. destruct (nth_error (indexed ranks) r) as [[q ri]|] eqn:E; [|discriminate].
  simpl in Hr. inversion Hr; subst ro; clear Hr. simpl.
  assert (Hq : q = r /\ nth_error ranks r = Some ri).
  { unfold indexed in E. apply nth_error_indexed_from in E. destruct E as [E1 E2]. split; [lia|exact E2]. }
  destruct Hq as [-> Hri].
  assert (Hon : forall c, In c (on_ids F (ri_first F ri) (ri_size F ri) (ri_rows F ri)) ->
                          in_range (ri_first F ri) (ri_size F ri) c = true).
  { intros c Hc. unfold on_ids in Hc. apply filter_In in Hc. destruct Hc as [Hc _]. apply in_seq in Hc.
    unfold in_range. apply andb_true_iff. split; [apply Nat.leb_le; lia|apply Nat.ltb_lt; lia]. }
  split.
  - apply map_ext_in. intros c Hc. f_equal.
    apply (total_sumsq_global sizes aggs B r ri c Hs Hri). apply Hon. exact Hc.
  - intros c Hc. exists ri. split; [exact Hri|apply Hon; exact Hc].
Qed.

End ParCand.

(* ---------- gathered distributed result = sequential result (aggregates renumbered by root) ---------- *)
Section ParSeq.
Variable F : Type.
Variables (zero one : F) (add mul sub : F -> F -> F) (opp : F -> F) (div : F -> F -> F) (inv : F -> F).
Variable Fth : field_theory zero one add mul sub opp div inv (@eq F).
Variable le : F -> F -> Prop.
Hypothesis le_add_r : forall a b c, le a b -> le (add a c) (add b c).
Hypothesis le_mul_nn : forall a b, le zero a -> le zero b -> le zero (mul a b).
Variable ltb : F -> F -> bool.
Hypothesis ltb_spec : forall a b, ltb a b = true <-> (le a b /\ a <> b).
Variable eqb : F -> F -> bool.
Hypothesis eqb_spec : forall a b, eqb a b = true <-> a = b.
Variable sqrt : F -> F.

Notation denCsr := (den_csr F zero add).
Notation fitc := (fit_candidates F zero one add mul div sqrt ltb).
Notation par_T := (par_fit_T F zero one add mul div sqrt).
Notation gsq := (gsumsq F zero add mul).
Notation pgsq := (pgsumsq F zero add mul).

(* the distributed labelling of a sequential aggregation: aggregate a is called roots[a] *)
Definition relabel (roots : list nat) (seq_aggs : list nat) : list (option nat) :=
  map (fun a => Some (nth a roots O)) seq_aggs.

Lemma relabel_nth roots seq_aggs i : i < length seq_aggs ->
  nth i (relabel roots seq_aggs) None = Some (nth (nth i seq_aggs O) roots O).
Proof.
  intros H. unfold relabel.
  rewrite (nth_indep _ None (Some (nth O roots O))) by (rewrite map_length; exact H).
  change (Some (nth O roots O)) with ((fun a => Some (nth a roots O)) O). rewrite map_nth. reflexivity.
Qed.

Lemma pgsumsq_relabel roots seq_aggs B a :
  NoDup roots -> aggs_wf (length roots) seq_aggs -> a < length roots ->
  pgsq (relabel roots seq_aggs) B (nth a roots O) = gsq seq_aggs B a.
Proof.
  intros Hnd Hwf Ha. unfold pgsumsq, gsumsq. unfold relabel at 2. rewrite map_length.
  apply sumf_map_ext. intros i Hi. apply in_seq in Hi. rewrite relabel_nth by lia.
  assert (Hai : nth i seq_aggs O < length roots) by (apply Hwf, nth_In; lia).
  destruct (nth i seq_aggs O =? a) eqn:E.
  - apply Nat.eqb_eq in E. rewrite E, Nat.eqb_refl. reflexivity.
  - replace (nth (nth i seq_aggs O) roots O =? nth a roots O) with false; [reflexivity|].
    symmetry. apply Nat.eqb_neq. intros H. apply Nat.eqb_neq in E. apply E.
    apply (proj1 (NoDup_nth roots O) Hnd); assumption.
Qed.

Theorem par_T_eq_seq sizes roots seq_aggs B tol i a :
  NoDup roots -> (forall c, In c roots -> c < length seq_aggs) ->
  aggs_wf (length roots) seq_aggs ->
  fold_right Nat.add O sizes = length seq_aggs ->
  tol_ok F zero one le tol ->
  a < length roots ->
  good_sqrt F zero mul le sqrt (gsq seq_aggs B a) -> gsq seq_aggs B a <> zero ->
  denCsr (par_T sizes (relabel roots seq_aggs) B) i (nth a roots O)
  = denCsr (fst (fitc (length roots) seq_aggs B tol)) i a.
Proof.
  intros Hnd Hroots Hwf Hs Htol Ha Hsq Hnz.
  assert (Hlen : length (relabel roots seq_aggs) = length seq_aggs) by (unfold relabel; apply map_length).
  rewrite (den_par_T F zero one add mul sub opp div inv Fth sqrt).
  - rewrite (den_T_closed F zero one add mul sub opp div inv Fth).
    destruct (Nat.lt_ge_cases i (length seq_aggs)) as [Hi|Hi].
    + rewrite relabel_nth by exact Hi.
      replace (i <? length seq_aggs) with true by (symmetry; apply Nat.ltb_lt; exact Hi).
      replace (a <? length roots) with true by (symmetry; apply Nat.ltb_lt; exact Ha). simpl.
      assert (Hai : nth i seq_aggs O < length roots) by (apply Hwf, nth_In; exact Hi).
      destruct (nth i seq_aggs O =? a) eqn:E.
      * apply Nat.eqb_eq in E. rewrite E, Nat.eqb_refl. rewrite pgsumsq_relabel by assumption.
        destruct (branch_nonzero F zero one add mul sub opp div inv Fth le le_add_r le_mul_nn ltb ltb_spec
                    eqb eqb_spec sqrt tol _ Htol Hsq Hnz) as [_ [-> _]]. reflexivity.
      * replace (nth (nth i seq_aggs O) roots O =? nth a roots O) with false; [reflexivity|].
        symmetry. apply Nat.eqb_neq. intros H. apply Nat.eqb_neq in E. apply E.
        apply (proj1 (NoDup_nth roots O) Hnd); assumption.
    + rewrite (nth_overflow (relabel roots seq_aggs)) by (rewrite Hlen; exact Hi).
      replace (i <? length seq_aggs) with false by (symmetry; apply Nat.ltb_ge; exact Hi). reflexivity.
  - rewrite Hlen. exact Hs.
  - intros c Hc. rewrite Hlen. unfold relabel in Hc. apply in_map_iff in Hc.
    destruct Hc as [a' [E Ha']]. inversion E; subst c. apply Hroots. apply nth_In. apply Hwf. exact Ha'.
Qed.

(* and columns that are no root are empty *)
Theorem par_T_other_columns sizes roots seq_aggs B i c :
  (forall c, In c roots -> c < length seq_aggs) -> aggs_wf (length roots) seq_aggs ->
  fold_right Nat.add O sizes = length seq_aggs -> ~ In c roots ->
  denCsr (par_T sizes (relabel roots seq_aggs) B) i c = zero.
Proof.
  intros Hroots Hwf Hs Hc.
  assert (Hlen : length (relabel roots seq_aggs) = length seq_aggs) by (unfold relabel; apply map_length).
  rewrite (den_par_T F zero one add mul sub opp div inv Fth sqrt).
  - destruct (Nat.lt_ge_cases i (length seq_aggs)) as [Hi|Hi].
    + rewrite relabel_nth by exact Hi.
      replace (nth (nth i seq_aggs O) roots O =? c) with false; [reflexivity|].
      symmetry. apply Nat.eqb_neq. intros <-. apply Hc. apply nth_In. apply Hwf, nth_In. exact Hi.
    + rewrite (nth_overflow (relabel roots seq_aggs)) by (rewrite Hlen; exact Hi). reflexivity.
  - rewrite Hlen. exact Hs.
  - intros c' Hc'. rewrite Hlen. unfold relabel in Hc'. apply in_map_iff in Hc'.
    destruct Hc' as [a' [E Ha']]. inversion E; subst c'. apply Hroots. apply nth_In. apply Hwf. exact Ha'.
Qed.

End ParSeq.
