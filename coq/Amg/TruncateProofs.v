From Coq Require Import Field.
From Raptor Require Import Base.Sums Amg.Truncate.

Section TruncateProofs.
Variable F : Type.
Variables (zero one : F) (add mul sub : F -> F -> F) (opp : F -> F) (div : F -> F -> F) (inv : F -> F).
Variable Fth : field_theory zero one add mul sub opp div inv (@eq F).
Add Field FfieldT : Fth.
Variable absf : F -> F.
Variable ltb : F -> F -> bool.
Variable big : F -> bool.
Hypothesis big_zero : big zero = false.

Notation row := (list (nat * F)).
Notation sumF := (sumf F zero add).
Notation filterRow := (filter_row zero add mul sub div absf ltb big).
Notation keptOf := (kept_of zero mul absf ltb).

Lemma sum_scaled (l : row) c : sumF (map snd (map (fun p => (fst p, mul (snd p) c)) l)) = mul (sumF (map snd l)) c.
Proof. induction l as [|p l IH]; simpl; [ring|rewrite IH; ring]. Qed.

(* the kept entries are entries of the row, in the row's order *)
Lemma kept_sub thr (r : row) p : In p (keptOf thr r) -> In p r.
Proof. unfold kept_of. intros H. apply filter_In in H. tauto. Qed.

(* columns of the truncated row are columns of the row *)
Theorem filter_row_support thr (r : row) c w : In (c, w) (filterRow thr r) -> exists w0, In (c, w0) r.
Proof.
  unfold filter_row. destruct (big _ && big _).
  - intros H. apply in_map_iff in H. destruct H as [[c0 w0] [E H]]. inversion E; subst.
    exists w0. eapply kept_sub; exact H.
  - intros H. exists w. eapply kept_sub; exact H.
Qed.

(* rescaled branch: the row sum is exactly the row sum of the untruncated row *)
Theorem filter_row_sum thr (r : row) :
  let rs := sumF (map snd r) in let ks := sumF (map snd (keptOf thr r)) in
  big ks = true -> big (sub rs ks) = true ->
  sumF (map snd (filterRow thr r)) = rs.
Proof.
  intros rs ks H1 H2. unfold filter_row. fold rs. fold ks. rewrite H1, H2. simpl.
  rewrite sum_scaled. fold ks.
  assert (Hk : ks <> zero) by (intro E; rewrite E, big_zero in H1; discriminate).
  field. exact Hk.
Qed.

(* other branch: nothing is rescaled; the row sum is the kept sum, which differs from the row sum by at most zero_tol
   unless the kept sum itself is within zero_tol of 0 *)
Theorem filter_row_unscaled thr (r : row) :
  let rs := sumF (map snd r) in let ks := sumF (map snd (keptOf thr r)) in
  big ks && big (sub rs ks) = false -> filterRow thr r = keptOf thr r.
Proof. intros rs ks H. unfold filter_row. fold rs. fold ks. rewrite H. reflexivity. Qed.

(* a row whose weights all pass the threshold is unchanged *)
Theorem filter_row_all_kept thr (r : row) :
  (forall p, In p r -> ltb (absf (snd p)) (mul (row_max zero absf ltb r) thr) = false) -> filterRow thr r = r.
Proof.
  intros H. assert (K : keptOf thr r = r).
  { unfold kept_of. set (m := mul (row_max zero absf ltb r) thr) in *. clearbody m.
    induction r as [|q l IHl]; simpl; [reflexivity|].
    rewrite (H q (or_introl eq_refl)). simpl. rewrite IHl; [reflexivity|]. intros; apply H; right; assumption. }
  unfold filter_row. rewrite K.
  replace (sub (sumF (map snd r)) (sumF (map snd r))) with zero by ring.
  rewrite big_zero, andb_false_r. reflexivity.
Qed.

End TruncateProofs.
